package main

import (
	"fmt"
	"io"
	"strings"

	"github.com/zeromicro/go-zero/core/discov"
)

// Part 6 ("leave"): subscribers that LEAVE. Sequential histories over one real cluster/watcher
// whose listeners are real plain containers in up to three slots a, b, c:
//
//	put/del            -> real handleWatchEvents (connected) / reference only (disconnected)
//	disc, reload       -> real cluster.load -> handleChanges
//	join(slot)         -> real Registry.Monitor with a FRESH container (a subscriber is never reused:
//	                      Subscriber.Close + NewSubscriber makes a new container)
//	leave(slot)        -> real Registry.Unmonitor (what Subscriber.Close / resolver.Close call)
//	<event>[unmonitor x@y]
//	                   -> the same event, and while it is being delivered listener x is unmonitored
//	                      from inside listener y's change callback (a listener may close a subscriber:
//	                      no registry lock is held during callbacks). This is the sequential,
//	                      deterministic form of "Close races with a delivery": the Unmonitor happens
//	                      between two listeners of one delivery loop. At most once per history.
//
// Oracle (statement: "a subscriber's Values() is exactly the set of values of the keys currently
// registered ..., every listener is notified after each change"), after every connected step, for
// every listener that is STILL subscribed after the step: Values() == registered values, the
// change callback ran and read that set, the snapshot path agrees; the registry's copy == etcd
// while the watcher exists. Nothing is demanded of a listener that has left (the real code may
// still hand it the delivery that was in progress). A listener that joins while the watch is down
// is handed the registry's copy. The history ends when the last listener has left (Unmonitor drops
// the watcher; subscribing again needs an etcd client: that is covered by the e2e part, family 8).

var leaveSlots = []string{"a", "b", "c"}

type leaveState struct {
	r         *ref
	connected bool
	regRef    map[string]string
	order     []string // subscribed slots in the order of the watcher's listener list
	joins     int
	leaves    int
	reentrant bool // the one re-entrant unmonitor of the history was used
	everLeft  bool
	everJoin  bool
}

func newLeaveState() *leaveState {
	return &leaveState{r: newRef(), connected: true, regRef: map[string]string{}, order: []string{"a", "b"}}
}

func (s *leaveState) has(slot string) bool { return contains(s.order, slot) }

func (s *leaveState) drop(slot string) {
	var o []string
	for _, x := range s.order {
		if x != slot {
			o = append(o, x)
		}
	}
	s.order = o
}

// apply advances the reference; returns the category and whether real code handles something.
func (s *leaveState) apply(o Op) (cat string, executes bool) {
	switch o.K {
	case "put", "del":
		cat = applyRef(s.r, o)
		if s.connected {
			s.regRef = s.r.snapshot()
		}
		executes = s.connected
	case "disc":
		s.connected = false
		return "disconnect", false
	case "reload":
		cat = reloadCategory(s.regRef, s.r.E)
		s.connected = true
		s.regRef = s.r.snapshot()
		executes = true
	case "join":
		s.order = append(s.order, o.Slot)
		s.joins++
		s.everJoin = true
		return "monitor", true
	case "leave":
		s.drop(o.Slot)
		s.leaves++
		s.everLeft = true
		return "unmonitor", true
	}
	if o.Leave != "" && executes {
		x := strings.SplitN(o.Leave, "@", 2)[0]
		s.drop(x)
		s.reentrant = true
		s.everLeft = true
	}
	return cat, executes
}

func leaveAlphabet(maxJoins, maxLeaves int) func(int, []Op) []Op {
	return func(_ int, path []Op) []Op {
		s := newLeaveState()
		for _, o := range path {
			s.apply(o)
		}
		if len(s.order) == 0 {
			return nil // the watcher is gone
		}
		var evs []Op
		for _, k := range keys[:2] {
			for _, v := range values {
				evs = append(evs, Op{K: "put", Key: k, Val: v})
			}
		}
		for _, k := range keys[:2] {
			if _, ok := s.r.E[k]; ok {
				evs = append(evs, Op{K: "del", Key: k})
			}
		}
		out := append([]Op(nil), evs...)
		if s.connected {
			out = append(out, Op{K: "disc"})
		}
		out = append(out, Op{K: "reload"})
		if s.joins < maxJoins {
			for _, sl := range leaveSlots {
				if !s.has(sl) {
					out = append(out, Op{K: "join", Slot: sl})
					break // free slots are interchangeable (fresh container either way)
				}
			}
		}
		if s.leaves < maxLeaves {
			for _, sl := range s.order {
				out = append(out, Op{K: "leave", Slot: sl})
			}
		}
		if !s.reentrant {
			// deliveries during which a listener is unmonitored from inside a callback
			var del []Op
			if s.connected {
				del = append(del, evs...)
			}
			if a, c, rm := diffCounts(s.regRef, s.r.E); a+c+rm > 0 {
				del = append(del, Op{K: "reload"})
			}
			for _, e := range del {
				for _, x := range s.order {
					for _, y := range s.order {
						e2 := e
						e2.Leave = x + "@" + y
						out = append(out, e2)
					}
				}
			}
		}
		return out
	}
}

func leaveClass(st *leaveState, o Op, obj, cat string) string {
	switch {
	case o.Leave != "" || st.reentrant:
		return "leave:unmonitor-during-delivery:" + obj
	case st.everLeft:
		return "leave:after-unmonitor:" + obj
	case st.everJoin:
		return "leave:after-monitor:" + obj
	}
	return "leave:" + obj + ":" + cat
}

func runLeave(path []Op, log io.Writer) (string, *failure) {
	st := newLeaveState()
	ws := map[string]*watched{"a": newWatched(false, true), "b": newWatched(false, true)}
	cl := discov.VNewCluster("svc", ws["a"].c.Listener(), ws["b"].c.Listener())
	for i, o := range path {
		last := i == len(path)-1
		n0 := map[string][2]int{}
		for sl, w := range ws {
			n0[sl] = w.notified
		}
		wasConnected := st.connected
		cat, exec := st.apply(o)
		if o.Leave != "" && exec {
			xy := strings.SplitN(o.Leave, "@", 2)
			leaver := ws[xy[0]]
			ws[xy[1]].onNotify = func() { cl.Unmonitor(leaver.c.Listener()) }
		}
		if exec {
			switch o.K {
			case "put", "del":
				cl.WatchEvents([]discov.VEvent{toEvent(o)})
			case "reload":
				cl.Reload(sortedKVs(st.r.E), int64(i+1))
			case "join":
				w := newWatched(false, true)
				ws[o.Slot] = w
				n0[o.Slot] = w.notified
				if err := cl.Monitor(w.c.Listener()); err != nil {
					return "", &failure{"leave:monitor-error", "Registry.Monitor on an existing watcher returned " + err.Error()}
				}
			case "leave":
				cl.Unmonitor(ws[o.Slot].c.Listener())
			}
		}
		fired := true
		for _, w := range ws {
			if w.onNotify != nil { // nobody was notified: the unmonitor did not happen
				w.onNotify = nil
				fired = false
			}
		}
		if o.Leave != "" && exec && !fired {
			// the delivery notified nobody (e.g. a reload without a diff for this listener):
			// the reference dropped the leaver, the implementation did not - do it now
			cl.Unmonitor(ws[strings.SplitN(o.Leave, "@", 2)[0]].c.Listener())
		}
		for sl := range ws {
			if !st.has(sl) {
				delete(ws, sl) // a listener that left is not judged, and its slot may be reused
			}
		}
		if log != nil {
			fmt.Fprintf(log, "  step %d %-40s etcd{%s} connected=%v listeners=%v\n", i+1, o.String(), mapString(st.r.E), st.connected, st.order)
		}
		var f *failure
		fail := func(obj, msg string) {
			if f == nil {
				f = &failure{leaveClass(st, o, obj, cat), msg}
			}
		}
		if len(st.order) > 0 && !cl.HasWatcher() {
			fail("watcher-dropped", fmt.Sprintf("listeners %v are still subscribed but the cluster has no watcher for the key any more", st.order))
		}
		if !st.connected {
			if o.K == "join" {
				m := map[string]bool{}
				for _, v := range st.regRef {
					m[v] = true
				}
				if obj, msg := ws[o.Slot].checkView("listener "+o.Slot+" joined while the watch is down", setOf(m), setOf(m), n0[o.Slot], true); obj != "" {
					fail(obj, msg)
				}
			}
		} else {
			if len(st.order) > 0 {
				if got := cl.Values(); !sameMap(got, st.r.E) {
					fail("registry-copy", fmt.Sprintf("registry's copy {%s} != etcd {%s}", mapString(got), mapString(st.r.E)))
				}
			}
			for _, sl := range st.order {
				if obj, msg := ws[sl].checkView("listener "+sl, st.r.plain(), st.r.plain(), n0[sl], true); obj != "" {
					fail(obj, msg)
				}
			}
		}
		_ = wasConnected
		if log != nil {
			fmt.Fprintf(log, "         expected %s |", show(st.r.plain()))
			for _, sl := range st.order {
				fmt.Fprintf(log, " %s=%s", sl, show(ws[sl].c.Values()))
			}
			fmt.Fprintf(log, " registry{%s}\n", mapString(cl.Values()))
		}
		if f != nil && (last || log != nil) {
			return "", f
		}
	}
	key := fmt.Sprintf("%s|c%v|R{%s}|%v|j%d l%d r%v|%s", st.r.dump(), st.connected, mapString(st.regRef), st.order, st.joins, st.leaves, st.reentrant, cl.Dump())
	for _, sl := range st.order {
		key += fmt.Sprintf("|%s%v%s", sl, ws[sl].shown, ws[sl].c.Dump())
	}
	return key, nil
}
