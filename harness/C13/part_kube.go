package main

import (
	"fmt"
	"io"
	"strconv"
	"strings"

	zresolver "github.com/zeromicro/go-zero/zrpc/resolver"
	v1 "k8s.io/api/core/v1"
	metav1 "k8s.io/apimachinery/pkg/apis/meta/v1"
)

// Part 3: kube.EventHandler for ONE Endpoints object, driven the way kubeBuilder + a shared
// informer drive it:
//   before the informer has started   tcreate/tmodify change the object in the API server only,
//                                     get = kubeBuilder's direct Get -> handler.Update(obj),
//                                     start = the informer's initial list -> OnAdd(obj) if it exists
//   afterwards (informer in sync)     create -> OnAdd, modify -> OnUpdate(old,new) with a bumped
//                                     resourceVersion (addresses may or may not change),
//                                     resync -> OnUpdate(cur,cur) (same resourceVersion),
//                                     delete -> OnDelete(last known object), get -> Update(cur)
// Reference: the address set of the object (empty when it does not exist).
// Oracle: the last list handed to update(), as a set, equals the reference — demanded after
// every step once the informer runs, and right after a direct get before that.

func endpointsObj(set, layout, rv int) *v1.Endpoints {
	addrs := ipSet(set)
	ep := &v1.Endpoints{ObjectMeta: metav1.ObjectMeta{Name: "svc", Namespace: "ns", ResourceVersion: strconv.Itoa(rv)}}
	mk := func(l []string) []v1.EndpointAddress {
		var out []v1.EndpointAddress
		for _, ip := range l {
			out = append(out, v1.EndpointAddress{IP: ip})
		}
		return out
	}
	if len(addrs) == 0 {
		if layout == 1 {
			// an object whose only addresses are not ready
			ep.Subsets = []v1.EndpointSubset{{NotReadyAddresses: mk([]string{"10.0.0.9"})}}
		}
		return ep
	}
	switch layout {
	case 0:
		ep.Subsets = []v1.EndpointSubset{{Addresses: mk(addrs)}}
	default:
		// two subsets (two ports): the first address alone + a not-ready one, then the rest and
		// the first address again
		ep.Subsets = []v1.EndpointSubset{
			{Addresses: mk(addrs[:1]), NotReadyAddresses: mk([]string{"10.0.0.9"})},
			{Addresses: mk(append(append([]string{}, addrs[1:]...), addrs[0]))},
		}
	}
	return ep
}

type kubeRef struct {
	exists      bool
	set, layout int
	rv          int
	started     bool
}

func (k *kubeRef) current() []string {
	if !k.exists {
		return []string{}
	}
	s, _ := asSet(ipSet(k.set))
	return s
}

func kubeReplayRef(path []Op) *kubeRef {
	k := &kubeRef{}
	for _, o := range path {
		k.apply(o)
	}
	return k
}

func (k *kubeRef) apply(o Op) {
	switch o.K {
	case "tcreate", "create":
		k.exists, k.set, k.layout = true, o.Set, o.Layout
		k.rv++
	case "tmodify", "modify":
		k.set, k.layout = o.Set, o.Layout
		k.rv++
	case "delete":
		k.exists, k.set, k.layout = false, 0, 0
		k.rv++
	case "start":
		k.started = true
	}
}

func kubeAlphabet(_ int, path []Op) []Op {
	k := kubeReplayRef(path)
	var out []Op
	objs := func(kind string) {
		for set := 0; set < 8; set++ {
			for layout := 0; layout < 2; layout++ {
				out = append(out, Op{K: kind, Set: set, Layout: layout})
			}
		}
	}
	if !k.started {
		if k.exists {
			out = append(out, Op{K: "get"})
		}
		out = append(out, Op{K: "start"})
		if k.exists {
			objs("tmodify")
		} else {
			objs("tcreate")
		}
		return out
	}
	if k.exists {
		out = append(out, Op{K: "get"}, Op{K: "resync"}, Op{K: "delete"})
		objs("modify")
	} else {
		objs("create")
	}
	return out
}

// kubeKnownStartup is the (listed) class of the start-up race: kubeBuilder's direct
// Update(<own GET>) followed by the informer's initial OnAdd(<LIST>) of an object that lost
// addresses in between — OnAdd unions, the vanished addresses stay published.
const kubeKnownStartup = "kube:initial-add-after-direct-update"

// runKube. The search keeps expanding a state whose only violation is a LISTED class (see
// main.go/listedClasses), so this function judges on: while the start-up transient is active
// (stale = the addresses the direct Update knew and the initial list did not), the published set
// may be anything between the current addresses and current ∪ stale — still the known cause, known
// key. An operation that by the statement re-establishes the view — OnUpdate(old,new) with a new
// resourceVersion (=> addresses of new) or a direct Update(obj) (=> addresses of obj) — ends the
// transient: equality is demanded again, under the key kube:stale-address-survives-update if
// what is wrong is a leftover of the transient. OnAdd / OnDelete / a resync OnUpdate(cur,cur)
// (same resourceVersion: the handler ignores it by design) do not claim to rebuild the set.
func runKube(path []Op, log io.Writer) (string, *failure) {
	var published []string
	npub := 0
	h := zresolver.VNewEventHandler(func(l []string) {
		published = append([]string{}, l...)
		npub++
	})
	k := &kubeRef{}
	gotBeforeStart := false
	var direct []string // addresses handed over by the last direct Update before the informer started
	var stale []string  // start-up transient: addresses that may linger until the view is re-established
	var known *failure  // the transient is showing at the last step
	for i, o := range path {
		last := i == len(path)-1
		old := *k
		k.apply(o)
		check := k.started
		reestablish := false
		switch o.K {
		case "get":
			h.Update(endpointsObj(k.set, k.layout, k.rv))
			check = true
			reestablish = true
			if !k.started {
				gotBeforeStart = true
				direct = k.current()
			}
		case "start":
			if k.exists {
				h.OnAdd(endpointsObj(k.set, k.layout, k.rv), true)
			}
			if gotBeforeStart {
				cur := map[string]bool{}
				for _, a := range k.current() {
					cur[a] = true
				}
				for _, a := range direct {
					if !cur[a] {
						stale = append(stale, a)
					}
				}
			}
		case "create":
			h.OnAdd(endpointsObj(k.set, k.layout, k.rv), false)
		case "modify":
			h.OnUpdate(endpointsObj(old.set, old.layout, old.rv), endpointsObj(k.set, k.layout, k.rv))
			reestablish = true
		case "resync":
			cur := endpointsObj(k.set, k.layout, k.rv)
			h.OnUpdate(cur, endpointsObj(k.set, k.layout, k.rv))
		case "delete":
			h.OnDelete(endpointsObj(old.set, old.layout, old.rv))
		}
		hadStale := len(stale) > 0
		if reestablish {
			stale = nil
		}
		if log != nil {
			judged := ""
			if !check {
				judged = "  [not judged: the handler has not been told yet]"
			}
			fmt.Fprintf(log, "  step %d %-40s current addresses=%s | last published=%s (handler set %v, %d publications, start-up leftovers allowed %s)%s\n",
				i+1, o.String(), show(k.current()), show(published), h.VDump(), npub, show(stale), judged)
		}
		known = nil
		if !check {
			continue
		}
		var f *failure
		if _, dup := asSet(published); dup {
			f = &failure{"kube:duplicate-address:" + o.K, fmt.Sprintf("published list %v contains an address twice", published)}
		} else if !sameSet(published, k.current()) {
			upper, _ := asSet(append(append([]string{}, k.current()...), stale...))
			switch {
			case len(stale) > 0 && admissible(published, k.current(), upper):
				// the known start-up transient, still showing
				f = &failure{kubeKnownStartup, fmt.Sprintf("last published addresses %s != current endpoint addresses %s (leftover of the direct Update before the informer's initial add)", show(published), show(k.current()))}
				known = f
			case reestablish && hadStale:
				f = &failure{"kube:stale-address-survives-update", fmt.Sprintf("%s rebuilds the view from its object, but last published addresses %s != current endpoint addresses %s: a leftover of the start-up race survives", o.K, show(published), show(k.current()))}
			default:
				f = &failure{"kube:" + o.K, fmt.Sprintf("last published addresses %s != current endpoint addresses %s", show(published), show(k.current()))}
			}
		}
		if f != nil && f != known && (last || log != nil) {
			return "", f
		}
	}
	pub := "none"
	if npub > 0 {
		pub = show(published)
	}
	key := fmt.Sprintf("h[%s]|e%v s%d l%d st%v g%v|p%s|stale%s", strings.Join(h.VDump(), ","), k.exists, k.set, k.layout, k.started, gotBeforeStart, pub, show(stale))
	return key, known
}
