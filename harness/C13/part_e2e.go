package main

import (
	"context"
	"errors"
	"fmt"
	"os"
	"sort"
	"strings"
	"time"

	"github.com/zeromicro/go-zero/core/discov"
	"github.com/zeromicro/go-zero/verifshim/vlib"
	"github.com/zeromicro/go-zero/verifshim/vsched"
	zresolver "github.com/zeromicro/go-zero/zrpc/resolver"
	"go.etcd.io/etcd/api/v3/etcdserverpb"
	"go.etcd.io/etcd/api/v3/mvccpb"
	clientv3 "go.etcd.io/etcd/client/v3"
	"google.golang.org/grpc"
	"google.golang.org/grpc/resolver"
	"google.golang.org/grpc/serviceconfig"
)

// Part 5: end to end under the controlled scheduler (vsched).
//
// The REAL chain discov.NewSubscriber -> Registry.Monitor -> cluster.monitor (load -> watch
// goroutine -> watchStream -> handleWatchEvents; ErrCompacted -> load; cluster.reload) ->
// container -> listeners, and the REAL discovBuilder.Build -> update() -> cc.UpdateState, run as
// controlled threads over a simulated etcd (etcdSim below) that is handed to the cluster through
// the package's client seam (the connection manager cluster.getClient consults). core/discov,
// core/discov/internal, core/threading and zrpc/resolver/internal/discovbuilder.go are rewritten
// onto the vsched shim: every mutex/channel/select/go/context operation of those packages is a
// scheduling point, and the explorer enumerates every interleaving of the scenario's threads up
// to the preemption bound.
//
// A scenario is a closed system:
//   main    set-up (optionally a first subscriber / resolver established sequentially), starts
//           the other threads, joins them, waits for quiescence (no thread can move: the watch
//           goroutine has drained its channel) and records the final state
//   client  one client action: Build (resolver r1) | NewSubscriber+AddListener+Values (s1)
//   etcd    a script of registry events: put/del (delivered to the live watch channels),
//           stall/resume (watch delivery lags, then catches up in one batched response),
//           compact (an unrelated write bumps the revision, then compaction: a lagging watch is
//           cancelled with a compact revision on resume), reconnect (= resume + a thread calling
//           the real cluster.reload, as the connectivity watcher does)
//   watch   the cluster's own goroutines (daemons)
//
// Oracle, from the statement, at quiescence: the registry's copy == etcd; every subscriber's
// Values() == values registered in etcd; every listener that reads Values() when notified read
// the registered values last ("every listener is notified after each change"); the last state
// given to cc.UpdateState holds the registered values ("the gRPC resolver publishes those
// addresses"; all scenarios stay below 32). No clocks, no sleeps: the verdict is a function of
// the execution's totally ordered log.

var e2eEndpoints = []string{"verif-c13-e2e.invalid:2379"}

const e2eKey = "svc"

// ---------------------------------------------------------------------------------------------
// simulated etcd behind the EtcdClient seam (harness code: atomic between scheduling points)
// ---------------------------------------------------------------------------------------------

type simEv struct {
	rev      int64
	del      bool
	key, val string
}

type simWatch struct {
	ch    chan clientv3.WatchResponse
	next  int64 // first revision not yet sent to this watch
	dead  bool
	key   string // watched key ("svc/" with prefix, or the exact key)
	exact bool
}

type etcdSim struct {
	rev     int64
	kvs     map[string]string
	owner   map[string]string // value -> key of its most recent registration (exclusive reference)
	log     []simEv
	compact int64 // revisions below it are compacted away
	watches []*simWatch
	stalled bool
	nGet    int
	nWatch  int
	// honorCtx (scenarios with leavers): a watch whose context is cancelled is closed by the client
	// some time after the cancellation, as clientv3 documents ("if the context is canceled, the
	// returned WatchChan is closed"): a daemon thread per watch waits for ctx.Done, marks the watch
	// dead (nothing is sent to it any more) and closes its channel. What was sent before stays readable.
	honorCtx bool
	mu       vsched.Mutex // honorCtx: orders "is the watch dead? if not, send" against "mark dead, close"
}

func newSim(init map[string]string) *etcdSim {
	s := &etcdSim{rev: 1, kvs: map[string]string{}, owner: map[string]string{}}
	ks := make([]string, 0, len(init))
	for k := range init {
		ks = append(ks, k)
	}
	sort.Strings(ks)
	for _, k := range ks {
		s.rev++
		s.kvs[k] = init[k]
		s.owner[init[k]] = k
		s.log = append(s.log, simEv{rev: s.rev, key: k, val: init[k]})
	}
	return s
}

func (s *etcdSim) ActiveConnection() *grpc.ClientConn { return nil }
func (s *etcdSim) Close() error                       { return nil }
func (s *etcdSim) Ctx() context.Context               { return context.Background() }
func (s *etcdSim) Grant(context.Context, int64) (*clientv3.LeaseGrantResponse, error) {
	return nil, errors.New("etcdSim: not supported")
}
func (s *etcdSim) KeepAlive(context.Context, clientv3.LeaseID) (<-chan *clientv3.LeaseKeepAliveResponse, error) {
	return nil, errors.New("etcdSim: not supported")
}
func (s *etcdSim) Put(context.Context, string, string, ...clientv3.OpOption) (*clientv3.PutResponse, error) {
	return nil, errors.New("etcdSim: not supported")
}
func (s *etcdSim) Revoke(context.Context, clientv3.LeaseID) (*clientv3.LeaseRevokeResponse, error) {
	return nil, errors.New("etcdSim: not supported")
}

// Get: the current content under the key (prefix or exact) in key order, at the current revision.
func (s *etcdSim) Get(_ context.Context, key string, opts ...clientv3.OpOption) (*clientv3.GetResponse, error) {
	s.nGet++
	// every access to the simulated etcd is an event on the execution's log object, so that the
	// explorer's happens-before fingerprints order it against the etcd thread's mutations
	vsched.Log("GET %d", s.rev)
	prefix := len(clientv3.OpGet(key, opts...).RangeBytes()) > 0
	resp := &clientv3.GetResponse{Header: &etcdserverpb.ResponseHeader{Revision: s.rev}}
	ks := make([]string, 0, len(s.kvs))
	for k := range s.kvs {
		if k == key || prefix && strings.HasPrefix(k, key) {
			ks = append(ks, k)
		}
	}
	sort.Strings(ks)
	for _, k := range ks {
		resp.Kvs = append(resp.Kvs, &mvccpb.KeyValue{Key: []byte(k), Value: []byte(s.kvs[k])})
	}
	resp.Count = int64(len(resp.Kvs))
	return resp, nil
}

func (e simEv) event() *clientv3.Event {
	if e.del {
		return &clientv3.Event{Type: clientv3.EventTypeDelete, Kv: &mvccpb.KeyValue{Key: []byte(e.key), ModRevision: e.rev}}
	}
	return &clientv3.Event{Type: clientv3.EventTypePut, Kv: &mvccpb.KeyValue{Key: []byte(e.key), Value: []byte(e.val), ModRevision: e.rev}}
}

// Watch: a new watch from the requested revision (WithRev; 0 = from now). The channel is a plain
// buffered channel filled here with the backlog, atomically with the registration of the watch;
// the scheduler adopts it (buffer included) at the first modelled operation on it. A start
// revision that has been compacted away yields etcd's cancel response and a closed channel.
func (s *etcdSim) Watch(ctx context.Context, key string, opts ...clientv3.OpOption) clientv3.WatchChan {
	s.nWatch++
	op := clientv3.OpGet(key, opts...)
	start := op.Rev()
	if start == 0 {
		start = s.rev + 1
	}
	vsched.Log("WATCH from %d at %d", start, s.rev)
	ch := make(chan clientv3.WatchResponse, 64)
	w := &simWatch{ch: ch, next: start, key: key, exact: len(op.RangeBytes()) == 0}
	if start < s.compact {
		ch <- clientv3.WatchResponse{Canceled: true, CompactRevision: s.compact}
		close(ch)
		return ch
	}
	s.watches = append(s.watches, w)
	if !s.stalled {
		for _, e := range s.log {
			if e.rev >= w.next && w.covers(e.key) {
				ch <- clientv3.WatchResponse{Events: []*clientv3.Event{e.event()}}
			}
		}
		w.next = s.rev + 1
	}
	if s.honorCtx && ctx.Done() != nil {
		done := ctx.Done()
		vsched.GoNamed("etcd.watchctx", true, func() {
			vsched.Recv(done)
			s.mu.Lock()
			if !w.dead {
				w.dead = true
				vsched.Close(w.ch)
			}
			s.mu.Unlock()
		})
	}
	return ch
}

func (w *simWatch) covers(k string) bool {
	if w.exact {
		return k == w.key
	}
	return strings.HasPrefix(k, w.key)
}

// deliver sends everything the watch has not seen yet as one response (called by the etcd
// thread only). A watch whose next revision has been compacted is cancelled as etcd does.
func (s *etcdSim) deliver(w *simWatch) {
	if s.honorCtx {
		s.mu.Lock()
		defer s.mu.Unlock()
	}
	if w.dead || w.next > s.rev {
		return
	}
	var evs []*clientv3.Event
	for _, e := range s.log {
		if e.rev >= w.next && w.covers(e.key) {
			evs = append(evs, e.event())
		}
	}
	if w.next < s.compact {
		w.dead = true
		vsched.Send(w.ch, clientv3.WatchResponse{Canceled: true, CompactRevision: s.compact})
		vsched.Close(w.ch)
		return
	}
	w.next = s.rev + 1
	if len(evs) > 0 {
		vsched.Send(w.ch, clientv3.WatchResponse{Events: evs})
	}
}

// exclusiveValues: a value counts iff the key that registered it most recently still holds it.
func (s *etcdSim) exclusiveValues() []string {
	m := map[string]bool{}
	for v, k := range s.owner {
		if cur, ok := s.kvs[k]; ok && cur == v {
			m[v] = true
		}
	}
	return setOf(m)
}

func (s *etcdSim) deliverAll() {
	ws := append([]*simWatch(nil), s.watches...)
	for _, w := range ws {
		s.deliver(w)
	}
}

func (s *etcdSim) values() []string {
	m := map[string]bool{}
	for _, v := range s.kvs {
		m[v] = true
	}
	return setOf(m)
}

// apply executes one step of the etcd script (etcd thread).
func (s *etcdSim) apply(o Op, spawnReload func()) {
	switch o.K {
	case "put":
		s.rev++
		s.kvs[o.Key] = o.Val
		s.owner[o.Val] = o.Key
		s.log = append(s.log, simEv{rev: s.rev, key: o.Key, val: o.Val})
		vsched.Log("CHG %d %s", s.rev, setString(s.values()))
		if !s.stalled {
			s.deliverAll()
		}
	case "del":
		if _, ok := s.kvs[o.Key]; !ok {
			vsched.Log("NODEL")
			return // etcd sends a DELETE only for an existing key
		}
		s.rev++
		delete(s.kvs, o.Key)
		s.log = append(s.log, simEv{rev: s.rev, del: true, key: o.Key})
		vsched.Log("CHG %d %s", s.rev, setString(s.values()))
		if !s.stalled {
			s.deliverAll()
		}
	case "stall":
		s.stalled = true
		vsched.Log("STALL")
	case "compact":
		s.rev++ // a write outside the prefix: no event for these watches
		s.compact = s.rev
		vsched.Log("COMPACT %d", s.rev)
	case "resume":
		s.stalled = false
		vsched.Log("RESUME")
		s.deliverAll()
	case "reconnect":
		s.stalled = false
		vsched.Log("RECONNECT")
		s.deliverAll()
		spawnReload()
	}
}

func setString(l []string) string { return "{" + strings.Join(l, ",") + "}" }

// ---------------------------------------------------------------------------------------------
// recording ClientConn / listeners
// ---------------------------------------------------------------------------------------------

type e2eCC struct{ name string }

// UpdateState: the call takes effect (is recorded) some time after it was issued — a scheduling
// point, as for any call into a component with its own synchronisation.
func (c *e2eCC) UpdateState(s resolver.State) error {
	var l []string
	for _, a := range s.Addresses {
		l = append(l, a.Addr)
	}
	set, dup := asSet(l)
	vsched.Op("cc.UpdateState")
	if dup {
		vsched.Log("US %s DUP%s", c.name, setString(set))
	} else {
		vsched.Log("US %s %s", c.name, setString(set))
	}
	return nil
}
func (c *e2eCC) ReportError(error)                                    {}
func (c *e2eCC) NewAddress([]resolver.Address)                        {}
func (c *e2eCC) NewServiceConfig(string)                              {}
func (c *e2eCC) ParseServiceConfig(string) *serviceconfig.ParseResult { return nil }

// ---------------------------------------------------------------------------------------------
// scenarios
// ---------------------------------------------------------------------------------------------

type e2eScenario struct {
	Name   string
	Init   map[string]string
	Pre    string // "" | "build" (resolver r0 established before the threads start) | "sub" (subscriber s0 with a reading listener)
	Client string // "" | "build" | "sub"
	Etcd   []Op
	PCap   int // > 0: preemption bound of this scenario is min(tier bound, PCap)
	// leaver / option families (zero values = the older families above):
	PreList  []string   // overrides Pre: several clients established one after the other before the threads start
	Acts     [][]string // overrides Client: one client thread per entry, each a sequence of actions (see e2eAct)
	HonorCtx bool       // the simulated etcd closes a watch whose context was cancelled (see etcdSim.honorCtx)
}

// Client kinds: "build" (real discovBuilder.Build -> resolver), "sub" (NewSubscriber + reading
// listener), "xsub" (the same with discov.Exclusive()), "esub" (WithExactMatch() on the key e2eExactKey).
// Actions of a client thread: a kind (join), "close:<name>" (Subscriber.Close / resolver.Close of a
// client established before the threads started or joined earlier by the same thread), and
// "put:<key>=<val>" / "del:<key>" (a registry event issued by this thread: sequential histories).
//
// Names are static (independent of the interleaving): the i-th pre-established client is
// <letter>i, the joins are numbered on from max(1, len(pre)) in (thread, action) order; letter r
// for resolvers, s for subscribers.
const e2eExactKey = "svc/k1"

func kindLetter(kind string) string {
	if kind == "build" {
		return "r"
	}
	return "s"
}

func isKind(a string) bool { return a == "build" || a == "sub" || a == "xsub" || a == "esub" }

type e2ePlan struct {
	pre      []string   // kinds
	preNames []string
	acts     [][]string
	actNames [][]string // name created by a join action ("" otherwise)
	kindOf   map[string]string
	closed   map[string]bool // names some action closes
	joinedAfterClose map[string]bool // joins that follow a close in the same thread (re-subscription)
	order    []string        // all names, creation order
}

func (sc e2eScenario) plan() e2ePlan {
	p := e2ePlan{kindOf: map[string]string{}, closed: map[string]bool{}, joinedAfterClose: map[string]bool{}}
	p.pre = sc.PreList
	if p.pre == nil && sc.Pre != "" {
		p.pre = []string{sc.Pre}
	}
	for i, k := range p.pre {
		n := fmt.Sprintf("%s%d", kindLetter(k), i)
		p.preNames = append(p.preNames, n)
		p.kindOf[n] = k
		p.order = append(p.order, n)
	}
	p.acts = sc.Acts
	if p.acts == nil && sc.Client != "" {
		p.acts = [][]string{{sc.Client}}
	}
	next := len(p.pre)
	if next < 1 {
		next = 1
	}
	for _, seq := range p.acts {
		names := make([]string, len(seq))
		closedHere := false
		for i, a := range seq {
			switch {
			case isKind(a):
				n := fmt.Sprintf("%s%d", kindLetter(a), next)
				next++
				names[i] = n
				p.kindOf[n] = a
				p.order = append(p.order, n)
				if closedHere {
					p.joinedAfterClose[n] = true
				}
			case strings.HasPrefix(a, "close:"):
				p.closed[strings.TrimPrefix(a, "close:")] = true
				closedHere = true
			}
		}
		p.actNames = append(p.actNames, names)
	}
	return p
}

func (sc e2eScenario) body() func() {
	pl := sc.plan()
	return func() {
		discov.VResetGlobal()
		sim := newSim(sc.Init)
		sim.honorCtx = sc.HonorCtx
		discov.VInjectClient(e2eEndpoints, sim)
		hosts := strings.Join(e2eEndpoints, ",")
		resByName := map[string]resolver.Resolver{}
		subByName := map[string]*discov.Subscriber{}

		build := func(name string) {
			vsched.DaemonChildren(true) // the cluster's watch goroutines never end
			res, err := zresolver.VDiscovBuild(hosts, e2eKey, &e2eCC{name: name})
			if err != nil {
				vsched.Log("ERR %s %v", name, err)
				return
			}
			resByName[name] = res
			vsched.Log("RDY %s", name)
		}
		subscribe := func(name, kind string) {
			vsched.DaemonChildren(true)
			key := e2eKey
			var opts []discov.SubOption
			switch kind {
			case "xsub":
				opts = append(opts, discov.Exclusive())
			case "esub":
				key = e2eExactKey
				opts = append(opts, discov.WithExactMatch())
			}
			sub, err := discov.NewSubscriber(append([]string(nil), e2eEndpoints...), key, opts...)
			if err != nil {
				vsched.Log("ERR %s %v", name, err)
				return
			}
			subByName[name] = sub
			read := func() {
				set, _ := asSet(sub.Values())
				vsched.Log("OBS %s %s", name, setString(set))
			}
			// the documented protocol: register the listener, then read the current values
			sub.AddListener(read)
			read()
			vsched.Log("RDY %s", name)
		}
		join := func(kind, name string) {
			if kind == "build" {
				build(name)
			} else {
				subscribe(name, kind)
			}
		}
		var wg vsched.WaitGroup
		spawnReload := func() {
			wg.Add(1)
			vsched.GoNamed("reload", false, func() {
				defer wg.Done()
				vsched.DaemonChildren(true)
				discov.VReloadGlobal(e2eEndpoints, sim)
			})
		}
		act := func(a, name string) {
			switch {
			case isKind(a):
				join(a, name)
			case strings.HasPrefix(a, "close:"):
				n := strings.TrimPrefix(a, "close:")
				if r, ok := resByName[n]; ok {
					r.Close()
				} else if s, ok := subByName[n]; ok {
					s.Close()
				} else {
					vsched.Log("ERR close of unknown client %s", n)
					return
				}
				vsched.Log("CLOSED %s", n)
			case strings.HasPrefix(a, "put:"):
				kv := strings.SplitN(strings.TrimPrefix(a, "put:"), "=", 2)
				sim.apply(Op{K: "put", Key: kv[0], Val: kv[1]}, spawnReload)
			case strings.HasPrefix(a, "del:"):
				sim.apply(Op{K: "del", Key: strings.TrimPrefix(a, "del:")}, spawnReload)
			case a == "quiesce":
				// only meaningful in a single-thread history: everything the watch goroutines can do is done
				vsched.Quiesce()
			default:
				vsched.Log("ERR unknown action %s", a)
			}
		}

		for i, kind := range pl.pre {
			join(kind, pl.preNames[i])
		}
		vsched.Quiesce()
		vsched.Log("START")

		for ti, seq := range pl.acts {
			ti, seq := ti, seq
			tn := "client"
			if ti > 0 {
				tn = fmt.Sprintf("client%d", ti+1)
			}
			wg.Add(1)
			vsched.GoNamed(tn, false, func() {
				defer wg.Done()
				for ai, a := range seq {
					act(a, pl.actNames[ti][ai])
				}
			})
		}
		if len(sc.Etcd) > 0 {
			wg.Add(1)
			vsched.GoNamed("etcd", false, func() {
				defer wg.Done()
				for _, o := range sc.Etcd {
					sim.apply(o, spawnReload)
				}
			})
		}
		wg.Wait()
		vsched.Quiesce()

		vsched.Log("FIN etcd {%s} %s", mapString(sim.kvs), setString(sim.values()))
		vsched.Log("FIN reg {%s}", discov.VGlobalValues(e2eEndpoints, e2eKey))
		if len(sc.PreList) > 0 || len(sc.Acts) > 0 {
			exact := map[string]string{}
			if v, ok := sim.kvs[e2eExactKey]; ok {
				exact[e2eExactKey] = v
			}
			vsched.Log("FIN exact {%s} %s {%s}", mapString(exact), setString(valuesOf(exact)), discov.VGlobalValuesOf(e2eEndpoints, e2eExactKey, true))
			vsched.Log("FIN xref %s", setString(sim.exclusiveValues()))
			vsched.Log("FIN listeners %d %d", discov.VGlobalListeners(e2eEndpoints, e2eKey, false), discov.VGlobalListeners(e2eEndpoints, e2eExactKey, true))
		}
		names := make([]string, 0, len(resByName)+len(subByName))
		for n := range resByName {
			names = append(names, n)
		}
		for n := range subByName {
			names = append(names, n)
		}
		sort.Strings(names)
		for _, n := range names {
			var vals []string
			if r, ok := resByName[n]; ok {
				vals = zresolver.VResolverValues(r)
			} else {
				vals = subByName[n].Values()
			}
			set, _ := asSet(vals)
			vsched.Log("FIN vals %s %s", n, setString(set))
		}
		vsched.Log("FIN gets=%d watches=%d", sim.nGet, sim.nWatch)
	}
}

// extraMember: the rendered set/map got ("{a,b}" / "{k=v,k=v,}") has a member that want has not.
func extraMember(got, want string) bool {
	w := map[string]bool{}
	for _, x := range strings.Split(strings.Trim(want, "{}"), ",") {
		w[x] = true
	}
	for _, x := range strings.Split(strings.Trim(got, "{}"), ",") {
		if x != "" && !w[x] {
			return true
		}
	}
	return false
}

func valuesOf(m map[string]string) []string {
	s := map[string]bool{}
	for _, v := range m {
		s[v] = true
	}
	return setOf(s)
}

type e2eVerdict struct{ class, msg, sig string }

// e2eCheck is the oracle over the execution's log.
func (sc e2eScenario) check(e *vsched.Exec) e2eVerdict {
	log := e.Log()
	switch e.Outcome {
	case "ok":
	case "deadlock":
		return e2eVerdict{"e2e:deadlock{" + blockedNoSites(e) + "}", "deadlock: " + strings.Join(e.Blocked(), " "), "deadlock"}
	case "crash":
		return e2eVerdict{"e2e:crash", "uncaught panic in a thread: " + strings.Join(e.Panics(), "; "), "crash"}
	default:
		return e2eVerdict{"e2e:" + e.Outcome, e.Outcome + ": " + strings.Join(e.Blocked(), " "), e.Outcome}
	}
	pl := sc.plan()
	var (
		finalSet, finalKVs, reg    string
		exactKVs, exactSet, regEx  string
		xSet                       string // exclusive reference (set at FIN by the body)
		nListeners                 = "?"
		lastChg                    = -1
		ready                      = map[string]bool{}
		closedAt                   = map[string]int{}
		vals                       = map[string]string{}
		pubs                       = map[string][]int{} // cc -> log positions of its UpdateState records
		obs                        = map[string][]int{}
		payload                    = map[int]string{}
		sig                        []string
	)
	for i, l := range log {
		f := strings.Fields(l)
		switch f[0] {
		case "CHG":
			lastChg = i
		case "US":
			pubs[f[1]] = append(pubs[f[1]], i)
			payload[i] = f[2]
			sig = append(sig, f[1]+f[2])
		case "OBS":
			obs[f[1]] = append(obs[f[1]], i)
			payload[i] = f[2]
			sig = append(sig, f[1]+f[2])
		case "RDY":
			ready[f[1]] = true
		case "CLOSED":
			closedAt[f[1]] = i
			sig = append(sig, "closed:"+f[1])
		case "ERR":
			return e2eVerdict{"e2e:error", "client action failed: " + l, "error"}
		case "FIN":
			switch f[1] {
			case "etcd":
				finalKVs, finalSet = f[2], f[3]
			case "reg":
				reg = f[2]
			case "exact":
				exactKVs, exactSet, regEx = f[2], f[3], f[4]
			case "xref":
				xSet = f[2]
			case "listeners":
				nListeners = f[2] + "/" + f[3]
			case "vals":
				vals[f[2]] = f[3]
			}
		}
	}
	var after []string
	for n, at := range closedAt {
		k := 0
		for _, i := range obs[n] {
			if i > at {
				k++
			}
		}
		for _, i := range pubs[n] {
			if i > at {
				k++
			}
		}
		if k > 0 {
			after = append(after, fmt.Sprintf("after-close:%s=%d", n, k)) // coverage only: deliveries after Close returned
		}
	}
	sort.Strings(after)
	sig = append(sig, after...)
	if nListeners != "?" {
		sig = append(sig, "listeners:"+nListeners) // coverage only: a watcher without listeners left behind shows here
	}
	s := strings.Join(sig, " ")
	if finalSet == "" {
		return e2eVerdict{"e2e:harness", "no final record in the log", s}
	}
	for _, n := range pl.order {
		if !ready[n] {
			return e2eVerdict{"e2e:harness", "client " + n + " did not finish", s}
		}
	}
	for n := range pl.closed {
		if _, ok := closedAt[n]; !ok {
			return e2eVerdict{"e2e:harness", "close of " + n + " did not return", s}
		}
	}
	// Who is judged: every client that is still subscribed at the end. A closed subscriber is no
	// longer "a subscriber" of the statement: nothing is demanded of it (the real code may still
	// deliver a response it had in hand when Close returned).
	var names []string // judged names: the ones that were there before a leaver left first, then re-subscribers, then the rest
	role := map[string]string{}
	hasClose := len(pl.closed) > 0
	for pass := 0; pass < 3; pass++ {
		var grp []string
		for i, n := range pl.order {
			if pl.closed[n] {
				continue
			}
			r := "subscriber"
			switch {
			case hasClose && i < len(pl.pre):
				r = "remaining-subscriber" // shares the watch with a client that leaves
			case pl.joinedAfterClose[n]:
				r = "resubscriber" // subscribes after the same thread closed a client of the key
			case len(pl.pre) > 0 && i >= len(pl.pre):
				r = "late-subscriber" // joined a key that already had a watcher (Registry.Monitor's "exists" path)
			}
			if pl.kindOf[n] == "xsub" {
				r = "exclusive-" + r
			}
			if pl.kindOf[n] == "esub" {
				r = "exact-match-" + r
			}
			rank := 2
			if strings.HasSuffix(r, "remaining-subscriber") {
				rank = 0
			} else if strings.HasSuffix(r, "resubscriber") {
				rank = 1
			}
			if rank == pass {
				grp = append(grp, n)
				role[n] = r
			}
		}
		sort.Strings(grp)
		names = append(names, grp...)
	}
	wantOf := func(n string) string {
		switch pl.kindOf[n] {
		case "esub":
			return exactSet
		case "xsub":
			return xSet
		}
		return finalSet
	}
	prefixJudged, exactJudged := false, false
	for _, n := range names {
		if pl.kindOf[n] == "esub" {
			exactJudged = true
		} else {
			prefixJudged = true
		}
	}
	if len(sc.PreList) == 0 && len(sc.Acts) == 0 {
		prefixJudged = reg != "{-}" // the older families: as before
	}
	if prefixJudged && reg == "{-}" {
		return e2eVerdict{"e2e:watcher-lost", fmt.Sprintf("at quiescence the key has subscribers (%v) but the cluster has no watcher for it any more", names), s}
	}
	// the last subscriber of the key left (its watcher was dropped) and the key was subscribed
	// again: divergences of the successor have their own cause keys, by what is wrong
	dropped := len(pl.joinedAfterClose) > 0
	for i, n := range pl.order {
		if i < len(pl.pre) && !pl.closed[n] {
			dropped = false
		}
	}
	resubClass := func(got, want string) string {
		if extraMember(got, want) {
			return "e2e:resubscribe:stale-event-applied" // something is shown that is not registered (any more)
		}
		return "e2e:resubscribe:registered-value-missing"
	}
	if prefixJudged && reg != finalKVs {
		if dropped {
			return e2eVerdict{resubClass(reg, finalKVs), fmt.Sprintf("the key was subscribed again after its last subscriber had left; at quiescence the registry's copy %s != etcd %s", reg, finalKVs), s}
		}
		return e2eVerdict{"e2e:registry-copy-diverged", fmt.Sprintf("at quiescence the registry's copy %s != etcd %s", reg, finalKVs), s}
	}
	if exactJudged && regEx != exactKVs {
		return e2eVerdict{"e2e:registry-copy-diverged:exact-match", fmt.Sprintf("at quiescence the registry's copy %s of the exact-match watcher != etcd %s", regEx, exactKVs), s}
	}
	for _, n := range names {
		if vals[n] != wantOf(n) && dropped && strings.HasSuffix(role[n], "resubscriber") {
			return e2eVerdict{resubClass(vals[n], wantOf(n)), fmt.Sprintf("the key was subscribed again after its last subscriber had left; at quiescence Values() of %s = %s, registered values %s", n, vals[n], wantOf(n)), s}
		}
		if vals[n] != wantOf(n) {
			return e2eVerdict{"e2e:values-diverged:" + role[n], fmt.Sprintf("at quiescence Values() of %s = %s, registered values %s", n, vals[n], wantOf(n)), s}
		}
	}
	for _, n := range names {
		finalSet := wantOf(n)
		if strings.HasPrefix(n, "s") {
			o := obs[n]
			if len(o) == 0 || payload[o[len(o)-1]] != finalSet {
				last := "nothing"
				if len(o) > 0 {
					last = payload[o[len(o)-1]]
				}
				return e2eVerdict{"e2e:listener:change-not-notified", fmt.Sprintf("listener of %s last read %s, registered values %s: a change was applied without a notification after it", n, last, finalSet), s}
			}
			continue
		}
		p := pubs[n]
		if len(p) == 0 {
			return e2eVerdict{"e2e:resolver:never-published", fmt.Sprintf("resolver %s never called UpdateState", n), s}
		}
		if strings.HasPrefix(payload[p[len(p)-1]], "DUP") {
			return e2eVerdict{"e2e:resolver:duplicate-addresses", fmt.Sprintf("resolver %s published %s", n, payload[p[len(p)-1]]), s}
		}
		if last := payload[p[len(p)-1]]; last != finalSet {
			// was the final set ever published after the last change? then a later, stale
			// publication overtook it; otherwise the change never reached the ClientConn
			fresh := false
			for _, i := range p {
				if i > lastChg && payload[i] == finalSet {
					fresh = true
				}
			}
			if fresh {
				return e2eVerdict{"e2e:resolver:stale-publication-overtakes-fresh", fmt.Sprintf("resolver %s: last UpdateState %s, registered values %s; the registered values had been published, a concurrent update() published older values after it", n, last, finalSet), s}
			}
			return e2eVerdict{"e2e:resolver:change-never-published", fmt.Sprintf("resolver %s: last UpdateState %s, registered values %s; no UpdateState after the last change carried them", n, last, finalSet), s}
		}
	}
	return e2eVerdict{"", "", s}
}

// e2eScenarios enumerates the bounded scenario family (simplest first).
func e2eScenarios(thorough bool) []e2eScenario {
	const k1, k2 = "svc/k1", "svc/k2"
	put := func(k, v string) Op { return Op{K: "put", Key: k, Val: v} }
	del := func(k string) Op { return Op{K: "del", Key: k} }
	inits := []map[string]string{{}, {k1: "v1"}}
	initName := func(m map[string]string) string {
		if len(m) == 0 {
			return "empty"
		}
		return strings.TrimSuffix(mapString(m), ",")
	}
	// single events meaningful for an initial content
	events := func(init map[string]string) []Op {
		out := []Op{put(k2, "v2")}
		if _, ok := init[k1]; ok {
			out = append(out, del(k1), put(k1, "v2"))
		} else {
			out = append(out, put(k1, "v1"))
		}
		return out
	}
	var out []e2eScenario
	add := func(sc e2eScenario) {
		sc.Name = fmt.Sprintf("pre=%s client=%s init=%s etcd=%s", orDash(sc.Pre), orDash(sc.Client), initName(sc.Init), pathString(sc.Etcd))
		out = append(out, sc)
	}
	// family 1: a client action races with one event (two in the thorough tier)
	for _, client := range []string{"build", "sub"} {
		for _, init := range inits {
			for _, e1 := range events(init) {
				add(e2eScenario{Init: init, Client: client, Etcd: []Op{e1}})
			}
		}
	}
	// family 2: a second client joins a watched prefix (Monitor on the existing watcher) while an event arrives
	for _, pre := range []string{"sub", "build"} {
		for _, client := range []string{"build", "sub"} {
			if pre == "build" && client == "sub" && !thorough {
				continue
			}
			init := inits[1]
			for _, e1 := range events(init) {
				add(e2eScenario{Init: init, Pre: pre, Client: client, Etcd: []Op{e1}})
			}
		}
	}
	// family 3: established resolver (listener attached); the watch lags, catches up in one
	// batched response or is cancelled by a compaction (-> load), or the connection comes back
	// (-> cluster.reload). At most one put and one delete per script: a snapshot that coalesces
	// them then differs from the registry's copy by at most one add and one remove, so the order
	// in which handleChanges notifies (Go map iteration inside calculateChanges; enumerated as
	// permutations by the registry part) cannot make two runs of one schedule differ.
	type evl struct {
		evs  []Op
		full bool // thorough tier only
	}
	lists := []evl{
		{[]Op{put(k2, "v2")}, false}, {[]Op{del(k1)}, false}, {[]Op{put(k2, "v2"), del(k1)}, false},
		{[]Op{put(k1, "v2")}, true}, {[]Op{del(k1), put(k2, "v2")}, true}, {[]Op{put(k1, "v2"), del(k1)}, true}, {[]Op{del(k1), put(k1, "v2")}, true},
	}
	mids := [][]Op{{{K: "resume"}}, {{K: "compact"}, {K: "resume"}}, {{K: "reconnect"}}, {{K: "compact"}, {K: "reconnect"}}}
	for _, l := range lists {
		if l.full && !thorough {
			continue
		}
		for inside := len(l.evs); inside >= 1; inside-- { // events before the catch-up; the rest after it
			for _, mid := range mids {
				script := []Op{{K: "stall"}}
				script = append(script, l.evs[:inside]...)
				script = append(script, mid...)
				script = append(script, l.evs[inside:]...)
				add(e2eScenario{Init: inits[1], Pre: "build", Etcd: script})
			}
		}
	}
	// family 4: a client action races with two events
	for _, client := range []string{"build", "sub"} {
		for _, init := range inits {
			for _, e1 := range events(init) {
				after := map[string]string{}
				for k, v := range init {
					after[k] = v
				}
				if e1.K == "put" {
					after[e1.Key] = e1.Val
				} else {
					delete(after, e1.Key)
				}
				for _, e2 := range []Op{put(k2, "v2"), put(k1, "v2"), put(k1, "v1"), del(k1), del(k2)} {
					if e2.K == "del" {
						if _, ok := after[e2.Key]; !ok {
							continue
						}
					}
					if e2.K == "put" && after[e2.Key] == e2.Val && !thorough {
						continue // re-registration with the same value
					}
					add(e2eScenario{Init: init, Client: client, Etcd: []Op{e1, e2}})
				}
			}
		}
	}
	if thorough {
		// family 5: a second client joins while the watch lags / the connection comes back
		for _, script := range [][]Op{
			{{K: "stall"}, put(k2, "v2"), {K: "reconnect"}},
			{{K: "stall"}, del(k1), {K: "compact"}, {K: "resume"}},
			{{K: "stall"}, put(k2, "v2"), {K: "resume"}, del(k1)},
		} {
			for _, client := range []string{"build", "sub"} {
				// six threads when the connection comes back: P = 4 costs ~4.5 M executions per scenario
				add(e2eScenario{Init: inits[1], Pre: "sub", Client: client, Etcd: script, PCap: 3})
			}
		}
	}
	// ---- leaver / option families (added for the missed seed C13-y1) ----
	addX := func(sc e2eScenario) {
		var acts []string
		for _, seq := range sc.Acts {
			acts = append(acts, strings.Join(seq, ">"))
		}
		sc.Name = fmt.Sprintf("pre=%s acts=%s init=%s etcd=%s", orDash(strings.Join(sc.PreList, "+")), orDash(strings.Join(acts, "|")), initName(sc.Init), orDash(pathString(sc.Etcd)))
		out = append(out, sc)
	}
	nameAt := func(pre []string, i int) string { return fmt.Sprintf("%s%d", kindLetter(pre[i]), i) }
	// family 6: one of 2-3 clients sharing a watch closes (Subscriber.Close / resolver.Close ->
	// Registry.Unmonitor) while an event is delivered to the listeners of that watch
	pres := [][]string{{"sub", "sub", "sub"}, {"build", "sub", "build"}, {"sub", "sub"}}
	if thorough {
		pres = [][]string{{"sub", "sub", "sub"}, {"build", "sub", "build"}, {"sub", "sub"}, {"build", "build", "build"}, {"sub", "build", "sub"},
			{"build", "sub", "sub"}, {"sub", "sub", "build"}, {"build", "build"}, {"sub", "build"}, {"build", "sub"}}
	}
	for pi, pre := range pres {
		for pos := range pre {
			if !thorough && pi == 1 && pos != 0 {
				continue
			}
			for ei, e1 := range events(inits[1]) {
				if !thorough && (pi == 1 && ei > 0 || pi == 0 && pos > 0 && ei == 2) {
					continue // quick: the mixed list with one event, a changed value only with the first listener leaving
				}
				pc := 0
				if thorough && pi > 1 {
					pc = 3 // the full bound (4) for the two lists of the quick tier, 3 for the other eight
				}
				addX(e2eScenario{Init: inits[1], PreList: pre, Acts: [][]string{{"close:" + nameAt(pre, pos)}}, Etcd: []Op{e1}, PCap: pc})
			}
		}
	}
	// family 7: the same while a lagging watch catches up in one response, is compacted (-> load ->
	// handleChanges) or the connection comes back (cluster.reload -> load -> handleChanges)
	pre3 := []string{"sub", "sub", "sub"}
	lagScripts := [][]Op{
		{{K: "stall"}, put(k2, "v2"), {K: "reconnect"}},
		{{K: "stall"}, del(k1), {K: "compact"}, {K: "resume"}},
	}
	if thorough {
		lagScripts = append(lagScripts,
			[]Op{{K: "stall"}, put(k2, "v2"), del(k1), {K: "resume"}},
			[]Op{{K: "stall"}, put(k2, "v2"), {K: "compact"}, {K: "reconnect"}})
	}
	for _, script := range lagScripts {
		for pos := range pre3 {
			if !thorough && pos != 0 {
				continue
			}
			pc := 2
			if thorough && pos == 0 {
				pc = 3
			}
			addX(e2eScenario{Init: inits[1], PreList: pre3, Acts: [][]string{{"close:" + nameAt(pre3, pos)}}, Etcd: script, PCap: pc})
		}
	}
	// family 8: the LAST subscriber of a key leaves (the watcher is dropped, its watch cancelled) and
	// the key is subscribed again. Histories of one client thread (events issued by the same thread:
	// sequential histories, still interleaved with the cluster's watch goroutines) and the same
	// close/re-subscribe racing with events of the etcd thread.
	seqs := [][]string{
		{"close:s0", "sub"},
		{"close:s0", "put:" + k2 + "=v2", "sub"},
		{"put:" + k2 + "=v2", "close:s0", "del:" + k2, "sub"},
		{"close:s0", "del:" + k1, "sub", "put:" + k1 + "=v2"},
	}
	// preemption bounds of this family: six to eight threads (two generations of watch goroutines and
	// of the simulated client's watch closers); the known causes need P <= 1
	seqP, conP := 2, 1
	if thorough {
		seqP, conP = 3, 2
	}
	for i, seq := range seqs {
		pc := seqP
		if i == 2 {
			pc = seqP - 1 // five actions, seven threads
		}
		addX(e2eScenario{Init: inits[1], PreList: []string{"sub"}, Acts: [][]string{seq}, HonorCtx: true, PCap: pc})
	}
	// subscribe and close at once (before the watch goroutine has set its watch up), then subscribe again
	addX(e2eScenario{Init: inits[1], Acts: [][]string{{"sub", "close:s1", "sub"}}, HonorCtx: true, PCap: seqP})
	addX(e2eScenario{Init: inits[1], Acts: [][]string{{"build", "close:r1", "build", "put:" + k2 + "=v2"}}, HonorCtx: true, PCap: conP})
	for _, e1 := range events(inits[1]) {
		addX(e2eScenario{Init: inits[1], PreList: []string{"sub"}, Acts: [][]string{{"close:s0", "sub"}}, Etcd: []Op{e1}, HonorCtx: true, PCap: conP})
	}
	if thorough {
		for ei, e1 := range events(inits[1]) {
			addX(e2eScenario{Init: inits[1], PreList: []string{"build"}, Acts: [][]string{{"close:r0", "build"}}, Etcd: []Op{e1}, HonorCtx: true, PCap: 1})
			pc := 1
			if ei == 0 {
				pc = conP
			}
			addX(e2eScenario{Init: inits[1], Acts: [][]string{{"sub", "close:s1", "sub"}}, Etcd: []Op{e1}, HonorCtx: true, PCap: pc})
		}
		addX(e2eScenario{Init: inits[1], PreList: []string{"sub"}, Acts: [][]string{{"close:s0", "sub"}}, Etcd: []Op{put(k2, "v2"), del(k2)}, HonorCtx: true, PCap: conP})
	}
	// family 9: the subscriber options of the public API (discov.Exclusive, discov.WithExactMatch)
	// end to end; scripts in which the exclusive reference is exact (the subscriber is there from
	// the start and sees every registration in order)
	for _, script := range [][]Op{
		{put(k2, "v1"), del(k2)}, // k2 takes v1 over, then leaves: the exclusive view loses v1, a plain one keeps it
		{put(k2, "v1"), del(k1)},
	} {
		addX(e2eScenario{Init: inits[1], PreList: []string{"xsub", "sub"}, Etcd: script})
	}
	for _, script := range [][]Op{{put(k2, "v2"), put(k1, "v2")}, {del(k1), put(k2, "v2")}} {
		pc := 2 // two watchers, two watch goroutines
		if thorough {
			pc = 3
		}
		addX(e2eScenario{Init: inits[1], PreList: []string{"esub", "sub"}, Etcd: script, PCap: pc})
	}
	if thorough {
		addX(e2eScenario{Init: inits[1], PreList: []string{"sub"}, Acts: [][]string{{"esub"}}, Etcd: []Op{put(k1, "v2")}, PCap: 3})
		addX(e2eScenario{Init: inits[1], PreList: []string{"esub"}, Acts: [][]string{{"close:s0", "esub"}}, Etcd: []Op{put(k1, "v2")}, HonorCtx: true, PCap: conP})
	}
	return out
}

// blockedNoSites: thread name + pending operation of the blocked non-daemon threads, without the
// call sites that only a traced re-execution knows (the class must not depend on tracing).
func blockedNoSites(e *vsched.Exec) string {
	var out []string
	for _, b := range strings.Split(e.BlockedKey(), ",") {
		if i := strings.Index(b, "@"); i >= 0 {
			b = b[:i]
		}
		if strings.Contains(b, ":") && !strings.HasPrefix(b, "main:") { // main only waits for the others
			out = append(out, b)
		}
	}
	// threads queueing for a mutex are victims of whoever holds it while waiting for something
	// else: the cause key names the non-mutex waits when there are any
	var roots []string
	for _, b := range out {
		if !strings.Contains(b, "mutex.") {
			roots = append(roots, b)
		}
	}
	if len(roots) > 0 {
		out = roots
	}
	return strings.Join(out, ",")
}

func orDash(s string) string {
	if s == "" {
		return "-"
	}
	return s
}

// ---------------------------------------------------------------------------------------------
// runner (one scenario per worker process: the registry under test is process-global)
// ---------------------------------------------------------------------------------------------

type e2eReplay struct {
	Scenario string   `json:"scenario"`
	Choices  []int    `json:"choices"`
	Msg      string   `json:"msg"`
	Outcome  string   `json:"outcome"`
	Trace    []string `json:"trace,omitempty"`
}

func e2eBounds(thorough bool) (p, t int) {
	if thorough {
		return 4, 0
	}
	return 3, 0
}

func runE2EScenario(cfg *vlib.Config, r *vlib.Report, sc e2eScenario) {
	p, t := e2eBounds(cfg.Thorough())
	if sc.PCap > 0 && p > sc.PCap {
		p = sc.PCap
	}
	if v := os.Getenv("VERIF_C13_P"); v != "" { // developer aid: measure a scenario at another bound
		fmt.Sscan(v, &p)
	}
	sigs := map[string]int64{}
	t0 := time.Now()
	check := func(e *vsched.Exec) string {
		v := sc.check(e)
		if v.sig != "" {
			sigs[v.sig]++
		}
		if v.class == "" {
			return ""
		}
		return v.class + "\x00" + v.msg
	}
	if os.Getenv("VERIF_C13_E2E_DEBUG") != "" {
		for i := 0; i < 2; i++ {
			e := vsched.Run(vsched.RunOpts{BoundP: p, Trace: true}, sc.body())
			fmt.Println("---- run", i, e.Outcome)
			for _, l := range e.Trace() {
				fmt.Println("  ", l)
			}
		}
	}
	// levels P'=0..P in turn: the first counterexample of a class has the fewest preemptions. The
	// explorer stops at the first level with a failure; so that one (known) cause does not hide
	// others that need more preemptions, the full bound is then explored in one more pass.
	st := vsched.Explore(vsched.Options{P: p, T: t, Deadline: cfg.Deadline(), Iterate: true, KeepGoing: true}, sc.body(), check)
	if len(st.Failures) > 0 && st.BoundP < p {
		st2 := vsched.Explore(vsched.Options{P: p, T: t, Deadline: cfg.Deadline(), KeepGoing: true}, sc.body(), check)
		st.Execs += st2.Execs
		st.Pruned += st2.Pruned
		st.Points += st2.Points
		st.States += st2.States
		for k, v := range st2.Outcomes {
			st.Outcomes[k] += v
		}
		if st2.MaxPoints > st.MaxPoints {
			st.MaxPoints = st2.MaxPoints
		}
		if st2.MaxThreads > st.MaxThreads {
			st.MaxThreads = st2.MaxThreads
		}
		st.BoundP = st2.BoundP
		if !st2.Complete {
			st.Complete, st.Cap = false, st2.Cap
		}
		st.Failures = append(st.Failures, st2.Failures...) // classes already seen are skipped below
	}
	r.Eval(int(st.Execs))
	r.AddTraces(int(st.Execs))
	r.AddStates(int(st.States))
	r.AddTransitions(int(st.Points))
	for s := range sigs {
		r.Nontrivial("e2e|" + sc.Name + "|" + s)
	}
	var sg []string
	for s, n := range sigs {
		sg = append(sg, fmt.Sprintf("%s ×%d", s, n))
	}
	sort.Strings(sg)
	if len(sg) > 8 {
		sg = append(sg[:8], fmt.Sprintf("… %d more", len(sg)-8))
	}
	sum := map[string]any{"executions": st.Execs, "pruned_by_table": st.Pruned, "table_states": st.States, "points": st.Points,
		"max_threads": st.MaxThreads, "max_points": st.MaxPoints, "bound_P": st.BoundP, "complete": st.Complete,
		"outcomes": vsched.OutcomeKeys(st.Outcomes), "distinct_observation_sequences": len(sigs), "signatures": sg,
		"wall_s": float64(int(time.Since(t0).Seconds()*10)) / 10}
	if !st.Complete {
		sum["cap"] = st.Cap
		r.NotExhaustive(fmt.Sprintf("e2e %s: %s", sc.Name, st.Cap))
	}
	r.Scenario("e2e "+sc.Name, sum)
	seen := map[string]bool{}
	for _, f := range st.Failures {
		parts := strings.SplitN(f.Msg, "\x00", 2)
		class, msg := parts[0], ""
		if len(parts) > 1 {
			msg = parts[1]
		}
		if seen[class] {
			continue
		}
		seen[class] = true
		r.Count("e2e-failing:"+class, 1)
		r.Violation(class, fmt.Sprintf("e2e scenario [%s] (P=%d used): %s", sc.Name, f.P, msg),
			Case{Part: "e2e", Scenario: sc.Name, Choices: f.Choices, Msg: msg, Trace: f.Trace})
	}
}

func replayE2E(c Case, thorough bool) *failure {
	for _, th := range []bool{thorough, !thorough} {
		for _, sc := range e2eScenarios(th) {
			if sc.Name != c.Scenario {
				continue
			}
			e := vsched.Replay(c.Choices, sc.body(), 0)
			for _, l := range e.Trace() {
				fmt.Println("  ", l)
			}
			v := sc.check(e)
			fmt.Printf("outcome=%s blocked=%v panics=%v\nrecorded: %s\n", e.Outcome, e.Blocked(), e.Panics(), c.Msg)
			if v.class != "" {
				return &failure{v.class, v.msg}
			}
			return nil
		}
	}
	vlib.Fatal("replay names unknown e2e scenario %q", c.Scenario)
	return nil
}
