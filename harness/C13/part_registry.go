package main

import (
	"fmt"
	"io"
	"sort"

	"github.com/zeromicro/go-zero/core/discov"
)

// Part 2: the registry's cluster (real handleWatchEvents, real load -> handleChanges, real
// Registry.Monitor) with two real containers (one plain, one exclusive) as listeners.
//
// Map iteration order. calculateChanges and getCurrent build their event lists by ranging over
// Go maps, so the order in which handleChanges / Monitor call OnAdd (and OnDelete) is not
// determined by the program. To make that an explorer choice instead of luck, every listener is
// registered through a forwarding proxy. During handleWatchEvents the proxy passes each call
// straight through. During load/handleChanges and Monitor the proxy records the calls the real
// code makes; afterwards the harness splits the recording into maximal runs of same-kind calls
// (the real code emits one run of OnAdd, then one run of OnDelete), sorts each run by key and
// delivers it to the real container in the permutation the Op names (P[i] for run i, all n!
// permutations of every run are enumerated by the alphabet). The multiset of calls and the
// position of the runs are exactly what the real code produced; only the unspecified order
// inside a run is chosen. All listeners get the same order, as in `for kv { for l { … } }`.

type emit struct {
	del bool
	kv  discov.VKV
}

type proxy struct {
	target    discov.VUpdateListener
	buffering bool
	buf       []emit
}

func (p *proxy) OnAdd(kv discov.VKV) {
	if p.buffering {
		p.buf = append(p.buf, emit{false, kv})
		return
	}
	p.target.OnAdd(kv)
}

func (p *proxy) OnDelete(kv discov.VKV) {
	if p.buffering {
		p.buf = append(p.buf, emit{true, kv})
		return
	}
	p.target.OnDelete(kv)
}

// flush delivers the recorded calls run by run in the chosen order; returns a rendering.
func (p *proxy) flush(P []int) string {
	p.buffering = false
	buf := p.buf
	p.buf = nil
	s := ""
	ri := 0
	for i := 0; i < len(buf); {
		j := i
		for j < len(buf) && buf[j].del == buf[i].del {
			j++
		}
		run := append([]emit(nil), buf[i:j]...)
		sort.SliceStable(run, func(a, b int) bool { return run[a].kv.Key < run[b].kv.Key })
		idx := 0
		if ri < len(P) {
			idx = P[ri]
		}
		pm := perms(len(run))[idx%fact(len(run))]
		for _, x := range pm {
			e := run[x]
			if e.del {
				s += fmt.Sprintf("OnDelete(%s=%s) ", e.kv.Key, e.kv.Val)
				p.target.OnDelete(e.kv)
			} else {
				s += fmt.Sprintf("OnAdd(%s=%s) ", e.kv.Key, e.kv.Val)
				p.target.OnAdd(e.kv)
			}
		}
		ri++
		i = j
	}
	return s
}

type regState struct {
	r         *ref
	connected bool
	regRef    map[string]string // what the registry's copy must be (etcd as of the last delivered event / snapshot)
	offPut    bool              // some put happened while disconnected (registration order not visible to a snapshot)
	multiAdd  bool              // some reload had to deliver two or more adds carrying the same value (their order decides which key an exclusive container keeps)
	late      bool
}

func (s *regState) apply(o Op) (cat string, executes bool) {
	switch o.K {
	case "put", "del":
		cat = applyRef(s.r, o)
		if !s.connected && o.K == "put" {
			s.offPut = true
		}
		if s.connected {
			s.regRef = s.r.snapshot()
		}
		return cat, s.connected
	case "batch":
		best := ""
		rank := map[string]int{"put-changed-value": 4, "delete": 3, "put-same-value": 2, "put-new": 1}
		for _, b := range o.Batch {
			c := applyRef(s.r, b)
			if rank[c] > rank[best] {
				best = c
			}
		}
		s.regRef = s.r.snapshot()
		return best, true
	case "disc":
		s.connected = false
		return "disconnect", false
	case "reload":
		cat = reloadCategory(s.regRef, s.r.E)
		perVal := map[string]int{}
		for k, v := range s.r.E {
			if o, ok := s.regRef[k]; !ok || o != v {
				perVal[v]++
				if perVal[v] > 1 {
					s.multiAdd = true
				}
			}
		}
		s.connected = true
		s.regRef = s.r.snapshot()
		return cat, true
	case "monitor":
		s.late = true
		return "monitor", true
	}
	return o.K, false
}

func singleEvents(r *ref, ks []string) []Op {
	var out []Op
	for _, k := range ks {
		for _, v := range values {
			out = append(out, Op{K: "put", Key: k, Val: v})
		}
	}
	for _, k := range ks {
		if _, ok := r.E[k]; ok {
			out = append(out, Op{K: "del", Key: k})
		}
	}
	return out
}

func replayRegRef(path []Op) *regState {
	s := &regState{r: newRef(), connected: true, regRef: map[string]string{}}
	for _, o := range path {
		s.apply(o)
	}
	return s
}

func registryAlphabet(batchDepth int) func(int, []Op) []Op {
	return func(_ int, path []Op) []Op {
		batches := len(path) < batchDepth
		s := replayRegRef(path)
		out := singleEvents(s.r, keys)
		if s.connected {
			out = append(out, Op{K: "disc"})
		}
		// reload: every delivery order of the adds and of the removes the diff contains
		a, c, rm := diffCounts(s.regRef, s.r.E)
		for pa := 0; pa < fact(a+c); pa++ {
			for pr := 0; pr < fact(rm+c); pr++ {
				out = append(out, Op{K: "reload", P: []int{pa, pr}})
			}
		}
		if !s.late {
			// late Monitor: getCurrent ranges over a map; first and last permutation
			// (sorted / reverse sorted) — the late container is a plain one, whose state
			// does not depend on the order (see VContainer.Dump)
			out = append(out, Op{K: "monitor", P: []int{0}})
			if n := len(s.regRef); n > 1 {
				out = append(out, Op{K: "monitor", P: []int{fact(n) - 1}})
			}
		}
		if batches && s.connected {
			// one watch response carrying two events: first on k1, second on k1 or k2
			for _, e1 := range singleEvents(s.r, keys[:1]) {
				r2 := &ref{E: s.r.snapshot(), owner: map[string]string{}}
				applyRef(r2, e1)
				for _, e2 := range singleEvents(r2, keys[:2]) {
					out = append(out, Op{K: "batch", Batch: []Op{e1, e2}})
				}
			}
		}
		return out
	}
}

func toEvent(o Op) discov.VEvent {
	return discov.VEvent{Delete: o.K == "del", Key: o.Key, Val: o.Val}
}

func sortedKVs(m map[string]string) []discov.VKV {
	ks := make([]string, 0, len(m))
	for k := range m {
		ks = append(ks, k)
	}
	sort.Strings(ks)
	out := make([]discov.VKV, 0, len(ks))
	for _, k := range ks {
		out = append(out, discov.VKV{Key: k, Val: m[k]})
	}
	return out
}

func runRegistry(path []Op, log io.Writer) (string, *failure) {
	st := &regState{r: newRef(), connected: true, regRef: map[string]string{}}
	wp, wx := newWatched(false, true), newWatched(true, true)
	var wl *watched
	pp, px := &proxy{target: wp.c.Listener()}, &proxy{target: wx.c.Listener()}
	var pl *proxy
	cl := discov.VNewCluster("svc", pp, px)
	proxies := func() []*proxy {
		if pl != nil {
			return []*proxy{pp, px, pl}
		}
		return []*proxy{pp, px}
	}
	// Known exclusive-only findings (listed classes, see main.go/listedClasses): after
	// registrations the watch did not see, the exclusive container may MISS a value whose latest
	// key is registered. The search expands past such a state; from then on the missing value is
	// "tainted": it may stay missing (same cause, same key) until a registration of that value is
	// delivered by the watch — that re-establishes it by the statement (the key just put IS the
	// most recent registration of the value), and it must be shown again, under a different key.
	tainted := map[string]bool{}
	var known *failure
	for i, o := range path {
		last := i == len(path)-1
		np, nx := wp.notified, wx.notified
		var nl [2]int
		if wl != nil {
			nl = wl.notified
		}
		cat, exec := st.apply(o)
		known = nil
		restored := map[string]bool{} // tainted values this step's watch events register again
		if exec {
			evs := []Op{o}
			if o.K == "batch" {
				evs = o.Batch
			}
			for _, e := range evs {
				if e.K == "put" && tainted[e.Val] {
					restored[e.Val] = true
				}
			}
			// a later event of the same response may legitimately take the value away again
			for v := range restored {
				if !contains(st.r.exclusive(), v) {
					delete(restored, v)
				}
				delete(tainted, v)
			}
		}
		delivered := ""
		if exec {
			switch o.K {
			case "put", "del":
				cl.WatchEvents([]discov.VEvent{toEvent(o)})
			case "batch":
				var evs []discov.VEvent
				for _, b := range o.Batch {
					evs = append(evs, toEvent(b))
				}
				cl.WatchEvents(evs)
			case "reload":
				for _, p := range proxies() {
					p.buffering = true
				}
				cl.Reload(sortedKVs(st.r.E), int64(i+1))
				for _, p := range proxies() {
					delivered = p.flush(o.P)
				}
			case "monitor":
				wl = newWatched(false, true)
				pl = &proxy{target: wl.c.Listener(), buffering: true}
				if err := cl.Monitor(pl); err != nil {
					return "", &failure{"late-monitor:error", "Registry.Monitor on an existing watcher returned " + err.Error()}
				}
				delivered = pl.flush(o.P)
			}
			wp.note(cat)
			wx.note(cat)
			if wl != nil {
				wl.note(cat)
			}
		}
		if log != nil {
			fmt.Fprintf(log, "  step %d %-34s etcd{%s} connected=%v", i+1, o.String(), mapString(st.r.E), st.connected)
			if delivered != "" {
				fmt.Fprintf(log, "  delivered: %s", delivered)
			}
			fmt.Fprintln(log)
		}
		if !st.connected {
			// the view is allowed to lag while the watch is down; a late subscriber must still
			// be handed what the registry holds (the last state it received)
			if o.K == "monitor" {
				m := map[string]bool{}
				for _, v := range st.regRef {
					m[v] = true
				}
				if obj, msg := wl.checkView("late plain listener (watch down)", setOf(m), setOf(m), nl, true); obj != "" && (last || log != nil) {
					return "", &failure{lateClass(wl, obj, cat), msg}
				}
			}
			continue
		}
		// oracles (the containers are read after every connected step, as in part 1/observe)
		var f *failure
		if got := cl.Values(); !sameMap(got, st.r.E) {
			f = &failure{"registry-copy:" + cat, fmt.Sprintf("registry's copy {%s} != etcd {%s}", mapString(got), mapString(st.r.E))}
		}
		objP, msgP := wp.checkView("plain listener", st.r.plain(), st.r.plain(), np, true)
		// exclusive listener: exact as long as it saw every registration; after registrations
		// made while the watch was down a snapshot cannot tell which key of a value registered
		// last, so from then on only: every value whose most recent key is still registered
		// must be shown, and nothing that no registered key has.
		xl, xu := st.r.exclusive(), st.r.exclusive()
		if st.offPut {
			xu = st.r.plain()
		}
		for v := range tainted {
			if !contains(xl, v) {
				delete(tainted, v) // no longer required: nothing left of the transient for this value
			}
		}
		xlFull := xl
		xl = without(xl, tainted)
		objX, msgX := wx.checkView("exclusive listener", xl, xu, nx, true)
		classX := ""
		if objX != "" {
			classX = exclusiveClass(st, classOf(wx, objX, cat, false, st.offPut))
			cur := mustSet(wx.c.Values())
			var hit []string
			for v := range restored {
				if !contains(cur, v) {
					hit = append(hit, v)
				}
			}
			switch {
			case len(hit) > 0:
				classX = "exclusive-only:value-not-restored-by-registration"
				msgX = fmt.Sprintf("exclusive listener: a registration of %v was delivered by the watch, Values()=%s still misses it (registered values %s)", hit, show(cur), want(xlFull, xu))
			case objX == "values" && listedClasses[classX] && admissible(cur, nil, xu):
				// the known transient: only required values are missing; taint them and go on
				for _, v := range xlFull {
					if !contains(cur, v) {
						tainted[v] = true
					}
				}
				known = &failure{classX, msgX}
				wx.shown = cur
				objX = ""
			}
		}
		objL, msgL := "", ""
		if wl != nil {
			objL, msgL = wl.checkView("late plain listener", st.r.plain(), st.r.plain(), nl, true)
		}
		if log != nil {
			fmt.Fprintf(log, "         expected plain=%s exclusive=%s registry{%s} | observed plain=%s exclusive=%s registry{%s}",
				show(st.r.plain()), want(xl, xu), mapString(st.r.E), show(wp.c.Values()), show(wx.c.Values()), mapString(cl.Values()))
			if wl != nil {
				fmt.Fprintf(log, " late=%s", show(wl.c.Values()))
			}
			fmt.Fprintln(log)
		}
		if last || log != nil {
			switch {
			case f != nil:
			case objP != "":
				f = &failure{classOf(wp, objP, cat, true, false), msgP}
			case objL != "":
				f = &failure{lateClass(wl, objL, cat), msgL}
			case objX != "":
				f = &failure{classX, msgX}
			}
			if f != nil {
				return "", f
			}
		}
	}
	key := fmt.Sprintf("%s|c%v|R{%s}|off%v|shown%v%v|%s|%s|%s", st.r.dump(), st.connected, mapString(st.regRef), fmt.Sprint(st.offPut, st.multiAdd), wp.shown, wx.shown, cl.Dump(), wp.c.Dump(), wx.c.Dump())
	if wl != nil {
		key += fmt.Sprintf("|L%v%s", wl.shown, wl.c.Dump())
	}
	if len(tainted) > 0 {
		m := map[string]bool{}
		for v := range tainted {
			m[v] = true
		}
		key += fmt.Sprintf("|T%v", setOf(m))
	}
	return key, known
}

func contains(l []string, x string) bool {
	for _, e := range l {
		if e == x {
			return true
		}
	}
	return false
}

func without(l []string, drop map[string]bool) []string {
	out := []string{}
	for _, e := range l {
		if !drop[e] {
			out = append(out, e)
		}
	}
	return out
}

// exclusiveClass splits the failures only the exclusive listener shows after offline
// registrations by what made the snapshot insufficient.
func exclusiveClass(st *regState, class string) string {
	if class != "exclusive-only:registration-order-lost-by-reload" {
		return class
	}
	if st.multiAdd {
		return "exclusive-only:reload-add-order-decides-latest-key"
	}
	return "exclusive-only:offline-reregistration-invisible-to-reload"
}

// lateClass: a late listener that fails because of an internal inconsistency caused by an
// earlier event has that event's class; otherwise the failure is specific to the late Monitor.
func lateClass(wl *watched, obj, cat string) string {
	if wl.rootCat != "" {
		return classOf(wl, obj, cat, true, false)
	}
	return "late-monitor:" + obj + ":" + cat
}
