package main

import (
	"crypto/sha256"
	"fmt"
	"runtime"
	"sync"
	"time"
)

// pbfs is vlib.BFS with the expansion of one level spread over worker goroutines. The level is
// expanded in parallel (every Run builds its own fresh objects, so runs are independent), then
// merged sequentially in (frontier index, alphabet index) order — exactly the visiting order of
// the sequential search, so states, transitions, the representative (shortest, first) path of
// each state and the first violation of each class do not depend on scheduling.
// Paths are stored as interned op ids and state keys as 128-bit hashes to keep memory flat.
type pbfs struct {
	name        string
	alphabet    func(depth int, path []Op) []Op
	run         func(path []Op) (key string, f *failure)
	maxDepth    int
	deadline    time.Time
	workers     int
	onViolation func(path []Op, f *failure)
	expandPast  func(f *failure) bool // a failing state that came with a state key is expanded if this says so (listed classes)
	onState     func(path []Op, key string)
}

type pbfsResult struct {
	States, Transitions, Runs, MaxDepth, Failures int
	Exhaustive, Closed                            bool
	Cap                                           string
	PerDepth                                      []int
}

type succ struct {
	op   Op
	key  string
	fail *failure
}

func (b *pbfs) search() pbfsResult {
	res := pbfsResult{Exhaustive: true}
	if b.workers <= 0 {
		b.workers = runtime.NumCPU()
	}
	var ops []Op
	intern := map[string]uint16{}
	id := func(o Op) uint16 {
		k := fmt.Sprintf("%+v", o)
		if i, ok := intern[k]; ok {
			return i
		}
		ops = append(ops, o)
		intern[k] = uint16(len(ops) - 1)
		return uint16(len(ops) - 1)
	}
	decode := func(p []uint16) []Op {
		out := make([]Op, len(p), len(p)+1)
		for i, x := range p {
			out[i] = ops[x]
		}
		return out
	}
	hash := func(k string) [16]byte {
		h := sha256.Sum256([]byte(k))
		var o [16]byte
		copy(o[:], h[:16])
		return o
	}
	seen := map[[16]byte]struct{}{}
	k0, f0 := b.run(nil)
	res.Runs++
	res.States = 1
	seen[hash(k0)] = struct{}{}
	if b.onState != nil {
		b.onState(nil, k0)
	}
	if f0 != nil {
		res.Failures++
		if b.onViolation != nil {
			b.onViolation(nil, f0)
		}
		return res
	}
	res.PerDepth = []int{1}
	frontier := [][]uint16{nil}
	for depth := 0; depth < b.maxDepth && len(frontier) > 0; depth++ {
		// expand in chunks so that the deadline is honoured inside a level
		const chunk = 4096
		var next [][]uint16
		for lo := 0; lo < len(frontier); lo += chunk {
			if !b.deadline.IsZero() && time.Now().After(b.deadline) {
				res.Exhaustive = false
				res.Cap = fmt.Sprintf("time box reached at depth %d (every history of length <= %d was covered, %d of %d states of that level expanded)", depth+1, depth, lo, len(frontier))
				return res
			}
			hi := lo + chunk
			if hi > len(frontier) {
				hi = len(frontier)
			}
			out := make([][]succ, hi-lo)
			var wg sync.WaitGroup
			idx := make(chan int, hi-lo)
			for i := lo; i < hi; i++ {
				idx <- i
			}
			close(idx)
			for w := 0; w < b.workers; w++ {
				wg.Add(1)
				go func() {
					defer wg.Done()
					for i := range idx {
						path := decode(frontier[i])
						var ss []succ
						for _, op := range b.alphabet(depth, path) {
							p := append(path[:len(path):len(path)], op)
							key, f := b.run(p)
							ss = append(ss, succ{op, key, f})
						}
						out[i-lo] = ss
					}
				}()
			}
			wg.Wait()
			for i := lo; i < hi; i++ {
				for _, s := range out[i-lo] {
					res.Transitions++
					res.Runs++
					if s.fail != nil {
						res.Failures++
						if b.onViolation != nil {
							b.onViolation(append(decode(frontier[i]), s.op), s.fail)
						}
						if b.expandPast == nil || s.key == "" || !b.expandPast(s.fail) {
							continue // a violating state is not expanded ...
						}
						// ... unless its only violation is a listed (known) class and the part
						// goes on judging behind it: what happens AFTER a known transient
						// (does the view heal when the statement says it is rebuilt?) is explored
					}
					h := hash(s.key)
					if _, ok := seen[h]; ok {
						continue
					}
					seen[h] = struct{}{}
					res.States++
					res.MaxDepth = depth + 1
					np := make([]uint16, len(frontier[i])+1)
					copy(np, frontier[i])
					np[len(np)-1] = id(s.op)
					if b.onState != nil {
						b.onState(append(decode(frontier[i]), s.op), s.key)
					}
					next = append(next, np)
				}
			}
		}
		res.PerDepth = append(res.PerDepth, len(next))
		frontier = next
	}
	res.Closed = len(frontier) == 0
	return res
}
