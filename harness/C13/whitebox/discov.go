//go:build verif

// White-box accessors for the C13 check (package core/discov) and the bridge to
// core/discov/internal (which the harness main may not import).
package discov

import (
	"sort"
	"strings"

	"github.com/zeromicro/go-zero/core/discov/internal"
)

type (
	VKV             = internal.KV
	VEvent          = internal.VEvent
	VCluster        = internal.VCluster
	VUpdateListener = internal.UpdateListener
)

func VNewCluster(key string, ls ...internal.UpdateListener) *internal.VCluster {
	return internal.VNewCluster(key, ls...)
}

// VContainer wraps a real container.
type VContainer struct{ c *container }

func VNewContainer(exclusive bool) *VContainer { return &VContainer{c: newContainer(exclusive)} }

// Listener returns the real container as the registry sees it.
func (v *VContainer) Listener() internal.UpdateListener { return v.c }
func (v *VContainer) OnAdd(kv internal.KV)              { v.c.OnAdd(kv) }
func (v *VContainer) OnDelete(kv internal.KV)           { v.c.OnDelete(kv) }
func (v *VContainer) Values() []string                  { return v.c.getValues() }
func (v *VContainer) AddListener(f func())              { v.c.addListener(f) }

// VSubscriberValues builds a Subscriber around the container and calls the public Values().
func (v *VContainer) SubscriberValues() []string { return (&Subscriber{items: v.c}).Values() }

// Dump renders values (value -> multiset of keys), mapping, dirty and the snapshot (as a set).
// Key lists are sorted: the container only ever tests a list for emptiness, removes all of its
// members (exclusive eviction) or filters one key out of it, so the order inside a list cannot
// influence any later result.
func (v *VContainer) Dump() string {
	c := v.c
	c.lock.Lock()
	defer c.lock.Unlock()
	var b strings.Builder
	vs := make([]string, 0, len(c.values))
	for val := range c.values {
		vs = append(vs, val)
	}
	sort.Strings(vs)
	b.WriteString("V{")
	for _, val := range vs {
		ks := append([]string(nil), c.values[val]...)
		sort.Strings(ks)
		b.WriteString(val + ":" + strings.Join(ks, "+") + ";")
	}
	b.WriteString("}M{")
	ks := make([]string, 0, len(c.mapping))
	for k := range c.mapping {
		ks = append(ks, k)
	}
	sort.Strings(ks)
	for _, k := range ks {
		b.WriteString(k + ">" + c.mapping[k] + ";")
	}
	b.WriteString("}")
	if c.dirty.True() {
		b.WriteString("D")
	} else {
		b.WriteString("d")
	}
	if s, ok := c.snapshot.Load().([]string); ok {
		ss := append([]string(nil), s...)
		sort.Strings(ss)
		b.WriteString("S[" + strings.Join(ss, ",") + "]")
	} else {
		b.WriteString("S-")
	}
	return b.String()
}

// VDumpSubscriber dumps the container inside a Subscriber.
func VDumpSubscriber(s *Subscriber) string { return (&VContainer{c: s.items}).Dump() }

// Consistent reports whether values is exactly the inverse index of mapping (every key listed
// under a value maps to it, every mapped key is listed under its value). Used only to name the
// cause class of a violation (first step after which the container is internally inconsistent),
// never as an oracle.
func (v *VContainer) Consistent() bool {
	c := v.c
	c.lock.Lock()
	defer c.lock.Unlock()
	for val, ks := range c.values {
		for _, k := range ks {
			if c.mapping[k] != val {
				return false
			}
		}
	}
	for k, val := range c.mapping {
		found := false
		for _, x := range c.values[val] {
			found = found || x == k
		}
		if !found {
			return false
		}
	}
	return true
}

func VConsistentSubscriber(s *Subscriber) bool { return (&VContainer{c: s.items}).Consistent() }

// ---- end-to-end part: bridges to the process-global registry ----

type VEtcdClient = internal.EtcdClient

func VResetGlobal()                                        { internal.VResetGlobal() }
func VInjectClient(eps []string, cli internal.EtcdClient)  { internal.VInjectClient(eps, cli) }
func VReloadGlobal(eps []string, cli internal.EtcdClient) bool { return internal.VReloadGlobal(eps, cli) }
func VGlobalValues(eps []string, key string) string        { return internal.VGlobalValues(eps, key) }
func VGlobalListeners(eps []string, key string, exact bool) int { return internal.VGlobalListeners(eps, key, exact) }
func VGlobalValuesOf(eps []string, key string, exact bool) string { return internal.VGlobalValuesOf(eps, key, exact) }
