//go:build verif

// Bridge for the C13 check: the harness main cannot import zrpc/resolver/internal/..., so the
// accessors are re-exported from package zrpc/resolver.
package resolver

import (
	"github.com/zeromicro/go-zero/zrpc/resolver/internal"
	"github.com/zeromicro/go-zero/zrpc/resolver/internal/kube"
	gresolver "google.golang.org/grpc/resolver"
)

const VSubsetSize = internal.VSubsetSize

type VEventHandler = kube.EventHandler

func VNewEventHandler(update func([]string)) *kube.EventHandler { return kube.NewEventHandler(update) }
func VSubset(set []string, sub int) []string                    { return internal.VSubset(set, sub) }
func VDiscovBuild(hosts, key string, cc gresolver.ClientConn) (gresolver.Resolver, error) {
	return internal.VDiscovBuild(hosts, key, cc)
}
func VDumpResolver(r gresolver.Resolver) string { return internal.VDumpResolver(r) }
func VConsistentResolver(r gresolver.Resolver) bool { return internal.VConsistentResolver(r) }
func VResolverValues(r gresolver.Resolver) []string { return internal.VResolverValues(r) }
