//go:build verif

// White-box accessor for the C13 check (package zrpc/resolver/internal/kube).
package kube

import "sort"

// VDump returns the handler's endpoint set, sorted.
func (h *EventHandler) VDump() []string {
	h.lock.Lock()
	defer h.lock.Unlock()
	out := make([]string, 0, len(h.endpoints))
	for k := range h.endpoints {
		out = append(out, k)
	}
	sort.Strings(out)
	return out
}
