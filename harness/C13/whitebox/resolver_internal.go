//go:build verif

// White-box accessors for the C13 check (package zrpc/resolver/internal).
package internal

import (
	"net/url"

	"github.com/zeromicro/go-zero/core/discov"
	"google.golang.org/grpc/resolver"
)

const VSubsetSize = subsetSize

// VSubset calls the real subset.
func VSubset(set []string, sub int) []string { return subset(set, sub) }

// VDiscovBuild calls the real discovBuilder.Build for discov://<hosts>/<key>.
func VDiscovBuild(hosts, key string, cc resolver.ClientConn) (resolver.Resolver, error) {
	u, err := url.Parse(DiscovScheme + "://" + hosts + "/" + key)
	if err != nil {
		return nil, err
	}
	var b discovBuilder
	return b.Build(resolver.Target{URL: *u}, cc, resolver.BuildOptions{})
}

// VDumpResolver dumps the container of the Subscriber a discovResolver holds.
func VDumpResolver(r resolver.Resolver) string {
	return discov.VDumpSubscriber(r.(*discovResolver).sub)
}

func VConsistentResolver(r resolver.Resolver) bool {
	return discov.VConsistentSubscriber(r.(*discovResolver).sub)
}

// VResolverValues calls Values() of the Subscriber a discovResolver holds.
func VResolverValues(r resolver.Resolver) []string { return r.(*discovResolver).sub.Values() }
