//go:build verif

// White-box accessors for the C13 check (package core/discov/internal). They only construct
// internals and call the unexported methods an in-package test could call; no behaviour is
// reimplemented here.
package internal

import (
	"context"
	"sort"

	"github.com/zeromicro/go-zero/core/syncx"
	"go.etcd.io/etcd/api/v3/etcdserverpb"
	"go.etcd.io/etcd/api/v3/mvccpb"
	clientv3 "go.etcd.io/etcd/client/v3"
	"google.golang.org/grpc"
)

// VEvent is one etcd watch event as the server would send it (DELETE carries no value).
type VEvent struct {
	Delete bool
	Key    string
	Val    string
}

// VCluster is a real cluster with one watcher, reachable through a private real Registry.
type VCluster struct {
	c    *cluster
	key  watchKey
	reg  *Registry
	eps  []string
	wkey string
}

var vEndpoints = []string{"verif-c13.invalid:2379"}

// VNewCluster builds a cluster as Registry.getOrCreateCluster + cluster.addListener would,
// without dialling etcd: newCluster, then the real addListener for every listener.
func VNewCluster(key string, listeners ...UpdateListener) *VCluster {
	eps := append([]string(nil), vEndpoints...)
	c := newCluster(eps)
	wk := watchKey{key: key}
	for _, l := range listeners {
		c.addListener(wk, l)
	}
	if len(listeners) == 0 {
		c.lock.Lock()
		c.watchers[wk] = newWatchValue()
		c.lock.Unlock()
	}
	reg := &Registry{clusters: map[string]*cluster{getClusterKey(eps): c}}
	return &VCluster{c: c, key: wk, reg: reg, eps: eps, wkey: key}
}

// VInstallGlobal makes the cluster the one the process-global registry returns for its
// endpoints, so that discov.NewSubscriber (-> GetRegistry().Monitor) reaches it without a
// network. Returns the endpoints to use.
func (v *VCluster) VInstallGlobal() []string {
	registry.lock.Lock()
	registry.clusters[getClusterKey(v.eps)] = v.c
	registry.lock.Unlock()
	return append([]string(nil), v.eps...)
}

// WatchEvents feeds one watch response (a batch of events) to the real handleWatchEvents.
func (v *VCluster) WatchEvents(evs []VEvent) {
	var events []*clientv3.Event
	for _, e := range evs {
		if e.Delete {
			events = append(events, &clientv3.Event{Type: clientv3.EventTypeDelete, Kv: &mvccpb.KeyValue{Key: []byte(e.Key)}})
		} else {
			events = append(events, &clientv3.Event{Type: clientv3.EventTypePut, Kv: &mvccpb.KeyValue{Key: []byte(e.Key), Value: []byte(e.Val)}})
		}
	}
	v.c.handleWatchEvents(context.Background(), v.key, events)
}

// vSnapshotClient is an EtcdClient whose Get returns a fixed snapshot; nothing else is used
// by cluster.load.
type vSnapshotClient struct {
	EtcdClient // nil: any other method would panic (none is called by load)
	kvs        []KV
	rev        int64
	gets       int
	lastKey    string
}

func (s *vSnapshotClient) Ctx() context.Context               { return context.Background() }
func (s *vSnapshotClient) ActiveConnection() *grpc.ClientConn { return nil }
func (s *vSnapshotClient) Get(_ context.Context, key string, _ ...clientv3.OpOption) (*clientv3.GetResponse, error) {
	s.gets++
	s.lastKey = key
	resp := &clientv3.GetResponse{Header: &etcdserverpb.ResponseHeader{Revision: s.rev}}
	for _, kv := range s.kvs {
		resp.Kvs = append(resp.Kvs, &mvccpb.KeyValue{Key: []byte(kv.Key), Value: []byte(kv.Val)})
	}
	return resp, nil
}

// Reload runs the real cluster.load (the function cluster.reload and the ErrCompacted branch of
// cluster.watch call) against a snapshot; load converts the response and calls handleChanges.
// kvs are given in key order, as an etcd range response is. Returns the revision load returned.
func (v *VCluster) Reload(kvs []KV, rev int64) int64 {
	cli := &vSnapshotClient{kvs: kvs, rev: rev}
	return v.c.load(cli, v.key)
}

// HandleChanges calls the real handleChanges directly.
func (v *VCluster) HandleChanges(kvs []KV) { v.c.handleChanges(v.key, kvs) }

// Monitor is the real Registry.Monitor on a cluster/watcher that already exist (late subscriber).
func (v *VCluster) Monitor(l UpdateListener) error {
	return v.reg.Monitor(append([]string(nil), v.eps...), v.wkey, false, l)
}

// Unmonitor is the real Registry.Unmonitor (what Subscriber.Close calls) for one listener of the watcher.
func (v *VCluster) Unmonitor(l UpdateListener) {
	v.reg.Unmonitor(append([]string(nil), v.eps...), v.wkey, false, l)
}

// HasWatcher reports whether the cluster still has a watcher for the key (Unmonitor deletes it
// when the last listener leaves).
func (v *VCluster) HasWatcher() bool {
	v.c.lock.RLock()
	defer v.c.lock.RUnlock()
	_, ok := v.c.watchers[v.key]
	return ok
}

// Values returns a copy of the registry's copy of the etcd state (watchValue.values).
func (v *VCluster) Values() map[string]string {
	v.c.lock.RLock()
	defer v.c.lock.RUnlock()
	out := map[string]string{}
	if w, ok := v.c.watchers[v.key]; ok {
		for k, val := range w.values {
			out[k] = val
		}
	}
	return out
}

// Dump is a canonical rendering of watchValue.values and the listener count.
func (v *VCluster) Dump() string {
	m := v.Values()
	ks := make([]string, 0, len(m))
	for k := range m {
		ks = append(ks, k)
	}
	sort.Strings(ks)
	s := ""
	for _, k := range ks {
		s += k + "=" + m[k] + ","
	}
	v.c.lock.RLock()
	n := 0
	if w, ok := v.c.watchers[v.key]; ok {
		n = len(w.listeners)
	}
	v.c.lock.RUnlock()
	return s + "#l" + string(rune('0'+n))
}

// ---- end-to-end part (controlled scheduler): the process-global registry with an injected client ----

// VResetGlobal empties the process-global registry and connection manager (fresh state per
// execution; what an in-package test does between cases).
func VResetGlobal() {
	registry.lock.Lock()
	registry.clusters = make(map[string]*cluster)
	registry.lock.Unlock()
	connManager = syncx.NewResourceManager()
}

// VInjectClient makes cli the etcd client of the cluster with these endpoints, the way
// cluster.getClient would cache the result of NewClient — without cluster.newClient's
// connectivity watcher, which needs a real *grpc.ClientConn.
func VInjectClient(endpoints []string, cli EtcdClient) {
	connManager.Inject(getClusterKey(append([]string(nil), endpoints...)), cli)
}

// VReloadGlobal calls the real cluster.reload of the global registry's cluster (what the
// connectivity watcher's listener does with `go c.reload(cli)` after a reconnect).
func VReloadGlobal(endpoints []string, cli EtcdClient) bool {
	c, ok := registry.getCluster(append([]string(nil), endpoints...))
	if !ok {
		return false
	}
	c.reload(cli)
	return true
}

// VGlobalValues renders the registry's copy (watchValue.values) of one watched prefix of the
// global registry's cluster: "k=v,k=v" in key order, "-" if there is no such watcher.
func VGlobalValues(endpoints []string, key string) string {
	c, ok := registry.getCluster(append([]string(nil), endpoints...))
	if !ok {
		return "-"
	}
	c.lock.RLock()
	defer c.lock.RUnlock()
	w, ok := c.watchers[watchKey{key: key}]
	if !ok {
		return "-"
	}
	ks := make([]string, 0, len(w.values))
	for k := range w.values {
		ks = append(ks, k)
	}
	sort.Strings(ks)
	s := ""
	for _, k := range ks {
		s += k + "=" + w.values[k] + ","
	}
	return s
}

// VGlobalListeners: number of listeners of one watcher of the global registry's cluster, -1 if
// there is no such watcher (coverage signature of the e2e part only, never an oracle).
func VGlobalListeners(endpoints []string, key string, exact bool) int {
	c, ok := registry.getCluster(append([]string(nil), endpoints...))
	if !ok {
		return -1
	}
	c.lock.RLock()
	defer c.lock.RUnlock()
	w, ok := c.watchers[watchKey{key: key, exactMatch: exact}]
	if !ok {
		return -1
	}
	return len(w.listeners)
}

// VGlobalValuesOf is VGlobalValues for an exact-match watcher as well.
func VGlobalValuesOf(endpoints []string, key string, exact bool) string {
	c, ok := registry.getCluster(append([]string(nil), endpoints...))
	if !ok {
		return "-"
	}
	c.lock.RLock()
	defer c.lock.RUnlock()
	w, ok := c.watchers[watchKey{key: key, exactMatch: exact}]
	if !ok {
		return "-"
	}
	ks := make([]string, 0, len(w.values))
	for k := range w.values {
		ks = append(ks, k)
	}
	sort.Strings(ks)
	s := ""
	for _, k := range ks {
		s += k + "=" + w.values[k] + ","
	}
	return s
}
