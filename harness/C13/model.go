package main

import (
	"fmt"
	"sort"
	"strings"
)

// ---------------------------------------------------------------------------------------------
// Operations (shared by all parts; also the replay format)
// ---------------------------------------------------------------------------------------------

// Op is one step of a history. Which fields are used depends on K:
//
//	etcd side:   put(Key,Val) del(Key) batch(Batch) disc reload(P) monitor(P)
//	kube side:   tcreate/tmodify (truth only, informer not started)  get  start
//	             create/modify(Set,Layout)  resync  delete
type Op struct {
	K       string `json:"k"`
	Key     string `json:"key,omitempty"`
	Val     string `json:"val,omitempty"`
	WithVal bool   `json:"with_val,omitempty"` // container part: OnDelete carries the old value (as handleChanges sends it) instead of "" (as a watch DELETE does)
	P       []int  `json:"perm,omitempty"`     // delivery order choice for each run of same-kind emissions (index into the permutations of the key-sorted run)
	Batch   []Op   `json:"batch,omitempty"`
	Slot    string `json:"slot,omitempty"`   // leave part: listener slot (a, b, c) that joins / leaves
	Leave   string `json:"leave,omitempty"`  // leave part, on an event: "x@y" = listener x is unmonitored from inside listener y's callback while this event is delivered
	Set     int    `json:"set,omitempty"`    // kube: bit mask over ip1..ip3
	Layout  int    `json:"layout,omitempty"` // kube: how the addresses are spread over EndpointSubsets
}

func (o Op) String() string {
	if o.Leave != "" {
		l := o.Leave
		o.Leave = ""
		return o.String() + "[unmonitor " + l + "]"
	}
	switch o.K {
	case "join", "leave":
		return fmt.Sprintf("%s(%s)", o.K, o.Slot)
	case "put":
		return fmt.Sprintf("put(%s=%s)", o.Key, o.Val)
	case "del":
		if o.WithVal {
			return fmt.Sprintf("del(%s,with-old-value)", o.Key)
		}
		return fmt.Sprintf("del(%s)", o.Key)
	case "batch":
		var s []string
		for _, b := range o.Batch {
			s = append(s, b.String())
		}
		return "batch[" + strings.Join(s, ",") + "]"
	case "reload", "monitor":
		return fmt.Sprintf("%s(order=%v)", o.K, o.P)
	case "tcreate", "tmodify", "create", "modify":
		return fmt.Sprintf("%s(%s,layout%d)", o.K, strings.Join(ipSet(o.Set), "+"), o.Layout)
	}
	return o.K
}

func pathString(p []Op) string {
	var s []string
	for _, o := range p {
		s = append(s, o.String())
	}
	return strings.Join(s, " ; ")
}

// Case is a replayable failing case.
type Case struct {
	Part    string `json:"part"`              // container | registry | kube | glue | subset | build
	Observe bool   `json:"observe,omitempty"` // container part: read Values() after every step (and inside the listener)
	N       int    `json:"n,omitempty"`       // glue/subset/build: number of seeded values
	Ops     []Op   `json:"ops"`
	// e2e part: scenario name + the explorer's choice sequence
	Scenario string   `json:"scenario,omitempty"`
	Choices  []int    `json:"choices,omitempty"`
	Msg      string   `json:"msg,omitempty"`
	Trace    []string `json:"trace,omitempty"`
}

// failure is the error type returned by the Run functions: it carries the cause class.
type failure struct {
	class string
	msg   string
}

func (f *failure) Error() string { return f.msg }

// ---------------------------------------------------------------------------------------------
// Reference model of the etcd prefix and of what a subscriber must show (written from the
// property statement; shares no code with go-zero).
// ---------------------------------------------------------------------------------------------

var (
	keys   = []string{"svc/k1", "svc/k2", "svc/k3"}
	values = []string{"v1", "v2"}
)

type ref struct {
	E     map[string]string // key -> value currently registered under the prefix
	owner map[string]string // value -> key of the most recent registration (put) of that value
}

func newRef() *ref { return &ref{E: map[string]string{}, owner: map[string]string{}} }

// put registers key=val; returns the category of the event.
func (r *ref) put(k, v string) string {
	old, ok := r.E[k]
	r.E[k] = v
	r.owner[v] = k
	switch {
	case !ok:
		return "put-new"
	case old == v:
		return "put-same-value"
	default:
		return "put-changed-value"
	}
}

func (r *ref) del(k string) string {
	delete(r.E, k)
	return "delete"
}

// plain: the set of values of the keys currently registered.
func (r *ref) plain() []string {
	m := map[string]bool{}
	for _, v := range r.E {
		m[v] = true
	}
	return setOf(m)
}

// exclusive: only the most recently registered key of each value counts: a value is shown iff
// the key that registered it last is still registered with that value.
func (r *ref) exclusive() []string {
	m := map[string]bool{}
	for v, k := range r.owner {
		if cur, ok := r.E[k]; ok && cur == v {
			m[v] = true
		}
	}
	return setOf(m)
}

func (r *ref) snapshot() map[string]string {
	m := map[string]string{}
	for k, v := range r.E {
		m[k] = v
	}
	return m
}

func (r *ref) dump() string {
	return "E{" + mapString(r.E) + "}O{" + mapString(r.owner) + "}"
}

// diff of a reload: how many keys are new / changed value / removed between the registry's
// copy (old) and the snapshot (new).
func diffCounts(old, nw map[string]string) (added, changed, removed int) {
	for k, v := range nw {
		if o, ok := old[k]; !ok {
			added++
		} else if o != v {
			changed++
		}
	}
	for k := range old {
		if _, ok := nw[k]; !ok {
			removed++
		}
	}
	return
}

func reloadCategory(old, nw map[string]string) string {
	a, c, rm := diffCounts(old, nw)
	switch {
	case c > 0:
		return "reload-changed-value"
	case a > 0 && rm > 0:
		return "reload-new+removed"
	case a > 0:
		return "reload-new"
	case rm > 0:
		return "reload-removed"
	}
	return "reload-nochange"
}

// ---------------------------------------------------------------------------------------------
// small helpers
// ---------------------------------------------------------------------------------------------

func setOf(m map[string]bool) []string {
	out := make([]string, 0, len(m))
	for k := range m {
		out = append(out, k)
	}
	sort.Strings(out)
	return out
}

// asSet sorts a copy and reports duplicates.
func asSet(l []string) (set []string, dup bool) {
	m := map[string]bool{}
	for _, s := range l {
		if m[s] {
			dup = true
		}
		m[s] = true
	}
	return setOf(m), dup
}

func sameSet(impl []string, want []string) bool {
	s, _ := asSet(impl)
	return strings.Join(s, "\x00") == strings.Join(want, "\x00")
}

func show(l []string) string {
	s, _ := asSet(l)
	return "{" + strings.Join(s, ",") + "}"
}

func mapString(m map[string]string) string {
	ks := make([]string, 0, len(m))
	for k := range m {
		ks = append(ks, k)
	}
	sort.Strings(ks)
	var b strings.Builder
	for _, k := range ks {
		b.WriteString(k + "=" + m[k] + ",")
	}
	return b.String()
}

func sameMap(a, b map[string]string) bool { return mapString(a) == mapString(b) }

var permCache = map[int][][]int{}

func init() {
	for n := 0; n <= 4; n++ {
		permCache[n] = genPerms(n)
	}
}

// genPerms: all permutations of 0..n-1 in lexicographic order (index 0 = identity).
func genPerms(n int) [][]int {
	var out [][]int
	var rec func(cur []int, used []bool)
	rec = func(cur []int, used []bool) {
		if len(cur) == n {
			out = append(out, append([]int(nil), cur...))
			return
		}
		for i := 0; i < n; i++ {
			if !used[i] {
				used[i] = true
				rec(append(cur, i), used)
				used[i] = false
			}
		}
	}
	rec(nil, make([]bool, n))
	return out
}

func perms(n int) [][]int {
	if p, ok := permCache[n]; ok {
		return p
	}
	return genPerms(n)
}

func fact(n int) int {
	f := 1
	for i := 2; i <= n; i++ {
		f *= i
	}
	return f
}

var ips = []string{"10.0.0.1", "10.0.0.2", "10.0.0.3"}

func ipSet(mask int) []string {
	var out []string
	for i, ip := range ips {
		if mask&(1<<i) != 0 {
			out = append(out, ip)
		}
	}
	return out
}
