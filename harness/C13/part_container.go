package main

import (
	"fmt"
	"io"

	"github.com/zeromicro/go-zero/core/discov"
)

// Part 1: the subscriber's container alone (one plain and one exclusive container fed the same
// events), driven exactly as the registry's watch path would drive it from an etcd map:
//   put(k,v)  -> OnAdd(KV{k,v})                       (new key, same value again, changed value)
//   del(k)    -> OnDelete(KV{k,""}) or OnDelete(KV{k,old})   only for a registered key
//
// Two modes: observe=true reads Values() after every step and inside the change listener (so the
// snapshot is always populated and dirty must be set again by the next event); observe=false
// reads nothing until after the last step (dirty stays set across events).

type watched struct {
	c        *discov.VContainer
	notified [2]int      // per attached listener
	seen     [2][]string // Values() read inside the listener at its last call (observe mode)
	observe  bool
	shown    []string // value set this container showed at the last (passed) check
	rootCat  string   // category of the first step after which the container was internally inconsistent (class naming only)
	onNotify func()   // leave part: runs once, inside the container's first listener, at its next notification (re-entrant Unmonitor)
}

func newWatched(exclusive, observe bool) *watched {
	w := &watched{c: discov.VNewContainer(exclusive), observe: observe, shown: []string{}}
	for i := 0; i < 2; i++ {
		i := i
		w.c.AddListener(func() {
			w.notified[i]++
			if i == 0 && w.onNotify != nil {
				f := w.onNotify
				w.onNotify = nil
				f()
			}
			if w.observe {
				w.seen[i] = append([]string{}, w.c.Values()...)
			}
		})
	}
	return w
}

// note records the root-cause category (white-box, for the class name only).
func (w *watched) note(cat string) {
	if w.rootCat == "" && !w.c.Consistent() {
		w.rootCat = cat
	}
}

func admissible(got, lower, upper []string) bool {
	in := func(a, b []string) bool { // a ⊆ b
		m := map[string]bool{}
		for _, x := range b {
			m[x] = true
		}
		for _, x := range a {
			if !m[x] {
				return false
			}
		}
		return true
	}
	s, _ := asSet(got)
	return in(lower, s) && in(s, upper)
}

func want(lower, upper []string) string {
	if sameSet(lower, upper) {
		return show(lower)
	}
	return "between " + show(lower) + " and " + show(upper)
}

// checkView compares one container with the reference after a step. The reference demands
// lower ⊆ Values() ⊆ upper (lower == upper except for the exclusive container after registrations
// it could not observe). n0 = notification counters before the step.
func (w *watched) checkView(name string, lower, upper []string, n0 [2]int, inListener bool) (obj, msg string) {
	v1 := append([]string{}, w.c.Values()...)
	if !admissible(v1, lower, upper) {
		return "values", fmt.Sprintf("%s Values()=%s, registered values=%s", name, show(v1), want(lower, upper))
	}
	v2 := append([]string{}, w.c.Values()...) // served from the snapshot now
	if !sameSet(v2, mustSet(v1)) {
		return "snapshot", fmt.Sprintf("%s second Values()=%s (snapshot) after first Values()=%s", name, show(v2), show(v1))
	}
	if v3 := w.c.SubscriberValues(); !sameSet(v3, mustSet(v1)) {
		return "snapshot", fmt.Sprintf("%s Subscriber.Values()=%s after Values()=%s", name, show(v3), show(v1))
	}
	if !admissible(w.shown, lower, upper) { // what it showed before is no longer right: a change happened
		for i := 0; i < 2; i++ {
			if w.notified[i] == n0[i] {
				return "notify", fmt.Sprintf("%s listener #%d not notified although the value set changed %s -> %s", name, i, show(w.shown), want(lower, upper))
			}
			if inListener && !admissible(w.seen[i], lower, upper) {
				return "notify", fmt.Sprintf("%s listener #%d read Values()=%s when last notified, registered values=%s (notified before the change was applied?)", name, i, show(w.seen[i]), want(lower, upper))
			}
		}
	}
	w.shown = mustSet(v1)
	return "", ""
}

func mustSet(l []string) []string { s, _ := asSet(l); return s }

func containerAlphabet(_ int, path []Op) []Op {
	r := newRef()
	for _, o := range path {
		applyRef(r, o)
	}
	var out []Op
	for _, k := range keys {
		for _, v := range values {
			out = append(out, Op{K: "put", Key: k, Val: v})
		}
	}
	for _, k := range keys {
		if _, ok := r.E[k]; ok {
			out = append(out, Op{K: "del", Key: k}, Op{K: "del", Key: k, WithVal: true})
		}
	}
	return out
}

func applyRef(r *ref, o Op) string {
	switch o.K {
	case "put":
		return r.put(o.Key, o.Val)
	case "del":
		return r.del(o.Key)
	}
	return o.K
}

// classOf builds the cause key (smallest failing shape):
//   - if the failing container was internally inconsistent (values not the inverse of mapping)
//     since some step, the cause is the category of THAT step (e.g. a put that changed a key's
//     value), whatever later step exposed it and whichever container shows it;
//   - otherwise <what is wrong>:<category of the failing step>; failures that only the exclusive
//     container shows are prefixed, and those after registrations made while the watch was down
//     (where a reload cannot tell the container which key of a value registered last: the
//     delivery order is the map's, a re-registration with the same value is no diff) are one class.
func classOf(w *watched, obj, cat string, plain bool, offline bool) string {
	switch {
	case w.rootCat != "":
		return obj + ":" + w.rootCat
	case plain:
		return obj + ":" + cat
	case offline:
		return "exclusive-only:registration-order-lost-by-reload"
	}
	return "exclusive-only:" + obj + ":" + cat
}

func runContainer(observe bool, path []Op, log io.Writer) (string, *failure) {
	r := newRef()
	wp, wx := newWatched(false, observe), newWatched(true, observe)
	key := ""
	for i, o := range path {
		last := i == len(path)-1
		np, nx := wp.notified, wx.notified
		if !observe && last {
			// nothing was read so far; the sets shown before this step are the reference's
			// (every prefix was validated when it was expanded)
			wp.shown, wx.shown = r.plain(), r.exclusive()
		}
		var old string
		if o.K == "del" && o.WithVal {
			old = r.E[o.Key]
		}
		cat := applyRef(r, o)
		for _, w := range []*watched{wp, wx} {
			switch o.K {
			case "put":
				w.c.OnAdd(discov.VKV{Key: o.Key, Val: o.Val})
			case "del":
				w.c.OnDelete(discov.VKV{Key: o.Key, Val: old})
			}
			w.note(cat)
		}
		if log != nil {
			fmt.Fprintf(log, "  step %d %-28s etcd{%s}\n", i+1, o.String(), mapString(r.E))
		}
		if !observe && !last {
			continue // nothing is read until the history is over
		}
		if !observe {
			// the state the successors continue from is the one BEFORE the first read
			key = fmt.Sprintf("o%v|%s|%s|%s", observe, r.dump(), wp.c.Dump(), wx.c.Dump())
		}
		objP, msgP := wp.checkView("plain container", r.plain(), r.plain(), np, observe)
		objX, msgX := wx.checkView("exclusive container", r.exclusive(), r.exclusive(), nx, observe)
		if log != nil {
			fmt.Fprintf(log, "         expected plain=%s exclusive=%s | observed plain=%s exclusive=%s\n",
				show(r.plain()), show(r.exclusive()), show(wp.c.Values()), show(wx.c.Values()))
		}
		if last || log != nil {
			if objP != "" {
				return key, &failure{classOf(wp, objP, cat, true, false), msgP}
			} else if objX != "" {
				return key, &failure{classOf(wx, objX, cat, false, false), msgX}
			}
		}
	}
	if observe || len(path) == 0 {
		key = fmt.Sprintf("o%v|%s|%s|%s", observe, r.dump(), wp.c.Dump(), wx.c.Dump())
	}
	return key, nil
}
