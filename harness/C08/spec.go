package main

// The bounded family of struct types: field specs, tag rendering, reflect.StructOf construction.
// Nothing in this file decides a verdict.

import (
	"fmt"
	"reflect"
	"strings"
	"sync"
)

type Kind int

const (
	KInt Kind = iota
	KInt8
	KUint
	KFloat
	KString
	KBool
	KPInt
	KPString
	KNested // struct{ X int `…:"x,<value options>"` }
	KSlice  // []int
	KMap    // map[string]int
	KSliceS // []string (appended last: the enumeration of the older kinds keeps its order)
	KSliceB // []bool
	numKinds
	// KEmbed lies outside the kinds primarySpecs enumerates (keys.go adds it to the key-name groups): an
	// EMBEDDED struct{ X int } whose X carries the field's whole tag (key, optionality, value options);
	// the library flattens it: X is looked up in the same map as the siblings. EmbOpt: the embedded
	// struct itself is tagged `,optional`.
	KEmbed = numKinds
)

var kindNames = [...]string{"int", "int8", "uint", "float64", "string", "bool", "*int", "*string", "struct{X int}", "[]int", "map[string]int", "[]string", "[]bool", "embedded struct{X int}"}

func (k Kind) String() string { return kindNames[k] }
func (k Kind) numeric() bool  { return k == KInt || k == KInt8 || k == KUint || k == KFloat || k == KPInt || k == KEmbed }
func (k Kind) integer() bool  { return k == KInt || k == KInt8 || k == KUint || k == KPInt || k == KEmbed }
func (k Kind) stringy() bool  { return k == KString || k == KPString }
func (k Kind) scalar() bool   { return k <= KPString || k == KEmbed }
func (k Kind) slice() bool    { return k == KSlice || k == KSliceS || k == KSliceB }
func (k Kind) refKind() bool  { return k.pointer() || k == KNested || k == KMap || k.slice() }
func (k Kind) pointer() bool  { return k == KPInt || k == KPString }

// optional modes
const (
	OptNone   = 0
	OptPlain  = 1 // optional
	OptDep    = 2 // optional=Other
	OptNotDep = 3 // optional=!Other
)

// Field is one field of a generated struct type. For KNested the value options (Def, Rng, Opts,
// Str, InnerOpt) sit on the inner field X and Opt/Dep on the outer field.
type Field struct {
	Kind     Kind   `json:"kind"`
	Opt      int    `json:"opt"`
	Dep      int    `json:"dep"`                // sibling index for OptDep/OptNotDep
	Def      string `json:"def,omitempty"`      // default=<Def>, "" = none
	Rng      int    `json:"rng"`                // index into ranges, -1 = none
	Opts     bool   `json:"opts,omitempty"`     // options=2|7 (numbers) / options=a|b (strings)
	Str      bool   `json:"str,omitempty"`      // `string`
	InnerOpt bool   `json:"innerOpt,omitempty"` // KNested only: X is `optional`
	Src      string `json:"src,omitempty"`      // httpx.Parse entry only: form|path|header|json
	EmbOpt   bool   `json:"embOpt,omitempty"`   // KEmbed only: the embedded struct is `,optional`
	Key      string `json:"key,omitempty"`      // key name in the tag; "" = the one-letter name of the position (keys.go: dotted and other multi-character names)
}

type rangeSpec struct {
	text         string
	lo, hi       float64
	hasLo, hasHi bool
	loIn, hiIn   bool
}

// The first 8 are the quick tier (DESIGN §3 C08); thorough adds the remaining bracket forms.
var ranges = []rangeSpec{
	{"[1:5]", 1, 5, true, true, true, true},
	{"(1:5)", 1, 5, true, true, false, false},
	{"[1:5)", 1, 5, true, true, true, false},
	{"(1:5]", 1, 5, true, true, false, true},
	{"[:5]", 0, 5, false, true, true, true},
	{"[1:]", 1, 0, true, false, true, true},
	{"(:5)", 0, 5, false, true, false, false},
	{"(1:)", 1, 0, true, false, false, false},
	{"[:5)", 0, 5, false, true, true, false},
	{"(1:]", 1, 0, true, false, false, true},
	{"(:5]", 0, 5, false, true, false, true},
	{"[1:)", 1, 0, true, false, true, false},
}

const nQuickRanges = 8 // incl. the exclusive half-open forms (:5) and (1:) — a seeded change broke exactly those

var (
	numOptions = []string{"2", "7"} // 2 lies inside every range of the table, 7 outside the bounded ones
	strOptions = []string{"a", "b"}
)

func keyOf(i int) string   { return string(rune('a' + i)) }

// keyName: the key text field i carries in its tag.
func keyName(fs []Field, i int) string {
	if fs[i].Key != "" {
		return fs[i].Key
	}
	return keyOf(i)
}

// dotted: the key text contains the path delimiter ('.'): a path into nested documents for the
// json / key / conf / header unmarshalers, one opaque parameter name for form / path.
func (f Field) dotted() bool { return strings.Contains(f.Key, ".") }
func goName(i int) string  { return string(rune('A' + i)) }
func (f Field) inner() Field { // the spec of X of a nested field, as a free-standing int field
	o := OptNone
	if f.InnerOpt {
		o = OptPlain
	}
	return Field{Kind: KInt, Opt: o, Def: f.Def, Rng: f.Rng, Opts: f.Opts, Str: f.Str}
}

func valueOptions(f Field) string {
	var b strings.Builder
	if f.Def != "" {
		b.WriteString(",default=" + f.Def)
	}
	if f.Rng >= 0 {
		b.WriteString(",range=" + ranges[f.Rng].text)
	}
	if f.Opts {
		if f.Kind.stringy() {
			b.WriteString(",options=" + strings.Join(strOptions, "|"))
		} else {
			b.WriteString(",options=" + strings.Join(numOptions, "|"))
		}
	}
	if f.Str {
		b.WriteString(",string")
	}
	return b.String()
}

// tagValue renders the text after `key:"` for field i.
func tagValue(fs []Field, i int) string {
	f := fs[i]
	var b strings.Builder
	b.WriteString(keyName(fs, i))
	switch f.Opt {
	case OptPlain:
		b.WriteString(",optional")
	case OptDep:
		b.WriteString(",optional=" + keyName(fs, f.Dep))
	case OptNotDep:
		b.WriteString(",optional=!" + keyName(fs, f.Dep))
	}
	if f.Kind != KNested {
		b.WriteString(valueOptions(f))
	}
	return b.String()
}

func innerTagValue(f Field) string {
	s := "x"
	if f.InnerOpt {
		s += ",optional"
	}
	return s + valueOptions(f)
}

func multiTag(keys []string, val string) reflect.StructTag {
	var b strings.Builder
	for i, k := range keys {
		if i > 0 {
			b.WriteByte(' ')
		}
		fmt.Fprintf(&b, `%s:"%s"`, k, val)
	}
	return reflect.StructTag(b.String())
}

var allTagKeys = []string{"json", "key", "form", "path", "header"}

var (
	tInt     = reflect.TypeOf(int(0))
	tInt8    = reflect.TypeOf(int8(0))
	tUint    = reflect.TypeOf(uint(0))
	tFloat   = reflect.TypeOf(float64(0))
	tString  = reflect.TypeOf("")
	tBool    = reflect.TypeOf(false)
	typeLock sync.Mutex
	typeMemo = map[string]reflect.Type{}
)

func goType(f Field, keys []string) reflect.Type {
	switch f.Kind {
	case KInt:
		return tInt
	case KInt8:
		return tInt8
	case KUint:
		return tUint
	case KFloat:
		return tFloat
	case KString:
		return tString
	case KBool:
		return tBool
	case KPInt:
		return reflect.PointerTo(tInt)
	case KPString:
		return reflect.PointerTo(tString)
	case KNested:
		return reflect.StructOf([]reflect.StructField{{Name: "X", Type: tInt, Tag: multiTag(keys, innerTagValue(f))}})
	case KSlice:
		return reflect.SliceOf(tInt)
	case KMap:
		return reflect.MapOf(tString, tInt)
	case KSliceS:
		return reflect.SliceOf(tString)
	case KSliceB:
		return reflect.SliceOf(tBool)
	}
	panic("bad kind (KEmbed is built by buildSplitType)")
}

// tagKeysFor: which tag keys field i carries. All direct entries share one type that carries the
// same options under every key (each unmarshaler reads only its own key); the httpx.Parse entry
// gives every field exactly the key of its source.
func tagKeysFor(f Field) []string {
	if f.Src != "" {
		return []string{f.Src}
	}
	return allTagKeys
}

func buildType(fs []Field) reflect.Type { return buildTypeX(fs, false) }

// buildSiblingType: a distinct reflect.Type with the same field names, field types and tag texts
// under every key the unmarshalers read (an extra, unread tag key tells the two types apart; a
// nested struct type is shared by both).
func buildSiblingType(fs []Field) reflect.Type { return buildTypeX(fs, true) }

func buildTypeX(fs []Field, sibling bool) reflect.Type { return buildSplitType(fs, nil, "", sibling) }

// Split types (history shards only): the field's options differ between two groups of tag keys —
// group A = json, key (entries json / key / conf), group B = form, path, header. fsEff are the
// specs under the key group of effEntry, fsAlt those under the other group; kinds are equal.
var (
	keysA = []string{"json", "key"}
	keysB = []string{"form", "path", "header"}
)

func groupB(entry string) bool { return entry == EFORM || entry == EPATH || entry == EHDR }

func splitTags(effEntry string, eff, alt string) reflect.StructTag {
	a, b := eff, alt
	if groupB(effEntry) {
		a, b = alt, eff
	}
	return multiTag(keysA, a) + " " + multiTag(keysB, b)
}

func buildSplitType(fsEff, fsAlt []Field, effEntry string, sibling bool) reflect.Type {
	var kb strings.Builder
	sfs := make([]reflect.StructField, len(fsEff))
	for i, f := range fsEff {
		if f.Kind == KEmbed {
			keys := tagKeysFor(f)
			in := reflect.StructOf([]reflect.StructField{{Name: "X", Type: tInt, Tag: multiTag(keys, tagValue(fsEff, i))}})
			sfs[i] = reflect.StructField{Name: goName(i), Type: in, Anonymous: true}
			if f.EmbOpt {
				sfs[i].Tag = multiTag(keys, ",optional")
			}
		} else if fsAlt == nil {
			keys := tagKeysFor(f)
			sfs[i] = reflect.StructField{Name: goName(i), Type: goType(f, keys), Tag: multiTag(keys, tagValue(fsEff, i))}
		} else {
			ft := goType(f, allTagKeys)
			if f.Kind == KNested {
				ft = reflect.StructOf([]reflect.StructField{{Name: "X", Type: tInt, Tag: splitTags(effEntry, innerTagValue(f), innerTagValue(fsAlt[i]))}})
			}
			sfs[i] = reflect.StructField{Name: goName(i), Type: ft, Tag: splitTags(effEntry, tagValue(fsEff, i), tagValue(fsAlt, i))}
		}
		if sibling {
			sfs[i].Tag += ` verif:"sibling"`
		}
		kb.WriteString(sfs[i].Type.String())
		kb.WriteByte(' ')
		kb.WriteString(string(sfs[i].Tag))
		kb.WriteByte(';')
	}
	k := kb.String()
	typeLock.Lock()
	defer typeLock.Unlock()
	if t, ok := typeMemo[k]; ok {
		return t
	}
	t := reflect.StructOf(sfs)
	typeMemo[k] = t
	return t
}

// describeSplitType renders a split type with both tag groups.
func describeSplitType(fsEff, fsAlt []Field, effEntry string) string {
	var b strings.Builder
	b.WriteString("struct{ ")
	for i, f := range fsEff {
		a, bb := fsEff, fsAlt
		if groupB(effEntry) {
			a, bb = fsAlt, fsEff
		}
		if f.Kind == KNested {
			fmt.Fprintf(&b, "%s struct{ X int `json|key:\"%s\" form|path|header:\"%s\"` } `json|key:\"%s\" form|path|header:\"%s\"`; ",
				goName(i), innerTagValue(a[i]), innerTagValue(bb[i]), tagValue(a, i), tagValue(bb, i))
		} else {
			fmt.Fprintf(&b, "%s %s `json|key:\"%s\" form|path|header:\"%s\"`; ", goName(i), f.Kind, tagValue(a, i), tagValue(bb, i))
		}
	}
	b.WriteString("}")
	return b.String()
}

// describeType renders the struct type the way a user would write it (for replays and reports).
func describeType(fs []Field) string {
	var b strings.Builder
	b.WriteString("struct{ ")
	for i, f := range fs {
		keys := tagKeysFor(f)
		k := keys[0]
		if len(keys) > 1 {
			k = "<key>"
		}
		if f.Kind == KEmbed {
			fmt.Fprintf(&b, "struct{ X int `%s:\"%s\"` } /* embedded */", k, tagValue(fs, i))
			if f.EmbOpt {
				fmt.Fprintf(&b, " `%s:\",optional\"`", k)
			}
			b.WriteString("; ")
		} else if f.Kind == KNested {
			fmt.Fprintf(&b, "%s struct{ X int `%s:\"%s\"` } `%s:\"%s\"`; ", goName(i), k, innerTagValue(f), k, tagValue(fs, i))
		} else {
			fmt.Fprintf(&b, "%s %s `%s:\"%s\"`; ", goName(i), f.Kind, k, tagValue(fs, i))
		}
	}
	b.WriteString("}")
	return b.String()
}

// ---------------------------------------------------------------------------------------------
// spec families

// valueSpecs enumerates, for one kind, every combination of the value options
// (default × range × options × string [× inner optional]); Opt/Dep are left zero.
func valueSpecs(k Kind, thorough bool) []Field {
	var out []Field
	defs := []string{""}
	rngs := []int{-1}
	optss := []bool{false}
	strs := []bool{false}
	inner := []bool{false}
	nr := nQuickRanges
	if thorough {
		nr = len(ranges)
	}
	switch {
	case k.numeric() || k == KNested:
		defs = append(defs, "3")
		if thorough {
			defs = append(defs, "9") // a default outside range and options: defaults are not validated
		}
		for i := 0; i < nr; i++ {
			rngs = append(rngs, i)
		}
		optss = []bool{false, true}
		strs = []bool{false, true}
		if k == KNested {
			inner = []bool{false, true}
		}
	case k.stringy():
		defs = append(defs, "a")
		if thorough {
			defs = append(defs, "c")
		}
		optss = []bool{false, true}
		strs = []bool{false, true}
	case k == KBool:
		defs = append(defs, "true")
		strs = []bool{false, true}
	case k == KSlice:
		defs = append(defs, "[1,2]")
	case k == KSliceS:
		// [a,b] is the documented form; [1,2] is the same default text a []int field carries (one
		// process-wide default cache entry serves both element types)
		defs = append(defs, "[a,b]", "[1,2]", "[true,false]")
	case k == KSliceB:
		defs = append(defs, "[true,false]") // the same text as on a []string field
	case k == KMap: // the tag grammar has no default for maps (`default=` on a map is rejected when the field is absent)
	}
	for _, d := range defs {
		for _, r := range rngs {
			for _, o := range optss {
				for _, s := range strs {
					for _, in := range inner {
						out = append(out, Field{Kind: k, Def: d, Rng: r, Opts: o, Str: s, InnerOpt: in})
					}
				}
			}
		}
	}
	return out
}

// primarySpecs: the full family for the field under scrutiny (index self) among n fields:
// every kind × value options × {none, optional, optional=s, optional=!s for every sibling s}.
func primarySpecs(self, n int, thorough bool) []Field {
	var out []Field
	for k := Kind(0); k < numKinds; k++ {
		for _, v := range valueSpecs(k, thorough) {
			for _, o := range []int{OptNone, OptPlain} {
				f := v
				f.Opt = o
				out = append(out, f)
			}
			for s := 0; s < n; s++ {
				if s == self {
					continue
				}
				for _, o := range []int{OptDep, OptNotDep} {
					f := v
					f.Opt, f.Dep = o, s
					out = append(out, f)
				}
			}
		}
	}
	return out
}

// siblingSpecs: the reduced family for the other fields (index self; p is the primary field's
// index): plain / optional / defaulted fields, fields depending on the primary one (so that
// mutual and chained dependencies occur), and a few constrained ones.
func siblingSpecs(self, p int, thorough bool) []Field {
	out := []Field{
		{Kind: KInt, Rng: -1},
		{Kind: KInt, Rng: -1, Opt: OptPlain},
		{Kind: KInt, Rng: -1, Def: "3"},
		{Kind: KInt, Rng: -1, Opt: OptDep, Dep: p},
		{Kind: KInt, Rng: -1, Opt: OptNotDep, Dep: p},
		{Kind: KInt, Rng: 0, Opt: OptDep, Dep: p},
		{Kind: KString, Rng: -1, Opt: OptPlain, Opts: true},
		{Kind: KPInt, Rng: -1, Opt: OptPlain},
	}
	if thorough {
		out = append(out,
			Field{Kind: KNested, Rng: -1, Opt: OptPlain},
			Field{Kind: KString, Rng: -1, Str: true},
			Field{Kind: KInt, Rng: 1, Opts: true, Opt: OptNotDep, Dep: p},
			Field{Kind: KFloat, Rng: 3, Def: "3", Opt: OptDep, Dep: p},
			Field{Kind: KSlice, Rng: -1, Opt: OptPlain},
			Field{Kind: KMap, Rng: -1},
			Field{Kind: KSliceS, Rng: -1, Def: "[a,b]"},
		)
	}
	return out
}
