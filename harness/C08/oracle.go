package main

// The independent constraint evaluator, written from the property statement (C08). It shares no
// code with core/mapping: it only knows the field specs (what the tags declare) and the abstract
// input tokens, and answers three questions for one (type, input, entry) case:
//
//   mustReject  – the statement forbids acceptance (under every reading of `null`, see NOTES.md)
//   mustAccept  – the statement demands acceptance (all constraints met, canonical well-typed values)
//   checkTarget – if accepted: does the target hold exactly the supplied values / defaults?
//
// Bracketing (no verdict either way) is used wherever the statement is silent: null values,
// non-canonical but convertible renderings (numeric string for a number, "1" for a bool, a JSON
// text for a slice), absent non-scalar fields, defaults below an optional absent struct.

import (
	"fmt"
	"math"
	"reflect"
	"strconv"
	"strings"
)

const (
	stOK  = iota // canonical rendering of a value the field's type can hold
	stAlt        // convertible, but not the canonical rendering: accepted or rejected are both fine
	stIll        // the field's type cannot hold this value
)

// interp is the meaning of one token for one field.
type interp struct {
	st    int
	num   float64 // numeric kinds
	text  string  // string kinds
	b     bool
	list  []float64
	strs  []string // []string fields
	bools []bool   // []bool fields
	m     map[string]float64
	inner *Tok // nested: token of x (nil = x absent)
	fuzzy bool // contains null elements: target not compared
}

// isNumber: -?digits(.digits)?
func isNumber(s string) bool {
	i := 0
	if i < len(s) && s[i] == '-' {
		i++
	}
	d := 0
	for i < len(s) && s[i] >= '0' && s[i] <= '9' {
		i, d = i+1, d+1
	}
	if d == 0 {
		return false
	}
	if i == len(s) {
		return true
	}
	if s[i] != '.' {
		return false
	}
	i++
	d = 0
	for i < len(s) && s[i] >= '0' && s[i] <= '9' {
		i, d = i+1, d+1
	}
	return d > 0 && i == len(s)
}

func holds(k Kind, v float64) bool {
	if k == KFloat {
		return true
	}
	if v != math.Trunc(v) {
		return false
	}
	switch k {
	case KInt8:
		return v >= -128 && v <= 127
	case KUint:
		return v >= 0
	}
	return true
}

func isIntLit(l string) bool { return !strings.ContainsAny(l, ".eE") }

func interpret(f Field, dc string, t Tok) interp {
	cs := canonicalAsString(f, dc)
	ill := interp{st: stIll}
	switch {
	case f.Kind.numeric():
		var lit string
		canonical := false
		switch t.T {
		case "num":
			lit, canonical = t.V, !cs
		case "str":
			if !isNumber(t.V) {
				return ill
			}
			lit, canonical = t.V, cs
		case "list": // a multi-valued form parameter for a scalar: first value, not canonical
			if dc == "form" && len(t.E) > 0 && t.E[0].T == "str" && isNumber(t.E[0].V) {
				lit = t.E[0].V
				break
			}
			return ill
		default:
			return ill
		}
		v, err := strconv.ParseFloat(lit, 64)
		if err != nil || !holds(f.Kind, v) {
			return ill
		}
		if f.Kind.integer() && !isIntLit(lit) {
			canonical = false // "3.0" for an int
		}
		if canonical {
			return interp{st: stOK, num: v}
		}
		return interp{st: stAlt, num: v}
	case f.Kind.stringy():
		switch t.T {
		case "str":
			return interp{st: stOK, text: t.V}
		case "num", "bool":
			return interp{st: stAlt, text: t.V}
		case "list":
			if dc == "form" && len(t.E) > 0 && t.E[0].T == "str" {
				return interp{st: stAlt, text: t.E[0].V}
			}
		}
		return ill
	case f.Kind == KBool:
		switch t.T {
		case "bool":
			if cs {
				return interp{st: stAlt, b: t.V == "true"}
			}
			return interp{st: stOK, b: t.V == "true"}
		case "str":
			switch strings.ToLower(t.V) {
			case "true", "1":
				if cs && t.V == "true" {
					return interp{st: stOK, b: true}
				}
				return interp{st: stAlt, b: true}
			case "false", "0":
				if cs && t.V == "false" {
					return interp{st: stOK, b: false}
				}
				return interp{st: stAlt, b: false}
			}
		case "num":
			if t.V == "1" || t.V == "0" {
				return interp{st: stAlt, b: t.V == "1"}
			}
		}
		return ill
	case f.Kind == KNested:
		if t.T != "obj" {
			return ill
		}
		ip := interp{st: stOK}
		if x, ok := t.get("x"); ok {
			ip.inner = &x
		}
		return ip
	case f.Kind == KSlice:
		switch t.T {
		case "list":
			ip := interp{st: stOK, list: []float64{}}
			for _, e := range t.E {
				switch {
				case e.T == "null":
					ip.fuzzy, ip.st = true, stAlt
					ip.list = append(ip.list, 0)
				case e.T == "num" && !strSourced(dc), e.T == "str" && (dc == "form" || dc == "header") && isNumber(e.V):
					v, err := strconv.ParseFloat(e.V, 64)
					if err != nil || !holds(KInt, v) || !isIntLit(e.V) {
						return ill
					}
					ip.list = append(ip.list, v)
				default:
					return ill
				}
			}
			if dc == "header" {
				ip.st = stAlt // multi-valued header: no documented demand
			}
			return ip
		case "str": // a JSON text: convertible, not canonical
			if t.V == "[1,2]" {
				return interp{st: stAlt, list: []float64{1, 2}}
			}
			if t.V == "1" && strSourced(dc) {
				return interp{st: stAlt, list: []float64{1}}
			}
		}
		return ill
	case f.Kind == KSliceB:
		switch t.T {
		case "list":
			ip := interp{st: stOK, bools: []bool{}}
			for _, e := range t.E {
				switch {
				case e.T == "null":
					ip.fuzzy, ip.st = true, stAlt
					ip.bools = append(ip.bools, false)
				case e.T == "bool" && !strSourced(dc), e.T == "str" && (dc == "form" || dc == "header") && (e.V == "true" || e.V == "false"):
					ip.bools = append(ip.bools, e.V == "true")
				default:
					return ill
				}
			}
			if dc == "header" {
				ip.st = stAlt // multi-valued header: no documented demand
			}
			return ip
		case "str": // a JSON text / a single value: convertible, not canonical
			if t.V == "[true,false]" {
				return interp{st: stAlt, bools: []bool{true, false}}
			}
			if t.V == "true" && strSourced(dc) {
				return interp{st: stAlt, bools: []bool{true}}
			}
		}
		return ill
	case f.Kind == KSliceS:
		switch t.T {
		case "list":
			ip := interp{st: stOK, strs: []string{}}
			for _, e := range t.E {
				switch e.T {
				case "str":
					ip.strs = append(ip.strs, e.V)
				case "num", "bool": // convertible, not the canonical rendering of a string element
					ip.st = stAlt
					ip.strs = append(ip.strs, e.V)
				case "null":
					ip.fuzzy, ip.st = true, stAlt
					ip.strs = append(ip.strs, "")
				default:
					return ill
				}
			}
			if dc == "header" {
				ip.st = stAlt // multi-valued header: no documented demand
			}
			return ip
		case "str":
			// one string for a list of strings (a JSON text, a single element, a separated list …):
			// no documented reading, so neither the verdict nor the value is pinned
			if t.V == `["a","b"]` {
				return interp{st: stAlt, strs: []string{"a", "b"}}
			}
			return interp{st: stAlt, fuzzy: true}
		}
		return ill
	case f.Kind == KMap:
		switch t.T {
		case "obj":
			if strSourced(dc) {
				return ill
			}
			ip := interp{st: stOK, m: map[string]float64{}}
			for i, e := range t.E {
				if e.T == "null" {
					ip.fuzzy, ip.st = true, stAlt
					continue
				}
				if e.T != "num" || !isIntLit(e.V) {
					return ill
				}
				v, _ := strconv.ParseFloat(e.V, 64)
				ip.m[t.K[i]] = v
			}
			return ip
		case "str":
			if t.V == `{"k":1}` {
				return interp{st: stAlt, m: map[string]float64{"k": 1}}
			}
		}
		return ill
	}
	return ill
}

func inRange(r rangeSpec, v float64) bool {
	if r.hasLo && (v < r.lo || (v == r.lo && !r.loIn)) {
		return false
	}
	if r.hasHi && (v > r.hi || (v == r.hi && !r.hiIn)) {
		return false
	}
	return true
}

func member(set []string, s string) bool {
	for _, x := range set {
		if x == s {
			return true
		}
	}
	return false
}

// numText: how a number is written when it is compared with the declared options.
func numText(v float64) string { return strconv.FormatFloat(v, 'f', -1, 64) }

// reason: one ground on which the statement forbids acceptance.
type reason struct {
	Kind  string // required-absent | dep-relation | ill-typed | range | options
	Field int
}

// valueReasons: constraint violations of one present, non-null value.
func valueReasons(f Field, dc string, t Tok, idx int, out []reason) []reason {
	ip := interpret(f, dc, t)
	if ip.st == stIll {
		return append(out, reason{"ill-typed", idx})
	}
	switch {
	case f.Kind.numeric():
		if f.Rng >= 0 && !inRange(ranges[f.Rng], ip.num) {
			out = append(out, reason{"range", idx})
		}
		if f.Opts && !member(numOptions, numText(ip.num)) {
			out = append(out, reason{"options", idx})
		}
	case f.Kind.stringy():
		if f.Opts && !member(strOptions, ip.text) {
			out = append(out, reason{"options", idx})
		}
	}
	return out
}

// nullSites lists the places where a null occurs as a field value (outer field i → i, the x of
// nested field i → 100+i). Each gets two readings: "as if absent" / "supplied, no value".
func nullSites(fs []Field, toks []Tok) []int {
	var s []int
	for i, t := range toks {
		if t.T == "null" {
			s = append(s, i)
		} else if fs[i].Kind == KNested && t.T == "obj" {
			if x, ok := t.get("x"); ok && x.T == "null" {
				s = append(s, 100+i)
			}
		}
	}
	return s
}

// reasonsUnder evaluates the statement under one reading of the nulls
// (asPresent[site] = true: the null counts as supplied).
func reasonsUnder(entry string, fs []Field, toks []Tok, asPresent map[int]bool) []reason {
	var out []reason
	pres := make([]bool, len(fs))
	for i, t := range toks {
		pres[i] = t.T != "absent" && (t.T != "null" || asPresent[i])
	}
	for i, f := range fs {
		t := toks[i]
		dc := delivery(entry, f)
		if f.Opt >= OptDep {
			selfOn, depOn := pres[i], pres[f.Dep]
			if diagFlat != nil && depThroughDotted(entry, fs, i) { // diagnostic reading only
				if f.dotted() {
					selfOn = diagFlat[i]
				}
				if fs[f.Dep].dotted() {
					depOn = diagFlat[f.Dep]
				}
			}
			// optional=dep: both or neither; optional=!dep: exactly one
			if (f.Opt == OptDep) == (selfOn != depOn) {
				out = append(out, reason{"dep-relation", i})
			}
		}
		if !pres[i] {
			if f.Opt != OptNone || (f.Kind == KEmbed && f.EmbOpt) {
				continue // optional (the dependency relation was checked above); an optional embedded struct may be left out as a whole
			}
			switch {
			case f.Kind.scalar():
				if f.Def == "" {
					out = append(out, reason{"required-absent", i})
				}
			case f.Kind == KNested:
				// the struct is not optional, so its scalar x must be optional or defaulted
				if f.Def == "" && !f.InnerOpt {
					out = append(out, reason{"required-absent", i})
				}
			}
			continue
		}
		if t.T == "null" {
			continue // supplied without a value: nothing to validate
		}
		if f.Kind != KNested {
			out = valueReasons(f, dc, t, i, out)
			continue
		}
		ip := interpret(f, dc, t)
		if ip.st == stIll {
			out = append(out, reason{"ill-typed", i})
			continue
		}
		in := f.inner()
		switch {
		case ip.inner == nil, ip.inner.T == "null" && !asPresent[100+i]:
			if in.Def == "" && in.Opt == OptNone {
				out = append(out, reason{"required-absent", i})
			}
		case ip.inner.T == "null":
		default:
			out = valueReasons(in, dc, *ip.inner, i, out)
		}
	}
	return out
}

// ---------------------------------------------------------------------------------------------
// Dotted key names (keys.go). The mapping package documents a dotted key as a path ("the key can be
// in the format of parentKey.childKey") and WithOpaqueKeys as "one name, dots included" (form, path
// and — since /repo c661af9 — header parameters). The statement itself says nothing about key
// names, so:
//   * json / key / conf / yaml / toml: the value under the path p → q is the supplied field; under
//     form / path / header the flat parameter "p.q" is.
//   * the OTHER placement (a flat member "p.q" in a document, a nested map below a form / path /
//     header unmarshaler) is read both as "field absent" and as "field supplied": a rejection is
//     demanded only if both readings demand it, acceptance never, the target may hold the value or
//     the default / zero value.
// Everything else is judged strictly, dependencies through dotted keys included. Two deviations of
// the pinned tree in this area have ONE cause key each (run.go knownCause): the strict finding is
// re-judged under a diagnostic reading that models exactly the deviation; if the observation agrees
// with that reading, the class is the cause key, otherwise the ordinary class.
// History independence (hist.go, keys.go) pins the bracketed outcomes: whatever the outcome is, it is
// the same in every process history.

func pathReading(dc string) bool { return dc == "json" || dc == "native" }

// depThroughDotted: field i depends on a sibling, its own key or the dependency's key contains the
// path separator, and the unmarshaler reads dotted keys as paths.
func depThroughDotted(entry string, fs []Field, i int) bool {
	f := fs[i]
	return f.Opt >= OptDep && (f.dotted() || fs[f.Dep].dotted()) && pathReading(delivery(entry, f))
}

// diagFlat (diagnostic reading "dep-through-dotted-key", nil = off): the presence test of a
// dependency relation that goes through a dotted key is made with the FLAT key text — a dotted key
// counts as present iff the document holds one flat member of that name (diagFlat[j]) —, everything
// else as usual. Set only by knownCause, around one judgement (the evaluator runs on one goroutine).
var diagFlat []bool

// placementSites: the fields whose presence is read both ways.
func placementSites(entry string, fs []Field, toks []Tok) []int {
	var s []int
	for i, t := range toks {
		if t.T == "alt" {
			s = append(s, i)
		}
	}
	return s
}

// readPlacements: the token vector under one reading (bit b set: site b counts as supplied).
func readPlacements(toks []Tok, sites []int, mask int) []Tok {
	out := append([]Tok{}, toks...)
	for b, s := range sites {
		if mask&(1<<b) != 0 {
			out[s], _ = toks[s].placed()
		} else {
			out[s] = tA()
		}
	}
	return out
}

func mustReject(entry string, fs []Field, toks []Tok) []reason {
	sites := placementSites(entry, fs, toks)
	if len(sites) == 0 {
		return mustReject0(entry, fs, toks)
	}
	var best []reason
	for mask := 0; mask < 1<<len(sites); mask++ {
		rs := mustReject0(entry, fs, readPlacements(toks, sites, mask))
		if len(rs) == 0 {
			return nil
		}
		if best == nil || len(rs) < len(best) {
			best = rs
		}
	}
	return best
}

func mustAccept(entry string, fs []Field, toks []Tok) bool {
	return len(placementSites(entry, fs, toks)) == 0 && mustAccept0(entry, fs, toks)
}

func checkTarget(entry string, fs []Field, toks []Tok, target reflect.Value) *mismatch {
	sites := placementSites(entry, fs, toks)
	if len(sites) == 0 {
		return checkTarget0(entry, fs, toks, target)
	}
	var first *mismatch
	for mask := 0; mask < 1<<len(sites); mask++ {
		rd := readPlacements(toks, sites, mask)
		if len(mustReject0(entry, fs, rd)) > 0 {
			continue // under this reading the input must not be accepted at all
		}
		m := checkTarget0(entry, fs, rd, target)
		if m == nil {
			return nil
		}
		if first == nil {
			first = m
		}
	}
	return first
}

// mustReject0: the reasons under the most lenient reading of the nulls (empty = acceptance allowed).
func mustReject0(entry string, fs []Field, toks []Tok) []reason {
	sites := nullSites(fs, toks)
	var best []reason
	for mask := 0; mask < 1<<len(sites); mask++ {
		ap := map[int]bool{}
		for b, s := range sites {
			ap[s] = mask&(1<<b) != 0
		}
		rs := reasonsUnder(entry, fs, toks, ap)
		if len(rs) == 0 {
			return nil
		}
		if best == nil || len(rs) < len(best) {
			best = rs
		}
	}
	return best
}

// mustAccept: every supplied value is canonical and well typed, every declared constraint
// holds, no null anywhere, and no case the statement is silent about is involved.
func mustAccept0(entry string, fs []Field, toks []Tok) bool {
	for i, t := range toks {
		if t.hasNull() {
			return false
		}
		f := fs[i]
		dc := delivery(entry, f)
		if t.T == "absent" {
			if !f.Kind.scalar() && f.Opt == OptNone {
				return false // absent non-optional struct / slice / map: the statement speaks of scalars only
			}
			continue
		}
		if !f.Kind.scalar() && strSourced(dc) && !(f.Kind.slice() && dc == "form") {
			return false // structs, maps (and slices outside forms) have no documented string rendering
		}
		ip := interpret(f, dc, t)
		if ip.st != stOK {
			return false
		}
		if f.Kind == KNested && ip.inner != nil && interpret(f.inner(), dc, *ip.inner).st != stOK {
			return false
		}
	}
	return len(reasonsUnder(entry, fs, toks, nil)) == 0
}

// ---------------------------------------------------------------------------------------------
// target comparison ("the target holds exactly the supplied values with defaults filled for
// the absent ones")

type mismatch struct {
	Kind  string // default-not-filled | absent-not-zero | wrong-value
	Field int
	Want  string
	Got   string
}

func defaultInterp(f Field) (interp, bool) {
	if f.Def == "" {
		return interp{}, false
	}
	switch {
	case f.Kind.numeric():
		v, _ := strconv.ParseFloat(f.Def, 64)
		return interp{num: v}, true
	case f.Kind.stringy():
		return interp{text: f.Def}, true
	case f.Kind == KBool:
		return interp{b: f.Def == "true"}, true
	case f.Kind == KSlice:
		return interp{list: []float64{1, 2}}, true
	case f.Kind == KSliceS:
		return interp{strs: defaultList(f.Def)}, true
	case f.Kind == KSliceB:
		ip := interp{bools: []bool{}}
		for _, e := range defaultList(f.Def) {
			ip.bools = append(ip.bools, e == "true")
		}
		return ip, true
	}
	return interp{}, false
}

// defaultList: the elements of a default=[x,y,…] text.
func defaultList(def string) []string {
	def = strings.TrimSuffix(strings.TrimPrefix(def, "["), "]")
	out := []string{}
	for _, p := range strings.Split(def, ",") {
		if p = strings.TrimSpace(p); p != "" {
			out = append(out, p)
		}
	}
	return out
}

// holdsValue: does rv (a field of kind f.Kind) hold the value ip?
func holdsValue(f Field, rv reflect.Value, ip interp) bool {
	if f.Kind.pointer() {
		if rv.IsNil() {
			return false
		}
		rv = rv.Elem()
	}
	switch {
	case f.Kind == KUint:
		return float64(rv.Uint()) == ip.num
	case f.Kind == KFloat:
		return rv.Float() == ip.num
	case f.Kind.numeric():
		return float64(rv.Int()) == ip.num
	case f.Kind.stringy():
		return rv.String() == ip.text
	case f.Kind == KBool:
		return rv.Bool() == ip.b
	case f.Kind == KSlice:
		if rv.Len() != len(ip.list) {
			return false
		}
		for i := range ip.list {
			if float64(rv.Index(i).Int()) != ip.list[i] {
				return false
			}
		}
		return true
	case f.Kind == KSliceB:
		if rv.Len() != len(ip.bools) {
			return false
		}
		for i := range ip.bools {
			if rv.Index(i).Bool() != ip.bools[i] {
				return false
			}
		}
		return true
	case f.Kind == KSliceS:
		if rv.Len() != len(ip.strs) {
			return false
		}
		for i := range ip.strs {
			if rv.Index(i).String() != ip.strs[i] {
				return false
			}
		}
		return true
	case f.Kind == KMap:
		if rv.Len() != len(ip.m) {
			return false
		}
		for k, v := range ip.m {
			e := rv.MapIndex(reflect.ValueOf(k))
			if !e.IsValid() || float64(e.Int()) != v {
				return false
			}
		}
		return true
	}
	return false
}

func isZero(f Field, rv reflect.Value) bool {
	switch f.Kind {
	case KSlice, KMap, KSliceS, KSliceB:
		return rv.Len() == 0
	}
	return rv.IsZero()
}

func show(rv reflect.Value) string {
	if rv.Kind() == reflect.Struct { // field by field, pointers dereferenced (no addresses in reports)
		var p []string
		for i := 0; i < rv.NumField(); i++ {
			p = append(p, rv.Type().Field(i).Name+":"+show(rv.Field(i)))
		}
		return "{" + strings.Join(p, " ") + "}"
	}
	if rv.Kind() == reflect.Ptr {
		if rv.IsNil() {
			return "nil"
		}
		return "&" + fmt.Sprintf("%#v", rv.Elem().Interface())
	}
	return fmt.Sprintf("%#v", rv.Interface())
}

// checkScalarish compares one non-nested field (or the x of a nested one).
//   lenientAbsent: zero and default are both fine (null; field below an optional absent struct).
func checkScalarish(f Field, dc string, t Tok, rv reflect.Value, idx int, lenientAbsent bool) *mismatch {
	def, hasDef := defaultInterp(f)
	switch t.T {
	case "absent", "null":
		if t.T == "null" || lenientAbsent {
			if isZero(f, rv) || (hasDef && holdsValue(f, rv, def)) {
				return nil
			}
			if f.Kind.pointer() && !rv.IsNil() && rv.Elem().IsZero() {
				return nil // null for a pointer: an allocated zero is as good as nil
			}
			return &mismatch{"absent-not-zero", idx, "zero value or default", show(rv)}
		}
		if hasDef {
			if !holdsValue(f, rv, def) {
				return &mismatch{"default-not-filled", idx, "default " + f.Def, show(rv)}
			}
			return nil
		}
		if !isZero(f, rv) {
			return &mismatch{"absent-not-zero", idx, "zero value", show(rv)}
		}
		return nil
	}
	ip := interpret(f, dc, t)
	if ip.st == stIll || ip.fuzzy {
		return nil // ill-typed accepted is reported by mustReject; null elements: not compared
	}
	if !holdsValue(f, rv, ip) {
		return &mismatch{"wrong-value", idx, "supplied " + t.json(), show(rv)}
	}
	return nil
}

// checkTarget compares the whole target struct (a reflect.Value of the generated struct type).
func checkTarget0(entry string, fs []Field, toks []Tok, target reflect.Value) *mismatch {
	for i, f := range fs {
		t := toks[i]
		dc := delivery(entry, f)
		rv := target.Field(i)
		if f.Kind == KEmbed {
			// flattened: X is the field; below an optional embedded struct that was left out nothing is promised (zero or default)
			if m := checkScalarish(f, dc, t, rv.Field(0), i, f.EmbOpt); m != nil {
				return m
			}
			continue
		}
		if f.Kind != KNested {
			if m := checkScalarish(f, dc, t, rv, i, false); m != nil {
				return m
			}
			continue
		}
		in := f.inner()
		x := rv.Field(0)
		switch t.T {
		case "absent":
			// non-optional struct: x absent → default/zero exactly; optional struct: nothing below it is promised
			if m := checkScalarish(in, dc, tA(), x, i, f.Opt != OptNone); m != nil {
				return m
			}
		case "null":
			if m := checkScalarish(in, dc, tZ(), x, i, true); m != nil {
				return m
			}
		case "obj":
			xt := tA()
			if v, ok := t.get("x"); ok {
				xt = v
			}
			if m := checkScalarish(in, dc, xt, x, i, false); m != nil {
				return m
			}
		}
	}
	return nil
}
