package main

// Abstract input tokens (one per field), the bounded input family per field spec, and the
// renderings of a token vector for each entry point. Nothing here decides a verdict.

import (
	"net/textproto"
	"strconv"
	"strings"
)

// Tok is an abstract JSON-like value supplied for one field.
type Tok struct {
	T string   `json:"t"`           // absent | null | num | str | bool | list | obj | alt (E[0] under the OTHER placement of a dotted key, see keys.go)
	V string   `json:"v,omitempty"` // num: literal; str: content; bool: "true"/"false"
	E []Tok    `json:"e,omitempty"` // list elements / obj values
	K []string `json:"k,omitempty"` // obj keys (parallel to E)
}

func tA() Tok           { return Tok{T: "absent"} }
func tZ() Tok           { return Tok{T: "null"} }
func tN(l string) Tok   { return Tok{T: "num", V: l} }
func tS(s string) Tok   { return Tok{T: "str", V: s} }
func tB(b bool) Tok     { return Tok{T: "bool", V: strconv.FormatBool(b)} }
func tL(e ...Tok) Tok   { return Tok{T: "list", E: append([]Tok{}, e...)} }
func tO1(k string, v Tok) Tok { return Tok{T: "obj", K: []string{k}, E: []Tok{v}} }
func tO0() Tok          { return Tok{T: "obj"} }

// tAlt: the value t delivered under the placement a dotted key does NOT address for the entry —
// json / key / conf: one flat member named "p.q" instead of the path p → q; form / path / header
// (direct unmarshaler API only): a nested map p → q instead of the flat parameter "p.q".
func tAlt(t Tok) Tok { return Tok{T: "alt", E: []Tok{t}} }

// placed: the value of the token and whether it sits under the other placement.
func (t Tok) placed() (Tok, bool) {
	if t.T == "alt" {
		return t.E[0], true
	}
	return t, false
}

func (t Tok) get(k string) (Tok, bool) {
	for i, kk := range t.K {
		if kk == k {
			return t.E[i], true
		}
	}
	return Tok{}, false
}

func (t Tok) json() string {
	switch t.T {
	case "null":
		return "null"
	case "num":
		return t.V
	case "str":
		return strconv.Quote(t.V)
	case "bool":
		return t.V
	case "list":
		p := make([]string, len(t.E))
		for i, e := range t.E {
			p[i] = e.json()
		}
		return "[" + strings.Join(p, ",") + "]"
	case "obj":
		p := make([]string, len(t.E))
		for i, e := range t.E {
			p[i] = strconv.Quote(t.K[i]) + ":" + e.json()
		}
		return "{" + strings.Join(p, ",") + "}"
	case "alt":
		return t.E[0].json()
	}
	return "<absent>"
}

func (t Tok) hasNull() bool {
	if t.T == "null" {
		return true
	}
	for _, e := range t.E {
		if e.hasNull() {
			return true
		}
	}
	return false
}

// entry points
const (
	EJSON = "json"   // mapping.UnmarshalJsonBytes
	EKEY  = "key"    // mapping.UnmarshalKey on a map of native Go values
	EFORM = "form"   // NewUnmarshaler("form", WithStringValues, WithOpaqueKeys, WithFromArray) (httpx's form unmarshaler)
	EPATH = "path"   // NewUnmarshaler("path", WithStringValues, WithOpaqueKeys)
	EHDR  = "header" // NewUnmarshaler("header", WithStringValues, WithCanonicalKeyFunc(CanonicalMIMEHeaderKey))
	ECONF = "conf"   // conf.LoadFromJsonBytes
	EHTTP = "httpx"  // httpx.Parse on a generated *http.Request, every field with its own source
	EYAML = "yaml"   // mapping.UnmarshalYamlBytes on the JSON rendering (JSON is YAML flow style); keys.go groups only
	ETOML = "toml"   // mapping.UnmarshalTomlBytes on a TOML rendering (inline tables); no null in TOML; keys.go groups only
)

var directEntries = []string{EJSON, EKEY, EFORM, EPATH, EHDR, ECONF}

// delivery class of a field's value: json | native | form | path | header
func delivery(entry string, f Field) string {
	switch entry {
	case EJSON, ECONF, EYAML, ETOML:
		return "json"
	case EKEY:
		return "native"
	case EHTTP:
		return f.Src
	}
	return entry
}

func strSourced(dc string) bool { return dc == "form" || dc == "path" || dc == "header" }

// canonicalAsString: numbers and booleans for this field are written as strings.
func canonicalAsString(f Field, dc string) bool { return f.Str || strSourced(dc) }

var numLits = []string{"0", "1", "2", "3", "4", "5", "6", "7", "-1", "200"}

// numericFamily: absent, null, every range boundary with both neighbours, an interior value,
// each option (2, 7), non-options, a negative and an int8-overflowing value, fractions, the
// non-canonical rendering (numeric string / bare number), and wrong types.
func numericFamily(f Field, dc string, thorough, httpReq bool) []Tok {
	cs := canonicalAsString(f, dc)
	mk := func(l string) Tok {
		if cs {
			return tS(l)
		}
		return tN(l)
	}
	out := []Tok{tA()}
	if !(httpReq && strSourced(dc)) {
		out = append(out, tZ())
	}
	for _, l := range numLits {
		out = append(out, mk(l))
	}
	if f.Kind == KFloat {
		out = append(out, mk("0.5"), mk("2.5"), mk("5.5"))
	} else {
		out = append(out, mk("2.5"))
	}
	if thorough {
		out = append(out, mk("3.0"), mk("100"))
	}
	if !strSourced(dc) {
		if cs {
			out = append(out, tN("3"))
		} else {
			out = append(out, tS("3"))
		}
		out = append(out, tB(true), tO0(), tL(tN("1")))
	} else if dc == "form" {
		out = append(out, tL(tS("3"), tS("4")))
	}
	out = append(out, tS("x"))
	return out
}

func family(f Field, dc string, thorough, httpReq bool) []Tok {
	ss := strSourced(dc)
	nullOK := !(httpReq && ss)
	base := []Tok{tA()}
	if nullOK {
		base = append(base, tZ())
	}
	switch {
	case f.Kind.numeric():
		return numericFamily(f, dc, thorough, httpReq)
	case f.Kind.stringy():
		out := append(base, tS("a"), tS("b"), tS("c"))
		if !(httpReq && dc == "form") {
			out = append(out, tS(""))
		}
		if !ss {
			out = append(out, tN("3"), tB(true), tO0(), tL(tS("a")))
		} else if dc == "form" {
			out = append(out, tL(tS("a"), tS("b")))
		}
		return out
	case f.Kind == KBool:
		var out []Tok
		if canonicalAsString(f, dc) {
			out = append(base, tS("true"), tS("false"), tS("1"), tS("0"), tS("TRUE"))
			if !ss {
				out = append(out, tB(true))
			}
		} else {
			out = append(base, tB(true), tB(false), tS("true"), tN("1"))
		}
		out = append(out, tS("x"))
		if !ss {
			out = append(out, tN("3"), tO0(), tL(tB(true)))
		}
		return out
	case f.Kind == KNested:
		if ss {
			return append(base, tS("x"), tS(`{"x":3}`))
		}
		out := append(base, tO0())
		for _, t := range numericFamily(f.inner(), dc, thorough, httpReq) {
			if t.T != "absent" {
				out = append(out, tO1("x", t))
			}
		}
		return append(out, tN("3"), tS("x"), tL(tN("1")))
	case f.Kind == KSlice:
		switch dc {
		case "form":
			return append(base, tL(tS("1"), tS("2")), tL(tS("1")), tL(tS("x")), tL(tS("1.5")))
		case "path":
			return append(base, tS("1"), tS("[1,2]"), tS("x"))
		case "header":
			return append(base, tS("1"), tS("[1,2]"), tS("x"), tL(tS("1"), tS("2")))
		}
		return append(base, tL(), tL(tN("1"), tN("2")), tL(tN("1"), tS("x")), tL(tN("1.5")), tL(tZ()), tL(tN("1"), tZ()),
			tN("3"), tS("x"), tS("[1,2]"), tO1("k", tN("1")))
	case f.Kind == KSliceB:
		switch dc {
		case "form":
			return append(base, tL(tS("true"), tS("false")), tL(tS("false")), tL(tS("x")))
		case "path":
			return append(base, tS("true"), tS("[true,false]"), tS("x"))
		case "header":
			return append(base, tS("true"), tS("[true,false]"), tS("x"), tL(tS("true"), tS("false")))
		}
		return append(base, tL(), tL(tB(true), tB(false)), tL(tB(false)), tL(tB(true), tS("x")), tL(tZ()), tL(tB(true), tZ()),
			tN("3"), tS("x"), tS("[true,false]"), tO1("k", tB(true)))
	case f.Kind == KSliceS:
		switch dc {
		case "form":
			out := append(base, tL(tS("a"), tS("b")), tL(tS("a")), tL(tS("c"), tS("a"), tS("b")))
			if !httpReq {
				out = append(out, tL(tS("")))
			}
			return out
		case "path":
			return append(base, tS("a"), tS(`["a","b"]`))
		case "header":
			return append(base, tS("a"), tS(`["a","b"]`), tL(tS("a"), tS("b")))
		}
		return append(base, tL(), tL(tS("a"), tS("b")), tL(tS("c")), tL(tS("a"), tN("1")), tL(tS("a"), tB(true)), tL(tZ()), tL(tS("a"), tZ()),
			tL(tL(tS("a"))), tN("3"), tS("x"), tS(`["a","b"]`), tO1("k", tS("a")))
	case f.Kind == KMap:
		if ss {
			return append(base, tS(`{"k":1}`), tS("x"))
		}
		return append(base, tO0(), tO1("k", tN("1")), tO1("k", tS("x")), tO1("k", tN("1.5")), tO1("k", tZ()), tO1("k", tO0()),
			tN("3"), tS("x"), tS(`{"k":1}`), tL(tN("1")))
	}
	panic("family")
}

// validTok: one canonical, constraint-satisfying value.
func validTok(f Field, dc string) Tok {
	switch {
	case f.Kind.numeric():
		l := "3"
		if f.Opts {
			l = "2"
		}
		if canonicalAsString(f, dc) {
			return tS(l)
		}
		return tN(l)
	case f.Kind.stringy():
		return tS("a")
	case f.Kind == KBool:
		if canonicalAsString(f, dc) {
			return tS("true")
		}
		return tB(true)
	case f.Kind == KNested:
		if strSourced(dc) {
			return tS(`{"x":3}`)
		}
		return tO1("x", validTok(f.inner(), dc))
	case f.Kind == KSlice:
		switch dc {
		case "form", "header":
			return tL(tS("1"), tS("2"))
		case "path":
			return tS("[1,2]")
		}
		return tL(tN("1"), tN("2"))
	case f.Kind == KSliceS:
		if dc == "path" {
			return tS(`["a","b"]`)
		}
		return tL(tS("a"), tS("b"))
	case f.Kind == KSliceB:
		switch dc {
		case "form", "header":
			return tL(tS("true"), tS("false"))
		case "path":
			return tS("[true,false]")
		}
		return tL(tB(true), tB(false))
	default:
		if strSourced(dc) {
			return tS(`{"k":1}`)
		}
		return tO1("k", tN("1"))
	}
}

// invalidTok: one value the field must not accept (constraint violation if the field carries a
// constraint, wrong type otherwise).
func invalidTok(f Field, dc string) Tok {
	cs := canonicalAsString(f, dc)
	mk := func(l string) Tok {
		if cs {
			return tS(l)
		}
		return tN(l)
	}
	g := f
	if f.Kind == KNested {
		g = f.inner()
	}
	if f.Kind == KSliceS {
		if strSourced(dc) {
			return validTok(f, dc) // every string is a valid element: no invalid value (the duplicate is dropped)
		}
		return tO0()
	}
	var t Tok
	switch {
	case g.Kind.numeric() && g.Rng >= 0 && ranges[g.Rng].hasHi:
		t = mk("100")
	case g.Kind.numeric() && g.Rng >= 0:
		t = mk("0")
	case g.Kind.numeric() && g.Opts:
		t = mk("3")
	case g.Kind.stringy() && g.Opts:
		t = tS("c")
	default:
		t = tS("x")
		if g.Kind.stringy() {
			t = tL(tS("a"), tS("b"))
			if !strSourced(dc) {
				t = tO0()
			}
		}
	}
	if f.Kind == KNested && !strSourced(dc) {
		return tO1("x", t)
	}
	return t
}

// reducedFamily: absent, null, one valid and one invalid value (sibling fields).
func reducedFamily(f Field, dc string, httpReq bool) []Tok {
	out := []Tok{tA()}
	if !(httpReq && strSourced(dc)) {
		out = append(out, tZ())
	}
	v, iv := validTok(f, dc), invalidTok(f, dc)
	out = append(out, v)
	if iv.json() != v.json() && !(dc == "path" && iv.T == "list") {
		out = append(out, iv)
	}
	return out
}

// ---------------------------------------------------------------------------------------------
// renderings

// docNode: a JSON object under construction (members in insertion order); a dotted key is a path.
type docNode struct {
	keys []string
	kids map[string]*docNode
	leaf string // rendered value, when kids == nil
}

func (n *docNode) put(path []string, leaf string) {
	if n.kids == nil {
		n.kids = map[string]*docNode{}
	}
	k, ok := n.kids[path[0]]
	if !ok {
		k = &docNode{}
		n.kids[path[0]] = k
		n.keys = append(n.keys, path[0])
	}
	if len(path) == 1 {
		k.leaf, k.kids, k.keys = leaf, nil, nil
		return
	}
	k.put(path[1:], leaf)
}

func (n *docNode) render(b *strings.Builder, kv, open, shut string) {
	if n.kids == nil && n.keys == nil && n.leaf != "" {
		b.WriteString(n.leaf)
		return
	}
	b.WriteString(open)
	for i, k := range n.keys {
		if i > 0 {
			b.WriteByte(',')
		}
		b.WriteString(strconv.Quote(k) + kv)
		n.kids[k].render(b, kv, open, shut)
	}
	b.WriteString(shut)
}

// docPath: where field i's token goes in a document: along the path of its (dotted) key, or — for
// the other placement — under one flat member named by the whole key text.
func docPath(fs []Field, i int, alt bool) []string {
	k := keyName(fs, i)
	if alt || !strings.Contains(k, ".") {
		return []string{k}
	}
	return strings.Split(k, ".")
}

func renderJSONDoc(fs []Field, toks []Tok, only string) string {
	plain := true
	for i := range fs {
		plain = plain && !fs[i].dotted()
	}
	if plain { // one member per supplied field
		var p []string
		for i, t := range toks {
			if t.T == "absent" || (only != "" && fs[i].Src != only) {
				continue
			}
			p = append(p, strconv.Quote(keyName(fs, i))+":"+t.json())
		}
		return "{" + strings.Join(p, ",") + "}"
	}
	root := &docNode{}
	for i, t := range toks {
		if t.T == "absent" || (only != "" && fs[i].Src != only) {
			continue
		}
		v, alt := t.placed()
		root.put(docPath(fs, i, alt), v.json())
	}
	var b strings.Builder
	if len(root.keys) == 0 {
		return "{}"
	}
	root.render(&b, ":", "{", "}")
	return b.String()
}

// toml renders a token as a TOML value (inline tables and arrays); null has no rendering.
func (t Tok) toml() string {
	switch t.T {
	case "num", "bool":
		return t.V
	case "str":
		return strconv.Quote(t.V)
	case "list":
		p := make([]string, len(t.E))
		for i, e := range t.E {
			p[i] = e.toml()
		}
		return "[" + strings.Join(p, ", ") + "]"
	case "obj":
		p := make([]string, len(t.E))
		for i, e := range t.E {
			p[i] = strconv.Quote(t.K[i]) + " = " + e.toml()
		}
		return "{" + strings.Join(p, ", ") + "}"
	case "alt":
		return t.E[0].toml()
	}
	return "<none>"
}

// renderTOMLDoc: one `key = value` line per top-level member; a dotted key becomes nested inline
// tables, the other placement one quoted key "p.q".
func renderTOMLDoc(fs []Field, toks []Tok) string {
	root := &docNode{}
	for i, t := range toks {
		if t.T == "absent" {
			continue
		}
		v, alt := t.placed()
		root.put(docPath(fs, i, alt), v.toml())
	}
	var b strings.Builder
	for _, k := range root.keys {
		b.WriteString(strconv.Quote(k) + " = ")
		root.kids[k].render(&b, " = ", "{", "}")
		b.WriteByte('\n')
	}
	return b.String()
}

// putNested stores v in m along path, creating the maps on the way.
func putNested(m map[string]any, path []string, v any) {
	for len(path) > 1 {
		n, ok := m[path[0]].(map[string]any)
		if !ok {
			n = map[string]any{}
			m[path[0]] = n
		}
		m, path = n, path[1:]
	}
	m[path[0]] = v
}

// nativeMap: the map a caller of UnmarshalKey passes (dotted keys address nested maps).
func nativeMap(fs []Field, toks []Tok) map[string]any {
	m := make(map[string]any, len(toks))
	for i, t := range toks {
		if t.T == "absent" {
			continue
		}
		v, alt := t.placed()
		putNested(m, docPath(fs, i, alt), native(v, fs[i].Kind))
	}
	return m
}

// native renders a token as the Go value a caller of UnmarshalKey would put into the map for a
// field of kind k: numbers in the field's exact Go type when representable.
func native(t Tok, k Kind) any {
	switch t.T {
	case "null":
		return nil
	case "str":
		return t.V
	case "bool":
		return t.V == "true"
	case "num":
		if !strings.ContainsAny(t.V, ".eE") {
			n, _ := strconv.ParseInt(t.V, 10, 64)
			switch {
			case k == KInt8 && n >= -128 && n <= 127:
				return int8(n)
			case k == KUint && n >= 0:
				return uint(n)
			case k == KFloat:
				return float64(n)
			}
			return int(n)
		}
		f, _ := strconv.ParseFloat(t.V, 64)
		return f
	case "list":
		if k == KSliceB {
			allBool := true
			for _, e := range t.E {
				allBool = allBool && e.T == "bool"
			}
			if allBool {
				out := make([]bool, len(t.E))
				for i, e := range t.E {
					out[i] = e.V == "true"
				}
				return out
			}
		}
		if k == KSliceS {
			allStr := true
			for _, e := range t.E {
				allStr = allStr && e.T == "str"
			}
			if allStr {
				return strList(t)
			}
		}
		allInt := len(t.E) > 0 || k == KSlice
		for _, e := range t.E {
			if e.T != "num" || strings.ContainsAny(e.V, ".eE") {
				allInt = false
			}
		}
		if allInt {
			out := make([]int, len(t.E))
			for i, e := range t.E {
				out[i] = native(e, KInt).(int)
			}
			return out
		}
		out := make([]any, len(t.E))
		for i, e := range t.E {
			out[i] = native(e, KInt)
		}
		return out
	case "obj":
		if k == KMap {
			allInt := true
			for _, e := range t.E {
				if e.T != "num" || strings.ContainsAny(e.V, ".eE") {
					allInt = false
				}
			}
			if allInt {
				out := make(map[string]int, len(t.E))
				for i, e := range t.E {
					out[t.K[i]] = native(e, KInt).(int)
				}
				return out
			}
		}
		out := make(map[string]any, len(t.E))
		for i, e := range t.E {
			out[t.K[i]] = native(e, KInt)
		}
		return out
	}
	return nil
}

func strList(t Tok) []string {
	out := make([]string, len(t.E))
	for i, e := range t.E {
		out[i] = e.V
	}
	return out
}

// renderStrMap renders the map handed to the form / path / header unmarshalers, shaped like the
// maps httpx builds (form: []string per key; path: string; header: string or []string).
func renderStrMap(entry string, fs []Field, toks []Tok) map[string]any {
	m := map[string]any{}
	for i, t := range toks {
		k := keyName(fs, i)
		if entry == EHDR {
			k = textproto.CanonicalMIMEHeaderKey(k) // what net/http stores (the HTTP standard, not go-zero code)
		}
		path := []string{k} // the flat parameter name, also for a dotted key: what a request delivers
		t, alt := t.placed()
		if alt {
			path = strings.Split(k, ".") // the other placement: a nested map (Unmarshaler API only)
		}
		switch t.T {
		case "absent":
		case "null":
			putNested(m, path, nil)
		case "str":
			if entry == EFORM {
				putNested(m, path, []string{t.V})
			} else {
				putNested(m, path, t.V)
			}
		case "list":
			putNested(m, path, strList(t))
		}
	}
	return m
}
