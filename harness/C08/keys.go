package main

// Key names (session 4; added for seed C08-x1).
//
// Until now every generated field was keyed by the one-letter name of its position. The mapping
// package treats the key TEXT in more than one way: a dot makes it a path into nested documents
// for the json / key / conf / header unmarshalers (getValue → readKeys → getValueWithChainedKeys →
// recursiveValuer), while the form / path unmarshalers are built WithOpaqueKeys and take the same
// text as one parameter name; the header unmarshaler canonicalises it first; the split of a key
// text is cached process-wide by the text alone (cacheKeys), next to the three caches hist.go
// already crosses (optionsCache by tag text, defaultCache by default text, structRequiredCache by
// tag key + type). This file adds
//
//   k1, k2  the key-name dimension to the ordinary enumeration: one- and two-field types whose keys
//           come from keyNames (dotted, three segments, with a dash), two fields below one common
//           head ("p.q" / "p.r"), a dotted next to a plain key (with dependencies through the dotted
//           key), and — through httpx.Parse — the SAME dotted key text under two different sources
//           in one struct; inputs in both placements (tok.go tAlt); judged by the evaluator;
//   hk      cross-user histories: a "user" of the process-wide caches is one entry point (the six
//           direct unmarshalers and the four sources of httpx.Parse). For every ORDERED pair
//           (U1, U2) one worker process first runs U1's whole universe, then U2's; the outcomes of
//           U2's items must equal, item by item, those of a process that ran U2's universe alone
//           (baseline, in forward and in reverse enumeration order — the two baselines must agree
//           too). All users carry the same tag texts (plain and special key names), so every cache
//           entry keyed by a text is met by two different users in both orders.
//
// Oracle of hk (differential, like hist.go): the statement fixes verdict and target of one (type,
// input); a fresh process is the reference, any other history must give the same. Every evaluation
// is also judged by the evaluator; a finding that does not reproduce alone in a fresh process is
// classed `history:…` (main.go finish).

import (
	"fmt"
	"hash/fnv"
	"strings"

	"github.com/zeromicro/go-zero/verifshim/vlib"
)

// keyNames: the special key texts ("" = the one-letter name is added where the plain key takes part).
var keyNames = []string{"p.q", "p.q.r", "p-q"}

const (
	keyHeadA = "p.q" // two fields below one head
	keyHeadB = "p.r"
)

// Spec levels of the key-name universes.
const (
	lvMicro = 0 // kinds int, string, nested, []string; value options none / default / range=[1:5] / options (one at a time)
	lvLite  = 1 // every kind, the quick value options with range ∈ {none, [1:5]}
	lvFull  = 2 // every kind, the quick value options
)

func keySpecs(self, n, level int) []Field {
	var out []Field
	all := primarySpecs(self, n, false)
	for _, f := range all { // the embedded struct: every int spec, flattened, with and without `,optional` on the struct
		if f.Kind == KInt {
			f.Kind = KEmbed
			all = append(all, f)
			f.EmbOpt = true
			all = append(all, f)
		}
	}
	for _, f := range all {
		switch level {
		case lvLite:
			if f.Rng > 0 {
				continue
			}
		case lvMicro:
			if f.Rng > 0 || f.Str || f.InnerOpt || !(f.Kind == KInt || f.Kind == KString || f.Kind == KNested || f.Kind == KSliceS || f.Kind == KEmbed) {
				continue
			}
			if f.Kind == KSliceS && f.Def != "" && f.Def != "[a,b]" {
				continue
			}
			nopt := 0
			for _, on := range []bool{f.Def != "", f.Rng >= 0, f.Opts} {
				if on {
					nopt++
				}
			}
			if nopt > 1 {
				continue
			}
		}
		out = append(out, f)
	}
	return out
}

// keySiblings: second fields next to a primary field p (reduced family of spec.go); the micro /
// lite levels keep the int ones: required, optional, default=3, optional=P, optional=!P.
func keySiblings(self, p, level int) []Field {
	all := siblingSpecs(self, p, false)
	if level >= lvFull {
		return all
	}
	return all[:5]
}

type keyType struct {
	fs   []Field
	prim int              // field with the full input family (-1: reduced × reduced)
	more map[int][]string // further number literals for the reduced family of a field
}

// keyTypes1: one field, every special key × specs.
func keyTypes1(level int, withPlain bool) []keyType {
	var out []keyType
	names := keyNames
	if withPlain {
		names = append([]string{""}, keyNames...)
	}
	for _, k := range names {
		for _, f := range keySpecs(0, 1, level) {
			f.Key = k
			out = append(out, keyType{fs: []Field{f}, prim: 0})
		}
	}
	if !withPlain { // the embedded struct occurs in the key-name groups only: with the plain key too
		for _, f := range keySpecs(0, 1, level) {
			if f.Kind == KEmbed {
				out = append(out, keyType{fs: []Field{f}, prim: 0})
			}
		}
	}
	return out
}

// keyTypes2: two fields —
//
//	(a) both below one head: primary "p.q" (every optionality, dependencies on the sibling) × sibling "p.r";
//	(b) a dotted primary "p.q" next to a plain sibling, and a plain primary next to a dotted sibling
//	    (dependencies through the dotted key in both directions);
//	(c) the embedded struct (plain key) next to every sibling.
//
// Below lvFull the primary field comes first in (a), and (b) has a plain primary next to a dotted
// sibling only where a dependency crosses.
func keyTypes2(level int) []keyType {
	var out []keyType
	slevel := level
	if slevel > lvLite {
		slevel = lvLite
	}
	for p := 0; p < 2; p++ {
		if p == 1 && level < lvFull {
			break
		}
		for _, pf := range keySpecs(p, 2, slevel) {
			for _, sf := range keySiblings(1-p, p, level) {
				fs := make([]Field, 2)
				pf.Key, sf.Key = keyHeadA, keyHeadB
				fs[p], fs[1-p] = pf, sf
				out = append(out, keyType{fs: fs, prim: p})
			}
		}
	}
	for p := 0; p < 2; p++ { // (c) the embedded struct with plain keys (no other group has it)
		for _, pf := range keySpecs(p, 2, slevel) {
			if pf.Kind != KEmbed {
				continue
			}
			for _, sf := range keySiblings(1-p, p, level) {
				fs := make([]Field, 2)
				fs[p], fs[1-p] = pf, sf
				out = append(out, keyType{fs: fs, prim: p})
			}
		}
	}
	for p := 0; p < 2; p++ {
		for _, pf := range keySpecs(p, 2, slevel) {
			for _, sf := range keySiblings(1-p, p, level) {
				for _, dottedPrimary := range []bool{true, false} {
					if !dottedPrimary && (level < lvFull && pf.Opt < OptDep && sf.Opt < OptDep) {
						continue
					}
					fs := make([]Field, 2)
					pf.Key, sf.Key = "", ""
					if dottedPrimary {
						pf.Key = keyHeadA
					} else {
						sf.Key = keyHeadA
					}
					fs[p], fs[1-p] = pf, sf
					out = append(out, keyType{fs: fs, prim: p})
				}
			}
		}
	}
	// (d) three fields: A "p.q" (int: required / optional × none / default / range / options), B "p.r" (optional
	// int: supplies the head p) and C keyed by A's tail segment "q" at top level (required / optional int;
	// values 3 and 100: inside and outside A's range, not among A's options)
	for _, af := range keySpecs(0, 1, lvMicro) {
		if af.Kind != KInt {
			continue
		}
		for _, copt := range []int{OptNone, OptPlain} {
			af.Key = keyHeadA
			fs := []Field{af, {Kind: KInt, Rng: -1, Opt: OptPlain, Key: keyHeadB}, {Kind: KInt, Rng: -1, Opt: copt, Key: "q"}}
			out = append(out, keyType{fs: fs, prim: 0, more: map[int][]string{2: {"100"}}})
		}
	}
	return out
}

// keyTypesHTTP1: one field per source.
func keyTypesHTTP1(level int, srcs []string, withPlain bool) []keyType {
	var out []keyType
	for _, src := range srcs {
		for _, kt := range keyTypes1(level, withPlain) {
			kt.fs[0].Src = src
			out = append(out, kt)
		}
	}
	return out
}

// keyTypesHTTP2: two fields of one request type carrying the SAME dotted key text under two
// different sources (every ordered pair of sources, the primary in either position), and two
// fields of one source below one head.
func keyTypesHTTP2(level int) []keyType {
	var out []keyType
	sibs := []Field{{Kind: KInt, Rng: -1}, {Kind: KInt, Rng: -1, Opt: OptPlain}, {Kind: KInt, Rng: 0, Def: "3"}, {Kind: KString, Rng: -1, Opt: OptPlain, Opts: true}}
	for _, srcP := range sources {
		for _, srcS := range sources {
			for p := 0; p < 2; p++ {
				for _, pf := range keySpecs(p, 2, level) {
					if pf.Opt >= OptDep && srcP != srcS {
						continue // dependencies are resolved inside one parameter map
					}
					if pf.Str && srcP != "json" {
						continue
					}
					for _, sf := range sibs {
						pf.Src, sf.Src = srcP, srcS
						pf.Key, sf.Key = keyHeadA, keyHeadA
						if srcP == srcS {
							sf.Key = keyHeadB // one source: two parameters below one head
						}
						fs := make([]Field, 2)
						fs[p], fs[1-p] = pf, sf
						out = append(out, keyType{fs: fs, prim: p})
					}
				}
			}
		}
	}
	return out
}

func keyFams(entry string, kt keyType, thorough bool) [][]Tok {
	fams := famsFor(entry, kt.fs, kt.prim, thorough, entry == EHTTP)
	for i, lits := range kt.more {
		for _, l := range lits {
			t := tN(l)
			if canonicalAsString(kt.fs[i], delivery(entry, kt.fs[i])) {
				t = tS(l)
			}
			fams[i] = append(fams[i], t)
		}
	}
	return fams
}

// withPlacements adds, for a field with a dotted key, every supplied token under the other
// placement as well (direct entries and JSON bodies; a request cannot nest a parameter).
func withPlacements(f Field, dc string, httpReq bool, fam []Tok) []Tok {
	if !f.dotted() || (httpReq && strSourced(dc)) {
		return fam
	}
	out := append([]Tok{}, fam...)
	for _, t := range fam {
		if t.T != "absent" {
			out = append(out, tAlt(t))
		}
	}
	return out
}

// ---------------------------------------------------------------------------------------------
// k1 / k2: ordinary enumeration

func (x *runner) runKeys(s shardSpec) {
	th := x.cfg.Thorough()
	lv := 0 // thorough: one spec level up
	if th {
		lv = 1
	}
	var types []keyType
	switch {
	case s.group == "k1" && s.entry == EHTTP:
		types = keyTypesHTTP1(lvLite+lv, sources, false)
	case s.group == "k1" && (s.entry == EYAML || s.entry == ETOML):
		types = keyTypes1(lvFull, true) // the plain key too: no other group drives these two converters
	case s.group == "k1":
		types = keyTypes1(lvFull, false)
	case s.entry == EHTTP:
		types = keyTypesHTTP2(lvMicro + lv)
	default:
		types = keyTypes2(lvMicro + lv)
	}
	for i, kt := range types {
		if i%s.parts != s.part {
			continue
		}
		fams := keyFams(s.entry, kt, th)
		if s.entry == ETOML {
			for i, fam := range fams { // TOML has no null
				var keep []Tok
				for _, t := range fam {
					if !t.hasNull() {
						keep = append(keep, t)
					}
				}
				fams[i] = keep
			}
		}
		x.evalType(s.entry, kt.fs, fams)
	}
}

// ---------------------------------------------------------------------------------------------
// hk: cross-user histories

// hkUsers: the users of the process-wide caches.
func hkUsers() []string { return append(append([]string{}, directEntries...), EHTTP) }

// hkUniverse: what one user runs: one-field types with the plain and every special key (quick:
// micro specs; thorough: lite) and the micro two-field types. primer: reduced inputs only (the
// first phase of a pair shard: every type passes with absent / null / one valid / one invalid value
// in both placements). The httpx user runs its one-field types source by source (form, path,
// header, json — httpx.Parse itself runs the path, form, header and body unmarshalers on every
// type) and the two-field types whose fields share a source.
func hkUniverse(user string, thorough, primer bool) []histItem {
	var out []histItem
	lv := lvMicro
	if thorough {
		lv = lvLite
	}
	prim := func(kt keyType) keyType {
		if primer {
			kt.prim = -1
		}
		return kt
	}
	if user == EHTTP {
		for _, kt := range keyTypesHTTP1(lv, sources, true) {
			kt = prim(kt)
			out = append(out, histItem{EHTTP, kt.fs, keyFams(EHTTP, kt, thorough), nil})
		}
		for _, kt := range keyTypesHTTP2(lvMicro) {
			if !thorough && kt.fs[kt.prim].Kind != KInt {
				continue // quick: the request types with an int primary field
			}
			kt.prim = -1
			out = append(out, histItem{EHTTP, kt.fs, keyFams(EHTTP, kt, thorough), nil})
		}
		return out
	}
	for _, kt := range keyTypes1(lv, true) {
		kt = prim(kt)
		out = append(out, histItem{user, kt.fs, keyFams(user, kt, thorough), nil})
	}
	for _, kt := range keyTypes2(lvMicro) {
		if !thorough && !hkQuick2(kt.fs) {
			continue
		}
		kt.prim = -1
		out = append(out, histItem{user, kt.fs, keyFams(user, kt, thorough), nil})
	}
	return out
}

// hkQuick2: the two-field types a quick cross-user universe keeps: primary kinds int and nested;
// below one head, or a dependency through the dotted key (what two fields add to the one-field
// types: dependency resolution and a shared head).
func hkQuick2(fs []Field) bool {
	dep, dotted := false, 0
	for _, f := range fs {
		if f.Kind != KInt && f.Kind != KNested {
			return false
		}
		dep = dep || f.Opt >= OptDep
		if f.dotted() {
			dotted++
		}
	}
	return dotted == 2 || (dotted == 1 && dep)
}

func hkSplit(entry string) (u1, u2 string) {
	if i := strings.Index(entry, ">"); i >= 0 {
		return entry[:i], entry[i+1:]
	}
	return "", entry
}

func hkShards() []string {
	var out []string
	us := hkUsers()
	for _, u := range us {
		out = append(out, shardSpec{"hk", u, 0, 2}.name(), shardSpec{"hk", u, 1, 2}.name())
	}
	for _, u1 := range us {
		for _, u2 := range us {
			if u1 != u2 {
				out = append(out, shardSpec{"hk", u1 + ">" + u2, 0, 1}.name())
			}
		}
	}
	return out
}

// evalOnce executes one (type, input) once, judges it and reports an evaluator finding.
func (x *runner) evalOnce(c *Case, acc, rej *int64) string {
	ob := execute(c, c.typ)
	fd, oc := judge(c, ob)
	x.nCases++
	x.outcomes[oc]++
	if ob.accepted {
		*acc++
	} else {
		*rej++
	}
	if fd != nil {
		x.report(c, fd)
	}
	o, _ := outcomeOf(ob)
	return o
}

// runHK runs one cross-user shard: U1's universe (if any), then U2's universe; the digests of
// U2's first evaluations go to the parent. dumpItem >= 0 (child of the comparison): stop after
// U2's item dumpItem and return its outcomes, indexed by input vector.
func (x *runner) runHK(s shardSpec, dumpItem int) []string {
	th := x.cfg.Thorough()
	u1, u2 := hkSplit(s.entry)
	run := func(items []histItem, rev, second bool) ([][]uint64, []string) {
		first := make([][]uint64, len(items))
		for k := range items {
			ti := k
			if rev {
				ti = len(items) - 1 - k
			}
			if expired(x.cfg) {
				x.stopped = true
				return nil, nil
			}
			it := items[ti]
			x.nTypes++
			toks := make([]Tok, len(it.fs))
			c := &Case{Entry: it.entry, Fields: it.fs, Toks: toks}
			c.typ = caseType(c, false)
			nv := nVectors(it.fams)
			first[ti] = make([]uint64, nv)
			var dump []string
			if second && ti == dumpItem {
				dump = make([]string, nv)
			}
			var acc, rej int64
			for j := 0; j < nv; j++ {
				v := j
				if rev {
					v = nv - 1 - j
				}
				vectorAt(it.fams, v, toks)
				o := x.evalOnce(c, &acc, &rej)
				first[ti][v] = hash64(o)
				if dump != nil {
					dump[v] = o
				}
			}
			if second && acc > 0 && rej > 0 && constrainedType(it.fs) {
				x.r.Nontrivial(x.shard + "#" + it.entry + "#" + describeCase(c))
			}
			if dump != nil {
				return first, dump
			}
		}
		return first, nil
	}
	if u1 != "" {
		if run(hkUniverse(u1, th, true), false, false); x.stopped {
			return nil
		}
	}
	first, dump := run(hkUniverse(u2, th, false), s.part == 1, true)
	if dump != nil || x.stopped {
		return dump
	}
	if !x.inReplay {
		x.r.SetExtra(digestKey+x.shard, digestItems(first))
	}
	return nil
}

func constrainedType(fs []Field) bool {
	for _, f := range fs {
		if f.Opt != OptPlain || f.Rng >= 0 || f.Opts {
			return true
		}
	}
	return false
}

// digestItems: one 52-bit digest per item over its first-evaluation outcomes (exact in a JSON number).
func digestItems(first [][]uint64) []int64 {
	dg := make([]int64, len(first))
	for ti, f := range first {
		h := fnv.New64a()
		var b [8]byte
		for _, u := range f {
			for i := range b {
				b[i] = byte(u >> (8 * i))
			}
			h.Write(b[:])
		}
		dg[ti] = int64(h.Sum64() >> 12)
	}
	return dg
}

// compareUsers (parent process): U2's outcomes after U1 against U2's outcomes alone, and the two
// baselines (forward / reverse enumeration order) against each other.
func compareUsers(r *vlib.Report, cfg *vlib.Config, names []string) {
	dg := map[string][]int64{}
	for _, n := range names {
		if parseShard(n).group == "hk" {
			if d := digestsOf(r, n); d != nil {
				dg[n] = d
			}
		}
	}
	classes := map[string]bool{}
	dumps := 0
	reported := map[string][][]string{} // per kind: feature sets already reported
	for _, n := range names {
		s := parseShard(n)
		if s.group != "hk" {
			continue
		}
		u1, u2 := hkSplit(s.entry)
		base := shardSpec{"hk", u2, 0, 2}.name()
		kind := "cross-user"
		if u1 == "" {
			if s.part == 0 {
				continue
			}
			kind = "cold-order" // reverse baseline against forward baseline
		}
		a, b := dg[base], dg[n]
		if a == nil || b == nil || len(a) != len(b) {
			continue // a time-boxed shard: nothing to compare
		}
		var items []histItem
		for ti := range a {
			if a[ti] == b[ti] {
				continue
			}
			r.Count("hist:items differing between "+map[string]string{"cross-user": "a fresh process and a process with an earlier user", "cold-order": "enumeration orders"}[kind], 1)
			if items == nil {
				items = hkUniverse(u2, cfg.Thorough(), false)
			}
			it := items[ti]
			probe := &Case{Entry: it.entry, Fields: it.fs, Toks: make([]Tok, len(it.fs))}
			vectorAt(it.fams, 0, probe.Toks)
			feats := histFeatureSet(probe, -1, "")
			class := "history:" + kind + "-differs{" + strings.Join(feats, ",") + "}"
			covered := false
			for _, rf := range reported[kind] {
				covered = covered || subset(rf, feats)
			}
			if covered || classes[class] || dumps >= 6 {
				continue
			}
			dumps++
			c, desc := coldOrderCase(base, n, ti, cfg.Tier)
			if c == nil {
				continue
			}
			classes[class] = true
			reported[kind] = append(reported[kind], feats)
			r.Violation(class, fmt.Sprintf("%s  type=%s  input=%s  [entry %s]", desc, c.Type, c.Input, c.Entry), c)
		}
	}
}
