// C08 — declarative validation in core/mapping (and its users rest/httpx, core/conf).
//
// Bounded-exhaustive enumeration (enumx, DESIGN §2.5 / §3 C08): every struct type of a bounded
// reflect.StructOf family × every input of a bounded per-field input family × every entry point,
// each executed against the real code and judged by an independent constraint evaluator
// (oracle.go). Nothing is sampled; VERIF_SEED only rotates the order of the shards.
package main

import (
	"fmt"
	"os"
	"runtime/pprof"
	"sort"
	"strconv"
	"strings"
	"time"

	"github.com/zeromicro/go-zero/verifshim/vlib"
)

// ---------------------------------------------------------------------------------------------
// shards: "<group>|<entry>|<part>/<parts>"
//   f1     one field:   full spec family × full input family
//   f2     two fields:  primary (full spec family, both positions) × sibling (reduced family),
//                       inputs full × reduced
//   f3     three fields (thorough): primary (full, optional=dep over both siblings) × sibling × sibling
//   h1,h2  httpx.Parse on generated requests; every field has its own source
//   docs   degenerate documents (totality only)
//   hi     history independence (hist.go): part 0 = forward, part 1 = reverse enumeration order
//   k1,k2  key names (keys.go): dotted / multi-segment / dashed keys, both placements of a value
//   hk     cross-user histories (keys.go): entry "<U1>><U2>" = U1's universe, then U2's, in one process;
//          entry "<U>" = the baseline (part 0 forward, part 1 reverse order)

type shardSpec struct {
	group, entry string
	part, parts  int
}

func (s shardSpec) name() string { return fmt.Sprintf("%s|%s|%d/%d", s.group, s.entry, s.part, s.parts) }

func parseShard(n string) shardSpec {
	p := strings.Split(n, "|")
	var s shardSpec
	s.group, s.entry = p[0], p[1]
	q := strings.Split(p[2], "/")
	s.part, _ = strconv.Atoi(q[0])
	s.parts, _ = strconv.Atoi(q[1])
	return s
}

func shardList(thorough bool) []string {
	var out []string
	add := func(group, entry string, parts int) {
		for i := 0; i < parts; i++ {
			out = append(out, shardSpec{group, entry, i, parts}.name())
		}
	}
	add("docs", EJSON, 1)
	for _, e := range directEntries {
		add("f1", e, 1)
	}
	add("h1", EHTTP, 1)
	p2, ph, p3 := 6, 16, 96
	if thorough {
		p2, ph = 16, 32
	}
	for _, e := range directEntries {
		add("f2", e, p2)
	}
	add("h2", EHTTP, ph)
	for _, e := range directEntries {
		add("hi", e, 2)
	}
	add("hi", EHTTP, 2)
	add("hi", EMIX, 2*nMixParts)
	// key names (keys.go)
	pk := 2
	if thorough {
		pk = 6
	}
	for _, e := range directEntries {
		add("k1", e, 1)
		add("k2", e, pk)
	}
	add("k1", EHTTP, 1)
	add("k2", EHTTP, pk)
	add("k1", EYAML, 1)
	add("k1", ETOML, 1)
	out = append(out, hkShards()...)
	add("wn", "all", 4) // wide kinds x extreme numbers (wide.go)
	add("du", "all", 1) // time.Duration / json.Unmarshaler fields (wide.go)
	if thorough {
		// parts-major: the completed prefix of a time-boxed run is "the first k blocks of primary
		// specs (simplest kinds first) on every entry point"
		for i := 0; i < p3; i++ {
			for _, e := range directEntries {
				out = append(out, shardSpec{"f3", e, i, p3}.name())
			}
		}
	}
	return out
}

var debugAllowed = os.Getenv("C08_DEBUG_ALLOWED") != ""

const nF3Siblings = 6 // plain, optional, default, optional=dep, optional=!dep, optional=dep+range

var sources = []string{"form", "path", "header", "json"}

type runner struct {
	r        *vlib.Report
	cfg      *vlib.Config
	shard    string
	seenKey  map[string]bool // coarse finding keys already classified in this worker
	stopped  bool
	sampling bool // this shard contributes one sample case to the evidence file
	hist     bool // a history shard (hist.go)
	poisoned bool // hist shards: a shared-state (aliasing) failure was seen; later plain findings are its consequences
	inReplay bool
	probed   map[string]bool // class -> the shrunk case fails alone in a fresh process
	quiet    bool // dump children of the cold-order comparison: execute the history, report nothing
	nCases   int64
	nTypes   int64
	outcomes [nOutcomeClasses]int64
}

// evalType runs every token vector of the product fams[0] × fams[1] × … on one type.
func (x *runner) evalType(entry string, fs []Field, fams [][]Tok) {
	if x.stopped {
		return
	}
	if expired(x.cfg) {
		x.stopped = true
		return
	}
	x.nTypes++
	idx := make([]int, len(fs))
	toks := make([]Tok, len(fs))
	var acc, rej int64
	constrained := false
	for _, f := range fs {
		if f.Opt != OptPlain || f.Rng >= 0 || f.Opts {
			constrained = true // something can make an input unacceptable
		}
	}
	c := &Case{Entry: entry, Fields: fs, Toks: toks, typ: buildType(fs)}
	for {
		for i := range fs {
			toks[i] = fams[i][idx[i]]
		}
		fd, oc := check(c)
		x.nCases++
		x.outcomes[oc]++
		if oc == ocAcceptedDemanded || oc == ocAcceptedAllowed {
			acc++
		} else {
			rej++
		}
		if debugAllowed && fd == nil && (oc == ocAcceptedAllowed || oc == ocRejectedAllowed) {
			fmt.Printf("ALLOWED %s %s | %s | %s\n", map[int]string{ocAcceptedAllowed: "acc", ocRejectedAllowed: "rej"}[oc], entry, describeType(fs), inputText(c))
		}
		if fd != nil {
			x.report(c, fd)
		} else if x.sampling && x.nCases == 5000 {
			s := cloneCase(c)
			s.fill(nil)
			x.r.Sample(map[string]any{"entry": s.Entry, "type": s.Type, "input": s.Input, "expected": s.Expected})
		}
		// next vector
		k := len(fs) - 1
		for k >= 0 {
			idx[k]++
			if idx[k] < len(fams[k]) {
				break
			}
			idx[k] = 0
			k--
		}
		if k < 0 {
			break
		}
	}
	if constrained && acc > 0 && rej > 0 {
		x.r.Nontrivial(x.shard + "#" + entry + "#" + describeType(fs))
	}
}

func (x *runner) report(c *Case, fd *finding) {
	if x.quiet {
		return
	}
	coarse := fd.Kind + "|" + c.Entry
	if fd.Field >= 0 {
		f := c.Fields[fd.Field]
		coarse += fmt.Sprintf("|%d|%d|%v|%d|%v|%v|%v", f.Kind, f.Opt, f.Def != "", f.Rng, f.Opts, f.Str, f.InnerOpt)
		if f.Key != "" || f.EmbOpt {
			coarse += fmt.Sprintf("|%s|%v", f.Key, f.EmbOpt)
		}
	} else {
		coarse += "|" + describeType(c.Fields)
	}
	if causeKind(fd.Kind) {
		coarse = fd.Kind // a cause key of its own: classified once per shard
	}
	x.r.Count("findings_raw", 1)
	if x.seenKey[coarse] {
		return
	}
	if len(x.seenKey) > 400 {
		x.r.Count("findings_unclassified", 1)
		return
	}
	x.seenKey[coarse] = true
	if c.Alt != nil {
		// a split type (hist.go): if the type with the same options under every key fails the same
		// way, it is an ordinary finding; otherwise an unmarshaler reads another key's options
		plain := cloneCase(c)
		if pfd, _ := check(plain); pfd != nil && pfd.Kind == fd.Kind {
			c, fd = plain, pfd
		} else {
			sc := cloneCase(c)
			sc.Alt = c.Alt
			x.finish("split-keys:"+fd.Kind+histFeatures(c, fd.Field, fd.Kind), sc, fd)
			return
		}
	}
	class, sc, sfd := classify(c, fd)
	x.finish(class, sc, sfd)
}

// finish records a classified finding. The shrunk case was found (and shrunk) in a process with a
// history; if it does not fail on its own in a FRESH process (tried in a child process, once per
// class), the failure is caused by what was unmarshalled before: the class gets the `history:`
// prefix and the replay re-runs the shard's history instead of the single case.
func (x *runner) finish(class string, sc *Case, sfd *finding) {
	alone, ok := x.probed[class]
	if !ok {
		alone = reproducesAlone(x.cfg, sc)
		if x.probed == nil {
			x.probed = map[string]bool{}
		}
		x.probed[class] = alone
	}
	desc := sfd.Desc
	if !alone {
		// the shrinker cannot remove options here (every tag text has its own cache entries, only the
		// failing one is in the failing state), so the key is the coarse one of the history classes
		class = "history:" + sfd.Kind + histFeatures(sc, sfd.Field, sfd.Kind)
		desc = "only after the earlier evaluations of the shard (alone in a fresh process the case passes): " + desc
		sc.Hist = &HistScript{Mode: "shard", Shard: x.shard, Tier: x.cfg.Tier, Step: "first evaluation"}
	}
	sc.fill(sfd)
	if !alone {
		sc.Expected += "; the same verdict and value whatever was unmarshalled before"
	}
	x.r.Violation(class, fmt.Sprintf("%s  type=%s  input=%s  [entry %s]", desc, sc.Type, sc.Input, sc.Entry), sc)
}

// expired: the soft time box of the whole run. The parent publishes its absolute deadline in the
// environment, because a worker's own -budget is never below 5 s (vlib) and hundreds of shards
// started after the deadline would otherwise add up.
func expired(cfg *vlib.Config) bool {
	if d, err := strconv.ParseInt(os.Getenv("C08_DEADLINE_UNIX"), 10, 64); err == nil && d > 0 {
		return time.Now().Unix() >= d
	}
	return cfg.Expired()
}

func famsFor(entry string, fs []Field, primary int, thorough, httpReq bool) [][]Tok {
	fams := make([][]Tok, len(fs))
	for i, f := range fs {
		dc := delivery(entry, f)
		if i == primary {
			fams[i] = withPlacements(f, dc, httpReq, family(f, dc, thorough, httpReq))
		} else {
			fams[i] = withPlacements(f, dc, httpReq, reducedFamily(f, dc, httpReq))
		}
	}
	return fams
}

func (x *runner) runShard(s shardSpec) {
	th := x.cfg.Thorough()
	switch s.group {
	case "docs":
		x.runDocs()
	case "f1":
		for _, f := range primarySpecs(0, 1, th) {
			fs := []Field{f}
			x.evalType(s.entry, fs, famsFor(s.entry, fs, 0, th, false))
		}
	case "f2":
		n := 0
		for p := 0; p < 2; p++ {
			for _, pf := range primarySpecs(p, 2, th) {
				n++
				if n%s.parts != s.part {
					continue
				}
				for _, sf := range siblingSpecs(1-p, p, th) {
					fs := make([]Field, 2)
					fs[p], fs[1-p] = pf, sf
					x.evalType(s.entry, fs, famsFor(s.entry, fs, p, th, false))
				}
			}
		}
	case "f3":
		// primary at position 0, 1 or 2; the first sibling may depend on the primary, the
		// second sibling on the first sibling (dependency chains and cycles).
		// The value options of the primary field are the quick-tier ones here (all 12 range
		// forms and the out-of-range defaults are covered with one and two fields).
		for p := 0; p < 3; p++ {
			s1, s2 := (p+1)%3, (p+2)%3
			ps := primarySpecs(p, 3, false)
			lo, hi := s.part*len(ps)/s.parts, (s.part+1)*len(ps)/s.parts
			for _, pf := range ps[lo:hi] {
				for _, f1 := range siblingSpecs(s1, p, false)[:nF3Siblings] {
					for _, f2 := range siblingSpecs(s2, s1, false)[:nF3Siblings] {
						fs := make([]Field, 3)
						fs[p], fs[s1], fs[s2] = pf, f1, f2
						x.evalType(s.entry, fs, famsFor(s.entry, fs, p, false, false))
					}
				}
			}
		}
	case "hi":
		x.runHist(s, -1)
	case "k1", "k2":
		x.runKeys(s)
	case "hk":
		x.runHK(s, -1)
	case "wn", "du":
		x.runWide(s)
	case "h1":
		for _, src := range sources {
			for _, f := range primarySpecs(0, 1, th) {
				f.Src = src
				fs := []Field{f}
				x.evalType(EHTTP, fs, famsFor(EHTTP, fs, 0, th, true))
			}
		}
	case "h2":
		// two fields, every pair of sources; dependencies only between fields of one source
		// (optional=dep is resolved inside one parameter map).
		n := 0
		for _, srcP := range sources {
			for _, srcS := range sources {
				for p := 0; p < 2; p++ {
					for _, pf := range primarySpecs(p, 2, th) {
						if srcP != srcS && pf.Opt >= OptDep {
							continue
						}
						if pf.Str && srcP != "json" {
							continue // `string` is implied for form/path/header (covered by h1 and the direct entries)
						}
						n++
						if n%s.parts != s.part {
							continue
						}
						for _, sf := range siblingSpecs(1-p, p, false) {
							if srcP != srcS && sf.Opt >= OptDep {
								continue
							}
							pf.Src, sf.Src = srcP, srcS
							fs := make([]Field, 2)
							fs[p], fs[1-p] = pf, sf
							x.evalType(EHTTP, fs, famsFor(EHTTP, fs, p, th, true))
						}
					}
				}
			}
		}
	}
}

// runDocs: degenerate documents must be rejected or accepted without a panic.
func (x *runner) runDocs() {
	docs := []string{``, `null`, `[]`, `3`, `"x"`, `{`, `{"a":}`, `[{}]`, `{"a":{"a":{"a":1}}}`, `{"":1}`, `{"a.b":1}`, `{"a":1e400}`, `{"a":-0}`, `{"a":1E2}`}
	for _, f := range primarySpecs(0, 1, false) {
		fs := []Field{f}
		for _, e := range []string{EJSON, ECONF} {
			for _, d := range docs {
				d := d
				c := &Case{Entry: e, Fields: fs, Toks: []Tok{tA()}, Raw: &d}
				fd, oc := check(c)
				x.nCases++
				x.outcomes[oc]++
				if fd != nil {
					c.fill(fd)
					x.r.Violation("panic-on-document", fmt.Sprintf("%s  type=%s  document=%q [entry %s]", fd.Desc, c.Type, d, e), c)
				}
			}
		}
	}
}

func (x *runner) finishShard(s shardSpec) {
	x.r.Eval(int(x.nCases))
	x.r.Count("types", int(x.nTypes))
	x.r.Count("cases:"+s.group+":"+s.entry, int(x.nCases))
	x.r.Count("outcome:accepted-demanded", int(x.outcomes[ocAcceptedDemanded]))
	x.r.Count("outcome:accepted-allowed", int(x.outcomes[ocAcceptedAllowed]))
	x.r.Count("outcome:rejected-demanded", int(x.outcomes[ocRejectedDemanded]))
	x.r.Count("outcome:rejected-allowed", int(x.outcomes[ocRejectedAllowed]))
	if x.stopped {
		x.r.Count("shards_cut:"+s.group+":"+s.entry, 1)
		x.r.NotExhaustive("cut " + s.name())
	} else {
		x.r.Count("shards_complete:"+s.group+":"+s.entry, 1)
	}
}

// summariseCuts replaces the per-shard time-box notes by one line saying what was fully covered.
func summariseCuts(r *vlib.Report) {
	if len(r.NotExh) == 0 {
		return
	}
	var full, part []string
	seen := map[string]bool{}
	for k := range r.Counters {
		for _, pre := range []string{"shards_cut:", "shards_complete:"} {
			if strings.HasPrefix(k, pre) {
				seen[strings.TrimPrefix(k, pre)] = true
			}
		}
	}
	for g := range seen {
		cut, done := r.Counters["shards_cut:"+g], r.Counters["shards_complete:"+g]
		if cut == 0 {
			full = append(full, g)
		} else {
			part = append(part, fmt.Sprintf("%s (%d of %d shards complete)", g, done, cut+done))
		}
	}
	sort.Strings(full)
	sort.Strings(part)
	r.NotExh = []string{"soft time box reached; fully enumerated groups: " + strings.Join(full, " ") +
		"; partially enumerated (blocks of primary specs, simplest kinds first): " + strings.Join(part, ", ")}
}

const rule = "one evaluation = one (entry point, generated struct type, input vector) executed on the real code and judged by the " +
	"independent evaluator; every element of the bounded family is generated exactly once. A (entry, type) pair is counted as " +
	"distinct non-trivial when the type declares at least one constraint (required / dependency / range / options) and the run " +
	"observed both an accepted and a rejected input for it. History groups (hi): every (type, input) of the sub-family is " +
	"executed 4 times per enumeration order (target 1, which is then mutated in place through every slice / map / pointer; a " +
	"second target; a target of a sibling type; once more after all other types) and all four must agree with each other and " +
	"with the evaluator; an (order, entry, type) counts as non-trivial when an accepted target held a slice / map / pointer " +
	"that was actually written through. Key-name groups (k1, k2): the ordinary rule over types whose keys are dotted / " +
	"three-segment / dashed texts (and the embedded struct), every supplied value in both placements (along the path and as one " +
	"flat member). Cross-user groups (hk): one process per ordered pair of entry points (U1, U2) runs U1's universe and then " +
	"U2's; every outcome of U2 must equal the outcome in a process that ran U2 alone, and the forward / reverse baselines must " +
	"agree; counted like the ordinary groups (second phase only)."

func main() {
	cfg := vlib.ParseFlags("C08", "exploration")
	if os.Getenv(dumpEnv) != "" {
		histDumpChild(cfg)
	}
	r := vlib.NewReport(cfg)
	if cfg.Replay != "" {
		replay(cfg, r)
		return
	}
	if pf := os.Getenv("C08_CPUPROFILE"); pf != "" && cfg.Shard != "" {
		f, _ := os.Create(pf)
		pprof.StartCPUProfile(f)
	}
	if cfg.BudgetS == 0 && cfg.Thorough() {
		cfg.BudgetS = 1020 // soft box: 17 min of enumeration, leaves room for build and merge within 20 min
	}
	r.SetRule(rule)
	if cfg.Shard == "" {
		os.Setenv("C08_DEADLINE_UNIX", fmt.Sprint(cfg.Deadline().Unix()))
	}
	names := shardList(cfg.Thorough())
	if cfg.Shard == "" {
		if k := int(cfg.Seed % int64(len(names))); k > 0 { // the seed only rotates the order
			names = append(append([]string{}, names[k:]...), names[:k]...)
		}
		sizes := map[string]any{}
		for n := 1; n <= 3; n++ {
			sizes[fmt.Sprintf("primary_specs_%d_fields", n)] = len(primarySpecs(0, n, cfg.Thorough() && n < 3))
		}
		sizes["sibling_specs"] = len(siblingSpecs(1, 0, cfg.Thorough()))
		sizes["ranges"] = map[bool]int{false: nQuickRanges, true: len(ranges)}[cfg.Thorough()]
		sizes["shards"] = len(names)
		sizes["entries"] = append(append([]string{}, directEntries...), EHTTP)
		r.SetExtra("family", sizes)
		r.Assume("reflect.StructOf types behave like declared struct types for core/mapping (it only uses reflection)")
		r.Assume("null, non-canonical renderings and absent non-scalar fields are bracketed (see harness/C08/NOTES.md)")
	}
	vlib.RunShards(r, names, func(name string, r *vlib.Report) {
		s := parseShard(name)
		x := &runner{r: r, cfg: cfg, shard: name, seenKey: map[string]bool{}, hist: s.group == "hi"}
		x.sampling = s.part == 0 && (s.group == "f2" || s.group == "h2" || s.group == "f3")
		x.runShard(s)
		x.finishShard(s)
		pprof.StopCPUProfile()
	})
	compareOrders(r, cfg, shardList(cfg.Thorough()))
	compareUsers(r, cfg, shardList(cfg.Thorough()))
	sortViolations(r)
	sort.SliceStable(r.Samples, func(i, j int) bool { return fmt.Sprint(r.Samples[i]) < fmt.Sprint(r.Samples[j]) })
	summariseCuts(r)
	r.Finish()
}

// sortViolations makes the order of reported classes independent of shard completion order.
func sortViolations(r *vlib.Report) {
	for i := range r.Violations {
		r.Violations[i].Shard = "" // which shard met a class first depends on scheduling; the replay does not need it
	}
	sort.SliceStable(r.Violations, func(i, j int) bool { return r.Violations[i].Class < r.Violations[j].Class })
}

func replay(cfg *vlib.Config, r *vlib.Report) {
	var c Case
	class, err := vlib.LoadReplay(cfg.Replay, &c)
	if err != nil {
		vlib.Fatal("cannot load replay: %v", err)
	}
	for i := range c.Toks {
		if c.Toks[i].T == "list" && c.Toks[i].E == nil {
			c.Toks[i].E = []Tok{}
		}
	}
	if c.Wide != nil {
		if replayWide(class, &c) {
			fmt.Printf("VIOLATION property=C08 replay=%s\n", cfg.Replay)
			os.Exit(1)
		}
		fmt.Println("replay: the case no longer fails")
		os.Exit(0)
	}
	if c.Hist != nil {
		if replayHist(cfg, class, &c) {
			fmt.Printf("VIOLATION property=C08 replay=%s\n", cfg.Replay)
			os.Exit(1)
		}
		fmt.Println("replay: the case no longer fails")
		os.Exit(0)
	}
	fd, _ := check(&c)
	c.fill(fd)
	fmt.Printf("replay class=%s\n entry:    %s\n type:     %s\n input:    %s\n expected: %s\n observed: %s\n", class, c.Entry, c.Type, c.Input, c.Expected, c.Observed)
	if fd != nil {
		fmt.Printf("VIOLATION property=C08 replay=%s\n", cfg.Replay)
		os.Exit(1)
	}
	fmt.Println("replay: the case no longer fails")
	os.Exit(0)
}
