package main

// History independence of the unmarshaller's process-wide state (optionsCache, defaultCache,
// structRequiredCache, cacheKeys — whatever the implementation keeps between calls).
//
// The property says what the result of unmarshalling one (type, input) is: the verdict follows
// from the declared constraints and the target holds the supplied values / declared defaults.
// Nothing in it depends on what was unmarshalled before or on what the owners of earlier targets
// did with them. The groups of this file therefore execute HISTORIES on the real code:
//
//   for every (type, input) of a bounded sub-family, in one worker process, in a fixed order:
//     1. unmarshal into target 1, judge it with the independent evaluator (oracle.go);
//     2. MUTATE target 1 in place through every reachable slice / map / pointer (overwrite every
//        element up to the capacity, overwrite and add map entries, change pointed-to values),
//        one field at a time, watching the other fields of the same target (fields of one target
//        must not share memory either);
//     3. unmarshal the same input into a fresh target 2 of the same type: same verdict, same value;
//     4. the same into a fresh target of a SIBLING type (distinct reflect.Type, same field types
//        and tag texts): same verdict, same value;      every target is mutated after it was judged;
//   then (second pass, all caches warm, every other type evaluated in between) every (type, input)
//   once more in the opposite order: the N-th evaluation must equal the first one — also where the
//   evaluator brackets (null, non-canonical renderings): bracketed outcomes may go either way, but
//   always the same way.
//   Each universe is run in two enumeration orders (forward / reverse: which kind, which option
//   combination, which input meets a cold cache first), each in its own process.
//
// Nothing here reads the implementation's caches: only public entry points, the targets they
// fill, and reflection on those targets (what any caller can do).

import (
	"encoding/json"
	"fmt"
	"hash/fnv"
	"os"
	"os/exec"
	"path/filepath"
	"reflect"
	"strings"

	"github.com/zeromicro/go-zero/verifshim/vlib"
)

const (
	sentInt = 424242      // lies outside every input / default of the family
	sentStr = "~mutated~" // likewise
)

// HistScript says how a history case is re-executed by --replay.
type HistScript struct {
	// "sequence": from a fresh process, run the four steps above on the case's (type, input).
	// "shard":    re-run the whole history of the named shard (the failure needs earlier evaluations
	//             of other types) and look for the class again.
	Mode  string `json:"mode"`
	Shard string `json:"shard,omitempty"`
	Step  string `json:"step,omitempty"` // where it failed (for the reader)
	Tier  string `json:"tier,omitempty"` // shard mode: the tier whose universe the shard enumerated
	// "orders": the first evaluation of the case in a fresh process running Shard (forward order) up
	// to item Item, against the same in a fresh process running Shard2 (reverse order)
	Shard2 string `json:"shard2,omitempty"`
	Item   int    `json:"item,omitempty"`
}

// ---------------------------------------------------------------------------------------------
// the sub-family

type histItem struct {
	entry string
	fs    []Field
	fams  [][]Tok
	alt   []Field // split types: the specs under the other group of tag keys
}

// EMIX: the pseudo entry of the mixed shards — every type is unmarshalled through all six direct
// entry points in ONE process (the generated type carries the same tag text under all five keys,
// so unmarshalers with different configurations — plain, string-valued, opaque keys, from-array,
// canonical keys — meet the same cache entries).
const EMIX = "mix"

const nMixParts = 2 // type partitions of the mixed universe (each run in both orders)

// order of the entries inside one type of the mixed universe: the forward order starts with a
// json-keyed unmarshaler, the reverse order with a string-valued one under another key
var mixEntries = []string{EJSON, EKEY, ECONF, EFORM, EPATH, EHDR}

// histPrimary2: the reference-bearing primary specs of the two-field sub-family.
func histPrimary2(f Field, thorough bool) bool {
	return f.Kind.refKind() && (thorough || f.Rng <= 0)
}

// histSiblings2: second fields for a reference-bearing primary field: its twin (same kind, same
// value options = same default text in the same struct) and one field of every reference kind,
// with the default texts that can collide (the same `[1,2]` on []int and []string).
func histSiblings2(pf Field) []Field {
	twin := pf
	if twin.Opt >= OptDep {
		twin.Opt = OptPlain
	}
	twin.Dep = 0
	return []Field{
		twin,
		{Kind: KPInt, Rng: -1, Def: "3"},
		{Kind: KPString, Rng: -1, Def: "a", Opt: OptPlain},
		{Kind: KNested, Rng: -1, Def: "3"},
		{Kind: KSlice, Rng: -1, Def: "[1,2]"},
		{Kind: KSlice, Rng: -1, Opt: OptPlain},
		{Kind: KSliceS, Rng: -1, Def: "[a,b]"},
		{Kind: KSliceS, Rng: -1, Def: "[1,2]"},
		{Kind: KSliceS, Rng: -1, Def: "[true,false]", Opt: OptPlain},
		{Kind: KSliceB, Rng: -1, Def: "[true,false]"},
		{Kind: KMap, Rng: -1, Opt: OptPlain},
	}
}

// mixUniverse: one-field types (full inputs) and two-field types — primary of every kind with the
// lighter value options (no range or [1:5]) and every optionality, next to a plain or an optional
// int; reduced × reduced inputs —, each through all six direct entries in turn. part selects
// every nMixParts-th type.
func mixUniverse(thorough bool, part int) []histItem {
	var types [][]Field
	prim := map[int]int{}
	for _, f := range primarySpecs(0, 1, false) {
		prim[len(types)] = 0
		types = append(types, []Field{f})
	}
	for p := 0; p < 2; p++ {
		for _, pf := range primarySpecs(p, 2, false) {
			if pf.Rng > 0 && !thorough {
				continue
			}
			for _, sf := range []Field{{Kind: KInt, Rng: -1}, {Kind: KInt, Rng: -1, Opt: OptPlain}} {
				fs := make([]Field, 2)
				fs[p], fs[1-p] = pf, sf
				prim[len(types)] = -1
				types = append(types, fs)
			}
		}
	}
	var out []histItem
	for i, fs := range types {
		if i%nMixParts != part {
			continue
		}
		for _, e := range mixEntries {
			out = append(out, histItem{e, fs, famsFor(e, fs, prim[i], false, false), nil})
		}
	}
	// split types: one field whose optionality / default / inner optionality differs between the
	// two groups of tag keys (what one unmarshaler learns about a type must not leak to another)
	n := 0
	for _, f := range primarySpecs(0, 1, false) {
		if f.Rng > 0 {
			continue
		}
		for _, g := range splitVariants(f) {
			n++
			if n%nMixParts != part {
				continue
			}
			for _, e := range mixEntries {
				eff, alt := []Field{f}, []Field{g}
				if groupB(e) {
					eff, alt = alt, eff
				}
				out = append(out, histItem{e, eff, famsFor(e, eff, 0, false, false), alt})
			}
		}
	}
	return out
}

// splitVariants: the spec with exactly one of {optional, default, inner optional} flipped.
func splitVariants(f Field) []Field {
	var out []Field
	g := f
	g.Opt = OptPlain - f.Opt // none <-> optional (one-field specs carry no dependency)
	out = append(out, g)
	if defs := valueSpecs(f.Kind, false); len(defs) > 0 {
		d := ""
		for _, v := range defs {
			if v.Def != "" {
				d = v.Def
				break
			}
		}
		if d != "" {
			g = f
			if f.Def == "" {
				g.Def = d
			} else {
				g.Def = ""
			}
			out = append(out, g)
		}
	}
	if f.Kind == KNested {
		g = f
		g.InnerOpt = !f.InnerOpt
		out = append(out, g)
	}
	return out
}

func histUniverse(entry string, thorough bool) []histItem {
	var out []histItem
	if entry == EHTTP {
		for _, src := range sources {
			for _, f := range primarySpecs(0, 1, thorough) {
				f.Src = src
				fs := []Field{f}
				out = append(out, histItem{EHTTP, fs, famsFor(EHTTP, fs, 0, thorough, true), nil})
			}
		}
		return out
	}
	for _, f := range primarySpecs(0, 1, thorough) {
		fs := []Field{f}
		out = append(out, histItem{entry, fs, famsFor(entry, fs, 0, thorough, false), nil})
	}
	for p := 0; p < 2; p++ {
		for _, pf := range primarySpecs(p, 2, false) {
			if !histPrimary2(pf, thorough) {
				continue
			}
			for _, sf := range histSiblings2(pf) {
				fs := make([]Field, 2)
				fs[p], fs[1-p] = pf, sf
				prim := -1 // quick: reduced × reduced inputs
				if thorough {
					prim = p
				}
				out = append(out, histItem{entry, fs, famsFor(entry, fs, prim, thorough, false), nil})
			}
		}
	}
	return out
}

func nVectors(fams [][]Tok) int {
	n := 1
	for _, f := range fams {
		n *= len(f)
	}
	return n
}

// vectorAt decodes the v-th input vector of the product (last field fastest, like evalType).
func vectorAt(fams [][]Tok, v int, toks []Tok) {
	for i := len(fams) - 1; i >= 0; i-- {
		toks[i] = fams[i][v%len(fams[i])]
		v /= len(fams[i])
	}
}

// ---------------------------------------------------------------------------------------------
// observing and mutating targets

// outcomeOf: the verdict and (if accepted) the value of every field, rendered.
func outcomeOf(ob observation) (string, []string) {
	switch {
	case ob.panicked:
		return "panic", nil
	case !ob.accepted:
		return "rejected", nil
	}
	n := ob.target.NumField()
	snap := make([]string, n)
	for i := 0; i < n; i++ {
		snap[i] = show(ob.target.Field(i))
	}
	return "accepted " + strings.Join(snap, " | "), snap
}

func hash64(s string) uint64 {
	h := fnv.New64a()
	h.Write([]byte(s))
	return h.Sum64()
}

// scribble overwrites one element / pointed-to value.
func scribble(v reflect.Value) int {
	switch v.Kind() {
	case reflect.Int, reflect.Int8, reflect.Int16, reflect.Int32, reflect.Int64:
		v.SetInt(sentInt)
		return 1
	case reflect.Uint, reflect.Uint8, reflect.Uint16, reflect.Uint32, reflect.Uint64:
		v.SetUint(sentInt)
		return 1
	case reflect.Float32, reflect.Float64:
		v.SetFloat(sentInt)
		return 1
	case reflect.String:
		v.SetString(sentStr)
		return 1
	case reflect.Bool:
		v.SetBool(!v.Bool())
		return 1
	}
	return mutateRefs(v)
}

// mutateRefs changes, in place, everything reachable from v through a slice, a map or a pointer;
// v's own memory (the target the caller allocated) is left alone. Returns the number of writes.
func mutateRefs(v reflect.Value) int {
	n := 0
	switch v.Kind() {
	case reflect.Ptr:
		if !v.IsNil() {
			n += scribble(v.Elem())
		}
	case reflect.Slice:
		if !v.IsNil() {
			full := v.Slice(0, v.Cap()) // elements up to the capacity: "append within capacity" writes there
			for i := 0; i < full.Len(); i++ {
				n += scribble(full.Index(i))
			}
		}
	case reflect.Map:
		if !v.IsNil() {
			et := v.Type().Elem()
			for _, k := range v.MapKeys() {
				e := reflect.New(et).Elem()
				e.Set(v.MapIndex(k))
				scribble(e)
				v.SetMapIndex(k, e)
				n++
			}
			if v.Type().Key().Kind() == reflect.String {
				e := reflect.New(et).Elem()
				scribble(e)
				v.SetMapIndex(reflect.ValueOf(sentStr).Convert(v.Type().Key()), e)
				n++
			}
		}
	case reflect.Struct:
		for i := 0; i < v.NumField(); i++ {
			n += mutateRefs(v.Field(i))
		}
	}
	return n
}

// spareTouched: does the unused capacity of a slice below v hold a mutation's mark?
func spareTouched(v reflect.Value) bool {
	switch v.Kind() {
	case reflect.Ptr:
		return !v.IsNil() && spareTouched(v.Elem())
	case reflect.Slice:
		if v.IsNil() {
			return false
		}
		full := v.Slice(0, v.Cap())
		for i := v.Len(); i < full.Len(); i++ {
			if marked(show(full.Index(i))) {
				return true
			}
		}
		for i := 0; i < v.Len(); i++ {
			if spareTouched(v.Index(i)) {
				return true
			}
		}
	case reflect.Struct:
		for i := 0; i < v.NumField(); i++ {
			if spareTouched(v.Field(i)) {
				return true
			}
		}
	}
	return false
}

func marked(s string) bool {
	return strings.Contains(s, sentStr) || strings.Contains(s, "424242")
}

// ---------------------------------------------------------------------------------------------
// one history item

type histFinding struct {
	Class string
	Desc  string
	Step  string
}

func refWord(k Kind) string {
	switch {
	case k.pointer():
		return "pointer"
	case k.slice():
		return "slice"
	case k == KMap:
		return "map"
	case k == KNested:
		return "nested"
	}
	return "value"
}

// aliasClass names the cause of an observation that shows another target's mutation: what was
// shared is the default (field absent / null) or the supplied value, of a slice / map / pointer field.
func aliasClass(c *Case, field int) string {
	what := "supplied"
	if t := c.Toks[field]; t.T == "absent" || t.T == "null" {
		what = "default"
	}
	return "aliasing:" + what + "-" + refWord(c.Fields[field].Kind) + "-shared"
}

// markedField: the first field of an accepted target that shows a mutation's mark (-1 none).
func markedField(ob observation) int {
	if !ob.accepted {
		return -1
	}
	for i := 0; i < ob.target.NumField(); i++ {
		if marked(show(ob.target.Field(i))) || spareTouched(ob.target.Field(i)) {
			return i
		}
	}
	return -1
}

// suspectField: for a rejection whose message shows a mark — the field whose shared value it is:
// the first field that, alone in a struct with the same input, is again rejected on (or filled
// with) a marked value; failing that, the first absent defaulted field.
func suspectField(c *Case) int {
	for i, f := range c.Fields {
		if f.Opt >= OptDep {
			f.Opt = OptPlain
		}
		f.Dep = 0
		one := &Case{Entry: c.Entry, Fields: []Field{f}, Toks: []Tok{c.Toks[i]}}
		if ob := execute(one, buildType(one.Fields)); marked(ob.err) || markedField(ob) >= 0 {
			return i
		}
	}
	for i, f := range c.Fields {
		if t := c.Toks[i]; (t.T == "absent" || t.T == "null") && f.Def != "" {
			return i
		}
	}
	return 0
}

type histStats struct {
	evals, writes   int64
	mutatedAccepted bool
}

// mutateWatching mutates the target field by field; after each field the not yet mutated fields
// must still render as before (two fields of one target sharing memory).
func mutateWatching(c *Case, ob observation, snap []string, st *histStats) *histFinding {
	if ob.panicked {
		return nil
	}
	n := ob.target.NumField()
	for i := 0; i < n; i++ {
		w := mutateRefs(ob.target.Field(i))
		st.writes += int64(w)
		if w == 0 || snap == nil {
			continue
		}
		st.mutatedAccepted = true
		for j := i + 1; j < n; j++ {
			if now := show(ob.target.Field(j)); now != snap[j] {
				return &histFinding{aliasClass(c, j),
					fmt.Sprintf("fields %s and %s of ONE target share memory: after changing %s in place, %s reads %s instead of %s",
						goName(i), goName(j), goName(i), goName(j), now, snap[j]), "same target"}
			}
		}
	}
	return nil
}

// histSequence runs steps 1–4 on one (type, input). It returns the first evaluation's outcome,
// the evaluator's finding on the first evaluation (ordinary finding, reported by the caller) and
// a history finding, if any.
func histSequence(c *Case, typ, sib reflect.Type, st *histStats) (string, *finding, int, *histFinding) {
	ob := execute(c, typ)
	st.evals++
	fd, oc := judge(c, ob)
	o1, snap := outcomeOf(ob)
	if fd != nil {
		// an earlier owner's mutation visible in a first evaluation: the cause is the sharing
		if i := markedField(ob); i >= 0 {
			return o1, nil, oc, &histFinding{aliasClass(c, i), "target shows a value written into an EARLIER target: " + fd.Desc, "first evaluation"}
		}
		if marked(ob.err) {
			return o1, nil, oc, &histFinding{aliasClass(c, suspectField(c)), "rejected on a value written into an EARLIER target: " + ob.err, "first evaluation"}
		}
	}
	if hf := mutateWatching(c, ob, snap, st); hf != nil {
		return o1, fd, oc, hf
	}
	for step, t := range []reflect.Type{typ, sib} {
		name := []string{"second target, same type", "fresh target of the sibling type"}[step]
		ob := execute(c, t)
		st.evals++
		o, snap := outcomeOf(ob)
		if o != o1 {
			desc := fmt.Sprintf("%s: %s — the first evaluation of the same input gave: %s", name, o, o1)
			if !ob.accepted {
				desc += " (" + ob.err + ")"
			}
			if i := markedField(ob); i >= 0 {
				return o1, fd, oc, &histFinding{aliasClass(c, i), "after the first target was changed in place, " + desc, name}
			}
			if marked(ob.err) {
				return o1, fd, oc, &histFinding{aliasClass(c, suspectField(c)), "after the first target was changed in place, " + desc, name}
			}
			return o1, fd, oc, &histFinding{"history:" + []string{"repeat", "sibling"}[step] + "-differs" + histFeatures(c, -1, ""), desc, name}
		}
		if ob.accepted {
			for i := 0; i < ob.target.NumField(); i++ {
				if spareTouched(ob.target.Field(i)) {
					return o1, fd, oc, &histFinding{aliasClass(c, i),
						fmt.Sprintf("%s: the spare capacity of field %s holds a value written into the FIRST target", name, goName(i)), name}
				}
			}
		}
		if hf := mutateWatching(c, ob, snap, st); hf != nil {
			return o1, fd, oc, hf
		}
	}
	return o1, fd, oc, nil
}

// histFeatures: the cause key of a history-dependent failure is kept coarse — the failure kind plus
// the optionality options involved (of the offending field if the evaluator names one, of all
// fields otherwise), `default` when an absent field carries one, and the constraint the failure
// kind is about. Kinds, inputs, further options and the entry point through which it happened to
// be seen first are not part of it (no shrinking is possible inside a history).
func histFeatures(c *Case, field int, kind string) string {
	return "{" + strings.Join(histFeatureSet(c, field, kind), ",") + "}"
}

func histFeatureSet(c *Case, field int, kind string) []string {
	set := map[string]bool{}
	for i, f := range c.Fields {
		if field >= 0 && field < len(c.Fields) && i != field {
			continue
		}
		switch f.Opt {
		case OptPlain:
			set["optional"] = true
		case OptDep, OptNotDep:
			set["optional-dep"] = true
		}
		if t := c.Toks[i]; f.Def != "" && f.Kind != KNested && (t.T == "absent" || t.T == "null") {
			set["default"] = true
		}
		if f.Kind == KNested {
			set["nested"] = true
		}
		if f.dotted() {
			set["dotted-key"] = true
		}
		if f.Rng >= 0 && kind == "range-accepted" {
			set["range"] = true
		}
		if f.Opts && kind == "options-accepted" {
			set["options"] = true
		}
	}
	var fs []string
	for _, k := range []string{"dotted-key", "nested", "optional", "optional-dep", "default", "range", "options"} {
		if set[k] {
			fs = append(fs, k)
		}
	}
	return fs
}

func subset(a, b []string) bool {
	for _, x := range a {
		found := false
		for _, y := range b {
			found = found || x == y
		}
		if !found {
			return false
		}
	}
	return true
}

// ---------------------------------------------------------------------------------------------
// the shard

func histItems(s shardSpec, th bool) []histItem {
	if s.group == "hk" {
		_, u2 := hkSplit(s.entry)
		return hkUniverse(u2, th, false)
	}
	if s.entry == EMIX {
		return mixUniverse(th, s.part/2)
	}
	return histUniverse(s.entry, th)
}

// runHist runs one history shard. dumpItem >= 0 (child processes of the cold-order comparison):
// stop after the first pass over that item and return its outcomes, indexed by input vector.
func (x *runner) runHist(s shardSpec, dumpItem int) []string {
	th := x.cfg.Thorough()
	items := histItems(s, th)
	rev := s.part%2 == 1
	order := make([]int, len(items))
	for i := range order {
		order[i] = i
		if rev {
			order[i] = len(items) - 1 - i
		}
	}
	first := make([][]uint64, len(items))
	var st histStats
	// pass A: steps 1–4 on every (type, input)
	for _, ti := range order {
		if expired(x.cfg) {
			x.stopped = true
			break
		}
		it := items[ti]
		x.nTypes++
		toks := make([]Tok, len(it.fs))
		c := &Case{Entry: it.entry, Fields: it.fs, Toks: toks, Alt: it.alt}
		typ, sib := caseType(c, false), caseType(c, true)
		c.typ = typ
		nv := nVectors(it.fams)
		first[ti] = make([]uint64, nv)
		st.mutatedAccepted = false
		var dump []string
		if ti == dumpItem {
			dump = make([]string, nv)
		}
		for k := 0; k < nv; k++ {
			v := k
			if rev {
				v = nv - 1 - k
			}
			vectorAt(it.fams, v, toks)
			o1, fd, oc, hf := histSequence(c, typ, sib, &st)
			first[ti][v] = hash64(o1)
			if dump != nil {
				dump[v] = o1
			}
			x.nCases++
			x.outcomes[oc]++
			if hf != nil {
				x.reportHist(c, hf)
			} else if fd != nil {
				if x.poisoned {
					x.r.Count("findings_after_shared_state_was_mutated", 1)
				} else {
					x.report(c, fd)
				}
			}
		}
		if st.mutatedAccepted {
			x.r.Nontrivial(x.shard + "#" + it.entry + "#" + describeCase(c))
		}
		if dump != nil {
			return dump
		}
	}
	if !x.stopped && !x.inReplay {
		// what every (type, input) gave when it was FIRST evaluated in this process and order: the
		// parent compares it with the opposite enumeration order (compareOrders)
		dg := make([]int64, len(items))
		for ti, f := range first {
			h := fnv.New64a()
			var b [8]byte
			for _, u := range f {
				for i := range b {
					b[i] = byte(u >> (8 * i))
				}
				h.Write(b[:])
			}
			dg[ti] = int64(h.Sum64() >> 12) // 52 bits: exact in a JSON number
		}
		x.r.SetExtra(digestKey+x.shard, dg)
	}
	// pass B: opposite order, everything evaluated in between: the N-th evaluation equals the first
	for k := len(order) - 1; k >= 0 && !x.stopped; k-- {
		if expired(x.cfg) {
			x.stopped = true
			break
		}
		ti := order[k]
		it := items[ti]
		toks := make([]Tok, len(it.fs))
		c := &Case{Entry: it.entry, Fields: it.fs, Toks: toks, Alt: it.alt}
		typ := caseType(c, false)
		c.typ = typ
		nv := nVectors(it.fams)
		for j := 0; j < nv; j++ {
			v := nv - 1 - j
			if rev {
				v = j
			}
			vectorAt(it.fams, v, toks)
			ob := execute(c, typ)
			st.evals++
			o, snap := outcomeOf(ob)
			if hash64(o) != first[ti][v] {
				desc := "re-evaluated after every other (type, input) of the shard: " + o + " — differs from the first evaluation of the same input"
				if !ob.accepted {
					desc += " (" + ob.err + ")"
				}
				switch i := markedField(ob); {
				case i >= 0:
					x.reportHist(c, &histFinding{aliasClass(c, i), desc, "second pass"})
				case marked(ob.err):
					x.reportHist(c, &histFinding{aliasClass(c, suspectField(c)), desc, "second pass"})
				default:
					x.reportHist(c, &histFinding{"history:order-differs" + histFeatures(c, -1, ""), desc, "second pass"})
				}
			}
			if hf := mutateWatching(c, ob, snap, &st); hf != nil {
				x.reportHist(c, hf)
			}
		}
	}
	x.nCases = st.evals // evaluations = executions of the real code
	x.r.Count("hist:in-place writes into earlier targets", int(st.writes))
	return nil
}

// ---------------------------------------------------------------------------------------------
// cold-order comparison (parent process): the first evaluation of every (type, input) in the
// forward-order process and in the reverse-order process — each starting with cold caches — must
// agree. (Inside one process the first toucher of a cache entry decides for good; only two
// processes can show that the decision depends on who came first.)

const digestKey = "histdigest|"

const dumpEnv = "C08_HIST_DUMP" // "<shard>#<item index>#<tier>": child mode, prints the item's outcomes as JSON

func histDumpChild(cfg *vlib.Config) {
	p := strings.Split(os.Getenv(dumpEnv), "#")
	var ti int
	fmt.Sscan(p[1], &ti)
	cfg.Tier = p[2]
	cfg.BudgetS = 3600
	x := &runner{r: vlib.NewReport(cfg), cfg: cfg, shard: p[0], seenKey: map[string]bool{}, inReplay: true, hist: true, quiet: true}
	var out []string
	if s := parseShard(p[0]); s.group == "hk" {
		out = x.runHK(s, ti)
	} else {
		out = x.runHist(s, ti)
	}
	b, _ := json.Marshal(out)
	fmt.Println(string(b))
	os.Exit(0)
}

func histDump(shard string, ti int, tier string) []string {
	cmd := exec.Command(os.Args[0])
	// the parent's soft deadline (C08_DEADLINE_UNIX) does not apply: the comparison runs after the shards
	cmd.Env = append(os.Environ(), "GOMAXPROCS=2", "C08_DEADLINE_UNIX=", fmt.Sprintf("%s=%s#%d#%s", dumpEnv, shard, ti, tier))
	b, err := cmd.Output()
	if err != nil {
		return nil
	}
	var out []string
	lines := strings.Split(strings.TrimSpace(string(b)), "\n")
	if json.Unmarshal([]byte(lines[len(lines)-1]), &out) != nil {
		return nil
	}
	return out
}

func digestsOf(r *vlib.Report, shard string) []int64 {
	v, ok := r.Extra[digestKey+shard]
	if !ok {
		return nil
	}
	delete(r.Extra, digestKey+shard)
	switch a := v.(type) {
	case []int64:
		return a
	case []any:
		out := make([]int64, len(a))
		for i, e := range a {
			f, _ := e.(float64)
			out[i] = int64(f)
		}
		return out
	}
	return nil
}

// coldOrderCase builds the replayable case for item ti of the shard pair, or nil if the two
// orders agree on it after all.
func coldOrderCase(fwd, rev string, ti int, tier string) (*Case, string) {
	it := histItems(parseShard(fwd), tier == "thorough")[ti]
	var a, b []string
	done := make(chan struct{})
	go func() { a = histDump(fwd, ti, tier); close(done) }()
	b = histDump(rev, ti, tier)
	<-done
	if a == nil || b == nil || len(a) != len(b) {
		return nil, ""
	}
	for v := range a {
		if a[v] == b[v] {
			continue
		}
		c := &Case{Entry: it.entry, Fields: it.fs, Alt: it.alt, Toks: make([]Tok, len(it.fs))}
		vectorAt(it.fams, v, c.Toks)
		c.Hist = &HistScript{Mode: "orders", Shard: fwd, Shard2: rev, Item: ti, Tier: tier, Step: "first evaluation in either enumeration order"}
		c.fill(nil)
		c.Expected += "; the same verdict and value whatever was unmarshalled before"
		c.Observed = fmt.Sprintf("first evaluation in a process enumerating in forward order (%s): %s — in reverse order (%s): %s", fwd, a[v], rev, b[v])
		if u1, u2 := hkSplit(parseShard(rev).entry); parseShard(rev).group == "hk" && u1 != "" {
			c.Observed = fmt.Sprintf("in a fresh process that only ran the %s entry (%s): %s — in a process that ran the %s entry before (%s): %s", u2, fwd, a[v], u1, rev, b[v])
		}
		return c, c.Observed
	}
	return nil, ""
}

func compareOrders(r *vlib.Report, cfg *vlib.Config, names []string) {
	have := map[string]bool{}
	for _, n := range names {
		have[n] = true
	}
	classes := map[string]bool{}
	dumps := 0
	var reported [][]string
	for _, n := range names {
		s := parseShard(n)
		if s.group != "hi" || s.part%2 != 0 {
			continue
		}
		rn := shardSpec{s.group, s.entry, s.part + 1, s.parts}.name()
		a, b := digestsOf(r, n), digestsOf(r, rn)
		if a == nil || b == nil || len(a) != len(b) {
			continue // a time-boxed shard: nothing to compare
		}
		var items []histItem
		for ti := range a {
			if a[ti] == b[ti] {
				continue
			}
			r.Count("hist:items differing between enumeration orders", 1)
			if items == nil {
				items = histItems(s, cfg.Thorough())
			}
			it := items[ti]
			probe := &Case{Entry: it.entry, Fields: it.fs, Toks: make([]Tok, len(it.fs))}
			vectorAt(it.fams, 0, probe.Toks) // the all-absent vector: defaults count as involved
			feats := histFeatureSet(probe, -1, "")
			class := "history:cold-order-differs{" + strings.Join(feats, ",") + "}"
			if it.alt != nil {
				class = "history:cold-order-differs-split-keys{" + strings.Join(feats, ",") + "}"
			}
			// one class per cause: an item whose options include those of an already reported item
			// (simpler types come first) is taken for the same cause and only counted
			covered := false
			for _, r := range reported {
				covered = covered || subset(r, feats)
			}
			if covered || classes[class] || dumps >= 4 { // at most 4 items are re-executed per run (two child processes each)
				continue
			}
			dumps++
			c, desc := coldOrderCase(n, rn, ti, cfg.Tier)
			if c == nil {
				continue
			}
			classes[class] = true
			reported = append(reported, feats)
			r.Violation(class, fmt.Sprintf("%s  type=%s  input=%s  [entry %s]", desc, c.Type, c.Input, c.Entry), c)
		}
	}
}

// reportHist records one history finding (one per class and process). The replay re-runs the
// four steps from a fresh process if that reproduces the failure (tried in a child process),
// the whole shard otherwise.
func (x *runner) reportHist(c *Case, hf *histFinding) {
	if x.quiet {
		return
	}
	x.r.Count("findings_raw", 1)
	if strings.HasPrefix(hf.Class, "aliasing:") {
		x.poisoned = true
	}
	if x.seenKey["hist|"+hf.Class] {
		return
	}
	x.seenKey["hist|"+hf.Class] = true
	sc := cloneCase(c)
	sc.Alt = c.Alt
	sc.Hist = &HistScript{Mode: "sequence", Step: hf.Step}
	if !x.inReplay && !reproducesAlone(x.cfg, sc) {
		sc.Hist = &HistScript{Mode: "shard", Shard: x.shard, Step: hf.Step, Tier: x.cfg.Tier}
	}
	sc.fill(nil)
	sc.Expected += "; the same verdict and value on every evaluation, whatever was unmarshalled before and whatever was done to earlier targets"
	sc.Observed = hf.Desc
	x.r.Violation(hf.Class, fmt.Sprintf("%s  type=%s  input=%s  [entry %s, %s]", hf.Desc, sc.Type, sc.Input, sc.Entry, hf.Step), sc)
}

// reproducesAlone: does the four-step sequence fail in a fresh process (no other history)?
func reproducesAlone(cfg *vlib.Config, sc *Case) bool {
	dir, err := os.MkdirTemp("", "c08-hist-")
	if err != nil {
		return false
	}
	defer os.RemoveAll(dir)
	b, _ := json.Marshal(map[string]any{"class": "probe", "replay": sc})
	p := filepath.Join(dir, "probe.json")
	if os.WriteFile(p, b, 0o644) != nil {
		return false
	}
	cmd := exec.Command(os.Args[0], "-replay", p)
	cmd.Env = append(os.Environ(), "GOMAXPROCS=2", "C08_DEADLINE_UNIX=", dumpEnv+"=") // never a dump child (they probe nothing, see quiet)
	err = cmd.Run()
	ee, ok := err.(*exec.ExitError)
	return ok && ee.ExitCode() == 1
}

// replayHist re-executes a history case; returns true if it still fails.
func replayHist(cfg *vlib.Config, class string, c *Case) bool {
	c.typ = caseType(c, false)
	if c.Hist.Tier != "" {
		cfg.Tier = c.Hist.Tier
	}
	fmt.Printf("replay class=%s (%s)\n entry:    %s\n type:     %s\n input:    %s\n", class, c.Hist.Mode, c.Entry, describeCase(c), inputText(c))
	if c.Hist.Mode == "sequence" {
		var st histStats
		o1, fd, _, hf := histSequence(c, c.typ, caseType(c, true), &st)
		fmt.Printf(" first evaluation: %s\n", o1)
		if fd != nil {
			fmt.Printf(" evaluator on the first evaluation: %s\n", fd.Desc)
		}
		if hf != nil {
			fmt.Printf(" expected: the same verdict and value on every evaluation\n observed: %s [%s] -> class %s\n", hf.Desc, hf.Step, hf.Class)
			return true
		}
		return false
	}
	if c.Hist.Mode == "orders" {
		nc, desc := coldOrderCase(c.Hist.Shard, c.Hist.Shard2, c.Hist.Item, cfg.Tier)
		if nc == nil {
			return false
		}
		fmt.Printf(" expected: the same verdict and value whatever was unmarshalled before\n observed: %s (input %s)\n", desc, nc.Input)
		return true
	}
	// shard mode: the whole history of the shard, in this process
	cfg.BudgetS = 3600
	r := vlib.NewReport(cfg)
	x := &runner{r: r, cfg: cfg, shard: c.Hist.Shard, seenKey: map[string]bool{}, inReplay: true, hist: parseShard(c.Hist.Shard).group == "hi"}
	x.runShard(parseShard(c.Hist.Shard))
	for _, v := range r.Violations {
		if v.Class == class {
			fmt.Printf(" history:  shard %s re-run\n expected: the same verdict and value on every evaluation\n observed: %s\n", c.Hist.Shard, v.Desc)
			return true
		}
	}
	return false
}
