package main

// Violation classes: a failing case is shrunk greedily (re-executing the real code for every
// candidate) to the smallest shape that still fails in the same way, and the class key is the
// failure kind plus the tag features that could not be removed.

import (
	"sort"
	"strings"
)

func cloneCase(c *Case) *Case {
	n := &Case{Entry: c.Entry}
	n.Fields = append([]Field{}, c.Fields...)
	n.Toks = append([]Tok{}, c.Toks...)
	return n
}

func tokWeight(t Tok) int {
	switch {
	case t.T == "absent":
		return 0
	case t.T == "alt":
		return 1 + tokWeight(t.E[0])
	case (t.T == "num" || t.T == "str") && (t.V == "3" || t.V == "a"):
		return 1
	case (t.T == "num" || t.T == "str") && (t.V == "100" || t.V == "-100" || t.V == "c"):
		return 2
	case t.T == "obj" && len(t.E) == 1:
		return 3 + tokWeight(t.E[0])
	case t.T == "num" || t.T == "str" || t.T == "bool":
		return 3
	}
	return 5
}

func weight(c *Case) int {
	w := len(c.Fields) * 1000
	if c.Entry == EHTTP {
		w += 100 // a direct entry is simpler than a whole request (other entries: see classify)
	}
	for i, f := range c.Fields {
		w += f.Opt * 20
		if f.Def != "" {
			w += 10
			if f.Def != "3" && f.Def != "a" {
				w++
			}
		}
		switch {
		case f.Rng == 0:
			w += 10
		case f.Rng > 0:
			w += 11
		}
		if f.Opts {
			w += 10
		}
		if f.Str {
			w += 10
		}
		if f.InnerOpt || f.EmbOpt {
			w += 10
		}
		if f.Kind != KInt {
			w += 5
		}
		if f.Key != "" {
			w += 7 + strings.Count(f.Key, ".")
		}
		w += tokWeight(c.Toks[i])
	}
	return w
}

func removeField(c *Case, j int) *Case {
	for i, f := range c.Fields {
		if i != j && f.Opt >= OptDep && f.Dep == j {
			return nil
		}
	}
	n := &Case{Entry: c.Entry}
	for i, f := range c.Fields {
		if i == j {
			continue
		}
		if f.Opt >= OptDep && f.Dep > j {
			f.Dep--
		}
		n.Fields = append(n.Fields, f)
		n.Toks = append(n.Toks, c.Toks[i])
	}
	return n
}

func candidates(c *Case) []*Case {
	var out []*Case
	if c.Entry == EHTTP {
		// all fields from one source: the direct unmarshaler of that source
		same := true
		for _, f := range c.Fields {
			same = same && f.Src == c.Fields[0].Src
		}
		if same {
			n := cloneCase(c)
			n.Entry = c.Fields[0].Src
			for i := range n.Fields {
				n.Fields[i].Src = ""
			}
			out = append(out, n)
		}
	}
	if len(c.Fields) > 1 {
		for j := range c.Fields {
			if n := removeField(c, j); n != nil {
				out = append(out, n)
			}
		}
	}
	mod := func(j int, fn func(f *Field, t *Tok)) {
		n := cloneCase(c)
		fn(&n.Fields[j], &n.Toks[j])
		out = append(out, n)
	}
	for j, f := range c.Fields {
		dc := delivery(c.Entry, f)
		if f.Key != "" {
			// the one-letter key of the position (the other placement of a value only exists for a dotted key)
			mod(j, func(f *Field, t *Tok) { f.Key = ""; *t, _ = t.placed() })
			if strings.Count(f.Key, ".") > 1 {
				mod(j, func(f *Field, _ *Tok) { f.Key = "p.q" })
			}
		}
		if v, alt := c.Toks[j].placed(); alt {
			mod(j, func(_ *Field, t *Tok) { *t = v })
		}
		switch f.Opt {
		case OptNotDep:
			mod(j, func(f *Field, _ *Tok) { f.Opt = OptDep })
			{ // optional=!dep → optional=dep with the dependency supplied (same resolved optionality)
				n := cloneCase(c)
				n.Fields[j].Opt = OptDep
				d := f.Dep
				n.Toks[d] = validTok(n.Fields[d], delivery(c.Entry, n.Fields[d]))
				if n.Toks[j].T == "absent" {
					n.Toks[j] = validTok(n.Fields[j], dc)
				}
				out = append(out, n)
			}
			mod(j, func(f *Field, _ *Tok) { f.Opt = OptPlain })
			mod(j, func(f *Field, _ *Tok) { f.Opt = OptNone })
		case OptDep:
			mod(j, func(f *Field, _ *Tok) { f.Opt = OptPlain })
			mod(j, func(f *Field, _ *Tok) { f.Opt = OptNone })
		case OptPlain:
			mod(j, func(f *Field, _ *Tok) { f.Opt = OptNone })
		}
		if f.Def != "" {
			mod(j, func(f *Field, _ *Tok) { f.Def = "" })
		}
		if f.Rng > 0 {
			mod(j, func(f *Field, _ *Tok) { f.Rng = 0 })
		}
		if f.Rng >= 0 {
			mod(j, func(f *Field, _ *Tok) { f.Rng = -1 })
		}
		if f.Opts {
			mod(j, func(f *Field, _ *Tok) { f.Opts = false })
		}
		if f.InnerOpt {
			mod(j, func(f *Field, _ *Tok) { f.InnerOpt = false })
		}
		if f.Str && !strSourced(dc) {
			// dropping `string` changes the canonical rendering: re-render a string token as a number
			mod(j, func(f *Field, t *Tok) {
				f.Str = false
				if f.Kind.numeric() && t.T == "str" && isNumber(t.V) {
					*t = tN(t.V)
				}
			})
		} else if f.Str {
			mod(j, func(f *Field, _ *Tok) { f.Str = false })
		}
		if f.Kind.numeric() && f.Kind != KInt {
			mod(j, func(f *Field, _ *Tok) { f.Kind, f.EmbOpt = KInt, false })
		}
		if f.EmbOpt {
			mod(j, func(f *Field, _ *Tok) { f.EmbOpt = false })
		}
		if f.Kind == KPString {
			mod(j, func(f *Field, _ *Tok) { f.Kind = KString })
		}
		if f.Kind.stringy() || f.Kind == KBool {
			// an int with the same options in its place, with a non-option / out-of-range / valid value
			for _, l := range []string{"3", "100", "2"} {
				l := l
				mod(j, func(f *Field, t *Tok) {
					f.Kind = KInt
					if f.Def != "" {
						f.Def = "3"
					}
					if t.T != "absent" && t.T != "null" {
						if canonicalAsString(*f, dc) {
							*t = tS(l)
						} else {
							*t = tN(l)
						}
					}
				})
			}
		}
		if x, ok := c.Toks[j].get("x"); ok && f.Kind == KNested {
			// the inner field on its own
			mod(j, func(f *Field, t *Tok) {
				in := f.inner()
				in.Opt, in.Dep, in.Src = f.Opt, f.Dep, f.Src
				*f, *t = in, x
			})
		}
		if f.Kind != KInt {
			// a plain int in its place (keeping only optionality), with a valid value if one was supplied
			mod(j, func(f *Field, t *Tok) {
				*f = Field{Kind: KInt, Rng: -1, Opt: f.Opt, Dep: f.Dep, Src: f.Src}
				if t.T != "absent" && t.T != "null" {
					*t = validTok(*f, dc)
				}
			})
		}
		// simpler inputs
		t := c.Toks[j]
		if t.T != "absent" {
			mod(j, func(_ *Field, t *Tok) { *t = tA() })
			v := validTok(Field{Kind: f.Kind, Rng: -1, Str: f.Str, Src: f.Src}, dc)
			mod(j, func(_ *Field, t *Tok) { *t = v })
			if f.Kind.numeric() {
				for _, l := range []string{"100", "-100"} {
					l := l
					mod(j, func(f *Field, t *Tok) {
						if canonicalAsString(*f, dc) {
							*t = tS(l)
						} else {
							*t = tN(l)
						}
					})
				}
			}
			if f.Kind.stringy() {
				mod(j, func(_ *Field, t *Tok) { *t = tS("c") })
			}
		}
	}
	return out
}

// shrink returns the smallest case (by weight) reachable by single simplification steps that
// still yields a finding of the same kind, with that finding.
func shrink(c *Case, fd *finding) (*Case, *finding) {
	cur, curFd := cloneCase(c), fd
	for steps := 0; steps < 200; steps++ {
		w := weight(cur)
		improved := false
		for _, n := range candidates(cur) {
			if weight(n) >= w {
				continue
			}
			if nfd, _ := check(n); nfd != nil && nfd.Kind == fd.Kind {
				cur, curFd, improved = n, nfd, true
				break
			}
		}
		if !improved {
			break
		}
	}
	return cur, curFd
}

// fieldWeight orders fields for the canonical representative (plain fields first).
func fieldWeight(f Field) int {
	return weight(&Case{Fields: []Field{f}, Toks: []Tok{tA()}})
}

// canonicalOrder moves the plainer field first when the failure does not depend on the order,
// so that every shard reports the same representative of a class.
func canonicalOrder(c *Case, fd *finding) (*Case, *finding) {
	if len(c.Fields) != 2 || fieldWeight(c.Fields[0]) <= fieldWeight(c.Fields[1]) {
		return c, fd
	}
	n := &Case{Entry: c.Entry, Fields: []Field{c.Fields[1], c.Fields[0]}, Toks: []Tok{c.Toks[1], c.Toks[0]}}
	for i := range n.Fields {
		if n.Fields[i].Opt >= OptDep {
			n.Fields[i].Dep = 1 - n.Fields[i].Dep
		}
	}
	if nfd, _ := check(n); nfd != nil && nfd.Kind == fd.Kind {
		return n, nfd
	}
	return c, fd
}

// asJSONCase re-states a case for the plain JSON entry (numbers as numbers unless `string`).
func asJSONCase(c *Case) *Case {
	n := cloneCase(c)
	n.Entry = EJSON
	for i := range n.Fields {
		f := &n.Fields[i]
		dc := delivery(c.Entry, *f)
		f.Src = ""
		t := &n.Toks[i]
		if !strSourced(dc) {
			continue
		}
		if t.T == "list" && !f.Kind.slice() && len(t.E) > 0 {
			*t = t.E[0]
		}
		switch {
		case t.T == "str" && f.Kind.numeric() && !f.Str && isNumber(t.V):
			*t = tN(t.V)
		case t.T == "str" && f.Kind == KBool && !f.Str && (t.V == "true" || t.V == "false"):
			*t = tB(t.V == "true")
		case t.T == "list" && f.Kind == KSlice:
			t.E = append([]Tok{}, t.E...) // the element slice is shared with the input family: copy before rewriting
			for k, e := range t.E {
				if e.T == "str" && isNumber(e.V) {
					t.E[k] = tN(e.V)
				}
			}
		case t.T == "list" && f.Kind == KSliceB:
			t.E = append([]Tok{}, t.E...)
			for k, e := range t.E {
				if e.T == "str" && (e.V == "true" || e.V == "false") {
					t.E[k] = tB(e.V == "true")
				}
			}
		}
	}
	return n
}

var kindFeat = [...]string{"", "int8", "uint", "float64", "string", "bool", "ptr-int", "ptr-string", "nested", "slice", "map", "slice-string", "slice-bool", "embedded"}

func features(c *Case, i int, fdKind string) []string {
	f := c.Fields[i]
	var fs []string
	switch {
	case f.dotted():
		fs = append(fs, "dotted-key")
	case f.Key != "":
		fs = append(fs, "key="+f.Key)
	}
	if kindFeat[f.Kind] != "" {
		fs = append(fs, kindFeat[f.Kind])
	}
	switch f.Opt {
	case OptPlain:
		fs = append(fs, "optional")
	case OptDep, OptNotDep:
		fs = append(fs, "optional-dep")
	}
	if f.Def != "" {
		fs = append(fs, "default")
	}
	if f.Rng >= 0 {
		if fdKind != "range-accepted" {
			fs = append(fs, "range")
		} else {
			g := f
			t := c.Toks[i]
			if f.Kind == KNested {
				g = f.inner()
				if x, ok := t.get("x"); ok {
					t = x
				}
			}
			ip := interpret(g, delivery(c.Entry, f), t)
			r := ranges[f.Rng]
			if ip.st != stIll && ((r.hasLo && ip.num == r.lo) || (r.hasHi && ip.num == r.hi)) {
				fs = append(fs, "at-open-bound")
			}
		}
	}
	if f.Opts && fdKind != "options-accepted" {
		fs = append(fs, "options")
	}
	if f.Str {
		fs = append(fs, "string")
	}
	if f.InnerOpt {
		fs = append(fs, "inner-optional")
	}
	if f.EmbOpt {
		fs = append(fs, "embedded-optional")
	}
	return fs
}

// classify shrinks the failing case and names its class.
func classify(c *Case, fd *finding) (string, *Case, *finding) {
	sc, sfd := shrink(c, fd)
	sc, sfd = canonicalOrder(sc, sfd)
	if causeKind(sfd.Kind) {
		// a cause key of its own: one class whatever the manifestation, kind, options or entry
		// (restated for plain UnmarshalJsonBytes where that reproduces it: the same representative from every shard)
		if sc.Entry != EJSON {
			jc := asJSONCase(sc)
			if nfd, _ := check(jc); nfd != nil && nfd.Kind == sfd.Kind {
				sc, sfd = jc, nfd
			}
		}
		return sfd.Kind, sc, sfd
	}
	var feats []string
	if sfd.Field >= 0 && sfd.Field < len(sc.Fields) {
		feats = features(sc, sfd.Field, sfd.Kind)
		if len(sc.Fields) > 1 {
			// the remaining siblings are necessary too (they survived shrinking)
			var sib []string
			for j := range sc.Fields {
				if j == sfd.Field {
					continue
				}
				if sf := features(sc, j, ""); sc.Fields[sfd.Field].Opt >= OptDep && sc.Fields[sfd.Field].Dep == j &&
					(len(sf) == 0 || (len(sf) == 1 && sf[0] == "optional")) {
					continue // a plain (or plainly optional) dependency target
				}
				sib = append(sib, "sibling("+strings.Join(features(sc, j, ""), ",")+")")
			}
			sort.Strings(sib)
			feats = append(feats, sib...)
		}
	} else {
		// offending field unknown (panic, valid input rejected): all remaining fields with the shape of their input
		for j := range sc.Fields {
			ff := features(sc, j, sfd.Kind)
			if t := sc.Toks[j]; t.T != "num" && t.T != "str" && t.T != "bool" {
				ff = append(ff, "input="+t.T)
			}
			if len(ff) > 0 {
				feats = append(feats, "field("+strings.Join(ff, ",")+")")
			}
		}
		sort.Strings(feats)
	}
	if sc.Entry != EJSON {
		// reproducible through plain UnmarshalJsonBytes: report that (entry-independent cause, and the
		// same representative whichever shard finds it first); otherwise the entry is part of the class
		jc := asJSONCase(sc)
		if nfd, _ := check(jc); nfd != nil && nfd.Kind == sfd.Kind && nfd.Field == sfd.Field {
			sc, sfd = jc, nfd
		} else {
			feats = append(feats, "@"+sc.Entry)
		}
	}
	name := sfd.Kind
	fl := strings.Join(feats, ",")
	switch {
	case sfd.Kind == "range-accepted" && fl == "optional-dep":
		name = "optional-dep-drops-range"
	case sfd.Kind == "options-accepted" && fl == "optional-dep":
		name = "optional-dep-drops-options"
	case fl != "":
		name += "{" + fl + "}"
	}
	return name, sc, sfd
}
