package main

// Executing one case against the real go-zero entry points (under recover) and comparing the
// observation with the oracle.

import (
	"fmt"
	"net/http"
	"net/textproto"
	"net/url"
	"reflect"
	"strings"

	"github.com/zeromicro/go-zero/core/conf"
	"github.com/zeromicro/go-zero/core/mapping"
	"github.com/zeromicro/go-zero/rest/httpx"
	"github.com/zeromicro/go-zero/rest/pathvar"
)

// Case is one evaluation: an entry point, a struct type (by spec) and one token per field.
type Case struct {
	Entry  string  `json:"entry"`
	Fields []Field `json:"fields"`
	Toks   []Tok   `json:"toks"`
	Raw    *string `json:"raw,omitempty"` // docs group: this literal document instead of the rendered tokens
	Hist   *HistScript `json:"hist,omitempty"` // history-independence cases (hist.go): how to re-execute the history
	Wide   *WideCase   `json:"wide,omitempty"` // groups wn / du (wide.go): the whole case
	Alt    []Field     `json:"alt,omitempty"`  // split types (hist.go): the specs under the OTHER group of tag keys; Fields = those the entry reads
	// filled in for replays / reports only
	Type     string `json:"type,omitempty"`
	Input    string `json:"input,omitempty"`
	Expected string `json:"expected,omitempty"`
	Observed string `json:"observed,omitempty"`

	typ reflect.Type // cache of buildType(Fields) while a type's input vectors are enumerated
}

// the unmarshalers httpx and rest/internal/encoding construct (same keys, same options)
var (
	formU = mapping.NewUnmarshaler("form", mapping.WithStringValues(), mapping.WithOpaqueKeys(), mapping.WithFromArray())
	pathU = mapping.NewUnmarshaler("path", mapping.WithStringValues(), mapping.WithOpaqueKeys())
	hdrU  = mapping.NewUnmarshaler("header", mapping.WithStringValues(), mapping.WithOpaqueKeys(), mapping.WithCanonicalKeyFunc(textproto.CanonicalMIMEHeaderKey)) // as of /repo c661af9
)

type observation struct {
	accepted bool
	err      string
	panicked bool
	target   reflect.Value // the struct
}

func buildRequest(c *Case) (*http.Request, string) {
	q := url.Values{}
	hdr := http.Header{}
	pv := map[string]string{}
	hasJSON, jsonSupplied := false, false
	var desc []string
	for i, t := range c.Toks {
		k := keyName(c.Fields, i)
		src := c.Fields[i].Src
		if src == "json" {
			hasJSON = true
			if t.T != "absent" {
				jsonSupplied = true
			}
			continue
		}
		var vals []string
		switch t.T {
		case "str":
			vals = []string{t.V}
		case "list":
			vals = strList(t)
		default:
			continue
		}
		switch src {
		case "form":
			for _, v := range vals {
				q.Add(k, v)
			}
		case "path":
			pv[k] = vals[0]
			desc = append(desc, "path:"+k+"="+vals[0])
		case "header":
			for _, v := range vals {
				hdr.Add(k, v)
			}
			desc = append(desc, "header:"+k+"="+strings.Join(vals, ","))
		}
	}
	u := "/"
	if len(q) > 0 {
		u += "?" + q.Encode()
	}
	var r *http.Request
	if hasJSON && jsonSupplied {
		body := renderJSONDoc(c.Fields, c.Toks, "json")
		r, _ = http.NewRequest(http.MethodPost, u, strings.NewReader(body))
		r.Header = hdr
		r.Header.Set("Content-Type", "application/json")
		desc = append(desc, "body:"+body)
	} else {
		r, _ = http.NewRequest(http.MethodGet, u, nil)
		r.Header = hdr
	}
	if len(pv) > 0 {
		r = pathvar.WithVars(r, pv)
	}
	return r, r.Method + " " + u + " " + strings.Join(desc, " ")
}

func (c *Case) doc() string {
	if c.Raw != nil {
		return *c.Raw
	}
	return renderJSONDoc(c.Fields, c.Toks, "")
}

// inputText renders the input for reports.
func inputText(c *Case) string {
	switch c.Entry {
	case EJSON, ECONF, EYAML:
		return c.doc()
	case ETOML:
		return renderTOMLDoc(c.Fields, c.Toks)
	case EKEY:
		return fmt.Sprintf("%#v", nativeMap(c.Fields, c.Toks))
	case EHTTP:
		_, d := buildRequest(c)
		return d
	}
	return fmt.Sprintf("%#v", renderStrMap(c.Entry, c.Fields, c.Toks))
}

func execute(c *Case, typ reflect.Type) (ob observation) {
	ptr := reflect.New(typ)
	ob.target = ptr.Elem()
	defer func() {
		if p := recover(); p != nil {
			ob.panicked = true
			ob.accepted = false
			ob.err = fmt.Sprint("panic: ", p)
		}
	}()
	var err error
	switch c.Entry {
	case EJSON:
		err = mapping.UnmarshalJsonBytes([]byte(c.doc()), ptr.Interface())
	case ECONF:
		err = conf.LoadFromJsonBytes([]byte(c.doc()), ptr.Interface())
	case EYAML:
		err = mapping.UnmarshalYamlBytes([]byte(c.doc()), ptr.Interface())
	case ETOML:
		err = mapping.UnmarshalTomlBytes([]byte(renderTOMLDoc(c.Fields, c.Toks)), ptr.Interface())
	case EKEY:
		err = mapping.UnmarshalKey(nativeMap(c.Fields, c.Toks), ptr.Interface())
	case EFORM:
		err = formU.Unmarshal(renderStrMap(EFORM, c.Fields, c.Toks), ptr.Interface())
	case EPATH:
		err = pathU.Unmarshal(renderStrMap(EPATH, c.Fields, c.Toks), ptr.Interface())
	case EHDR:
		err = hdrU.Unmarshal(renderStrMap(EHDR, c.Fields, c.Toks), ptr.Interface())
	case EHTTP:
		r, _ := buildRequest(c)
		err = httpx.Parse(r, ptr.Interface())
	default:
		panic("unknown entry " + c.Entry)
	}
	if err != nil {
		ob.err = err.Error()
		return
	}
	ob.accepted = true
	return
}

func caseType(c *Case, sibling bool) reflect.Type {
	if c.Alt != nil {
		return buildSplitType(c.Fields, c.Alt, c.Entry, sibling)
	}
	return buildTypeX(c.Fields, sibling)
}

func describeCase(c *Case) string {
	if c.Alt != nil {
		return describeSplitType(c.Fields, c.Alt, c.Entry)
	}
	return describeType(c.Fields)
}

// finding: one disagreement between the observation and the oracle.
type finding struct {
	Kind  string // panic | <reason kind>-accepted | valid-rejected | default-not-filled | absent-not-zero | wrong-value
	Field int    // offending field, -1 unknown
	Desc  string
}

// outcome classes for coverage bookkeeping
const (
	ocAcceptedDemanded = iota
	ocAcceptedAllowed
	ocRejectedDemanded
	ocRejectedAllowed
	nOutcomeClasses
)

func check(c *Case) (fd *finding, oc int) {
	typ := c.typ
	if typ == nil {
		typ = caseType(c, false)
	}
	return judge(c, execute(c, typ))
}

// Cause keys of the two known deviations around dotted keys (one class each, whatever the manifestation).
const (
	causeDepDotted = "dep-through-dotted-key"           // optional=dep / optional=!dep resolved by the flat key text, the value found along the path
	causeTailTaken = "dotted-key-takes-top-level-member" // absent p.q with a present head p takes the top-level member q (recursiveValuer inherits)
)

func causeKind(k string) bool { return k == causeDepDotted || k == causeTailTaken }

// judge compares one observation with the oracle; a strict finding that is explained by one of
// the two diagnostic readings gets that cause as its kind.
func judge(c *Case, ob observation) (fd *finding, oc int) {
	fd, oc = judgeStrict(c, ob)
	if fd != nil && !ob.panicked && c.Raw == nil {
		if cause := knownCause(c, ob); cause != "" {
			fd = &finding{cause, fd.Field, "[" + fd.Kind + "] " + fd.Desc}
		}
	}
	return fd, oc
}

// knownCause: does the observation agree with the evaluator under a diagnostic reading?
//   dep-through-dotted-key: some field depends on a sibling through a dotted key below a path-reading
//     unmarshaler, and with the presence test of exactly those relations made by the flat key text
//     (oracle.go diagFlat) no finding remains — i.e. the verdict differs from the evaluator only
//     through the presence test of the dependency.
//   dotted-key-takes-top-level-member: a field with a two-segment key p.q is absent along the path, another field
//     below the same head p is supplied along the path, a third field's whole key is q and is
//     supplied; with the absent field read as "supplied with that member's value" no finding remains.
func knownCause(c *Case, ob observation) string {
	dep := false
	for i := range c.Fields {
		dep = dep || depThroughDotted(c.Entry, c.Fields, i)
	}
	if dep {
		flat := make([]bool, len(c.Toks))
		for i, t := range c.Toks {
			flat[i] = t.T == "alt"
		}
		diagFlat = flat
		fd, _ := judgeStrict(c, ob)
		diagFlat = nil
		if fd == nil {
			return causeDepDotted
		}
	}
	if toks := tailTakenReading(c); toks != nil {
		c2 := *c
		c2.Toks = toks
		if fd, _ := judgeStrict(&c2, ob); fd == nil {
			return causeTailTaken
		}
	}
	return ""
}

func tailTakenReading(c *Case) []Tok {
	var out []Tok
	for i, f := range c.Fields {
		k := f.Key
		// absent along the path: no token, or a token under the other placement (a flat member "p.q")
		if (c.Toks[i].T != "absent" && c.Toks[i].T != "alt") || strings.Count(k, ".") != 1 || !pathReading(delivery(c.Entry, f)) {
			continue
		}
		head, tail := k[:strings.Index(k, ".")], k[strings.Index(k, ".")+1:]
		headOn, member := false, -1
		for j, g := range c.Fields {
			t := c.Toks[j]
			if j == i || t.T == "absent" || t.T == "alt" {
				continue
			}
			if strings.HasPrefix(g.Key, head+".") {
				headOn = true
			}
			if keyName(c.Fields, j) == tail {
				member = j
			}
		}
		if headOn && member >= 0 {
			if out == nil {
				out = append([]Tok{}, c.Toks...)
			}
			out[i] = c.Toks[member]
		}
	}
	return out
}

func judgeStrict(c *Case, ob observation) (fd *finding, oc int) {
	if ob.panicked {
		return &finding{"panic", -1, ob.err}, ocRejectedAllowed
	}
	if c.Raw != nil { // degenerate document: totality only
		if ob.accepted {
			return nil, ocAcceptedAllowed
		}
		return nil, ocRejectedAllowed
	}
	rs := mustReject(c.Entry, c.Fields, c.Toks)
	if ob.accepted {
		if len(rs) > 0 {
			r := rs[0]
			return &finding{r.Kind + "-accepted", r.Field,
				fmt.Sprintf("accepted although field %s violates %q; target=%s", goName(r.Field), r.Kind, show(ob.target))}, ocAcceptedAllowed
		}
		if m := checkTarget(c.Entry, c.Fields, c.Toks, ob.target); m != nil {
			return &finding{m.Kind, m.Field,
				fmt.Sprintf("accepted but field %s holds %s, want %s", goName(m.Field), m.Got, m.Want)}, ocAcceptedAllowed
		}
		if mustAccept(c.Entry, c.Fields, c.Toks) {
			return nil, ocAcceptedDemanded
		}
		return nil, ocAcceptedAllowed
	}
	if mustAccept(c.Entry, c.Fields, c.Toks) {
		return &finding{"valid-rejected", -1, "rejected although every declared constraint holds: " + ob.err}, ocRejectedAllowed
	}
	if len(rs) > 0 {
		return nil, ocRejectedDemanded
	}
	return nil, ocRejectedAllowed
}

func (c *Case) fill(fd *finding) {
	c.Type = describeCase(c)
	c.Input = inputText(c)
	rs := mustReject(c.Entry, c.Fields, c.Toks)
	switch {
	case c.Raw != nil:
		c.Expected = "no panic"
	case len(rs) > 0:
		c.Expected = fmt.Sprintf("rejected (%v)", rs)
	case mustAccept(c.Entry, c.Fields, c.Toks):
		c.Expected = "accepted, target = supplied values / defaults"
	default:
		c.Expected = "no panic; if accepted, target = supplied values / defaults"
	}
	if fd != nil {
		c.Observed = fd.Desc
	} else {
		c.Observed = "as expected"
	}
}
