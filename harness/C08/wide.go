package main

// Wide kinds and extreme numbers (group `wn`), time.Duration and json.Unmarshaler fields (group `du`).
//
// Session 5, added for seed C08-y2 (the YAML -> JSON step loses uint64 values above MaxInt64) and the
// panic repaired in /repo 08cec3a (a JSON number for a time.Duration / json.Unmarshaler field).
// The older groups only drive the kinds int, int8, uint, float64 with inputs between -1 and 200, and the
// yaml / toml entries only on the JSON rendering inside the key-name group. This file enumerates
//
//   every fixed-width numeric kind x shape (scalar, pointer, slice element, map value, member of a nested struct)
//   x option (none, optional, an all-embracing range, `string`, default = the kind's maximum)
//   x every number at a limit of some kind (both neighbours) x every entry point that carries numbers
//   (json, yaml, toml documents; their Reader and conf variants; UnmarshalKey with json.Number and with
//   native Go integers; form / path / header strings; httpx.Parse with a query parameter or a JSON body)
//
// judged by an evaluator that works on the decimal TEXT of the input with math/big (no float round trip):
// an integer literal inside the kind's range must be accepted and the target must hold exactly it, one
// outside must be rejected, a fraction for an integer kind must be rejected.

import (
	"bytes"
	"encoding/json"
	"errors"
	"fmt"
	"math/big"
	"net/http"
	"os"
	"path/filepath"
	"reflect"
	"regexp"
	"strconv"
	"strings"
	"time"

	"github.com/zeromicro/go-zero/core/conf"
	"github.com/zeromicro/go-zero/core/mapping"
	"github.com/zeromicro/go-zero/rest/httpx"
	"github.com/zeromicro/go-zero/rest/pathvar"
)

// WideCase is one evaluation of the groups wn / du (replayable on its own).
type WideCase struct {
	Entry string `json:"entry"`
	Kind  string `json:"kind"`  // int … uint64, float32, float64, duration, junm
	Shape string `json:"shape"` // scalar ptr slice map nested
	Opt   string `json:"opt"`   // "" optional range string default
	In    string `json:"in"`    // absent | null | num:<literal> | str:<text> | bool | obj | arr
}

// junmT implements json.Unmarshaler (pointer receiver, as usual).
type junmT struct{ V string }

func (j *junmT) UnmarshalJSON(b []byte) error {
	if strings.Contains(string(b), "bad") {
		return errors.New("junmT: bad text")
	}
	j.V = string(b)
	return nil
}

// tunmT implements encoding.TextUnmarshaler (pointer receiver).
type tunmT struct{ V string }

func (t *tunmT) UnmarshalText(b []byte) error {
	if strings.Contains(string(b), "bad") {
		return errors.New("tunmT: bad text")
	}
	t.V = string(b)
	return nil
}

var (
	wideIntKinds   = []string{"int", "int8", "int16", "int32", "int64", "uint", "uint8", "uint16", "uint32", "uint64"}
	wideFloatKinds = []string{"float32", "float64"}
	wideShapes     = []string{"scalar", "ptr", "slice", "map", "nested"}
	wideOpts       = []string{"", "optional", "range", "string", "default"}
	// entries, simplest first (the shrinker tries them in this order)
	wideEntries = []string{"json", "yaml", "toml", "key-num", "key-native", "conf-json", "conf-yaml", "conf-toml",
		"json-reader", "yaml-reader", "toml-reader",
		"conf-load-json", "conf-load-yaml", "conf-load-yml", "conf-load-toml", "conf-load-env-yaml", "conf-filldefault", "form", "path", "header", "httpx-json", "httpx-form", "httpx-path", "httpx-header"}
)

var wideTypes = map[string]reflect.Type{
	"int": reflect.TypeOf(int(0)), "int8": reflect.TypeOf(int8(0)), "int16": reflect.TypeOf(int16(0)), "int32": reflect.TypeOf(int32(0)),
	"int64": reflect.TypeOf(int64(0)), "uint": reflect.TypeOf(uint(0)), "uint8": reflect.TypeOf(uint8(0)), "uint16": reflect.TypeOf(uint16(0)),
	"uint32": reflect.TypeOf(uint32(0)), "uint64": reflect.TypeOf(uint64(0)), "float32": reflect.TypeOf(float32(0)), "float64": reflect.TypeOf(float64(0)),
	"duration": reflect.TypeOf(time.Duration(0)), "junm": reflect.TypeOf(junmT{}), "tunm": reflect.TypeOf(tunmT{}),
}

func pow2(n uint) *big.Int { return new(big.Int).Lsh(big.NewInt(1), n) }

// kindLimits: inclusive limits of an integer kind (int / uint are 64 bits wide on the platforms of the check).
func kindLimits(kind string) (lo, hi *big.Int) {
	bits := map[string]uint{"int": 64, "int8": 8, "int16": 16, "int32": 32, "int64": 64, "uint": 64, "uint8": 8, "uint16": 16, "uint32": 32, "uint64": 64}[kind]
	if strings.HasPrefix(kind, "u") {
		return big.NewInt(0), new(big.Int).Sub(pow2(bits), big.NewInt(1))
	}
	return new(big.Int).Neg(pow2(bits - 1)), new(big.Int).Sub(pow2(bits-1), big.NewInt(1))
}

func isIntKind(k string) bool {
	return k != "float32" && k != "float64" && k != "duration" && k != "junm" && k != "tunm"
}
func isFloatKind(k string) bool { return k == "float32" || k == "float64" }

// wideNumbers: every limit of every kind with both neighbours, 2^24+1 and 2^53+1 (first integers a float32 /
// float64 cannot hold), small values, and literals with a fraction / an exponent.
func wideNumbers() []string {
	seen := map[string]bool{}
	var out []string
	add := func(s string) {
		if !seen[s] {
			seen[s] = true
			out = append(out, s)
		}
	}
	for _, s := range []string{"0", "1", "3", "-1"} {
		add(s)
	}
	one := big.NewInt(1)
	for _, b := range []uint{7, 8, 15, 16, 24, 31, 32, 53, 63, 64} {
		p := pow2(b)
		add(new(big.Int).Sub(p, one).String())
		add(p.String())
		add(new(big.Int).Add(p, one).String())
		n := new(big.Int).Neg(p)
		add(n.String())
		add(new(big.Int).Sub(n, one).String())
	}
	for _, s := range []string{"1.5", "-0.5", "1e2", "1e19", "1e20", "1.8446744073709551615e19", "9.223372036854775807e18",
		"3.4028234663852886e38", "3.5e38", "1e-50"} {
		add(s)
	}
	return out
}

var wideTmpDir string

// wideTmp: a private directory for the configuration files of the conf-load entries.
func wideTmp() string {
	if wideTmpDir == "" {
		d, err := os.MkdirTemp("", "c08wide")
		if err != nil {
			panic(err)
		}
		wideTmpDir = d
	}
	return wideTmpDir
}

func wideCleanup() {
	if wideTmpDir != "" {
		os.RemoveAll(wideTmpDir)
		wideTmpDir = ""
	}
}

var intLit = regexp.MustCompile(`^-?[0-9]+$`)

// ---------------------------------------------------------------------------------------------
// type, tag, renderings

func wideTagKey(entry string) string {
	switch entry {
	case "form", "httpx-form":
		return "form"
	case "path", "httpx-path":
		return "path"
	case "header", "httpx-header":
		return "header"
	case "key-num", "key-native":
		return "key" // mapping.UnmarshalKey reads the `key` tag
	}
	return "json"
}

func wideFromString(entry string) bool { k := wideTagKey(entry); return k != "json" && k != "key" }

func wideDefault(kind string) string {
	switch {
	case isIntKind(kind):
		_, hi := kindLimits(kind)
		return hi.String()
	case isFloatKind(kind):
		return "1.5"
	case kind == "duration":
		return "3s"
	}
	return ""
}

func wideOptText(c *WideCase) string {
	switch c.Opt {
	case "optional":
		return ",optional"
	case "range":
		return ",range=[-1e39:1e39]"
	case "string":
		return ",string"
	case "default":
		return ",default=" + wideDefault(c.Kind)
	}
	return ""
}

func wideType(c *WideCase) (reflect.Type, string) {
	key := wideTagKey(c.Entry)
	leaf := wideTypes[c.Kind]
	opt := wideOptText(c)
	var ft reflect.Type
	tag := fmt.Sprintf(`%s:"a%s"`, key, opt)
	desc := ""
	switch c.Shape {
	case "scalar":
		ft = leaf
	case "ptr":
		ft = reflect.PtrTo(leaf)
	case "slice":
		ft = reflect.SliceOf(leaf)
	case "map":
		ft = reflect.MapOf(reflect.TypeOf(""), leaf)
	case "nested":
		itag := fmt.Sprintf(`%s:"x%s"`, key, opt)
		ft = reflect.StructOf([]reflect.StructField{{Name: "X", Type: leaf, Tag: reflect.StructTag(itag)}})
		tag = fmt.Sprintf(`%s:"a"`, key)
		desc = fmt.Sprintf("struct{A struct{X %s `%s`} `%s`}", leaf, itag, tag)
	}
	if desc == "" {
		desc = fmt.Sprintf("struct{A %s `%s`}", ft, tag)
	}
	return reflect.StructOf([]reflect.StructField{{Name: "A", Type: ft, Tag: reflect.StructTag(tag)}}), desc
}

// leafJSON: the JSON text of the supplied leaf ("" = absent).
func leafJSON(c *WideCase) string {
	switch {
	case c.In == "absent":
		return ""
	case c.In == "null":
		return "null"
	case c.In == "bool":
		return "true"
	case c.In == "obj":
		return "{}"
	case c.In == "arr":
		return "[]"
	case strings.HasPrefix(c.In, "num:"):
		if c.Opt == "string" {
			return `"` + c.In[4:] + `"`
		}
		return c.In[4:]
	}
	b, _ := json.Marshal(c.In[4:])
	return string(b)
}

func shapeJSON(c *WideCase, leaf string) string {
	switch c.Shape {
	case "slice":
		return "[" + leaf + "]"
	case "map":
		return `{"k":` + leaf + `}`
	case "nested":
		return `{"x":` + leaf + `}`
	}
	return leaf
}

// wideFamily: the document format an entry reads ("json", "yaml", "toml"; the entry itself otherwise).
func wideFamily(entry string) string {
	family := entry
	for _, p := range []string{"conf-", "httpx-", "load-", "env-"} {
		family = strings.TrimPrefix(family, p)
	}
	family = strings.TrimSuffix(family, "-reader")
	if family == "yml" {
		family = "yaml"
	}
	return family
}

func wideDoc(c *WideCase) string {
	leaf := leafJSON(c)
	family := wideFamily(c.Entry)
	switch family {
	case "json":
		if leaf == "" {
			return "{}"
		}
		return `{"a":` + shapeJSON(c, leaf) + `}`
	case "yaml":
		if leaf == "" {
			return "{}\n"
		}
		switch c.Shape { // block style, the leaf in its JSON rendering (a YAML flow scalar)
		case "slice":
			return "a:\n  - " + leaf + "\n"
		case "map":
			return "a:\n  k: " + leaf + "\n"
		case "nested":
			return "a:\n  x: " + leaf + "\n"
		}
		return "a: " + leaf + "\n"
	case "toml":
		if leaf == "" {
			return ""
		}
		switch c.Shape {
		case "slice":
			return "a = [" + leaf + "]\n"
		case "map":
			return "[a]\nk = " + leaf + "\n"
		case "nested":
			return "[a]\nx = " + leaf + "\n"
		}
		return "a = " + leaf + "\n"
	}
	return ""
}

// nativeLeaf: the supplied value as a Go value for UnmarshalKey. exact = it has the field's own type.
func nativeLeaf(c *WideCase) (v any, ok bool) {
	switch {
	case c.In == "null":
		return nil, true
	case c.In == "bool":
		return true, true
	case c.In == "obj":
		return map[string]any{}, true
	case c.In == "arr":
		return []any{}, true
	case strings.HasPrefix(c.In, "str:"):
		return c.In[4:], true
	}
	s := c.In[4:]
	if c.Entry == "key-num" {
		if c.Opt == "string" {
			return s, true
		}
		return json.Number(s), true
	}
	// key-native
	if c.Opt == "string" {
		return nil, false
	}
	if !intLit.MatchString(s) || isFloatKind(c.Kind) { // a float field gets the value in its own type
		f, err := strconv.ParseFloat(s, 64)
		if err != nil {
			return nil, false
		}
		if c.Kind == "float32" {
			return float32(f), true
		}
		return f, true
	}
	n, _ := new(big.Int).SetString(s, 10)
	if isIntKind(c.Kind) {
		lo, hi := kindLimits(c.Kind)
		if n.Cmp(lo) >= 0 && n.Cmp(hi) <= 0 { // the field's exact type
			rv := reflect.New(wideTypes[c.Kind]).Elem()
			if n.Sign() < 0 || !strings.HasPrefix(c.Kind, "u") && n.IsInt64() {
				rv.SetInt(n.Int64())
			} else {
				rv.SetUint(n.Uint64())
			}
			return rv.Interface(), true
		}
	}
	switch { // the narrowest 64-bit Go type that holds it
	case n.IsInt64():
		return n.Int64(), true
	case n.IsUint64():
		return n.Uint64(), true
	}
	return nil, false
}

func shapeNative(c *WideCase, leaf any) any {
	switch c.Shape {
	case "slice":
		return []any{leaf}
	case "map":
		return map[string]any{"k": leaf}
	case "nested":
		return map[string]any{"x": leaf}
	}
	return leaf
}

// wideApplicable: does the combination exist for this entry?
func wideApplicable(c *WideCase) bool {
	if c.Entry == "conf-filldefault" && c.In != "absent" {
		return false
	}
	fs := wideFromString(c.Entry)
	if fs {
		if c.Shape != "scalar" && c.Shape != "ptr" {
			return false // no documented rendering of containers in a parameter
		}
		if c.Opt == "string" || c.In == "null" || c.In == "obj" || c.In == "arr" {
			return false
		}
	}
	if strings.HasPrefix(c.Entry, "conf-load-") && c.Shape != "scalar" && c.Shape != "map" {
		return false // configuration files: one flat and one container shape (every case writes a file)
	}
	if wideFamily(c.Entry) == "toml" && c.In == "null" {
		return false
	}
	if (c.Shape == "slice" || c.Shape == "map") && c.Opt != "" && c.Opt != "optional" {
		return false
	}
	if (c.Kind == "junm" || c.Kind == "tunm") && (c.Opt == "range" || c.Opt == "string" || c.Opt == "default") {
		return false
	}
	if c.Kind == "duration" && (c.Opt == "range" || c.Opt == "string") {
		return false
	}
	if strings.HasPrefix(c.Entry, "key-") && c.In != "absent" {
		if _, ok := nativeLeaf(c); !ok {
			return false
		}
	}
	if c.Entry == "key-native" && (!strings.HasPrefix(c.In, "num:") || c.Shape == "slice" || c.Shape == "map") {
		return false // the same as key-num; containers of native numbers have no single "correct" Go type ([]any / []int64 / …)
	}
	return true
}

// ---------------------------------------------------------------------------------------------
// execution

func wideExecute(c *WideCase) (ob observation, input string) {
	typ, _ := wideType(c)
	ptr := reflect.New(typ)
	ob.target = ptr.Elem()
	defer func() {
		if p := recover(); p != nil {
			ob.panicked = true
			ob.accepted = false
			ob.err = fmt.Sprint("panic: ", p)
		}
	}()
	var err error
	doc := wideDoc(c)
	input = doc
	strMap := func(k string, arr bool) map[string]any {
		m := map[string]any{}
		if c.In != "absent" {
			s := c.In[4:]
			if c.In == "bool" {
				s = "true"
			}
			if arr {
				m[k] = []string{s}
			} else {
				m[k] = s
			}
		}
		input = fmt.Sprintf("%#v", m)
		return m
	}
	param := func() (string, bool) {
		if c.In == "absent" {
			return "", false
		}
		if c.In == "bool" {
			return "true", true
		}
		return c.In[4:], true
	}
	switch c.Entry {
	case "json":
		err = mapping.UnmarshalJsonBytes([]byte(doc), ptr.Interface())
	case "yaml":
		err = mapping.UnmarshalYamlBytes([]byte(doc), ptr.Interface())
	case "toml":
		err = mapping.UnmarshalTomlBytes([]byte(doc), ptr.Interface())
	case "json-reader":
		err = mapping.UnmarshalJsonReader(strings.NewReader(doc), ptr.Interface())
	case "yaml-reader":
		err = mapping.UnmarshalYamlReader(strings.NewReader(doc), ptr.Interface())
	case "toml-reader":
		err = mapping.UnmarshalTomlReader(bytes.NewReader([]byte(doc)), ptr.Interface())
	case "conf-json":
		err = conf.LoadFromJsonBytes([]byte(doc), ptr.Interface())
	case "conf-yaml":
		err = conf.LoadFromYamlBytes([]byte(doc), ptr.Interface())
	case "conf-toml":
		err = conf.LoadFromTomlBytes([]byte(doc), ptr.Interface())
	case "conf-load-json", "conf-load-yaml", "conf-load-yml", "conf-load-toml", "conf-load-env-yaml":
		// a configuration FILE; the loader is chosen by the extension
		file := filepath.Join(wideTmp(), "c."+c.Entry[strings.LastIndex(c.Entry, "-")+1:])
		if werr := os.WriteFile(file, []byte(doc), 0o600); werr != nil {
			panic(werr)
		}
		switch c.Entry {
		case "conf-load-env-yaml":
			err = conf.Load(file, ptr.Interface(), conf.UseEnv())
		case "conf-load-yml":
			err = conf.LoadConfig(file, ptr.Interface()) // the deprecated name of Load
		default:
			err = conf.Load(file, ptr.Interface())
		}
	case "conf-filldefault":
		input = "(nothing: conf.FillDefault)"
		err = conf.FillDefault(ptr.Interface())
	case "key-num", "key-native":
		m := map[string]any{}
		if c.In != "absent" {
			leaf, _ := nativeLeaf(c)
			m["a"] = shapeNative(c, leaf)
		}
		input = fmt.Sprintf("%#v", m)
		err = mapping.UnmarshalKey(m, ptr.Interface())
	case "form":
		err = formU.Unmarshal(strMap("a", true), ptr.Interface())
	case "path":
		err = pathU.Unmarshal(strMap("a", false), ptr.Interface())
	case "header":
		err = hdrU.Unmarshal(strMap("A", false), ptr.Interface())
	case "httpx-json":
		r, _ := http.NewRequest(http.MethodPost, "/", strings.NewReader(doc))
		r.Header.Set("Content-Type", "application/json")
		input = "POST / body:" + doc
		err = httpx.Parse(r, ptr.Interface())
	case "httpx-form", "httpx-path", "httpx-header":
		r, _ := http.NewRequest(http.MethodGet, "/", nil)
		input = "GET /"
		if s, ok := param(); ok {
			switch c.Entry {
			case "httpx-form":
				q := r.URL.Query()
				q.Set("a", s)
				r.URL.RawQuery = q.Encode()
				input = "GET /?" + r.URL.RawQuery
			case "httpx-path":
				r = pathvar.WithVars(r, map[string]string{"a": s})
				input = "GET / path:a=" + s
			case "httpx-header":
				r.Header.Set("a", s)
				input = "GET / header:a=" + s
			}
		}
		err = httpx.Parse(r, ptr.Interface())
	default:
		panic("unknown wide entry " + c.Entry)
	}
	if err != nil {
		ob.err = err.Error()
		return
	}
	ob.accepted = true
	return
}

// ---------------------------------------------------------------------------------------------
// evaluator (imports nothing from go-zero; numbers are compared as decimal texts through math/big)

type wideVerdict struct {
	must     string   // "accept" | "reject" | "" (either)
	reason   string   // for a demanded rejection
	want     *big.Rat // accepted numeric leaf must equal this (nil: not compared)
	wantZero bool     // accepted: the field must be untouched (zero)
	wantDur  *time.Duration
	wantStr  *string // junm: V
	inRange  bool    // want lies inside the kind (an accepted value outside is unsound whatever the bracket)
}

func ratOf(s string) *big.Rat {
	r, ok := new(big.Rat).SetString(s)
	if !ok {
		return nil
	}
	return r
}

func wideJudge(c *WideCase) (v wideVerdict) {
	v.inRange = true
	container := c.Shape == "slice" || c.Shape == "map"
	if c.In == "absent" {
		if c.Entry == "conf-filldefault" && c.Opt != "default" {
			return // FillDefault promises the defaults, nothing about fields without one
		}
		switch {
		case container || c.Shape == "nested" || c.Kind == "junm" || c.Kind == "tunm":
			return // the statement speaks of scalar fields (bracketed as in the older groups)
		case c.Opt == "optional":
			v.must, v.wantZero = "accept", true
		case c.Opt == "default":
			v.must = "accept"
			switch {
			case c.Kind == "duration":
				d := 3 * time.Second
				v.wantDur = &d
			default:
				v.want = ratOf(wideDefault(c.Kind))
			}
		default:
			v.must, v.reason = "reject", "required-absent"
		}
		return
	}
	if c.In == "null" {
		return // bracketed
	}
	switch c.Kind {
	case "duration":
		// totality for everything; a string is THE rendering of a duration: valid accepted with that value,
		// invalid rejected. A number is not pinned (nanoseconds since 08cec3a, as encoding/json).
		// Strict only where go-zero documents the text form: a scalar / pointer / nested member under the
		// json-keyed unmarshalers; elements of slices / maps and form / path / header parameters: totality only.
		if strings.HasPrefix(c.In, "str:") && !container && !wideFromString(c.Entry) {
			d, err := time.ParseDuration(c.In[4:])
			if err != nil {
				v.must, v.reason = "reject", "ill-typed"
				return
			}
			v.must, v.wantDur = "accept", &d
		}
		return
	case "tunm":
		// encoding.TextUnmarshaler: a string is its one rendering (json-keyed unmarshalers; scalar and pointer fields)
		if strings.HasPrefix(c.In, "str:") && !wideFromString(c.Entry) && (c.Shape == "scalar" || c.Shape == "ptr") {
			s := c.In[4:]
			if strings.Contains(s, "bad") {
				v.must, v.reason = "reject", "ill-typed"
				return
			}
			v.must, v.wantStr = "accept", &s
		}
		return
	case "junm":
		// the pointer field is the shape whose type has UnmarshalJSON in its method set (pointer receiver)
		if strings.HasPrefix(c.In, "str:") && !wideFromString(c.Entry) && c.Shape == "ptr" && wideTagKey(c.Entry) == "json" {
			s := c.In[4:]
			if strings.Contains(s, "bad") {
				v.must, v.reason = "reject", "ill-typed"
				return
			}
			v.must, v.wantStr = "accept", &s
		}
		return
	}
	// numeric kinds
	if !strings.HasPrefix(c.In, "num:") {
		v.must, v.reason = "reject", "ill-typed" // "x", true, {}, [] for a number
		return
	}
	s := c.In[4:]
	val := ratOf(s)
	tomlInvalid := wideFamily(c.Entry) == "toml" && intLit.MatchString(s) && !val.Num().IsInt64() && c.Opt != "string"
	if isFloatKind(c.Kind) {
		bits := 64
		if c.Kind == "float32" {
			bits = 32
		}
		f, err := strconv.ParseFloat(s, bits)
		if err != nil {
			return // beyond the kind: the statement speaks of integer ranges only — bracketed
		}
		v.want = new(big.Rat).SetFloat64(f) // the nearest value of the kind (what "holds the supplied value" can mean for a float)
		if !tomlInvalid {
			v.must = "accept"
		}
		return
	}
	if !val.IsInt() {
		v.must, v.reason = "reject", "ill-typed" // a fraction for an integer kind
		return
	}
	lo, hi := kindLimits(c.Kind)
	n := val.Num()
	in := n.Cmp(lo) >= 0 && n.Cmp(hi) <= 0
	v.want, v.inRange = val, in
	switch {
	case !intLit.MatchString(s):
		// an integral value written with an exponent: convertible rendering, bracketed; if accepted it
		// must fit and be held exactly (JSON keeps the text; a YAML / TOML parser hands over a float64,
		// so there the value is not compared)
		if !in {
			v.must, v.reason = "reject", "ill-typed"
		} else if wideFamily(c.Entry) == "yaml" || wideFamily(c.Entry) == "toml" || c.Entry == "key-native" {
			v.want = nil
		}
	case tomlInvalid:
		// not a TOML document (integers are 64-bit signed): either verdict, soundness only
		if !in {
			v.must, v.reason = "reject", "ill-typed"
		}
	case in:
		v.must = "accept"
	default:
		v.must, v.reason = "reject", "ill-typed" // outside the kind
	}
	if c.Entry == "key-native" && !in {
		v.must, v.reason = "reject", "ill-typed" // a wider Go integer whose value the field cannot hold
	}
	return
}

func wideLeaf(c *WideCase, target reflect.Value) (leaf reflect.Value, ok bool) {
	f := target.Field(0)
	switch c.Shape {
	case "scalar":
		return f, true
	case "ptr":
		if f.IsNil() {
			return f, false
		}
		return f.Elem(), true
	case "slice":
		if f.Len() != 1 {
			return f, false
		}
		return f.Index(0), true
	case "map":
		if f.Len() != 1 || !f.MapIndex(reflect.ValueOf("k")).IsValid() {
			return f, false
		}
		return f.MapIndex(reflect.ValueOf("k")), true
	}
	return f.Field(0), true
}

func leafRat(v reflect.Value) *big.Rat {
	switch v.Kind() {
	case reflect.Int, reflect.Int8, reflect.Int16, reflect.Int32, reflect.Int64:
		return new(big.Rat).SetInt64(v.Int())
	case reflect.Uint, reflect.Uint8, reflect.Uint16, reflect.Uint32, reflect.Uint64:
		return new(big.Rat).SetInt(new(big.Int).SetUint64(v.Uint()))
	case reflect.Float32, reflect.Float64:
		r := new(big.Rat)
		if r.SetFloat64(v.Float()) == nil {
			return nil
		}
		return r
	}
	return nil
}

// wideCheck executes one case and compares. Returns the failure kind ("" = none), a description and the outcome class.
func wideCheck(c *WideCase) (kind, desc, input string, oc int) {
	ob, input := wideExecute(c)
	v := wideJudge(c)
	if ob.panicked {
		return "panic", ob.err, input, ocRejectedAllowed
	}
	if !ob.accepted {
		switch v.must {
		case "accept":
			return "valid-rejected", "rejected although the value is one the field's kind holds and every declared constraint is met: " + ob.err, input, ocRejectedAllowed
		case "reject":
			return "", "", input, ocRejectedDemanded
		}
		return "", "", input, ocRejectedAllowed
	}
	oc = ocAcceptedAllowed
	if v.must == "accept" {
		oc = ocAcceptedDemanded
	}
	if v.must == "reject" {
		return v.reason + "-accepted", fmt.Sprintf("accepted although %s; target=%s", v.reason, wideShow(ob.target)), input, oc
	}
	if v.wantZero {
		if !ob.target.Field(0).IsZero() {
			return "absent-not-zero", "absent optional field is not zero: " + wideShow(ob.target), input, oc
		}
		return "", "", input, oc
	}
	if v.want == nil && v.wantDur == nil && v.wantStr == nil {
		return "", "", input, oc
	}
	leaf, ok := wideLeaf(c, ob.target)
	if !ok {
		return "wrong-value", "accepted but the target does not hold the supplied element: " + wideShow(ob.target), input, oc
	}
	k := "wrong-value"
	if c.In == "absent" {
		k = "default-not-filled"
	}
	switch {
	case v.wantDur != nil:
		if time.Duration(leaf.Int()) != *v.wantDur {
			return k, fmt.Sprintf("accepted but the field holds %v, want %v", time.Duration(leaf.Int()), *v.wantDur), input, oc
		}
	case v.wantStr != nil:
		if got := leaf.Field(0).String(); got != *v.wantStr {
			return k, fmt.Sprintf("accepted but UnmarshalJSON received %q, want %q", got, *v.wantStr), input, oc
		}
	default:
		got := leafRat(leaf)
		if got == nil || got.Cmp(v.want) != 0 {
			gs := "?"
			if got != nil {
				gs = got.RatString()
			}
			if !v.inRange {
				k = "ill-typed-accepted"
			}
			return k, fmt.Sprintf("accepted but the field holds %s, want exactly %s", gs, v.want.RatString()), input, oc
		}
	}
	return "", "", input, oc
}

func wideShow(t reflect.Value) string {
	f := t.Field(0)
	if f.Kind() == reflect.Ptr && !f.IsNil() {
		return fmt.Sprintf("{A:&%v}", f.Elem().Interface())
	}
	return fmt.Sprintf("%+v", t.Interface())
}

// ---------------------------------------------------------------------------------------------
// classification: drop what can be dropped (each candidate re-executes the real code), then name the rest

func valueClass(c *WideCase) string {
	if strings.HasPrefix(c.In, "num:") && !isIntKind(c.Kind) && !isFloatKind(c.Kind) {
		return "input=number"
	}
	if !strings.HasPrefix(c.In, "num:") {
		switch {
		case strings.HasPrefix(c.In, "str:"):
			return "input=string"
		}
		return "input=" + c.In
	}
	s := c.In[4:]
	if !intLit.MatchString(s) {
		return "exponent-or-fraction"
	}
	n, _ := new(big.Int).SetString(s, 10)
	maxI, maxU := new(big.Int).Sub(pow2(63), big.NewInt(1)), new(big.Int).Sub(pow2(64), big.NewInt(1))
	minI := new(big.Int).Neg(pow2(63))
	switch {
	case n.Cmp(maxU) > 0 || n.Cmp(minI) < 0:
		return "beyond-64-bit"
	case n.Cmp(maxI) > 0:
		return "above-maxint64"
	}
	if isIntKind(c.Kind) {
		lo, hi := kindLimits(c.Kind)
		switch {
		case n.Cmp(new(big.Int).Add(hi, big.NewInt(1))) == 0 || n.Cmp(new(big.Int).Sub(lo, big.NewInt(1))) == 0:
			return "next-to-kind-limit"
		case n.Cmp(hi) > 0 || n.Cmp(lo) < 0:
			return "outside-kind"
		}
	}
	switch {
	case new(big.Int).Abs(n).Cmp(pow2(53)) > 0:
		return "above-2^53"
	case new(big.Int).Abs(n).Cmp(pow2(24)) > 0:
		return "above-2^24"
	case n.Sign() < 0:
		return "negative"
	}
	return "small"
}

func wideClassify(c *WideCase, kind string) (string, *WideCase) {
	cur := *c
	try := func(m func(*WideCase)) {
		cand := cur
		m(&cand)
		if cand == cur || !wideApplicable(&cand) {
			return
		}
		if k, _, _, _ := wideCheck(&cand); k == kind {
			cur = cand
		}
	}
	for _, e := range []string{"json", "yaml", "toml", "key-num", "form"} {
		if cur.Entry != "json" {
			e := e
			before := cur.Entry
			try(func(w *WideCase) { w.Entry = e })
			if cur.Entry != before {
				break
			}
		}
	}
	try(func(w *WideCase) { w.Shape = "scalar" })
	try(func(w *WideCase) { w.Opt = "" })
	if isIntKind(cur.Kind) {
		for _, k := range []string{"int", "int64", "uint64"} {
			k := k
			before := cur.Kind
			try(func(w *WideCase) { w.Kind = k })
			if cur.Kind != before {
				break
			}
		}
	}
	feats := []string{cur.Kind, valueClass(&cur)}
	if cur.Shape != "scalar" {
		feats = append(feats, cur.Shape)
	}
	if cur.Opt != "" {
		feats = append(feats, cur.Opt)
	}
	class := kind + "{" + strings.Join(feats, ",") + "}"
	if cur.Entry != "json" {
		class = strings.TrimSuffix(class, "}") + ",@" + cur.Entry + "}"
	}
	return class, &cur
}

// ---------------------------------------------------------------------------------------------
// enumeration

func wideInputs(kind string) []string {
	switch kind {
	case "duration":
		return []string{"absent", "null", "str:3s", "str:1h2m3.5s", "str:-5ms", "str:0", "str:x", "str:", "str:3", "str:3 s",
			"num:5", "num:0", "num:-1", "num:1.5", "num:9223372036854775807", "num:9223372036854775808", "num:18446744073709551615", "num:1e30", "bool", "obj", "arr"}
	case "junm", "tunm":
		return []string{"absent", "null", "str:3s", "str:{\"k\":1}", "str:", "str:bad", "num:5", "num:1.5", "num:18446744073709551615", "bool", "obj", "arr"}
	}
	out := []string{"absent"}
	for _, n := range wideNumbers() {
		out = append(out, "num:"+n)
	}
	return append(out, "str:x", "bool")
}

func (x *runner) runWide(s shardSpec) {
	defer wideCleanup()
	kinds := append(append([]string{}, wideIntKinds...), wideFloatKinds...)
	if s.group == "du" {
		kinds = []string{"duration", "junm", "tunm"}
	}
	for _, entry := range wideEntries {
		for ki, kind := range kinds {
			if ki%s.parts != s.part {
				continue
			}
			for _, shape := range wideShapes {
				for _, opt := range wideOpts {
					if expired(x.cfg) {
						x.stopped = true
						return
					}
					var acc, rej int64
					used := false
					for _, in := range wideInputs(kind) {
						c := &WideCase{Entry: entry, Kind: kind, Shape: shape, Opt: opt, In: in}
						if !wideApplicable(c) {
							continue
						}
						used = true
						fk, desc, _, oc := wideCheck(c)
						x.nCases++
						x.outcomes[oc]++
						if oc == ocAcceptedDemanded || oc == ocAcceptedAllowed {
							acc++
						} else {
							rej++
						}
						if fk != "" {
							x.reportWide(c, fk, desc)
						}
					}
					if used {
						x.nTypes++
					}
					if acc > 0 && rej > 0 {
						// every numeric kind constrains by itself (its range); the duration / unmarshaler by its text form
						x.r.Nontrivial(x.shard + "#" + entry + "#" + kind + "#" + shape + "#" + opt)
					}
				}
			}
		}
	}
}

func (x *runner) reportWide(c *WideCase, kind, desc string) {
	x.r.Count("findings_raw", 1)
	coarse := kind + "|" + c.Entry + "|" + c.Kind + "|" + c.Shape + "|" + c.Opt + "|" + valueClass(c)
	if x.seenKey[coarse] || len(x.seenKey) > 400 {
		return
	}
	x.seenKey[coarse] = true
	class, sc := wideClassify(c, kind)
	_, sdesc, input, _ := wideCheck(sc)
	if sdesc == "" {
		sdesc = desc
	}
	out := &Case{Entry: sc.Entry, Wide: sc}
	fillWide(out, sdesc, input)
	x.r.Violation(class, fmt.Sprintf("%s  type=%s  input=%s  [entry %s]", sdesc, out.Type, out.Input, sc.Entry), out)
}

func fillWide(c *Case, observed, input string) {
	_, c.Type = wideType(c.Wide)
	c.Input = strings.TrimSpace(input)
	v := wideJudge(c.Wide)
	switch v.must {
	case "accept":
		c.Expected = "accepted, the field holds exactly the supplied value (or the declared default)"
	case "reject":
		c.Expected = "rejected (" + v.reason + ")"
	default:
		c.Expected = "no panic; if accepted, the field holds exactly the supplied value"
	}
	c.Observed = observed
	if observed == "" {
		c.Observed = "as expected"
	}
}

func replayWide(class string, c *Case) bool {
	defer wideCleanup()
	kind, desc, input, _ := wideCheck(c.Wide)
	fillWide(c, desc, input)
	fmt.Printf("replay class=%s\n entry:    %s\n type:     %s\n input:    %s\n expected: %s\n observed: %s\n", class, c.Wide.Entry, c.Type, c.Input, c.Expected, c.Observed)
	return kind != ""
}
