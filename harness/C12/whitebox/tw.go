//go:build verif

package collection

import (
	"fmt"
	"sort"
	"strings"
)

// VerifDumpTimingWheel renders the complete wheel state (read-only; call at quiescence).
func VerifDumpTimingWheel(tw *TimingWheel) string {
	var b strings.Builder
	fmt.Fprintf(&b, "pos=%d", tw.tickedPos)
	for i, l := range tw.slots {
		fmt.Fprintf(&b, "|%d:", i)
		for e := l.Front(); e != nil; e = e.Next() {
			t := e.Value.(*timingEntry)
			fmt.Fprintf(&b, "(%v=%v c%d d%d r%v)", t.key, t.value, t.circle, t.diff, t.removed)
		}
	}
	var ts []string
	tw.timers.Range(func(k, v any) bool {
		p := v.(*positionEntry)
		ts = append(ts, fmt.Sprintf("%v@%d->%v=%v", k, p.pos, p.item.key, p.item.value))
		return true
	})
	sort.Strings(ts)
	b.WriteString("|T:" + strings.Join(ts, ","))
	return b.String()
}
