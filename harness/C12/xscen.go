package main

import (
	"fmt"
	"sort"
	"strings"

	"github.com/zeromicro/go-zero/verifshim/vx"
)

// Scenario families (see NOTES.md). due(k) below is the tick a pre-set timer is due at; every
// scenario also pre-sets a timer "p" that is due one tick after the last tick sent (it must still
// be pending at the final Drain) — with wheel sizes 1–3 this covers delays shorter and longer
// than a revolution (circle > 0) in every family.

type layout struct {
	keys  []string
	due   []int
	ticks int
}

func (l layout) String() string {
	var p []string
	for i, k := range l.keys {
		p = append(p, fmt.Sprintf("%s%d", k, l.due[i]))
	}
	return strings.Join(p, ".")
}

// pre: the set-up; pending adds a timer "p" due one tick after the last tick sent
func (l layout) pre(pending bool) []XOp {
	var out []XOp
	for i, k := range l.keys {
		out = append(out, xS(k, l.due[i]))
	}
	if pending {
		out = append(out, xS("p", l.ticks+1))
	}
	return out
}

func cbString(cb map[string]string) string {
	if len(cb) == 0 {
		return "op"
	}
	var p []string
	for k, v := range cb {
		p = append(p, k+"="+v)
	}
	sort.Strings(p)
	return strings.Join(p, ",")
}

func callersString(cs [][]XOp) string {
	var p []string
	for _, c := range cs {
		var q []string
		for _, o := range c {
			o.Val = ""
			q = append(q, strings.Replace(o.String(), "=,", ",", 1))
		}
		p = append(p, strings.Join(q, ";"))
	}
	return strings.Join(p, "|")
}

// scenarios builds the families. Bounds: a scenario carries its own preemption bound, chosen per
// tier from measured sizes (NOTES.md): free context switches (a thread blocks, exits or yields)
// are always enumerated completely, the bound limits switches away from a thread that could go on.
func scenarios(thorough bool) []vx.Scenario {
	var out []vx.Scenario
	have := map[string]bool{}
	// add: pq / pt = preemption bound in the quick / thorough tier (-1: not in that tier)
	add := func(s xspec, pq, pt int) {
		p := pq
		if thorough {
			p = pt
		}
		if p < 0 || have[s.Name] { // size-dependent delays may coincide with a fixed one
			return
		}
		have[s.Name] = true
		sc := xscenario(s)
		sc.P, sc.T, sc.SetBound = p, 0, true
		if thorough {
			// cost hint (heaviest shards start first): threads and ticks drive the size. quick keeps
			// the listed order, so that the violation kept per class comes from the simplest scenario
			sc.Weight = (1 + p) * (len(s.Pre) + 2*s.Ticks + 4*len(s.Callers)*len(s.Callers))
		}
		out = append(out, sc)
	}
	sizes := []int{1, 2, 3}

	// A — deliveries overlapping later ticks, no caller: batches of 1–3 timers on consecutive
	// (or separated) ticks × callback behaviours
	layouts := []layout{
		{[]string{"a", "b", "c", "d"}, []int{1, 1, 2, 2}, 2},
		{[]string{"a", "b", "c"}, []int{1, 1, 2}, 2},
		{[]string{"a", "b", "c"}, []int{1, 2, 2}, 2},
		{[]string{"a", "b", "c"}, []int{1, 1, 1}, 1},
		{[]string{"a", "b", "c", "d"}, []int{1, 1, 3, 3}, 3},
		{[]string{"a", "b", "c"}, []int{1, 2, 3}, 3},
	}
	for _, n := range sizes {
		for _, l := range layouts {
			gate := fmt.Sprintf("gate%d", l.ticks)
			type mode struct {
				cb     map[string]string
				pq, pt int
			}
			modes := []mode{
				{map[string]string{"*": "yield"}, 0, 1},
				{nil, 1, 2},
				{map[string]string{l.keys[0]: gate}, 1, 2},
				{map[string]string{l.keys[0]: "panic"}, 1, 2},
				{map[string]string{l.keys[1]: "panic"}, 1, 2},
				{map[string]string{l.keys[0]: gate, l.keys[2]: "panic"}, -1, 2},
			}
			for _, m := range modes {
				pq, pt := m.pq, m.pt
				if n != 2 && pq > 0 { // the deliveries do not depend on the wheel size: full bound for n=2 only
					pq = 0
				}
				add(xspec{Name: fmt.Sprintf("A/n%d/%s/cb:%s", n, l, cbString(m.cb)), Slots: n, Pre: l.pre(true), Ticks: l.ticks, CB: m.cb}, pq, pt)
			}
		}
	}

	// B — one caller racing with two ticks: a is due at tick 2 (in flight at tick 1: circle > 0 for
	// n=1, relocated entries after a lazy move, ...)
	lb := layout{[]string{"a"}, []int{2}, 2}
	plain := map[string]string{"*": "plain"}
	for _, n := range sizes {
		scripts := [][]XOp{
			{xS("a", 1)}, {xS("a", 3)}, {xM("a", 1)}, {xM("a", 3)}, {xM("a", n+1)}, {xR("a")},
			{xS("c", 1)}, {xS("c", 2)},
			{xM("a", 3), xR("a")}, {xR("a"), xS("a", 1)}, {xS("c", 1), xM("c", 2)}, {xS("a", 1), xS("a", 2)},
		}
		for _, sc := range scripts {
			cs := [][]XOp{sc}
			add(xspec{Name: fmt.Sprintf("B/n%d/%s/%s", n, lb, callersString(cs)), Slots: n, Pre: lb.pre(false), Ticks: lb.ticks, Callers: cs, CB: plain}, 1, 3)
		}
	}

	// C — two callers on colliding keys racing with two ticks: a and b due at tick 2
	lc := layout{[]string{"a", "b"}, []int{2, 2}, 2}
	for _, n := range sizes {
		pairs := [][][]XOp{
			{{xR("a")}, {xS("a", 1)}},
			{{xM("a", 1)}, {xM("a", 3)}},
			{{xS("a", 2)}, {xS("b", 1)}},
			{{xR("a")}, {xM("a", 1)}},
			{{xS("c", 1)}, {xS("c", 2)}},
			{{xR("a")}, {xR("b")}},
		}
		for _, cs := range pairs {
			pq := 0
			if n != 2 {
				pq = -1
			}
			add(xspec{Name: fmt.Sprintf("C/n%d/%s/%s", n, lc, callersString(cs)), Slots: n, Pre: lc.pre(false), Ticks: lc.ticks, Callers: cs, CB: plain}, pq, 1)
		}
	}

	// D — Drain racing with ticks (and a second caller that sets a fresh key or removes):
	// a due at tick 1, b at tick 2. Operations on a key after it was drained are outside the
	// statement (Drain is the wheel's shutdown step) and are not generated.
	ld := layout{[]string{"a", "b"}, []int{1, 2}, 2}
	for _, n := range sizes {
		progs := [][][]XOp{
			{{xD()}},
			{{xR("b"), xD()}},
			{{xD()}, {xS("e", 1)}},
			{{xD()}, {xR("b")}},
		}
		for _, cs := range progs {
			for _, cb := range []map[string]string{nil, {"a": "panic"}, {"b": "gate2"}} {
				pq, pt := 0, 1
				if n == 2 && len(cs) == 1 && cb == nil {
					pq = 1
				}
				if len(cs) > 1 { // 8–9 threads
					if cb != nil {
						continue
					}
					if n != 2 {
						pq, pt = -1, 0
					}
				}
				add(xspec{Name: fmt.Sprintf("D/n%d/%s/%s/cb:%s", n, ld, callersString(cs), cbString(cb)), Slots: n, Pre: ld.pre(true), Ticks: ld.ticks, Callers: cs, CB: cb}, pq, pt)
			}
		}
	}
	return out
}
