// C12, part 2 — timing wheel schedules (vx): small closed scenarios in which the REAL wheel's run
// loop, its per-tick delivery goroutines, the goroutines of Drain's task runner and 0–2 caller
// threads issuing SetTimer/MoveTimer/RemoveTimer/Drain interleave with the ticks a ticker thread
// sends on the (unbuffered) harness ticker channel. Every interleaving up to the preemption bound
// is explored; nothing is run to quiescence between operations.
//
// Callback behaviours (per key, part of the scenario): "op" — the callback contains a scheduling
// point, so every other thread (in particular the run loop scanning the NEXT tick) can be placed
// inside it; "gate<k>" — the callback parks on a harness gate that the ticker thread opens after
// tick k was taken by the wheel (a slow callback of an earlier tick that is still running while
// later ticks are scanned and delivered); "panic" — the callback panics after recording the
// delivery (a panicking callback counts as delivered, nobody else may be affected).
//
// Observations. Harness threads write B/E records on the totally ordered log (vsched.Log):
//
//	TB k / TE k          ticker thread: before / after the send of tick k returned
//	CB c.i / CE c.i      caller thread c: before / after its i-th API call returned
//	ZB / ZE              main: before / after the final Drain (all threads joined)
//
// Deliveries are counted in vsched.Var cells (events of the execution, but — unlike log records —
// independent of each other and of the callers' records, so that the explorer does not have to
// distinguish orders of deliveries nobody can observe): the execute callback reads the number t
// of ticks whose send has begun (an event on the ticker's counter) and increments the cell
// (key, value, t); the callback of Drain call id increments the cell (id, key, value).
//
// Oracle (from the statement, bracketing only where operations overlap): all API calls and ticks
// reach the wheel through unbuffered channels, so each takes effect at one instant between its
// B and its E record. The checker enumerates every total order of {ticks, caller operations,
// final drain} that respects the per-thread order and the real-time order of the log (X before Y
// whenever XE precedes YB), runs an independent reference (key → latest value, ticks remaining)
// over it and accepts the execution iff SOME order explains the observation exactly:
//   - the multiset of execute deliveries (key, value) equals the reference's fires: each timer
//     exactly once, with the latest value, removed timers not at all, nothing twice, nothing lost;
//   - a delivery happens after the send of the tick it is due at has begun (never early: t ≥ due);
//   - every Drain call delivers exactly the timers pending at its instant, once each; the final
//     Drain thereby checks that exactly the timers not yet due are still pending;
//   - the execution ends without deadlock (a callback parked on an opened gate, a caller stuck in
//     an API call) and without an uncaught panic.
package main

import (
	"fmt"
	"sort"
	"strconv"
	"strings"
	"time"

	"github.com/zeromicro/go-zero/core/collection"
	"github.com/zeromicro/go-zero/verifshim/vsched"
	"github.com/zeromicro/go-zero/verifshim/vx"
)

// XOp is one API call of a scenario. Val is assigned when the scenario is built (unique per set).
type XOp struct {
	K     string // set | move | remove | drain
	Key   string
	Steps int
	Val   string
}

func (o XOp) String() string {
	switch o.K {
	case "set":
		return fmt.Sprintf("set(%s=%s,%d)", o.Key, o.Val, o.Steps)
	case "move":
		return fmt.Sprintf("move(%s,%d)", o.Key, o.Steps)
	case "remove":
		return "remove(" + o.Key + ")"
	}
	return o.K
}

type xspec struct {
	Name    string
	Slots   int
	Pre     []XOp             // sequential set-up before the threads start
	Ticks   int               // ticks sent by the ticker thread
	Callers [][]XOp           // one list per caller thread
	CB      map[string]string // key → "panic" | "gate<k>" (default "op")
}

func xS(key string, steps int) XOp { return XOp{K: "set", Key: key, Steps: steps} }
func xM(key string, steps int) XOp { return XOp{K: "move", Key: key, Steps: steps} }
func xR(key string) XOp            { return XOp{K: "remove", Key: key} }
func xD() XOp                      { return XOp{K: "drain"} }

// number the values of the set operations: <key><n>, unique within the scenario
func (s *xspec) assignValues() {
	n := map[string]int{}
	fix := func(ops []XOp) {
		for i := range ops {
			if ops[i].K == "set" {
				n[ops[i].Key]++
				ops[i].Val = fmt.Sprintf("%s%d", ops[i].Key, n[ops[i].Key])
			}
		}
	}
	fix(s.Pre)
	for _, c := range s.Callers {
		fix(c)
	}
}

func gateTick(beh string) int {
	if strings.HasPrefix(beh, "gate") {
		k, _ := strconv.Atoi(beh[4:])
		return k
	}
	return 0
}

// xstate: the observation cells of one execution (handed to the checker through Exec.User).
type xstate struct {
	sent   vsched.Var             // ticks whose send has begun
	fires  map[string]*vsched.Var // "key val t" → deliveries by the execute callback
	drains map[string]*vsched.Var // "id key val" → deliveries by the callback of Drain call id
	stray  vsched.Var             // deliveries of a (key, value) pair that was never set
	strays []string
}

func (s *xspec) keyVals() map[string][]string {
	kv := map[string][]string{}
	each := func(ops []XOp) {
		for _, o := range ops {
			if o.K == "set" {
				kv[o.Key] = append(kv[o.Key], o.Val)
			}
		}
	}
	each(s.Pre)
	for _, c := range s.Callers {
		each(c)
	}
	return kv
}

func (s *xspec) drainIDs() []string {
	ids := []string{"z"}
	for ci, c := range s.Callers {
		for i, o := range c {
			if o.K == "drain" {
				ids = append(ids, fmt.Sprintf("%d.%d", ci, i))
			}
		}
	}
	return ids
}

func xbody(s xspec) func() {
	kv := s.keyVals()
	ids := s.drainIDs()
	return func() {
		st := &xstate{fires: map[string]*vsched.Var{}, drains: map[string]*vsched.Var{}}
		for k, vals := range kv {
			for _, v := range vals {
				for t := 0; t <= s.Ticks; t++ {
					st.fires[fmt.Sprintf("%s %s %d", k, v, t)] = new(vsched.Var)
				}
				for _, id := range ids {
					st.drains[fmt.Sprintf("%s %s %s", id, k, v)] = new(vsched.Var)
				}
			}
		}
		vsched.SetUser(st)
		tk := &ticker{c: vsched.MakeChan[time.Time](0)}
		gates := map[int]chan struct{}{}
		for _, beh := range s.CB {
			if g := gateTick(beh); g > 0 && gates[g] == nil {
				gates[g] = vsched.MakeChan[struct{}](0)
			}
		}
		count := func(cell *vsched.Var, what string) {
			if cell == nil {
				st.stray.Add(1)
				st.strays = append(st.strays, what)
				return
			}
			cell.Add(1)
		}
		behave := func(k any, where string) {
			beh := s.CB[fmt.Sprint(k)]
			if beh == "" {
				beh = s.CB["*"]
			}
			switch {
			case beh == "panic":
				panic(where + " callback panics for " + fmt.Sprint(k))
			case gateTick(beh) > 0:
				vsched.Recv(gates[gateTick(beh)])
			case beh == "yield":
				vsched.Yield() // every other runnable thread may run here, free of charge
			case beh == "plain":
			default:
				vsched.Op(where + "-cb") // a preemption point inside the callback
			}
		}
		tw, err := collection.NewTimingWheelWithTicker(interval, s.Slots, func(k, v any) {
			t := st.sent.Add(0)
			count(st.fires[fmt.Sprintf("%v %v %d", k, v, t)], fmt.Sprintf("execute(%v,%v)", k, v))
			behave(k, "execute")
		}, tk)
		if err != nil {
			vsched.Log("!ctor %s", err.Error())
			return
		}
		do := func(o XOp, id string) {
			d := time.Duration(o.Steps) * interval
			var err error
			switch o.K {
			case "set":
				err = tw.SetTimer(o.Key, o.Val, d)
			case "move":
				err = tw.MoveTimer(o.Key, d)
			case "remove":
				err = tw.RemoveTimer(o.Key)
			case "drain":
				err = tw.Drain(func(k, v any) {
					count(st.drains[fmt.Sprintf("%s %v %v", id, k, v)], fmt.Sprintf("drain %s(%v,%v)", id, k, v))
					behave(k, "drain")
				})
			}
			if err != nil {
				vsched.Log("!api %s %s", o, err.Error())
			}
		}
		// set-up and spawning run in a quiet region: no preemption alternatives are spent there
		vsched.QuietBegin()
		for _, o := range s.Pre {
			do(o, "pre")
		}
		var wg vsched.WaitGroup
		wg.Add(1 + len(s.Callers))
		vsched.GoNamed("ticker", false, func() {
			defer wg.Done()
			for k := 1; k <= s.Ticks; k++ {
				vsched.Log("TB %d", k)
				st.sent.Add(1)
				vsched.Send(tk.c, vsched.TimeNow())
				vsched.Log("TE %d", k)
				if g := gates[k]; g != nil {
					vsched.Close(g)
				}
			}
		})
		for ci, ops := range s.Callers {
			ci, ops := ci, ops
			vsched.GoNamed(fmt.Sprintf("caller%d", ci), false, func() {
				defer wg.Done()
				for i, o := range ops {
					id := fmt.Sprintf("%d.%d", ci, i)
					vsched.Log("CB %s", id)
					do(o, id)
					vsched.Log("CE %s", id)
				}
			})
		}
		vsched.QuietEnd()
		wg.Wait()
		vsched.Log("ZB")
		do(xD(), "z")
		vsched.Log("ZE")
		// the run loop exits; the execution ends when every delivery / drain goroutine has finished
		tw.Stop()
	}
}

// ---- checker ----

type xitem struct { // one operation to be linearised
	id   string // T<k> | <c>.<i> | z
	tick int    // > 0 for ticks
	op   XOp
	b, e int // log positions of the B / E records
}

type xobs struct {
	fires  map[string][]xfire  // key → deliveries by the execute callback
	drains map[string][]string // drain id → sorted "key=val"
}

type xfire struct {
	t   int // ticks whose send had begun when the callback was entered
	val string
}

type xref struct {
	val    string
	remain int
}

type xexp struct {
	fires  map[string][]xexpFire
	drains map[string][]string
}

type xexpFire struct {
	tick int
	val  string
}

func steps(o XOp) int {
	if o.Steps < 1 {
		return 1
	}
	return o.Steps
}

// reference run over one total order
func xreference(pre []XOp, order []*xitem) xexp {
	ref := map[string]*xref{}
	exp := xexp{fires: map[string][]xexpFire{}, drains: map[string][]string{}}
	apply := func(o XOp, id string, tick int) {
		switch {
		case tick > 0:
			var due []string
			for k, r := range ref {
				r.remain--
				if r.remain == 0 {
					due = append(due, k)
				}
			}
			for _, k := range due {
				exp.fires[k] = append(exp.fires[k], xexpFire{tick: tick, val: ref[k].val})
				delete(ref, k)
			}
		case o.K == "set":
			ref[o.Key] = &xref{val: o.Val, remain: steps(o)}
		case o.K == "move":
			if r := ref[o.Key]; r != nil {
				r.remain = steps(o)
			}
		case o.K == "remove":
			delete(ref, o.Key)
		case o.K == "drain":
			got := []string{}
			for k, r := range ref {
				got = append(got, k+"="+r.val)
				delete(ref, k)
			}
			sort.Strings(got)
			exp.drains[id] = got
		}
	}
	for _, o := range pre {
		apply(o, "pre", 0)
	}
	for _, it := range order {
		apply(it.op, it.id, it.tick)
	}
	return exp
}

// mismatch of an observation against the expectation of one total order: "" if it explains it.
// rank orders the classes (the class reported is the one of the best-explaining order).
func xcompare(exp xexp, obs *xobs) (class, msg string, bad int) {
	keys := map[string]bool{}
	for k := range exp.fires {
		keys[k] = true
	}
	for k := range obs.fires {
		keys[k] = true
	}
	var ks []string
	for k := range keys {
		ks = append(ks, k)
	}
	sort.Strings(ks)
	set := func(c, m string) {
		bad++
		if class == "" {
			class, msg = c, m
		}
	}
	for _, k := range ks {
		ex, ob := exp.fires[k], obs.fires[k]
		switch {
		case len(ob) > len(ex) && len(ex) > 0:
			set("x:duplicate-fire", fmt.Sprintf("timer %s was delivered %d times %v, due %d time(s) %v", k, len(ob), fireVals(ob), len(ex), ex))
		case len(ob) > len(ex):
			set("x:unexpected-fire", fmt.Sprintf("timer %s was delivered %v although it is never due (removed, drained or not yet due)", k, fireVals(ob)))
		case len(ob) < len(ex):
			set("x:missing-fire", fmt.Sprintf("timer %s was delivered %d time(s) %v, due %d time(s) %v", k, len(ob), fireVals(ob), len(ex), ex))
		default:
			if c, m := matchFires(k, ex, ob); c != "" {
				set(c, m)
			}
		}
	}
	var ids []string
	seen := map[string]bool{}
	for id := range exp.drains {
		ids, seen[id] = append(ids, id), true
	}
	for id := range obs.drains {
		if !seen[id] {
			ids = append(ids, id)
		}
	}
	sort.Strings(ids)
	for _, id := range ids {
		want, got := strings.Join(exp.drains[id], ","), strings.Join(obs.drains[id], ",")
		if want != got {
			which := "Drain call " + id
			if id == "z" {
				which = "the final Drain"
			}
			set("x:drain-mismatch", fmt.Sprintf("%s delivered [%s], pending were [%s]", which, got, want))
		}
	}
	return
}

func fireVals(ob []xfire) []string {
	var out []string
	for _, f := range ob {
		out = append(out, f.val)
	}
	return out
}

// matchFires: a bijection between the due instances and the deliveries of one key with equal
// values and every delivery made after the send of its tick began.
func matchFires(k string, ex []xexpFire, ob []xfire) (string, string) {
	n := len(ex)
	perm := make([]int, n)
	used := make([]bool, n)
	var rec func(i int) bool
	rec = func(i int) bool {
		if i == n {
			return true
		}
		for j := 0; j < n; j++ {
			if used[j] || ob[j].val != ex[i].val {
				continue
			}
			if ob[j].t < ex[i].tick {
				continue
			}
			used[j], perm[i] = true, j
			if rec(i + 1) {
				return true
			}
			used[j] = false
		}
		return false
	}
	if rec(0) {
		return "", ""
	}
	// values as multisets?
	a, b := []string{}, []string{}
	for _, x := range ex {
		a = append(a, x.val)
	}
	for _, x := range ob {
		b = append(b, x.val)
	}
	sort.Strings(a)
	sort.Strings(b)
	if strings.Join(a, ",") != strings.Join(b, ",") {
		return "x:stale-value", fmt.Sprintf("timer %s was delivered with %v, latest value(s) %v", k, b, a)
	}
	return "x:early-fire", fmt.Sprintf("timer %s was delivered before its due tick was sent (due %v)", k, ex)
}

func xcheck(s xspec) func(e *vsched.Exec) vx.Verdict {
	return func(e *vsched.Exec) vx.Verdict {
		if g := xguard(e); g != nil {
			return *g
		}
		st, _ := e.User.(*xstate)
		if st == nil {
			return vx.Verdict{Class: "harness-no-state", Msg: "the body did not publish its observation cells"}
		}
		if st.stray.Load() > 0 {
			return vx.Verdict{Class: "x:phantom-delivery", Sig: "violation", Msg: fmt.Sprintf("a callback received a (key, value) pair that was never set: %v", st.strays)}
		}
		obs := &xobs{fires: map[string][]xfire{}, drains: map[string][]string{}}
		var cells []string
		for c := range st.fires {
			cells = append(cells, c)
		}
		sort.Strings(cells)
		var delivered []string
		for _, c := range cells {
			f := strings.Fields(c)
			t, _ := strconv.Atoi(f[2])
			for i := 0; i < st.fires[c].Load(); i++ {
				obs.fires[f[0]] = append(obs.fires[f[0]], xfire{t: t, val: f[1]})
				delivered = append(delivered, fmt.Sprintf("%s=%s@%d", f[0], f[1], t))
			}
		}
		for c, cell := range st.drains {
			f := strings.Fields(c)
			for i := 0; i < cell.Load(); i++ {
				obs.drains[f[0]] = append(obs.drains[f[0]], f[1]+"="+f[2])
			}
		}
		var dids []string
		for id := range obs.drains {
			sort.Strings(obs.drains[id])
			dids = append(dids, id)
		}
		sort.Strings(dids)
		for _, id := range dids {
			delivered = append(delivered, "drain "+id+":"+strings.Join(obs.drains[id], ","))
		}
		log := e.Log()
		bpos, epos := map[string]int{}, map[string]int{}
		var trace []string // order in which the operations returned
		for i, l := range log {
			f := strings.Fields(l)
			switch f[0] {
			case "!ctor", "!api":
				return vx.Verdict{Class: "x:api-error", Msg: l, Sig: "api-error"}
			case "TB":
				bpos["T"+f[1]] = i
			case "TE":
				epos["T"+f[1]] = i
				trace = append(trace, "T"+f[1])
			case "CB":
				bpos[f[1]] = i
			case "CE":
				epos[f[1]] = i
				trace = append(trace, f[1])
			case "ZB":
				bpos["z"] = i
			case "ZE":
				epos["z"] = i
			}
		}
		// the sequences to merge
		var seqs [][]*xitem
		var tks []*xitem
		for k := 1; k <= s.Ticks; k++ {
			id := "T" + strconv.Itoa(k)
			tks = append(tks, &xitem{id: id, tick: k})
		}
		seqs = append(seqs, tks)
		for ci, ops := range s.Callers {
			var cs []*xitem
			for i, o := range ops {
				cs = append(cs, &xitem{id: fmt.Sprintf("%d.%d", ci, i), op: o})
			}
			seqs = append(seqs, cs)
		}
		for _, sq := range seqs {
			for _, it := range sq {
				b, okb := bpos[it.id]
				en, oke := epos[it.id]
				if !okb || !oke {
					return vx.Verdict{Class: "harness-incomplete-log", Msg: "operation " + it.id + " has no B/E record although the execution ended ok"}
				}
				it.b, it.e = b, en
			}
		}
		final := &xitem{id: "z", op: xD(), b: bpos["z"], e: epos["z"]}
		// enumerate the total orders consistent with the log
		idx := make([]int, len(seqs))
		var order []*xitem
		bestBad := -1
		var bestClass, bestMsg, bestOrder, okOrder string
		norders := 0
		var rec func() bool
		rec = func() bool {
			done := true
			for si, sq := range seqs {
				if idx[si] >= len(sq) {
					continue
				}
				done = false
				x := sq[idx[si]]
				// x may come next unless the head of another sequence ended before x began
				blocked := false
				for sj, sq2 := range seqs {
					if sj != si && idx[sj] < len(sq2) && sq2[idx[sj]].e < x.b {
						blocked = true
					}
				}
				if blocked {
					continue
				}
				idx[si]++
				order = append(order, x)
				ok := rec()
				order = order[:len(order)-1]
				idx[si]--
				if ok {
					return true
				}
			}
			if !done {
				return false
			}
			norders++
			full := append(append([]*xitem(nil), order...), final)
			exp := xreference(s.Pre, full)
			class, msg, bad := xcompare(exp, obs)
			if class == "" {
				okOrder = orderString(full)
				return true
			}
			if bestBad < 0 || bad < bestBad {
				bestBad, bestClass, bestMsg, bestOrder = bad, class, msg, orderString(full)
			}
			return false
		}
		if rec() {
			return vx.Verdict{Sig: okOrder + " | " + strings.Join(delivered, " ")}
		}
		return vx.Verdict{Class: bestClass, Sig: "violation",
			Msg: fmt.Sprintf("no order of the operations explains the deliveries (%d orders consistent with the log; closest %s): %s; operations returned in the order %s",
				norders, bestOrder, bestMsg, strings.Join(trace, " ")+"; delivered (key=value@ticks sent) "+strings.Join(delivered, " "))}
	}
}

// xguard classifies executions that did not end normally. The deadlock class names the blocked
// threads and their pending operations (call sites and operand values are left to the message).
func xguard(e *vsched.Exec) *vx.Verdict {
	switch e.Outcome {
	case "ok":
		return nil
	case "deadlock":
		var who []string
		for _, b := range strings.Split(e.BlockedKey(), ",") {
			if i := strings.IndexByte(b, '@'); i >= 0 {
				b = b[:i]
			}
			if strings.Contains(b, ":") {
				who = append(who, b)
			}
		}
		return &vx.Verdict{Class: "x:deadlock{" + strings.Join(who, ",") + "}", Msg: "deadlock: " + strings.Join(e.Blocked(), " "), Sig: "deadlock"}
	case "crash":
		return &vx.Verdict{Class: "x:crash", Msg: "uncaught panic in a thread: " + strings.Join(e.Panics(), "; "), Sig: "crash"}
	default:
		return &vx.Verdict{Class: "x:" + e.Outcome, Msg: e.Outcome + ": " + strings.Join(e.Blocked(), " "), Sig: e.Outcome}
	}
}

func orderString(order []*xitem) string {
	var p []string
	for _, it := range order {
		if it.tick > 0 || it.id == "z" {
			p = append(p, it.id)
		} else {
			p = append(p, it.op.String())
		}
	}
	return "[" + strings.Join(p, " ") + "]"
}

func xscenario(s xspec) vx.Scenario {
	s.assignValues()
	for k, beh := range s.CB {
		if g := gateTick(beh); strings.HasPrefix(beh, "gate") && (g < 1 || g > s.Ticks) {
			panic(fmt.Sprintf("scenario %s: gate of %s is never opened", s.Name, k))
		}
	}
	return vx.Scenario{Name: s.Name, Body: xbody(s), Check: xcheck(s)}
}
