// C12 — timing wheel: explicit-state search over Set/Move/Remove/Tick/Drain histories of the
// REAL TimingWheel (NewTimingWheelWithTicker with a harness ticker), driven in vsched's
// sequential-driver mode: the driver performs one operation, then Quiesce() runs the wheel's
// own goroutines (run loop, task runners) until nothing can move, which makes "tick k fired
// these timers" a deterministic observation without sleeping.
//
// State = shortest op list; successor = fresh wheel, replay, one more op. State key = white-box
// dump of the wheel (tickedPos, every slot's entries with circle/diff/removed, the timers map)
// ⊕ reference model; the dump is the wheel's entire state, so equal keys have equal futures.
// Reference: key → (latest value, ticks remaining).
package main

import (
	"fmt"
	"sort"
	"strings"
	"time"

	"github.com/zeromicro/go-zero/core/collection"
	"github.com/zeromicro/go-zero/verifshim/vlib"
	"github.com/zeromicro/go-zero/verifshim/vsched"
)

const interval = time.Second

type Op struct {
	K     string `json:"k"` // set | move | remove | tick | drain
	Key   string `json:"key,omitempty"`
	Steps int    `json:"steps,omitempty"` // delay = Steps*interval (+ Half)
	Half  bool   `json:"half,omitempty"`  // + interval/2 (non-multiple delay)
}

func (o Op) String() string {
	h := ""
	if o.Half {
		h = ".5"
	}
	switch o.K {
	case "set", "move":
		return fmt.Sprintf("%s(%s,%d%s)", o.K, o.Key, o.Steps, h)
	case "remove":
		return "remove(" + o.Key + ")"
	}
	return o.K
}

type ticker struct{ c chan time.Time }

func (t *ticker) Chan() <-chan time.Time { return t.c }
func (t *ticker) Stop()                  {}

type refEntry struct {
	val    string
	remain int
	tag    string // set | reset | moved
}

type result struct {
	key   string
	err   string
	class string
	stop  bool
}

type Case struct {
	Slots int  `json:"slots"`
	Path  []Op `json:"path"`
}

// run executes the history on a fresh wheel and checks every step against the reference.
func run(slots int, path []Op, verbose bool) result {
	var res result
	body := func() {
		var fired []string
		tk := &ticker{c: vsched.MakeChan[time.Time](1)}
		vsched.DaemonChildren(true) // the wheel's run loop never exits; only the driver keeps the execution alive
		tw, err := collection.NewTimingWheelWithTicker(interval, slots, func(k, v any) {
			fired = append(fired, fmt.Sprintf("%v=%v", k, v))
		}, tk)
		if err != nil {
			res.err, res.class = "constructor: "+err.Error(), "constructor"
			return
		}
		ref := map[string]*refEntry{}
		nval := map[string]int{}
		vsched.Quiesce()
		for i, op := range path {
			fired = fired[:0]
			var want []string
			d := time.Duration(op.Steps) * interval
			if op.Half {
				d += interval / 2
			}
			switch op.K {
			case "set":
				nval[op.Key]++
				v := fmt.Sprintf("v%d", nval[op.Key]%2)
				if err := tw.SetTimer(op.Key, v, d); err != nil {
					res.err, res.class = "SetTimer: "+err.Error(), "api-error"
					return
				}
				tag := "set"
				if ref[op.Key] != nil {
					tag = "reset"
				}
				ref[op.Key] = &refEntry{val: v, remain: op.Steps, tag: tag}
			case "move":
				if err := tw.MoveTimer(op.Key, d); err != nil {
					res.err, res.class = "MoveTimer: "+err.Error(), "api-error"
					return
				}
				if r := ref[op.Key]; r != nil {
					r.remain = op.Steps
					r.tag = "moved"
				}
			case "remove":
				if err := tw.RemoveTimer(op.Key); err != nil {
					res.err, res.class = "RemoveTimer: "+err.Error(), "api-error"
					return
				}
				delete(ref, op.Key)
			case "tick":
				vsched.Send(tk.c, vsched.TimeNow())
				for k, r := range ref {
					r.remain--
					if r.remain == 0 {
						want = append(want, k+"="+r.val)
					}
				}
			case "drain":
				var got []string
				if err := tw.Drain(func(k, v any) { got = append(got, fmt.Sprintf("%v=%v", k, v)) }); err != nil {
					res.err, res.class = "Drain: "+err.Error(), "api-error"
					return
				}
				vsched.Quiesce()
				for k, r := range ref {
					want = append(want, k+"="+r.val)
				}
				sort.Strings(got)
				sort.Strings(want)
				if strings.Join(got, ",") != strings.Join(want, ",") {
					res.err = fmt.Sprintf("step %d %v: Drain delivered [%s], pending were [%s]", i, op, strings.Join(got, ","), strings.Join(want, ","))
					res.class = "drain-mismatch"
					return
				}
				if len(fired) > 0 {
					res.err = fmt.Sprintf("step %d drain: execute callback fired %v", i, fired)
					res.class = "unexpected-fire:drain"
					return
				}
				res.stop = true
				res.key = "drained"
				return
			}
			vsched.Quiesce()
			got := append([]string(nil), fired...)
			sort.Strings(got)
			sort.Strings(want)
			if verbose {
				fmt.Printf("  step %d %-14v fired=[%s] expected=[%s]\n      wheel: %s\n", i, op, strings.Join(got, ","), strings.Join(want, ","), collection.VerifDumpTimingWheel(tw))
			}
			if strings.Join(got, ",") != strings.Join(want, ",") {
				res.err = fmt.Sprintf("step %d %v: fired [%s], due were [%s] (history %v)", i, op, strings.Join(got, ","), strings.Join(want, ","), path[:i+1])
				res.class = classify(got, want, ref)
				return
			}
			for k, r := range ref {
				if r.remain == 0 {
					delete(ref, k)
				}
			}
		}
		var rs []string
		for k, r := range ref {
			rs = append(rs, fmt.Sprintf("%s=%s/%d", k, r.val, r.remain))
		}
		sort.Strings(rs)
		res.key = collection.VerifDumpTimingWheel(tw) + "#" + strings.Join(rs, ",")
	}
	e := vsched.RunSeq(body)
	if e.Outcome != "ok" && res.err == "" {
		res.err = fmt.Sprintf("execution ended with %s: blocked %v panics %v", e.Outcome, e.Blocked(), e.Panics())
		res.class = "wheel-" + e.Outcome
	}
	return res
}

func classify(got, want []string, ref map[string]*refEntry) string {
	in := func(xs []string, x string) bool {
		for _, y := range xs {
			if y == x {
				return true
			}
		}
		return false
	}
	tagOf := func(kv string) string {
		k := strings.SplitN(kv, "=", 2)[0]
		if r := ref[k]; r != nil {
			return r.tag
		}
		return "absent"
	}
	for _, w := range want {
		if !in(got, w) {
			// wrong value?
			for _, g := range got {
				if strings.SplitN(g, "=", 2)[0] == strings.SplitN(w, "=", 2)[0] {
					return "stale-value:" + tagOf(w)
				}
			}
			return "missing-fire:" + tagOf(w)
		}
	}
	for _, g := range got {
		if !in(want, g) {
			return "unexpected-fire:" + tagOf(g)
		}
	}
	return "duplicate-fire"
}

func alphabet(slots int, thorough bool) []Op {
	stepSet := map[int]bool{1: true, 2: true, slots: true, slots + 1: true, 2 * slots: true, 2*slots + 1: true}
	if thorough {
		stepSet[slots-1] = true
		stepSet[3*slots] = true
	}
	var steps []int
	for s := range stepSet {
		if s >= 1 {
			steps = append(steps, s)
		}
	}
	sort.Ints(steps)
	ops := []Op{{K: "tick"}}
	for _, k := range []string{"a", "b"} {
		for _, s := range steps {
			ops = append(ops, Op{K: "set", Key: k, Steps: s})
		}
	}
	for _, k := range []string{"a", "b"} {
		for _, s := range steps {
			ops = append(ops, Op{K: "move", Key: k, Steps: s})
		}
		ops = append(ops, Op{K: "remove", Key: k})
	}
	ops = append(ops, Op{K: "set", Key: "a", Steps: 1, Half: true}, Op{K: "move", Key: "a", Steps: 2, Half: true})
	ops = append(ops, Op{K: "drain"})
	return ops
}

func main() {
	cfg := vlib.ParseFlags("C12", "model_checking")
	r := vlib.NewReport(cfg)
	if cfg.Replay != "" {
		var c Case
		class, err := vlib.LoadReplay(cfg.Replay, &c)
		if err != nil {
			vlib.Fatal("load replay: %v", err)
		}
		fmt.Printf("replay class=%s slots=%d path=%v\n", class, c.Slots, c.Path)
		res := run(c.Slots, c.Path, true)
		if res.err != "" {
			fmt.Printf("observed: class=%s %s\n", res.class, res.err)
			r.Violation(res.class, res.err, c)
		} else {
			fmt.Println("observed: history satisfies the reference")
		}
		r.Eval(1)
		r.Finish()
	}
	sizes := []int{1, 2, 3, 4}
	depth := 6
	if cfg.Thorough() {
		sizes = []int{1, 2, 3, 4, 5, 10}
		depth = 9
	}
	r.SetRule("explicit-state BFS per wheel size over histories of SetTimer/MoveTimer/RemoveTimer/tick/Drain on the real TimingWheel (2 keys, delays of 1..2n+1 intervals incl. non-multiples); a state is distinct by its white-box wheel dump + reference pending set; every transition re-executes the real code from a fresh wheel")
	r.Assume("wheel goroutines are run to quiescence under the default schedule after each operation (sequential-driver mode); interleavings inside the wheel are not explored here")
	for _, slots := range sizes {
		slots := slots
		name := fmt.Sprintf("slots=%d", slots)
		alpha := alphabet(slots, cfg.Thorough())
		d := depth
		if !cfg.Thorough() && slots >= 3 {
			d = depth - 1
		}
		bfs := &vlib.PBFS[Op]{
			Name:     name,
			Cfg:      cfg,
			MaxDepth: d,
			Deadline: cfg.Deadline(),
			Alphabet: func(d int, path []Op) []Op { return alpha },
			Run: func(path []Op) vlib.RunResult {
				res := run(slots, path, false)
				return vlib.RunResult{Key: res.key, Err: res.err, Class: res.class, Stop: res.stop}
			},
			OnViolation: func(path []Op, res vlib.RunResult) {
				r.Violation(res.Class, fmt.Sprintf("slots=%d: %s", slots, res.Err), Case{Slots: slots, Path: append([]Op(nil), path...)})
			},
			OnState: func(path []Op, res vlib.RunResult) {
				r.Nontrivial(name + "|" + res.Key)
				if r.WantSample() && len(path) >= 4 {
					r.Sample(map[string]any{"slots": slots, "history": fmt.Sprint(path), "state": res.Key})
				}
			},
		}
		out := bfs.Search()
		r.AddStates(out.States)
		r.AddTransitions(out.Transitions)
		r.AddTraces(out.Transitions + 1)
		r.Eval(out.Transitions + 1)
		r.Scenario(name, map[string]any{"states": out.States, "transitions": out.Transitions, "depth_bound": d, "max_depth": out.MaxDepth, "closed": out.Closed, "exhaustive_to_depth": out.Exhaustive, "failures": out.Failures, "cap": out.Cap})
		if !out.Exhaustive {
			r.NotExhaustive(name + ": " + out.Cap)
		}
	}
	r.Finish()
}
