// C12 — timing wheel. Two engines in one binary:
//
//  1. histories (hist.go): explicit-state BFS (vlib.PBFS) per wheel size over SetTimer/MoveTimer/
//     RemoveTimer/tick/Drain histories of the real wheel in sequential-driver mode, with panicking
//     callbacks as part of the history;
//  2. schedules (sched.go, xscen.go): vx exploration of small closed scenarios — run loop,
//     delivery goroutines (callbacks with scheduling points, parked on gates, panicking), caller
//     threads and a ticker thread, every interleaving up to the preemption bound.
package main

import (
	"encoding/json"
	"fmt"
	"os"
	"strconv"
	"strings"
	"time"

	"github.com/zeromicro/go-zero/core/logx"
	"github.com/zeromicro/go-zero/verifshim/vlib"
	"github.com/zeromicro/go-zero/verifshim/vx"
)

const rule = "histories: explicit-state BFS per wheel size over SetTimer/MoveTimer/RemoveTimer/tick/Drain on the real TimingWheel (2 keys, delays of 1..2n+1 intervals incl. non-multiples; the callbacks panic for every other value of a key); a state is distinct by its white-box wheel dump + reference pending set; every transition re-executes the real code from a fresh wheel. Schedules: every interleaving up to the preemption bound of the wheel's run loop, its delivery and drain goroutines (callbacks with a scheduling point / parked on a gate until a later tick / panicking), 0-2 caller threads and a ticker thread; distinct = distinct (explaining operation order, delivery/return event sequence) per scenario"

func main() {
	cfg := vlib.ParseFlags("C12", "model_checking")
	r := vlib.NewReport(cfg)
	logx.Disable() // recovered callback panics are logged by rescue.Recover
	quick, thorough := vx.Bounds{P: 1, T: 0}, vx.Bounds{P: 2, T: 0}
	if p, err := strconv.Atoi(os.Getenv("C12_P")); err == nil { // development aid
		quick.P, thorough.P = p, p
	}
	if cfg.Replay != "" {
		b, err := os.ReadFile(cfg.Replay)
		if err != nil {
			vlib.Fatal("cannot read replay: %v", err)
		}
		var probe struct {
			Replay struct {
				Scenario string `json:"scenario"`
			} `json:"replay"`
		}
		json.Unmarshal(b, &probe)
		if probe.Replay.Scenario != "" {
			vx.Main(cfg, r, replayScenarios(), quick, thorough, rule) // replays the schedule and exits
		}
		var c Case
		class, err := vlib.LoadReplay(cfg.Replay, &c)
		if err != nil {
			vlib.Fatal("load replay: %v", err)
		}
		fmt.Printf("replay class=%s slots=%d path=%v\n", class, c.Slots, c.Path)
		res := run(c.Slots, c.Path, true)
		if res.err != "" {
			fmt.Printf("observed: class=%s %s\n", res.class, res.err)
			r.Violation(res.class, res.err, c)
		} else {
			fmt.Println("observed: history satisfies the reference")
		}
		r.Eval(1)
		r.Finish()
	}
	part := os.Getenv("C12_PART")           // development aid: "hist" or "sched" runs one engine only
	if cfg.Shard == "" && part != "sched" { // not a vx shard worker: run (or serve) the history search first
		histories(cfg, r)
		if cfg.BFSWorker != "" {
			os.Exit(0)
		}
	}
	r.Assume("schedules: code outside the rewritten packages (core/collection, core/threading, core/timex, core/syncx) runs atomically between two scheduling points; interleavings are enumerated up to the preemption bound stated per scenario")
	scs := scenarios(cfg.Thorough())
	if part == "hist" {
		scs = scs[:1]
	}
	if f := os.Getenv("C12_SCEN"); f != "" { // development aid: only the scenarios whose name contains f
		var keep []vx.Scenario
		for _, sc := range scs {
			if strings.Contains(sc.Name, f) {
				keep = append(keep, sc)
			}
		}
		scs = keep
	}
	vx.Main(cfg, r, scs, quick, thorough, rule)
}

// replayScenarios: the scenarios of both tiers (a replay names its scenario)
func replayScenarios() []vx.Scenario {
	scs := scenarios(true)
	have := map[string]bool{}
	for _, sc := range scs {
		have[sc.Name] = true
	}
	for _, sc := range scenarios(false) {
		if !have[sc.Name] {
			scs = append(scs, sc)
		}
	}
	return scs
}

func histories(cfg *vlib.Config, r *vlib.Report) {
	sizes := []int{1, 2, 3, 4}
	depth := 6
	if cfg.Thorough() {
		sizes = []int{1, 2, 3, 4, 5, 10}
		depth = 9
	}
	r.Assume("histories: wheel goroutines are run to quiescence under the default schedule after each operation (sequential-driver mode); the interleavings of the wheel's goroutines are explored by the schedule scenarios")
	// time box (leaves time for the schedules). quick: the histories close long before it. thorough:
	// they get 70 % of the run's budget, shared out over the wheel sizes — each size may use an equal
	// share of what is left (a size that closes early passes its time on), so that every size is cut
	// at some depth instead of everything being spent on the first large one
	histEnd := cfg.Start.Add(cfg.Deadline().Sub(cfg.Start) * 8 / 10)
	if cfg.Thorough() {
		histEnd = cfg.Start.Add(cfg.Deadline().Sub(cfg.Start) * 7 / 10)
	}
	for si, slots := range sizes {
		slots := slots
		sliceEnd := histEnd
		if cfg.Thorough() {
			sliceEnd = time.Now().Add(time.Until(histEnd) / time.Duration(len(sizes)-si))
		}
		name := fmt.Sprintf("slots=%d", slots)
		alpha := alphabet(slots, cfg.Thorough())
		d := depth
		if !cfg.Thorough() && slots >= 3 {
			d = depth - 1
		}
		bfs := &vlib.PBFS[Op]{
			Name:     name,
			Cfg:      cfg,
			MaxDepth: d,
			Deadline: sliceEnd,
			Alphabet: func(d int, path []Op) []Op { return alpha },
			Run: func(path []Op) vlib.RunResult {
				res := run(slots, path, false)
				return vlib.RunResult{Key: res.key, Err: res.err, Class: res.class, Stop: res.stop}
			},
			OnViolation: func(path []Op, res vlib.RunResult) {
				r.Violation(res.Class, fmt.Sprintf("slots=%d: %s", slots, res.Err), Case{Slots: slots, Path: append([]Op(nil), path...)})
			},
			OnState: func(path []Op, res vlib.RunResult) {
				r.Nontrivial(name + "|" + res.Key)
				if r.WantSample() && len(path) >= 4 {
					r.Sample(map[string]any{"slots": slots, "history": fmt.Sprint(path), "state": res.Key})
				}
			},
		}
		out := bfs.Search()
		r.AddStates(out.States)
		r.AddTransitions(out.Transitions)
		r.AddTraces(out.Transitions + 1)
		r.Eval(out.Transitions + 1)
		r.Scenario(name, map[string]any{"states": out.States, "transitions": out.Transitions, "depth_bound": d, "max_depth": out.MaxDepth, "closed": out.Closed, "exhaustive_to_depth": out.Exhaustive, "failures": out.Failures, "cap": out.Cap})
		if !out.Exhaustive {
			r.NotExhaustive(name + ": " + out.Cap)
		}
	}
}
