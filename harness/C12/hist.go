// C12, part 1 — timing wheel histories: explicit-state search over Set/Move/Remove/Tick/Drain
// histories of the REAL TimingWheel (NewTimingWheelWithTicker with a harness ticker), driven in
// vsched's sequential-driver mode: the driver performs one operation, then Quiesce() runs the
// wheel's own goroutines (run loop, task runners) until nothing can move, which makes "tick k
// fired these timers" a deterministic observation without sleeping.
//
// State = shortest op list; successor = fresh wheel, replay, one more op. State key = white-box
// dump of the wheel (tickedPos, every slot's entries with circle/diff/removed, the timers map)
// ⊕ reference model; the dump is the wheel's entire state, so equal keys have equal futures.
// Reference: key → (latest value, ticks remaining).
//
// Callback behaviour is part of the history: the values of a key alternate v1, v0, v1, … with
// every SetTimer, and the execute callback (and the Drain callback) PANICS after recording the
// delivery whenever the delivered value is "v1". A panicking callback counts as delivered; every
// other due timer of the same tick must still be delivered exactly once. All four combinations
// (a panics or not) × (b panics or not), in both batch orders, occur among the histories without
// enlarging the alphabet or the state space (the value is part of the state key anyway).
package main

import (
	"fmt"
	"sort"
	"strings"
	"time"

	"github.com/zeromicro/go-zero/core/collection"
	"github.com/zeromicro/go-zero/verifshim/vsched"
)

const interval = time.Second

type Op struct {
	K     string `json:"k"` // set | move | remove | tick | drain
	Key   string `json:"key,omitempty"`
	Steps int    `json:"steps,omitempty"` // delay = Steps*interval (+ Half)
	Half  bool   `json:"half,omitempty"`  // + interval/2 (non-multiple delay)
}

func (o Op) String() string {
	h := ""
	if o.Half {
		h = ".5"
	}
	switch o.K {
	case "set", "move":
		return fmt.Sprintf("%s(%s,%d%s)", o.K, o.Key, o.Steps, h)
	case "remove":
		return "remove(" + o.Key + ")"
	}
	return o.K
}

type ticker struct{ c chan time.Time }

func (t *ticker) Chan() <-chan time.Time { return t.c }
func (t *ticker) Stop()                  {}

// panics: the callback behaviour carried by a value (see the header).
func panics(v any) bool { return v == "v1" }

type refEntry struct {
	val    string
	remain int
	tag    string // set | reset | moved
}

type result struct {
	key   string
	err   string
	class string
	stop  bool
}

type Case struct {
	Slots int  `json:"slots"`
	Path  []Op `json:"path"`
}

// run executes the history on a fresh wheel and checks every step against the reference.
func run(slots int, path []Op, verbose bool) result {
	var res result
	body := func() {
		var fired []string
		tk := &ticker{c: vsched.MakeChan[time.Time](1)}
		vsched.DaemonChildren(true) // the wheel's run loop never exits; only the driver keeps the execution alive
		tw, err := collection.NewTimingWheelWithTicker(interval, slots, func(k, v any) {
			fired = append(fired, fmt.Sprintf("%v=%v", k, v))
			if panics(v) {
				panic("execute callback panics for " + fmt.Sprint(k, "=", v))
			}
		}, tk)
		if err != nil {
			res.err, res.class = "constructor: "+err.Error(), "constructor"
			return
		}
		ref := map[string]*refEntry{}
		nval := map[string]int{}
		vsched.Quiesce()
		for i, op := range path {
			fired = fired[:0]
			var want []string
			d := time.Duration(op.Steps) * interval
			if op.Half {
				d += interval / 2
			}
			switch op.K {
			case "set":
				nval[op.Key]++
				v := fmt.Sprintf("v%d", nval[op.Key]%2)
				if err := tw.SetTimer(op.Key, v, d); err != nil {
					res.err, res.class = "SetTimer: "+err.Error(), "api-error"
					return
				}
				tag := "set"
				if ref[op.Key] != nil {
					tag = "reset"
				}
				ref[op.Key] = &refEntry{val: v, remain: op.Steps, tag: tag}
			case "move":
				if err := tw.MoveTimer(op.Key, d); err != nil {
					res.err, res.class = "MoveTimer: "+err.Error(), "api-error"
					return
				}
				if r := ref[op.Key]; r != nil {
					r.remain = op.Steps
					r.tag = "moved"
				}
			case "remove":
				if err := tw.RemoveTimer(op.Key); err != nil {
					res.err, res.class = "RemoveTimer: "+err.Error(), "api-error"
					return
				}
				delete(ref, op.Key)
			case "tick":
				vsched.Send(tk.c, vsched.TimeNow())
				for k, r := range ref {
					r.remain--
					if r.remain == 0 {
						want = append(want, k+"="+r.val)
					}
				}
			case "drain":
				var got []string
				if err := tw.Drain(func(k, v any) {
					got = append(got, fmt.Sprintf("%v=%v", k, v))
					if panics(v) {
						panic("drain callback panics for " + fmt.Sprint(k, "=", v))
					}
				}); err != nil {
					res.err, res.class = "Drain: "+err.Error(), "api-error"
					return
				}
				vsched.Quiesce()
				for k, r := range ref {
					want = append(want, k+"="+r.val)
				}
				sort.Strings(got)
				sort.Strings(want)
				if strings.Join(got, ",") != strings.Join(want, ",") {
					res.err = fmt.Sprintf("step %d %v: Drain delivered [%s], pending were [%s]", i, op, strings.Join(got, ","), strings.Join(want, ","))
					res.class = "drain-mismatch"
					return
				}
				if len(fired) > 0 {
					res.err = fmt.Sprintf("step %d drain: execute callback fired %v", i, fired)
					res.class = "unexpected-fire:drain"
					return
				}
				res.stop = true
				res.key = "drained"
				return
			}
			vsched.Quiesce()
			got := append([]string(nil), fired...)
			sort.Strings(got)
			sort.Strings(want)
			if verbose {
				fmt.Printf("  step %d %-14v fired=[%s] expected=[%s]\n      wheel: %s\n", i, op, strings.Join(got, ","), strings.Join(want, ","), collection.VerifDumpTimingWheel(tw))
			}
			if strings.Join(got, ",") != strings.Join(want, ",") {
				res.err = fmt.Sprintf("step %d %v: fired [%s], due were [%s] (history %v)", i, op, strings.Join(got, ","), strings.Join(want, ","), path[:i+1])
				res.class = classify(got, want, ref)
				return
			}
			for k, r := range ref {
				if r.remain == 0 {
					delete(ref, k)
				}
			}
		}
		var rs []string
		for k, r := range ref {
			rs = append(rs, fmt.Sprintf("%s=%s/%d", k, r.val, r.remain))
		}
		sort.Strings(rs)
		res.key = collection.VerifDumpTimingWheel(tw) + "#" + strings.Join(rs, ",")
	}
	e := vsched.RunSeq(body)
	if e.Outcome != "ok" && res.err == "" {
		res.err = fmt.Sprintf("execution ended with %s: blocked %v panics %v", e.Outcome, e.Blocked(), e.Panics())
		res.class = "wheel-" + e.Outcome
	}
	return res
}

func classify(got, want []string, ref map[string]*refEntry) string {
	in := func(xs []string, x string) bool {
		for _, y := range xs {
			if y == x {
				return true
			}
		}
		return false
	}
	tagOf := func(kv string) string {
		k := strings.SplitN(kv, "=", 2)[0]
		if r := ref[k]; r != nil {
			return r.tag
		}
		return "absent"
	}
	for _, w := range want {
		if !in(got, w) {
			// wrong value?
			for _, g := range got {
				if strings.SplitN(g, "=", 2)[0] == strings.SplitN(w, "=", 2)[0] {
					return "stale-value:" + tagOf(w)
				}
			}
			return "missing-fire:" + tagOf(w)
		}
	}
	for _, g := range got {
		if !in(want, g) {
			return "unexpected-fire:" + tagOf(g)
		}
	}
	return "duplicate-fire"
}

func alphabet(slots int, thorough bool) []Op {
	stepSet := map[int]bool{1: true, 2: true, slots: true, slots + 1: true, 2 * slots: true, 2*slots + 1: true}
	if thorough {
		stepSet[slots-1] = true
		stepSet[3*slots] = true
	}
	var steps []int
	for s := range stepSet {
		if s >= 1 {
			steps = append(steps, s)
		}
	}
	sort.Ints(steps)
	ops := []Op{{K: "tick"}}
	for _, k := range []string{"a", "b"} {
		for _, s := range steps {
			ops = append(ops, Op{K: "set", Key: k, Steps: s})
		}
	}
	for _, k := range []string{"a", "b"} {
		for _, s := range steps {
			ops = append(ops, Op{K: "move", Key: k, Steps: s})
		}
		ops = append(ops, Op{K: "remove", Key: k})
	}
	ops = append(ops, Op{K: "set", Key: "a", Steps: 1, Half: true}, Op{K: "move", Key: "a", Steps: 2, Half: true})
	ops = append(ops, Op{K: "drain"})
	return ops
}
