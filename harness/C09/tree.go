package main

// Family "tree": the registration/search mechanism underneath the router (core/search.Tree) driven
// directly, i.e. WITHOUT the router's path.Clean in front of it. This is the only way to reach the
// tree's own defence against un-clean routes (errDupSlash -> duplicatedSlash): through
// patRouter.Handle every pattern is cleaned first, so a doubled slash never arrives at Tree.Add.
//
// Oracle (differential between equivalent spellings, bracketed where the statement is silent):
//   - a route not starting with '/' must be rejected (statement);
//   - a clean route must be accepted unless the same pattern was accepted before, then it must be
//     rejected (statement: same pattern twice);
//   - a route with empty segments ("//a", "/a//b", "/a/": equivalent spellings of a clean pattern;
//     "." / ".." are ordinary literals for the tree and are not used here) is either REJECTED - then
//     it must leave no trace: every later search and registration behaves as if it had never been
//     added - or ACCEPTED - then it must behave exactly as its clean spelling (same matches, same
//     variables, duplicate of the clean spelling). If its clean spelling is already registered it
//     must be rejected either way;
//   - Search(clean path) returns the item of the route the reference chooses, with exactly the
//     bound segments as Params, or not-found when the reference has no matching route.
//
// Routes: the 40 clean patterns + their slash-only spellings; tables: every ordered table k <= 2,
// plus every relative pattern at both positions of the 1-route tables. Searches: the clean paths
// of P1 (the router only ever passes cleaned paths to the tree).

import (
	"fmt"
	"strconv"
	"strings"

	"github.com/zeromicro/go-zero/core/search"
)

var (
	treeRoutes []int // pats ids: clean patterns, then slash-only spellings
	treePaths  []int // path ids: the clean paths of P1
)

func buildTreeFamily() {
	for i := range cleanPats {
		treeRoutes = append(treeRoutes, i)
	}
	for i := range cleanPats {
		for _, sp := range spellingsOf[i] {
			dots := false
			for _, seg := range strings.Split(pats[sp].raw, "/") {
				if seg == "." || seg == ".." {
					dots = true
				}
			}
			// "/x/b/.." contains ".." and is excluded with the dot spellings
			if !dots {
				treeRoutes = append(treeRoutes, sp)
			}
		}
	}
	for _, pid := range setP1 {
		if paths[pid].clean {
			treePaths = append(treePaths, pid)
		}
	}
}

func paramsEqual(got map[string]string, pat, req []string) bool { return varsEqual(got, pat, req) }

// runTree adds the routes (method index ignored) to a fresh search.Tree in order and searches every
// clean path.
func (w *worker) runTree(regs []regSpec) {
	w.treeMode = true
	w.curRegs, w.curMi, w.curPid = regs, -1, -1
	defer func() {
		if p := recover(); p != nil {
			w.record("panic:none+tree", regs, w.curMi, maxInt(w.curPid, 0), "no panic", fmt.Sprint("panic: ", p))
		}
		w.treeMode = false
	}()
	w.c.Tables++
	w.c.TreeTables++
	tr := search.NewTree()
	acc := w.acc[:0]
	for i, g := range regs {
		err := tr.Add(pats[g.p].raw, &w.hs[i])
		pi := &pats[g.p]
		switch {
		case !pi.valid:
			if err == nil {
				w.record("reg-accepted-path:relative+tree", regs[:i+1], -1, 0, "Tree.Add("+strconv.Quote(pats[g.p].raw)+") returns an error (path)", "nil error")
				return
			}
			w.c.RegBadPath++
			continue
		}
		dup := false
		for _, a := range acc {
			if a.clean == pi.clean {
				dup = true
			}
		}
		switch {
		case dup && err == nil:
			cls := "reg-accepted-dup:" + pi.shape
			if pi.unclean {
				cls += "+unclean-pat"
			}
			w.record(cls+"+tree", regs[:i+1], -1, 0, "Tree.Add("+strconv.Quote(pats[g.p].raw)+") returns an error (the pattern is registered already)", "nil error")
			return
		case dup:
			w.c.RegDup++
		case pi.unclean && err != nil:
			// rejected spelling: must leave no trace (checked by everything that follows)
			w.c.TreeDupSlashRejected++
		case err != nil:
			w.record("reg-rejected-valid:"+pi.shape+"+tree", regs[:i+1], -1, 0, "Tree.Add("+strconv.Quote(pats[g.p].raw)+") succeeds", "error: "+err.Error())
			return
		default:
			if pi.unclean {
				w.c.TreeEmptySegAccepted++
			}
			w.c.RegOK++
			acc = append(acc, accepted{reg: i, m: 0, clean: pi.clean})
		}
	}
	w.acc = acc

	for _, pid := range treePaths {
		w.curMi, w.curPid = 0, pid
		res, ok := tr.Search(paths[pid].raw)
		w.c.Evals++
		w.c.TreeSearches++
		chosen, ncand := refChoose(acc, 0, pid, w.buf)
		if chosen == -2 {
			panic("harness bug: reference ambiguous for tree table " + tableString(regs))
		}
		obs := "not found"
		if ok {
			obs = "found item <foreign>"
			if h, isH := res.Item.(*handler); isH && h.w == w {
				obs = fmt.Sprintf("found item #%d (%s)", h.idx, pats[regs[h.idx].p].raw)
			}
			obs += " params " + fmtVars(res.Params)
		}
		if chosen < 0 {
			if partialPrefix(acc, 0, pid) {
				w.c.Nontrivial++
			}
			if ok {
				w.record("spurious-dispatch:none+tree", regs, 0, pid, "not found", obs)
			}
			continue
		}
		a := acc[chosen]
		cp := &cleanPats[a.clean]
		back := needsBacktrack(acc, chosen, pid)
		w.c.Nontrivial++
		kind := ""
		h, _ := res.Item.(*handler)
		switch {
		case !ok:
			kind = "missed-dispatch"
		case h != &w.hs[a.reg]:
			kind = "wrong-route"
		case !paramsEqual(res.Params, cp.segs, paths[pid].segs):
			kind = "wrong-vars"
		}
		if kind != "" {
			cls := kind + ":" + cp.shape
			if back {
				cls += "+backtrack"
			} else if ncand > 1 {
				cls += "+pref"
			}
			if pats[regs[a.reg].p].unclean {
				cls += "+unclean-pat"
			}
			exp := fmt.Sprintf("found item #%d (%s) params %s", a.reg, pats[regs[a.reg].p].raw, fmtVars(refVars(cp.segs, paths[pid].segs)))
			w.record(cls+"+tree", regs, 0, pid, exp, obs)
		}
	}
}

// unitsTree: one unit per first route; every ordered table k <= 2 over treeRoutes, plus the
// relative patterns before / after each 1-route table and alone.
func unitsTree() []unit {
	var us []unit
	us = append(us, unit{"tree", func(w *worker) {
		w.runTree(nil)
		for _, b := range badPats {
			w.runTree([]regSpec{{0, b}})
		}
	}})
	for _, p := range treeRoutes {
		p := p
		us = append(us, unit{"tree", func(w *worker) {
			w.runTree([]regSpec{{0, p}})
			for _, q := range treeRoutes {
				// q == p: the same spelling twice (duplicate)
				w.runTree([]regSpec{{0, p}, {0, q}})
			}
			for _, b := range badPats {
				w.runTree([]regSpec{{0, b}, {0, p}})
				w.runTree([]regSpec{{0, p}, {0, b}})
			}
		}})
	}
	return us
}
