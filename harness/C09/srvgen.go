package main

import "fmt"

// Generators of the "server" families (programs against rest.Server, see server.go). Everything is
// a full product over small pools; nothing is sampled. Sizes are measured by the run (scenario
// entries srv-* in the evidence). Every generator enumerates the thorough family and a predicate
// decides which programs belong to the quick share; the thorough tier runs the quick share first
// and the remainder later, so every program is generated exactly once per run.
//
//	srv-alias  one slice value of 1-2 routes x every sequence of calls over
//	           {same value, sub-slice s[:1], fresh copy, AddRoute per element} x {no prefix, "/a", "/b"}.
//	           quick: pool A = {GET,POST} x {"/", "/a", "/:x", "/a/:x", "a", ""} + FOO "/a" (first
//	           route GET or FOO: method renaming), 1-2 calls; 3 calls over the aliasing forms
//	           {same, s[:1]} on the slices of GET routes with valid patterns.
//	           thorough: + 3 calls over every form, + pool extended by "/b", "/:x/a", "/a/" and a
//	           POST first route (1-2 calls), + two slice values s0, s1 (one route each) with 2-3
//	           calls over the aliasing forms of both.
//	srv-opts   slices of 1-2 routes over {GET /, GET /a, GET /:x, POST /a} x one call with every
//	           ordered list of RouteOptions (8 prefixes incl. "", "/", relative, trailing slash, two
//	           segments, a variable; Jwt, JwtTransition, Timeout, MaxBytes, Priority, SSE,
//	           Signature) through AddRoutes and AddRoute, and two calls with <= 1 option each, the
//	           second on the same value or on a copy.
//	           quick: lists of <= 1 option on all 20 slices, lists of 2 and the 2-call programs on 8
//	           representative slices; thorough: + lists of 2 and 2-call programs on every slice,
//	           lists of 3 on the representative slices.
//	srv-conf   configurations {bare, every native middleware on} x RunOptions {none, NotFound,
//	           NotAllowed, both, WithRouter, WithRouter+NotFound, WithCors, WithCorsHeaders,
//	           WithCustomCors, WithChain, WithFileServer (no files), callbacks+TLS} x Server.Use
//	           x 6 programs (also through rest.WithMiddleware / WithMiddlewares) on the 8
//	           representative slices; thorough: 9 programs on all 20 slices.

const (
	shareQuick = 0
	shareRest  = 1
)

func mkRoutes(methods []string, pats []string) []sRoute {
	var out []sRoute
	for _, p := range pats {
		for _, m := range methods {
			out = append(out, sRoute{m, p})
		}
	}
	return out
}

// seqs calls emit for every sequence of minLen..maxLen calls over forms (emit must not keep the slice).
func seqs(forms []sCall, minLen, maxLen int, emit func([]sCall)) {
	cur := make([]sCall, 0, maxLen)
	var rec func()
	rec = func() {
		if len(cur) >= minLen {
			emit(cur)
		}
		if len(cur) >= maxLen {
			return
		}
		for _, f := range forms {
			cur = append(cur, f)
			rec()
			cur = cur[:len(cur)-1]
		}
	}
	rec()
}

func prefixOpts(ps []string) [][]sOpt {
	out := [][]sOpt{nil}
	for _, p := range ps {
		out = append(out, []sOpt{{oPrefix, p}})
	}
	return out
}

// aliasForms: the call forms of srv-alias for slice value #slice of n routes.
func aliasForms(slice, n int, onlyAliasing bool, prefixes []string) []sCall {
	var refs []sCall
	refs = append(refs, sCall{Slice: slice})
	if n > 1 {
		refs = append(refs, sCall{Slice: slice, Len: 1})
	}
	if !onlyAliasing {
		refs = append(refs, sCall{Slice: slice, Copy: true}, sCall{Slice: slice, Via: viaAddRoute})
	}
	var out []sCall
	for _, r := range refs {
		for _, o := range prefixOpts(prefixes) {
			c := r
			c.Opts = o
			out = append(out, c)
		}
	}
	return out
}

func aliasingOnly(cs []sCall) bool {
	for _, c := range cs {
		if c.Copy || c.Via != viaAddRoutes {
			return false
		}
	}
	return true
}

func unitsSrvAlias(share int) []unit {
	quickPats := []string{"/", "/a", "/:x", "/a/:x", "a", ""}
	allPats := append(append([]string(nil), quickPats...), "/b", "/:x/a", "/a/")
	inQuickPool := map[string]bool{}
	for _, p := range quickPats {
		inQuickPool[p] = true
	}
	small := map[string]bool{"/": true, "/a": true, "/:x": true, "/a/:x": true}
	bad := sRoute{"FOO", "/a"}
	firsts := append(mkRoutes([]string{"GET", "POST"}, allPats), bad)
	seconds := append(mkRoutes([]string{"GET", "POST"}, allPats), bad)
	prefixes := []string{"/a", "/b"}
	quickSlice := func(s []sRoute) bool {
		for i, r := range s {
			if r == bad {
				continue
			}
			if !inQuickPool[r.Path] || (i == 0 && r.Method != "GET") {
				return false
			}
		}
		return true
	}
	smallSlice := func(s []sRoute) bool {
		for _, r := range s {
			if r.Method != "GET" || !small[r.Path] {
				return false
			}
		}
		return true
	}
	var us []unit
	for _, f := range firsts {
		f := f
		us = append(us, unit{"srv-alias", func(w *worker) {
			run := func(s []sRoute) {
				qs, sm := quickSlice(s), smallSlice(s)
				if share == shareQuick && !qs {
					return
				}
				p := &sProg{Slices: [][]sRoute{s}}
				maxLen := 2
				if qs {
					maxLen = 3
				}
				seqs(aliasForms(0, len(s), false, prefixes), 1, maxLen, func(cs []sCall) {
					inQuick := qs && (len(cs) <= 2 || (sm && aliasingOnly(cs)))
					if inQuick != (share == shareQuick) {
						return
					}
					p.Calls = cs
					w.runServer(p, -1, -1)
				})
			}
			run([]sRoute{f})
			for _, g := range seconds {
				run([]sRoute{f, g})
			}
		}})
	}
	if share == shareRest {
		// two slice values of one route each, 2-3 calls over the aliasing forms of both, both used
		smallR := mkRoutes([]string{"GET", "POST"}, []string{"/", "/a", "/:x", "/a/:x"})
		for _, f := range smallR {
			f := f
			us = append(us, unit{"srv-alias", func(w *worker) {
				for _, h := range smallR {
					p := &sProg{Slices: [][]sRoute{{f}, {h}}}
					forms := append(aliasForms(0, 1, true, prefixes), aliasForms(1, 1, true, prefixes)...)
					seqs(forms, 2, 3, func(cs []sCall) {
						u0, u1 := false, false
						for _, c := range cs {
							u0 = u0 || c.Slice == 0
							u1 = u1 || c.Slice == 1
						}
						if !u0 || !u1 {
							return // one value only: covered above
						}
						p.Calls = cs
						w.runServer(p, -1, -1)
					})
				}
			}})
		}
	}
	return us
}

var optsB = []sOpt{
	{oPrefix, "/a"}, {oPrefix, "/b"}, {oPrefix, "/"}, {oPrefix, ""}, {oPrefix, "a"}, {oPrefix, "/a/"}, {oPrefix, "/a/b"}, {oPrefix, "/:p"},
	{oJwt, "A"}, {oJwtT, "B,A"}, {oTimeout, ""}, {oMaxBytes, ""}, {oPriority, ""}, {oSSE, ""}, {oSig, ""},
}

// slicesB: the slice values of srv-opts / srv-conf: the four single routes, then pairs; all = every
// ordered pair (the same route twice included), otherwise four representative pairs (two literals,
// two methods on one pattern, variable + literal, a genuine duplicate).
func slicesB(all bool) [][]sRoute {
	rs := []sRoute{{"GET", "/"}, {"GET", "/a"}, {"GET", "/:x"}, {"POST", "/a"}}
	var out [][]sRoute
	for _, a := range rs {
		out = append(out, []sRoute{a})
	}
	if !all {
		return append(out, []sRoute{rs[0], rs[1]}, []sRoute{rs[1], rs[3]}, []sRoute{rs[2], rs[1]}, []sRoute{rs[1], rs[1]})
	}
	for _, a := range rs {
		for _, b := range rs {
			out = append(out, []sRoute{a, b})
		}
	}
	return out
}

func representative() map[string]bool {
	rep := map[string]bool{}
	for _, s := range slicesB(false) {
		rep[fmt.Sprint(s)] = true
	}
	return rep
}

// optLists: every ordered list of exactly n options of optsB.
func optLists(n int) [][]sOpt {
	out := [][]sOpt{nil}
	for k := 1; k <= n; k++ {
		var next [][]sOpt
		for _, l := range out {
			for _, o := range optsB {
				next = append(next, append(append([]sOpt(nil), l...), o))
			}
		}
		out = next
	}
	return out
}

func unitsSrvOpts(share int) []unit {
	var us []unit
	rep := representative()
	var lists [][]sOpt
	maxList := 2
	if share == shareRest {
		maxList = 3
	}
	for n := 0; n <= maxList; n++ {
		lists = append(lists, optLists(n)...)
	}
	var one [][]sOpt
	one = append(append(one, optLists(0)...), optLists(1)...)
	for _, s := range slicesB(true) {
		s := s
		isRep := rep[fmt.Sprint(s)]
		us = append(us, unit{"srv-opts", func(w *worker) {
			p := &sProg{Slices: [][]sRoute{s}}
			emit := func(inQuick bool, cs []sCall) {
				if inQuick == (share == shareQuick) {
					p.Calls = cs
					w.runServer(p, -1, -1)
				}
			}
			for _, ol := range lists {
				if len(ol) == 3 && !isRep {
					continue // outside the family
				}
				q := len(ol) <= 1 || (len(ol) == 2 && isRep)
				emit(q, []sCall{{Opts: ol}})
				emit(q && len(s) == 1, []sCall{{Via: viaAddRoute, Opts: ol}})
			}
			for _, o1 := range one {
				for _, o2 := range one {
					for _, cp := range []bool{false, true} {
						emit(isRep, []sCall{{Opts: o1}, {Opts: o2, Copy: cp}})
					}
				}
			}
		}})
	}
	return us
}

type srvConfig struct {
	conf string
	run  []string
	use  bool
}

func srvConfigs() []srvConfig {
	var out []srvConfig
	runs := [][]string{nil, {"notfound"}, {"notallowed"}, {"notfound", "notallowed"}, {"router"}, {"router", "notfound"}, {"cors"},
		{"cors-headers"}, {"cors-custom"}, {"chain"}, {"fileserver"}, {"callbacks"}}
	for _, conf := range []string{"", "chain"} {
		for _, run := range runs {
			for _, use := range []bool{false, true} {
				if conf == "" && run == nil && !use {
					continue // the default configuration is what the other server families run
				}
				out = append(out, srvConfig{conf, run, use})
			}
		}
	}
	return out
}

func unitsSrvConf(share int) []unit {
	pa, pb := []sOpt{{oPrefix, "/a"}}, []sOpt{{oPrefix, "/b"}}
	progs := [][]sCall{
		{{}},
		{{Opts: pa}},
		{{Opts: pa}, {}},
		{{Opts: pa}, {Opts: pb}},
		{{Via: viaMw, Opts: pa}},
		{{Via: viaMws}, {Opts: pa}},
		// thorough only:
		{{Opts: []sOpt{{oJwt, "A"}, {oPrefix, "/a"}}}, {}},
		{{Opts: []sOpt{{oSSE, ""}, {oPrefix, "/a"}}}, {Opts: pb}},
		{{Via: viaAddRoute, Opts: pa}, {Via: viaMw, Opts: pb}},
	}
	const nQuickProgs = 6
	rep := representative()
	var us []unit
	for _, cf := range srvConfigs() {
		cf := cf
		us = append(us, unit{"srv-conf", func(w *worker) {
			for _, s := range slicesB(true) {
				p := &sProg{Conf: cf.conf, Run: cf.run, Use: cf.use, Slices: [][]sRoute{s}}
				for i, cs := range progs {
					inQuick := i < nQuickProgs && rep[fmt.Sprint(s)]
					if inQuick == (share == shareQuick) {
						p.Calls = cs
						w.runServer(p, -1, -1)
					}
				}
			}
		}})
	}
	return us
}

// runSrvPrint: single-threaded pre-phase (it swaps os.Stdout): PrintRoutes() of every
// representative slice under every 1-2 call program over {same value, copy} x {no prefix, "/a", "/b"}.
func runSrvPrint(w *worker) {
	w.srvInit()
	w.srv.printOnly = true
	defer func() { w.srv.printOnly = false }()
	for _, s := range slicesB(false) {
		p := &sProg{Slices: [][]sRoute{s}}
		var forms []sCall
		for _, o := range prefixOpts([]string{"/a", "/b"}) {
			forms = append(forms, sCall{Opts: o}, sCall{Copy: true, Opts: o})
		}
		seqs(forms, 1, 2, func(cs []sCall) {
			p.Calls = cs
			w.runServer(p, -1, -1)
		})
	}
}
