package main

// The bounded families: methods, route patterns (clean, un-clean spellings, invalid), request
// paths (clean, un-clean spellings), and the pattern x path match matrix of the reference.

import (
	"path"
	"sort"
	"strconv"
	"strings"

	"github.com/zeromicro/go-zero/verifshim/vlib"
)

// Methods 0..3 are the request methods; 0..2 are used in route tables; 4.. are unsupported
// methods used only for registration-error cases.
var allMethods = []string{"GET", "POST", "PUT", "DELETE", "", "get", "FOO", "TRACE", "CONNECT"}

const (
	nReqMethods   = 4
	nRouteMethods = 3
	firstBadMeth  = 4
)

func methodSupported(m int) bool { return m < firstBadMeth }

type patInfo struct {
	raw     string
	valid   bool     // starts with '/'
	segs    []string // cleaned segments (root = [""])
	clean   int      // id of its cleaned form in cleanPats (-1 for invalid patterns)
	unclean bool     // raw differs from the cleaned spelling
	shape   string
}

type pathInfo struct {
	raw   string
	segs  []string
	clean bool
}

var (
	cleanPats   []patInfo // clean patterns; pats[i] == cleanPats[i] for i < len(cleanPats)
	pats        []patInfo // clean ++ un-clean spellings ++ invalid
	spellingsOf [][]int   // clean id -> pats ids of its un-clean spellings
	badPats     []int     // pats ids of patterns not starting with '/' (fixed list)
	nRelative   int       // all patterns not starting with '/'
	nUnclean    int       // un-clean spellings of clean patterns
	patByRaw    = map[string]int{}

	paths     []pathInfo
	pathByRaw = map[string]int{}
	setP1     []int // every path of 0..3 segments over {a,b,c,empty}
	setExt    []int // further un-clean spellings (., .., longer // forms), disjoint from setP1

	matchCP [][]bool // [clean pattern id][path id]
)

// spellings returns un-clean spellings of the clean path/pattern with the given segments
// (nil = root): trailing slash, doubled slashes, "/./" and "/../" at every joint and end.
func spellings(segs []string) []string {
	if len(segs) == 0 {
		return []string{"//", "/.", "/..", "/./", "/a/..", "/../"}
	}
	j := strings.Join(segs, "/")
	out := []string{"/" + j + "/", "//" + j, "/./" + j, "/../" + j, "/" + j + "/.", "/" + j + "/b/.."}
	for k := 1; k < len(segs); k++ {
		pre := "/" + strings.Join(segs[:k], "/")
		post := strings.Join(segs[k:], "/")
		out = append(out, pre+"//"+post, pre+"/./"+post, pre+"/b/../"+post)
	}
	return out
}

func joinSegs(segs []string) string { return "/" + strings.Join(segs, "/") }

// product enumerates all segment lists of length n; alphabet may depend on depth (1-based).
func product(n int, alpha func(depth int) []string, emit func([]string)) {
	cur := make([]string, n)
	var rec func(i int)
	rec = func(i int) {
		if i == n {
			emit(append([]string(nil), cur...))
			return
		}
		for _, s := range alpha(i + 1) {
			cur[i] = s
			rec(i + 1)
		}
	}
	rec(0)
}

func addPat(raw string) int {
	if id, ok := patByRaw[raw]; ok {
		return id
	}
	segs, ok := refClean(raw)
	pi := patInfo{raw: raw, valid: ok, clean: -1}
	if ok {
		pi.segs = segs
		pi.shape = shapeOf(segs)
		cl := joinSegs(segs)
		pi.unclean = cl != raw
		if pi.unclean {
			pi.clean = patByRaw[cl]
		} else {
			pi.clean = len(pats)
		}
	}
	pats = append(pats, pi)
	patByRaw[raw] = len(pats) - 1
	return len(pats) - 1
}

func addPath(raw string) (int, bool) {
	if id, ok := pathByRaw[raw]; ok {
		return id, false
	}
	segs, ok := refClean(raw)
	if !ok {
		vlib.Fatal("harness bug: request path %q is not absolute", raw)
	}
	paths = append(paths, pathInfo{raw: raw, segs: segs, clean: joinSegs(segs) == raw})
	pathByRaw[raw] = len(paths) - 1
	return len(paths) - 1, true
}

func buildUniverse() {
	// clean patterns: 0..3 segments over {a, b, :v<depth>} — one variable name per position.
	for n := 0; n <= 3; n++ {
		product(n, func(d int) []string { return []string{"a", "b", ":v" + strconv.Itoa(d)} }, func(s []string) {
			addPat(joinSegs(s))
		})
	}
	cleanPats = append([]patInfo(nil), pats...)
	for i, p := range cleanPats {
		if !p.valid || p.unclean || p.clean != i {
			vlib.Fatal("harness bug: clean pattern %q mis-built", p.raw)
		}
		// precondition of the statement: variable at cleaned position i is named v<i+1>
		for k, s := range p.segs {
			if isVar(s) && s != ":v"+strconv.Itoa(k+1) {
				vlib.Fatal("harness bug: precondition broken by %q", p.raw)
			}
		}
	}
	spellingsOf = make([][]int, len(cleanPats))
	for i := range cleanPats {
		segs := cleanPats[i].segs
		if cleanPats[i].shape == "R" {
			segs = nil
		}
		for _, sp := range spellings(segs) {
			id := addPat(sp)
			if pats[id].clean != i || !pats[id].unclean {
				vlib.Fatal("harness bug: spelling %q of %q cleans to something else", sp, cleanPats[i].raw)
			}
			spellingsOf[i] = append(spellingsOf[i], id)
		}
	}
	for _, raw := range []string{"", "a", "a/b", ":v1", "./a", "../a", "a/"} {
		badPats = append(badPats, addPat(raw))
	}
	for i := range cleanPats { // every clean pattern without its leading '/'
		addPat(cleanPats[i].raw[1:])
	}
	for _, p := range pats {
		if !p.valid {
			nRelative++
		} else if p.unclean {
			nUnclean++
		}
	}

	// request paths
	for n := 0; n <= 3; n++ {
		product(n, func(int) []string { return []string{"a", "b", "c", ""} }, func(s []string) {
			if id, fresh := addPath(joinSegs(s)); fresh {
				setP1 = append(setP1, id)
			}
		})
	}
	for n := 1; n <= 3; n++ {
		product(n, func(int) []string { return []string{"a", "b", "c", "", ".", ".."} }, func(s []string) {
			if id, fresh := addPath(joinSegs(s)); fresh {
				setExt = append(setExt, id)
			}
		})
	}
	for n := 0; n <= 3; n++ {
		product(n, func(int) []string { return []string{"a", "b", "c"} }, func(s []string) {
			for _, sp := range spellings(s) {
				if id, fresh := addPath(sp); fresh {
					setExt = append(setExt, id)
				}
			}
		})
	}

	buildServerUniverse() // request paths of the server-level families (server.go)

	// self-test of the reference cleaner against the standard library (harness sanity only)
	for _, p := range paths {
		if got := path.Clean(p.raw); got != joinSegs(p.segs) && !(got == "/" && len(p.segs) == 1 && p.segs[0] == "") {
			vlib.Fatal("harness bug: refClean(%q)=%q, path.Clean=%q", p.raw, joinSegs(p.segs), got)
		}
	}
	for _, p := range pats {
		if p.valid {
			if got := path.Clean(p.raw); got != joinSegs(p.segs) && !(got == "/" && p.shape == "R") {
				vlib.Fatal("harness bug: refClean(%q)=%q, path.Clean=%q", p.raw, joinSegs(p.segs), got)
			}
		}
	}

	matchCP = make([][]bool, len(cleanPats))
	for i, cp := range cleanPats {
		matchCP[i] = make([]bool, len(paths))
		for j, rp := range paths {
			matchCP[i][j] = refMatch(cp.segs, rp.segs)
		}
	}
}

type regSpec struct{ m, p int } // method index in allMethods, pattern index in pats

func (g regSpec) String() string {
	return strconv.Quote(allMethods[g.m]) + " " + strconv.Quote(pats[g.p].raw)
}

// pairs: the 120 (method, clean pattern) pairs of the route tables, simplest pattern first.
var pairs []regSpec

func buildPairs() {
	for p := range cleanPats {
		for m := 0; m < nRouteMethods; m++ {
			pairs = append(pairs, regSpec{m, p})
		}
	}
}

func sortedKeys(m map[string]string) []string {
	ks := make([]string, 0, len(m))
	for k := range m {
		ks = append(ks, k)
	}
	sort.Strings(ks)
	return ks
}
