package main

// Reference model of C09, written from the property statement only. It shares no code with
// rest/router or core/search: paths are cleaned by a naive stack cleaner (cross-checked against
// path.Clean at start-up as a harness self-test), patterns and request paths are split into
// segments and compared position by position.

import (
	"strings"
)

// refClean returns the segments of the cleaned form of an absolute slash path: empty and "."
// segments vanish, ".." removes the segment before it (nothing at the root). The root path
// counts as one empty segment, as the statement says. ok=false: p does not start with '/'.
func refClean(p string) (segs []string, ok bool) {
	if len(p) == 0 || p[0] != '/' {
		return nil, false
	}
	for _, s := range strings.Split(p[1:], "/") {
		switch s {
		case "", ".":
		case "..":
			if len(segs) > 0 {
				segs = segs[:len(segs)-1]
			}
		default:
			segs = append(segs, s)
		}
	}
	if len(segs) == 0 {
		segs = []string{""}
	}
	return segs, true
}

func isVar(seg string) bool { return len(seg) > 0 && seg[0] == ':' }

// refMatch: literal segments equal, `:name` segments match any single segment.
func refMatch(pat, req []string) bool {
	if len(pat) != len(req) {
		return false
	}
	for i := range pat {
		if !isVar(pat[i]) && pat[i] != req[i] {
			return false
		}
	}
	return true
}

// refVars: the segments bound by the route.
func refVars(pat, req []string) map[string]string {
	var m map[string]string
	for i := range pat {
		if isVar(pat[i]) {
			if m == nil {
				m = map[string]string{}
			}
			m[pat[i][1:]] = req[i]
		}
	}
	return m
}

// shapeOf: "R" for the root pattern, otherwise one letter per segment, L(iteral) / V(ariable).
func shapeOf(segs []string) string {
	if len(segs) == 1 && segs[0] == "" {
		return "R"
	}
	b := make([]byte, len(segs))
	for i, s := range segs {
		if isVar(s) {
			b[i] = 'V'
		} else {
			b[i] = 'L'
		}
	}
	return string(b)
}

// accepted is one route the reference considers registered.
type accepted struct {
	reg   int // index of the registration in the table (= handler identity)
	m     int // method index
	clean int // clean pattern id
}

// refChoose picks, among the registered routes of method m that match path pid, the one that
// prefers a literal over a variable at the first segment where candidates differ. Returns the
// position in acc, or -1 when no route matches. ncand = number of matching routes.
func refChoose(acc []accepted, m, pid int, buf []int) (chosen, ncand int) {
	cands := buf[:0]
	for i, a := range acc {
		if a.m == m && matchCP[a.clean][pid] {
			cands = append(cands, i)
		}
	}
	ncand = len(cands)
	if ncand == 0 {
		return -1, 0
	}
	if ncand == 1 {
		return cands[0], 1
	}
	n := len(paths[pid].segs)
	for pos := 0; pos < n && len(cands) > 1; pos++ {
		lit, vr := false, false
		for _, c := range cands {
			if isVar(cleanPats[acc[c].clean].segs[pos]) {
				vr = true
			} else {
				lit = true
			}
		}
		if lit && vr {
			k := 0
			for _, c := range cands {
				if !isVar(cleanPats[acc[c].clean].segs[pos]) {
					cands[k] = c
					k++
				}
			}
			cands = cands[:k]
		}
	}
	if len(cands) != 1 {
		// impossible when the table uses one variable name per position under a prefix and
		// contains no duplicates: two surviving candidates would be the same pattern.
		return -2, ncand
	}
	return cands[0], ncand
}

// refAllow: bit mask of the *other* methods that have a matching route.
func refAllow(acc []accepted, m, pid int) uint {
	var mask uint
	for _, a := range acc {
		if a.m != m && matchCP[a.clean][pid] {
			mask |= 1 << uint(a.m)
		}
	}
	return mask
}

// needsBacktrack reports whether reaching route acc[chosen] for path pid requires abandoning a
// literal branch: some other route of the same method agrees with the chosen one on a prefix,
// has a literal equal to the request segment where the chosen route has a variable, and does
// not match the whole request. Only used for counters and violation classes.
func needsBacktrack(acc []accepted, chosen, pid int) bool {
	c := cleanPats[acc[chosen].clean].segs
	req := paths[pid].segs
	for i, a := range acc {
		if i == chosen || a.m != acc[chosen].m {
			continue
		}
		d := cleanPats[a.clean].segs
		if matchCP[a.clean][pid] {
			continue
		}
		for pos := 0; pos < len(c) && pos < len(d); pos++ {
			if isVar(c[pos]) && !isVar(d[pos]) && d[pos] == req[pos] {
				return true
			}
			if c[pos] != d[pos] {
				break
			}
		}
	}
	return false
}

// partialLiteralDecoy reports whether, for a request that matches no route of method m, some
// route of that method matches a proper prefix of the request (the search descends and must
// come back empty-handed). Only used for counters.
func partialPrefix(acc []accepted, m, pid int) bool {
	req := paths[pid].segs
	for _, a := range acc {
		if a.m != m {
			continue
		}
		d := cleanPats[a.clean].segs
		if len(d) >= 1 && len(req) >= 1 && (isVar(d[0]) || d[0] == req[0]) {
			return true
		}
	}
	return false
}
