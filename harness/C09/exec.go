package main

// Execution of one route table against the real router (router.NewRouter, Handle, ServeHTTP with
// httptest requests/recorders) and comparison with the reference.

import (
	"fmt"
	"net/http"
	"net/http/httptest"
	"sort"
	"strconv"
	"strings"

	"github.com/zeromicro/go-zero/rest/pathvar"
	"github.com/zeromicro/go-zero/rest/router"
	"github.com/zeromicro/go-zero/verifshim/vlib"
)

const handlerStatus = 202 // written by every route handler, so a pass-through is observable

type handler struct {
	idx int
	w   *worker
}

func (h *handler) ServeHTTP(rw http.ResponseWriter, r *http.Request) {
	h.w.calls++
	h.w.gotIdx = h.idx
	h.w.gotVars = pathvar.Vars(r)
	rw.WriteHeader(handlerStatus)
}

// Custom NotFound / NotAllowed handlers (configuration dimension "hooks"): each counts its calls
// and writes its own status so that it can be told apart from the router's default answers.
const (
	hookNFStatus = 290
	hookNAStatus = 291
)

type hookHandler struct {
	n      *int
	status int
}

func (h *hookHandler) ServeHTTP(rw http.ResponseWriter, _ *http.Request) {
	*h.n++
	rw.WriteHeader(h.status)
}

// lightRW is a minimal http.ResponseWriter (status + headers as they are when the status is
// written; body discarded). It is reused across requests to keep the per-request cost low;
// cross-checked against httptest.ResponseRecorder on the small families (worker.crossCheck).
type lightRW struct {
	h     http.Header
	code  int
	wrote bool
	allow []string
}

func (l *lightRW) reset() {
	clear(l.h)
	l.code, l.wrote, l.allow = http.StatusOK, false, nil
}
func (l *lightRW) Header() http.Header { return l.h }
func (l *lightRW) WriteHeader(c int) {
	if !l.wrote {
		l.code, l.wrote = c, true
		l.allow = append([]string(nil), l.h["Allow"]...)
	}
}
func (l *lightRW) Write(b []byte) (int, error) {
	if !l.wrote {
		l.WriteHeader(http.StatusOK)
	}
	return len(b), nil
}

type counters struct {
	Tables, Evals                                  int64
	Dispatch, DispatchPref, DispatchBack, WithVars int64
	R405, R404, R404Partial                        int64
	UncleanReq, UncleanPatTables                   int64
	RegOK, RegDup, RegBadMethod, RegBadPath        int64
	SpelledDupRejected, SpelledDupAccepted         int64
	Nontrivial                                     int64
	Failures, CrossChecked                         int64
	HookTables, HookNF, HookNA                     int64
	TreeTables, TreeSearches, TreeDupSlashRejected int64
	TreeEmptySegAccepted                           int64
}

func (c *counters) add(o *counters) {
	c.Tables += o.Tables
	c.Evals += o.Evals
	c.Dispatch += o.Dispatch
	c.DispatchPref += o.DispatchPref
	c.DispatchBack += o.DispatchBack
	c.WithVars += o.WithVars
	c.R405 += o.R405
	c.R404 += o.R404
	c.R404Partial += o.R404Partial
	c.UncleanReq += o.UncleanReq
	c.UncleanPatTables += o.UncleanPatTables
	c.RegOK += o.RegOK
	c.RegDup += o.RegDup
	c.RegBadMethod += o.RegBadMethod
	c.RegBadPath += o.RegBadPath
	c.SpelledDupRejected += o.SpelledDupRejected
	c.SpelledDupAccepted += o.SpelledDupAccepted
	c.Nontrivial += o.Nontrivial
	c.Failures += o.Failures
	c.CrossChecked += o.CrossChecked
	c.HookTables += o.HookTables
	c.HookNF += o.HookNF
	c.HookNA += o.HookNA
	c.TreeTables += o.TreeTables
	c.TreeSearches += o.TreeSearches
	c.TreeDupSlashRejected += o.TreeDupSlashRejected
	c.TreeEmptySegAccepted += o.TreeEmptySegAccepted
}

// cand is a violation candidate; per class the smallest one (by cost, then text) is kept.
type cand struct {
	class    string
	cost     [4]int
	key      string
	regs     []regSpec
	mi, pid  int    // request (mi = -1: registration failure)
	nf, na   int    // custom NotFound / NotAllowed handler installed before registration #nf / #na (-1: none)
	tree     bool   // the table was driven through search.Tree directly (family "tree")
	srv      *sProg // the case is a program against rest.Server (families "srv-*", server.go)
	exp, got string
}

// describe renders the case for the violation line.
func (c *cand) describe() string {
	if c.srv != nil {
		return c.key
	}
	return caseString(c.regs, c.nf, c.na, c.tree, c.mi, c.pid)
}

func cmpCost(a, b [4]int) int {
	for i := range a {
		if a[i] != b[i] {
			if a[i] < b[i] {
				return -1
			}
			return 1
		}
	}
	return 0
}

func (a *cand) less(b *cand) bool {
	if c := cmpCost(a.cost, b.cost); c != 0 {
		return c < 0
	}
	return a.key < b.key
}

type worker struct {
	hs         [8]handler
	calls      int
	gotIdx     int
	gotVars    map[string]string
	reqs       [nReqMethods][]*http.Request
	acc        []accepted
	buf        []int
	c          counters
	viol       map[string]*cand
	samples    []any
	sampling   bool
	crossCheck bool // also serve through httptest.ResponseRecorder and compare
	lw         lightRW
	onlyMethod int // >= 0: serve only this request method (replay)
	// configuration dimension "hooks": position (0..len(table)) at which a custom NotFound /
	// NotAllowed handler is installed, counted in registrations done before it; -1 = not installed
	nf, na           int
	nfCalls, naCalls int
	nfH, naH         hookHandler
	treeMode         bool      // set by runTree (for record)
	srv              *srvState // state of the server-level families (server.go)
	// what is in flight (for panic reports)
	curRegs []regSpec
	curMi   int
	curPid  int
}

func newWorker() *worker {
	w := &worker{viol: map[string]*cand{}, buf: make([]int, 0, 8), onlyMethod: -1, lw: lightRW{h: http.Header{}}, nf: -1, na: -1}
	w.nfH = hookHandler{&w.nfCalls, hookNFStatus}
	w.naH = hookHandler{&w.naCalls, hookNAStatus}
	for i := range w.hs {
		w.hs[i] = handler{idx: i, w: w}
	}
	for mi := 0; mi < nReqMethods; mi++ {
		w.reqs[mi] = make([]*http.Request, len(paths))
		for pid, p := range paths {
			rq := httptest.NewRequest(allMethods[mi], p.raw, nil)
			if rq.URL.Path != p.raw || rq.Method != allMethods[mi] {
				vlib.Fatal("harness bug: request %s %q parsed as path %q", allMethods[mi], p.raw, rq.URL.Path)
			}
			w.reqs[mi][pid] = rq
		}
	}
	return w
}

func tableString(regs []regSpec) string {
	var sb strings.Builder
	sb.WriteByte('[')
	for i, g := range regs {
		if i > 0 {
			sb.WriteString(", ")
		}
		sb.WriteString(allMethods[g.m])
		sb.WriteByte(' ')
		sb.WriteString(pats[g.p].raw)
	}
	sb.WriteByte(']')
	return sb.String()
}

// caseString renders a table (with its configuration) and, when mi >= 0, the request.
func caseString(regs []regSpec, nf, na int, tree bool, mi, pid int) string {
	if tree {
		var ps []string
		for _, g := range regs {
			ps = append(ps, strconv.Quote(pats[g.p].raw))
		}
		s := "search.Tree with Add of [" + strings.Join(ps, ", ") + "]"
		if mi >= 0 {
			s += " Search(" + strconv.Quote(paths[pid].raw) + ")"
		}
		return s
	}
	s := "table " + tableString(regs) + hooksString(nf, na)
	if mi >= 0 {
		s += " request " + allMethods[mi] + " " + paths[pid].raw
	}
	return s
}

// hooksString renders the hook configuration ("" when none is installed).
func hooksString(nf, na int) string {
	var out []string
	if nf >= 0 {
		out = append(out, fmt.Sprintf("SetNotFoundHandler after %d registration(s)", nf))
	}
	if na >= 0 {
		out = append(out, fmt.Sprintf("SetNotAllowedHandler after %d registration(s)", na))
	}
	if len(out) == 0 {
		return ""
	}
	return " with " + strings.Join(out, " and ")
}

func (w *worker) record(class string, regs []regSpec, mi, pid int, exp, got string) {
	w.c.Failures++
	n := 0
	for _, g := range regs {
		n += len(pats[g.p].raw)
	}
	// cost: configurations first (default router < hooks installed < direct tree), then table
	// size, pattern text, request text
	c := cand{class: class, cost: [4]int{0, len(regs), n, 0}, mi: mi, pid: pid, nf: w.nf, na: w.na, tree: w.treeMode}
	if w.nf >= 0 {
		c.cost[0]++
	}
	if w.na >= 0 {
		c.cost[0]++
	}
	if w.treeMode {
		c.cost[0] = 3
	}
	if mi >= 0 {
		c.cost[3] = len(paths[pid].raw)
	}
	group := groupOf(class)
	old := w.viol[group]
	if old != nil && cmpCost(c.cost, old.cost) > 0 {
		return
	}
	c.key = caseString(regs, w.nf, w.na, w.treeMode, mi, pid)
	if old != nil && !c.less(old) {
		return
	}
	c.regs = append([]regSpec(nil), regs...)
	c.exp, c.got = exp, got
	w.viol[group] = &c
}

// groupOf maps a class "kind:shape+flag..." to its cause group "kind+flag..." (shape and
// spelling / "+hooks" configuration flags dropped). Per group only the smallest failing case is kept, and its full class
// (with the shape of that smallest case) is what gets reported: one class per cause.
func groupOf(class string) string {
	kind, rest, _ := strings.Cut(class, ":")
	parts := strings.Split(rest, "+")
	for _, f := range parts[1:] {
		if !strings.HasPrefix(f, "unclean-") && f != "hooks" && f != "tree" && f != "server" && f != "reused-slice" && f != "conf" {
			kind += "+" + f
		}
	}
	return kind
}

func fmtVars(m map[string]string) string {
	if len(m) == 0 {
		return "{}"
	}
	var sb strings.Builder
	sb.WriteByte('{')
	for i, k := range sortedKeys(m) {
		if i > 0 {
			sb.WriteByte(' ')
		}
		fmt.Fprintf(&sb, "%s=%q", k, m[k])
	}
	sb.WriteByte('}')
	return sb.String()
}

func maskString(mask uint) string {
	var out []string
	for i := 0; i < 32; i++ {
		if mask&(1<<uint(i)) != 0 {
			if i < len(allMethods) {
				out = append(out, allMethods[i])
			} else {
				out = append(out, "<other>")
			}
		}
	}
	return "{" + strings.Join(out, ",") + "}"
}

// allowMask parses the Allow header(s) into a method set; unknown tokens set bit 31.
func allowMask(vals []string) uint {
	var mask uint
	for _, v := range vals {
		for _, tok := range strings.Split(v, ",") {
			tok = strings.TrimSpace(tok)
			found := false
			for i := 0; i < nReqMethods; i++ {
				if tok == allMethods[i] {
					mask |= 1 << uint(i)
					found = true
				}
			}
			if !found {
				mask |= 1 << 31
			}
		}
	}
	return mask
}

func varsEqual(got map[string]string, pat, req []string) bool {
	n := 0
	for i, s := range pat {
		if isVar(s) {
			n++
			if v, ok := got[s[1:]]; !ok || v != req[i] {
				return false
			}
		}
	}
	return len(got) == n
}

func (w *worker) observed(rec *lightRW, regs []regSpec) string {
	s := w.observedRoute(rec, regs)
	if w.nfCalls > 0 {
		s += fmt.Sprintf("; custom NotFound handler called %d time(s)", w.nfCalls)
	}
	if w.naCalls > 0 {
		s += fmt.Sprintf("; custom NotAllowed handler called %d time(s)", w.naCalls)
	}
	return s
}

func (w *worker) observedRoute(rec *lightRW, regs []regSpec) string {
	if w.calls > 0 {
		s := fmt.Sprintf("handler #%d", w.gotIdx)
		if w.gotIdx >= 0 && w.gotIdx < len(regs) {
			s += " (" + allMethods[regs[w.gotIdx].m] + " " + pats[regs[w.gotIdx].p].raw + ")"
		}
		s += " vars " + fmtVars(w.gotVars)
		if w.calls > 1 {
			s += fmt.Sprintf(" called %d times", w.calls)
		}
		return s + fmt.Sprintf(" status %d", rec.code)
	}
	if rec.code == http.StatusMethodNotAllowed {
		return fmt.Sprintf("405 Allow=%q", strings.Join(rec.allow, ","))
	}
	return fmt.Sprintf("status %d, no handler", rec.code)
}

func reqFlags(pid int) string {
	if !paths[pid].clean {
		return "+unclean-req"
	}
	return ""
}

// runTable registers regs in order on a fresh router, checks every registration result, serves
// every request of reqSet x {GET,POST,PUT,DELETE} and compares with the reference. redup: after
// the requests, register every accepted route a second time and demand an error.
// Returns false when the table was abandoned (registration verdict differs / lenient duplicate).
func (w *worker) runTable(regs []regSpec, reqSet []int, redup bool) (completed bool) {
	w.curRegs, w.curMi, w.curPid = regs, -1, -1
	defer func() {
		if p := recover(); p != nil {
			exp := "no panic"
			w.record("panic", regs, w.curMi, maxInt(w.curPid, 0), exp, fmt.Sprint("panic: ", p))
			completed = false
		}
	}()
	w.c.Tables++
	rt := router.NewRouter()
	acc := w.acc[:0]
	hasUnclean := false
	hooked := w.nf >= 0 || w.na >= 0
	if hooked {
		w.c.HookTables++
	}
	setHooks := func(done int) { // done = number of Handle calls made so far
		if w.nf == done {
			rt.SetNotFoundHandler(&w.nfH)
		}
		if w.na == done {
			rt.SetNotAllowedHandler(&w.naH)
		}
	}
	for i, g := range regs {
		if hooked {
			setHooks(i)
		}
		err := rt.Handle(allMethods[g.m], pats[g.p].raw, &w.hs[i])
		pi := &pats[g.p]
		reason := ""
		lenient := false
		switch {
		case !methodSupported(g.m):
			reason = "method"
		case !pi.valid:
			reason = "path"
		default:
			for _, a := range acc {
				if a.m == g.m && a.clean == pi.clean {
					if regs[a.reg].p == g.p {
						reason = "dup"
					} else {
						lenient = true // same cleaned pattern, different spelling: statement is silent
					}
				}
			}
			if reason == "dup" {
				lenient = false
			}
		}
		switch {
		case lenient:
			if err != nil {
				w.c.SpelledDupRejected++
				continue
			}
			w.c.SpelledDupAccepted++
			return false
		case reason != "" && err == nil:
			sh := pi.shape
			if !pi.valid {
				sh = "relative"
			}
			cls := "reg-accepted-" + reason + ":" + sh
			if reason == "method" {
				cls = "reg-accepted-method:" + methodLabel(allMethods[g.m])
			}
			w.record(cls, regs[:i+1], -1, 0, "Handle("+g.String()+") returns an error ("+reason+")", "nil error")
			return false
		case reason == "" && err != nil:
			cls := "reg-rejected-valid:" + pi.shape
			if pi.unclean {
				cls += "+unclean-pat"
			}
			w.record(cls, regs[:i+1], -1, 0, "Handle("+g.String()+") succeeds", "error: "+err.Error())
			return false
		case reason == "dup":
			w.c.RegDup++
		case reason == "method":
			w.c.RegBadMethod++
		case reason == "path":
			w.c.RegBadPath++
		default:
			w.c.RegOK++
			acc = append(acc, accepted{reg: i, m: g.m, clean: pi.clean})
			hasUnclean = hasUnclean || pi.unclean
		}
	}
	w.acc = acc
	if hasUnclean {
		w.c.UncleanPatTables++
	}
	if hooked {
		if w.nf > len(regs) || w.na > len(regs) {
			vlib.Fatal("harness bug: hook position beyond the table %s%s", tableString(regs), hooksString(w.nf, w.na))
		}
		setHooks(len(regs))
	}
	hookFlag := ""
	if hooked {
		hookFlag = "+hooks"
	}

	for mi := 0; mi < nReqMethods; mi++ {
		if w.onlyMethod >= 0 && mi != w.onlyMethod {
			continue
		}
		reqs := w.reqs[mi]
		for _, pid := range reqSet {
			w.calls, w.gotIdx, w.gotVars = 0, -1, nil
			w.nfCalls, w.naCalls = 0, 0
			w.curMi, w.curPid = mi, pid
			rec := &w.lw
			rec.reset()
			rt.ServeHTTP(rec, reqs[pid])
			if w.crossCheck {
				calls, idx, vars, nfc, nac := w.calls, w.gotIdx, w.gotVars, w.nfCalls, w.naCalls
				std := httptest.NewRecorder()
				rt.ServeHTTP(std, reqs[pid])
				if std.Code != rec.code || allowMask(std.Header()["Allow"]) != allowMask(rec.allow) || w.calls != 2*calls || w.nfCalls != 2*nfc || w.naCalls != 2*nac {
					vlib.Fatal("harness bug: light response writer and httptest.ResponseRecorder disagree on %s%s %s %s", tableString(regs), hooksString(w.nf, w.na), allMethods[mi], paths[pid].raw)
				}
				w.calls, w.gotIdx, w.gotVars, w.nfCalls, w.naCalls = calls, idx, vars, nfc, nac
				w.c.CrossChecked++
			}
			w.c.Evals++
			if !paths[pid].clean {
				w.c.UncleanReq++
			}
			chosen, ncand := refChoose(acc, mi, pid, w.buf)
			if chosen == -2 {
				vlib.Fatal("harness bug: reference ambiguous for %s %s %s", tableString(regs), allMethods[mi], paths[pid].raw)
			}
			if chosen >= 0 {
				a := acc[chosen]
				cp := &cleanPats[a.clean]
				back := needsBacktrack(acc, chosen, pid)
				w.c.Dispatch++
				w.c.Nontrivial++
				if ncand > 1 {
					w.c.DispatchPref++
				}
				if back {
					w.c.DispatchBack++
				}
				if strings.Contains(cp.shape, "V") {
					w.c.WithVars++
				}
				kind := ""
				switch {
				case w.calls == 0:
					kind = "missed-dispatch"
				case w.calls > 1:
					kind = "multi-dispatch"
				case w.nfCalls+w.naCalls > 0:
					kind = "hook-on-dispatch" // a custom NotFound/NotAllowed handler ran although a route matches
				case w.gotIdx != a.reg:
					kind = "wrong-route"
				case !varsEqual(w.gotVars, cp.segs, paths[pid].segs):
					kind = "wrong-vars"
				case rec.code != handlerStatus:
					kind = "wrong-status"
				}
				if w.sampling && (back || ncand > 1) && len(w.samples) < 12 {
					w.samples = append(w.samples, map[string]any{"table": tableString(regs), "request": allMethods[mi] + " " + paths[pid].raw,
						"matching_routes": ncand, "backtracking": back, "reference": "handler of " + allMethods[a.m] + " " + pats[regs[a.reg].p].raw + " vars " + fmtVars(refVars(cp.segs, paths[pid].segs)),
						"observed": w.observed(rec, regs)})
				}
				if kind != "" {
					cls := kind + ":" + cp.shape
					if back {
						cls += "+backtrack"
					} else if ncand > 1 {
						cls += "+pref"
					}
					if pats[regs[a.reg].p].unclean {
						cls += "+unclean-pat"
					}
					cls += reqFlags(pid) + hookFlag
					exp := fmt.Sprintf("handler #%d (%s %s) vars %s status %d", a.reg, allMethods[a.m], pats[regs[a.reg].p].raw,
						fmtVars(refVars(cp.segs, paths[pid].segs)), handlerStatus)
					w.record(cls, regs, mi, pid, exp, w.observed(rec, regs))
				}
				continue
			}
			mask := refAllow(acc, mi, pid)
			kind, exp := "", ""
			hookCalls := w.nfCalls + w.naCalls
			if mask != 0 {
				w.c.R405++
				w.c.Nontrivial++
				exp = "405 Allow=" + maskString(mask)
				if w.na >= 0 {
					// the statement's 405 + Allow clause describes the default answer; with a custom
					// NotAllowed handler installed the router hands the request to it (and the
					// pinned router then sets neither status nor Allow): demand only that this
					// handler is reached exactly once, and no other handler
					exp = "custom NotAllowed handler called once (other methods matching: " + maskString(mask) + ")"
					w.c.HookNA++
				}
				switch {
				case w.calls > 0:
					kind = "spurious-dispatch"
				case hookCalls > 1:
					kind = "hook-multi-call"
				case w.nfCalls > 0:
					kind = "404-instead-of-405" // the not-found path was taken (custom NotFound handler reached)
				case w.na >= 0 && w.naCalls == 1:
				case rec.code == http.StatusNotFound:
					kind = "404-instead-of-405"
				case w.na >= 0:
					kind = "notallowed-hook-missed"
				case rec.code != http.StatusMethodNotAllowed:
					kind = "wrong-status"
				case allowMask(rec.allow) != mask:
					kind = "wrong-allow"
				}
				if w.sampling && len(w.samples) < 12 && len(w.samples)%3 == 2 {
					w.samples = append(w.samples, map[string]any{"table": tableString(regs) + hooksString(w.nf, w.na), "request": allMethods[mi] + " " + paths[pid].raw,
						"reference": exp, "observed": w.observed(rec, regs)})
				}
			} else {
				w.c.R404++
				if partialPrefix(acc, mi, pid) {
					w.c.R404Partial++
					w.c.Nontrivial++
				}
				exp = "404"
				if w.nf >= 0 {
					exp = "custom NotFound handler called once"
					w.c.HookNF++
				}
				switch {
				case w.calls > 0:
					kind = "spurious-dispatch"
				case hookCalls > 1:
					kind = "hook-multi-call"
				case w.naCalls > 0:
					kind = "405-instead-of-404" // the not-allowed path was taken (custom NotAllowed handler reached)
				case w.nf >= 0 && w.nfCalls == 1:
				case rec.code == http.StatusMethodNotAllowed:
					kind = "405-instead-of-404"
				case w.nf >= 0:
					kind = "notfound-hook-missed"
				case rec.code != http.StatusNotFound:
					kind = "wrong-status"
				}
			}
			if kind != "" {
				sh := "none"
				if kind == "spurious-dispatch" && w.gotIdx >= 0 && w.gotIdx < len(regs) {
					if pats[regs[w.gotIdx].p].valid {
						sh = pats[regs[w.gotIdx].p].shape
					} else {
						sh = "relative"
					}
					if !methodSupported(regs[w.gotIdx].m) || !pats[regs[w.gotIdx].p].valid {
						sh += "+rejected-route"
					}
				} else {
					// shape of the smallest route of another method matching the path
					for _, a := range acc {
						if a.m != mi && matchCP[a.clean][pid] {
							sh = cleanPats[a.clean].shape
							break
						}
					}
				}
				w.record(kind+":"+sh+reqFlags(pid)+hookFlag, regs, mi, pid, exp, w.observed(rec, regs))
			}
		}
	}
	if redup {
		w.curMi, w.curPid = -1, -1
		for _, a := range acc {
			g := regs[a.reg]
			err := rt.Handle(allMethods[g.m], pats[g.p].raw, &w.hs[len(w.hs)-1])
			if err == nil {
				w.record("reg-accepted-dup:"+pats[g.p].shape, append(append([]regSpec(nil), regs...), g), -1, 0,
					"second Handle("+g.String()+") returns an error (dup)", "nil error")
			} else {
				w.c.RegDup++
			}
		}
	}
	return true
}

func maxInt(a, b int) int {
	if a > b {
		return a
	}
	return b
}

func methodLabel(s string) string {
	if s == "" {
		return "empty"
	}
	return s
}

// ---- replay artefact ----

type replayReg struct {
	Method  string `json:"method"`
	Pattern string `json:"pattern"`
}

type replayCase struct {
	Routes []replayReg `json:"routes"`
	// custom handlers: installed after that many Handle calls (absent: not installed)
	NotFoundAfter   *int `json:"set_not_found_handler_after,omitempty"`
	NotAllowedAfter *int `json:"set_not_allowed_handler_after,omitempty"`
	// Tree: the routes were added to a search.Tree directly (patterns not cleaned, methods unused)
	Tree bool `json:"direct_search_tree,omitempty"`
	// Server: the case is a program against rest.Server (see server.go); Routes is empty then
	Server   *sProg `json:"server_program,omitempty"`
	ReqMeth  string `json:"request_method,omitempty"`
	ReqPath  string `json:"request_path,omitempty"`
	Expected string `json:"expected"`
	Observed string `json:"observed"`
	GoTest   string `json:"go_test"`
}

func (c *cand) replay() replayCase {
	rc := replayCase{Expected: c.exp, Observed: c.got, Tree: c.tree}
	if c.srv != nil {
		rc.Server = c.srv
		if c.mi >= 0 {
			rc.ReqMeth, rc.ReqPath = allMethods[c.mi], paths[c.pid].raw
		}
		rc.GoTest = goTestSrv(c.srv, rc.ReqMeth, rc.ReqPath, c.exp)
		return rc
	}
	if c.nf >= 0 {
		v := c.nf
		rc.NotFoundAfter = &v
	}
	if c.na >= 0 {
		v := c.na
		rc.NotAllowedAfter = &v
	}
	for _, g := range c.regs {
		rc.Routes = append(rc.Routes, replayReg{allMethods[g.m], pats[g.p].raw})
	}
	if c.mi >= 0 {
		rc.ReqMeth, rc.ReqPath = allMethods[c.mi], paths[c.pid].raw
	}
	rc.GoTest = goTest(rc)
	return rc
}

// goTest renders the case as a plain test against the public API (no harness needed).
func goTest(rc replayCase) string {
	var sb strings.Builder
	if rc.Tree {
		sb.WriteString("func TestC09Repro(t *testing.T) { // in core/search; imports: testing\n")
		sb.WriteString("\ttr := NewTree()\n")
		for i, g := range rc.Routes {
			fmt.Fprintf(&sb, "\tt.Log(tr.Add(%q, %d))\n", g.Pattern, i)
		}
		if rc.ReqPath != "" {
			fmt.Fprintf(&sb, "\tt.Log(tr.Search(%q)) // expected: %s\n", rc.ReqPath, rc.Expected)
		} else {
			fmt.Fprintf(&sb, "\t// expected: %s\n", rc.Expected)
		}
		sb.WriteString("}\n")
		return sb.String()
	}
	sb.WriteString("func TestC09Repro(t *testing.T) { // imports: fmt, net/http, net/http/httptest, testing, rest/pathvar, rest/router\n")
	sb.WriteString("\trt, hit := router.NewRouter(), \"\"\n")
	sb.WriteString("\th := func(n string) http.Handler { return http.HandlerFunc(func(w http.ResponseWriter, r *http.Request) { hit += fmt.Sprint(\"[\", n, \" \", pathvar.Vars(r), \"]\") }) }\n")
	hooks := func(done int) {
		if rc.NotFoundAfter != nil && *rc.NotFoundAfter == done {
			sb.WriteString("\trt.SetNotFoundHandler(h(\"custom NotFound\"))\n")
		}
		if rc.NotAllowedAfter != nil && *rc.NotAllowedAfter == done {
			sb.WriteString("\trt.SetNotAllowedHandler(h(\"custom NotAllowed\"))\n")
		}
	}
	for i, g := range rc.Routes {
		hooks(i)
		fmt.Fprintf(&sb, "\tt.Log(rt.Handle(%q, %q, h(%q)))\n", g.Method, g.Pattern, g.Method+" "+g.Pattern)
	}
	hooks(len(rc.Routes))
	if rc.ReqPath != "" {
		sb.WriteString("\trec := httptest.NewRecorder()\n")
		fmt.Fprintf(&sb, "\trt.ServeHTTP(rec, httptest.NewRequest(%q, %q, nil))\n", rc.ReqMeth, rc.ReqPath)
		fmt.Fprintf(&sb, "\tt.Log(\"hit:\", hit, \"code:\", rec.Code, \"Allow:\", rec.Header().Get(\"Allow\")) // expected: %s\n", rc.Expected)
	} else {
		fmt.Fprintf(&sb, "\t// expected: %s\n", rc.Expected)
	}
	sb.WriteString("}\n")
	return sb.String()
}

// specsOf converts a replay case back to registrations / request ids (adding unknown strings
// to the universes so that replays of hand-written artefacts work too).
func specsOf(rc replayCase) (regs []regSpec, mi, pid int) {
	for _, g := range rc.Routes {
		m := -1
		for i, s := range allMethods {
			if s == g.Method {
				m = i
			}
		}
		if m < 0 {
			allMethods = append(allMethods, g.Method)
			m = len(allMethods) - 1
		}
		p, ok := patByRaw[g.Pattern]
		if !ok {
			vlib.Fatal("replay: pattern %q is outside the enumerated family", g.Pattern)
		}
		regs = append(regs, regSpec{m, p})
	}
	mi, pid = -1, -1
	if rc.ReqPath != "" {
		for i := 0; i < nReqMethods; i++ {
			if allMethods[i] == rc.ReqMeth {
				mi = i
			}
		}
		var ok bool
		pid, ok = pathByRaw[rc.ReqPath]
		if mi < 0 || !ok {
			vlib.Fatal("replay: request %s %q is outside the enumerated family", rc.ReqMeth, rc.ReqPath)
		}
	}
	return
}

func sortedClasses(m map[string]*cand) []string {
	ks := make([]string, 0, len(m))
	for k := range m {
		ks = append(ks, k)
	}
	sort.Slice(ks, func(i, j int) bool {
		a, b := m[ks[i]], m[ks[j]]
		if a.cost != b.cost {
			return a.less(b)
		}
		return ks[i] < ks[j]
	})
	return ks
}
