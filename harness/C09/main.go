// C09 — HTTP router (rest/router/patrouter.go + core/search/tree.go): bounded-exhaustive
// enumeration of route tables x requests against a naive split-and-compare reference matcher.
//
// Families (all enumerated completely, nothing sampled; see NOTES.md for measured sizes):
//
//	main      every ordered table (k-permutation, k <= 3) of the 120 (method, clean pattern) pairs,
//	          plus the empty table; requests {GET,POST,PUT,DELETE} x P1 (every path of 0..3
//	          segments over {a,b,c,empty}); afterwards every route is registered a second time
//	          and must be rejected.
//	ext       every ordered table k <= 2 (thorough: k <= 3); requests x EXT (the "/./", "/../",
//	          trailing and doubled slash spellings not in P1, up to 3 clean segments).
//	unclean   every ordered table k <= 2 with one route re-spelled un-clean (every spelling);
//	          requests x P1; plus (pattern, spelling-of-same-pattern) pairs under one method.
//	badreg    tables k <= 1 with every rejected registration (duplicate, unsupported method,
//	          pattern not starting with '/') at every position; tables k = 2 with duplicates at
//	          every later position and one bad method / bad pattern at the end; requests x P1.
//	hooks     configuration dimension: a custom NotFound and/or NotAllowed handler installed before
//	          the first / after the last registration (thorough: at every position); tables
//	          k <= 2 (thorough: k = 3 with the handlers installed first); requests x P1, and for
//	          k <= 1 also x EXT and every un-clean spelling of the route.
//	tree      core/search.Tree driven directly (no path.Clean in front of it): clean patterns and
//	          their slash-only spellings, every ordered table k <= 2, relative patterns; Search of
//	          every clean path (see tree.go).
//	srv-*     the registration layer in front of the router (rest/server.go, rest/engine.go): programs
//	          of AddRoutes/AddRoute calls with RouteOptions on a real rest.Server, started through
//	          StartWithOpts and aborted before listening (see server.go, srvgen.go).
//	tables4   (thorough) every ordered 4-route table in canonical labelling, under the soft time
//	          box; requests x P1.
//
// Quick enumerates the larger tables of each family (3 routes in main, 2 routes elsewhere) only
// in canonical labelling = one representative per class under renaming of the three route
// methods and of the two literals a/b (see canon); smaller tables are enumerated in every
// labelling. Thorough adds all the other labellings of those tables.
package main

import (
	"flag"
	"fmt"
	"os"
	"runtime/pprof"
	"sort"
	"strings"
	"sync"
	"sync/atomic"
	"time"

	"github.com/zeromicro/go-zero/verifshim/vlib"
)

type unit struct {
	fam string
	run func(w *worker)
}

type famStat struct{ Tables, Evals int64 }

type pool struct {
	cfg      *vlib.Config
	workers  []*worker
	fams     map[string]*famStat
	mu       sync.Mutex
	deadline time.Time
}

func newPool(cfg *vlib.Config, deadline time.Time) *pool {
	n := cfg.Workers
	if n <= 0 {
		n = 16
	}
	p := &pool{cfg: cfg, fams: map[string]*famStat{}, deadline: deadline}
	for i := 0; i < n; i++ {
		p.workers = append(p.workers, newWorker())
	}
	return p
}

// run executes the units on all workers; returns false if the soft deadline cut it short
// (timeboxed phases only; other phases always complete).
func (p *pool) run(units []unit, timeboxed bool) bool {
	_, ok := p.runCount(units, timeboxed)
	return ok
}

// runCount is run that also reports how many units were completed.
func (p *pool) runCount(units []unit, timeboxed bool) (int, bool) {
	if s := int(p.cfg.Seed); s != 0 && len(units) > 0 { // the seed only rotates enumeration order
		k := ((s % len(units)) + len(units)) % len(units)
		units = append(append([]unit(nil), units[k:]...), units[:k]...)
	}
	var next int64 = -1
	var cut int32
	var done int64
	var wg sync.WaitGroup
	for _, w := range p.workers {
		wg.Add(1)
		go func(w *worker) {
			defer wg.Done()
			local := map[string]*famStat{}
			for {
				i := int(atomic.AddInt64(&next, 1))
				if i >= len(units) {
					break
				}
				if timeboxed && time.Now().After(p.deadline) {
					atomic.StoreInt32(&cut, 1)
					break
				}
				t0, e0 := w.c.Tables, w.c.Evals
				units[i].run(w)
				atomic.AddInt64(&done, 1)
				fs := local[units[i].fam]
				if fs == nil {
					fs = &famStat{}
					local[units[i].fam] = fs
				}
				fs.Tables += w.c.Tables - t0
				fs.Evals += w.c.Evals - e0
			}
			p.mu.Lock()
			for k, v := range local {
				fs := p.fams[k]
				if fs == nil {
					fs = &famStat{}
					p.fams[k] = fs
				}
				fs.Tables += v.Tables
				fs.Evals += v.Evals
			}
			p.mu.Unlock()
		}(w)
	}
	wg.Wait()
	return int(done), cut == 0
}

// ---- unit generators ----

// canon: the table is the representative of its class under renaming of the three route methods
// and of the two literals: methods appear in first-use order GET, POST, PUT (restricted growth)
// and the first literal segment met (routes in insertion order, segments left to right) is "a".
// canon(table) implies canon(every prefix of the table).
func canon(regs []regSpec) bool {
	next := 0
	for _, g := range regs {
		if g.m > next {
			return false
		}
		if g.m == next {
			next++
		}
	}
	for _, g := range regs {
		for _, s := range pats[g.p].segs {
			if s != "" && !isVar(s) {
				return s == "a"
			}
		}
	}
	return true
}

// share decides which tier enumerates a table: tables with at most kFull routes are always in
// the quick share with every method labelling; larger ones are in the quick share only in
// canonical labelling, the other labellings form the thorough-only remainder. Quick share and
// remainder partition the family, so every (table, request) pair is generated exactly once.
type share struct {
	kFull int
	rest  bool // false: quick share, true: remainder
}

func (s share) has(regs []regSpec) bool {
	q := len(regs) <= s.kFull || canon(regs)
	return q != s.rest
}

// forTables calls emit for every ordered table (k-permutation of pairs) with the given prefix
// (already in regs) extended to every length up to maxK, the prefix itself included.
func forTables(prefix []int, maxK int, emit func(regs []regSpec)) {
	regs := make([]regSpec, 0, 4)
	used := make([]bool, len(pairs))
	for _, i := range prefix {
		regs = append(regs, pairs[i])
		used[i] = true
	}
	var rec func()
	rec = func() {
		emit(regs)
		if len(regs) >= maxK {
			return
		}
		for i := range pairs {
			if used[i] {
				continue
			}
			used[i] = true
			regs = append(regs, pairs[i])
			rec()
			regs = regs[:len(regs)-1]
			used[i] = false
		}
	}
	rec()
}

// tableUnits splits the ordered tables of size 1..maxK into work units: one per first pair for
// sizes <= 2, one per (first, second) pair for size 3.
func tableUnits(fam string, maxK int, sh share, body func(w *worker, regs []regSpec)) []unit {
	var us []unit
	for u := range pairs {
		u := u
		us = append(us, unit{fam, func(w *worker) {
			forTables([]int{u}, minInt(maxK, 2), func(regs []regSpec) {
				if sh.has(regs) {
					body(w, regs)
				}
			})
		}})
	}
	if maxK >= 3 {
		for u := range pairs {
			for x := range pairs {
				if x == u {
					continue
				}
				u, x := u, x
				if !sh.rest && sh.kFull < 3 && !canon([]regSpec{pairs[u], pairs[x]}) {
					continue // no canonical table has a non-canonical prefix
				}
				us = append(us, unit{fam, func(w *worker) {
					forTables([]int{u, x}, 3, func(regs []regSpec) {
						if len(regs) == 3 && sh.has(regs) {
							body(w, regs)
						}
					})
				}})
			}
		}
	}
	return us
}

func minInt(a, b int) int {
	if a < b {
		return a
	}
	return b
}

func unitsMain(sh share) []unit {
	var us []unit
	if !sh.rest {
		us = append(us, unit{"main", func(w *worker) { w.runTable(nil, setP1, true) }})
	}
	return append(us, tableUnits("main", 3, sh, func(w *worker, regs []regSpec) { w.runTable(regs, setP1, true) })...)
}

// unitsExt: onlyK3 selects the 3-route tables (thorough), otherwise sizes 0..2.
func unitsExt(sh share, onlyK3 bool) []unit {
	if onlyK3 {
		return tableUnits("ext-k3", 3, sh, func(w *worker, regs []regSpec) {
			if len(regs) == 3 {
				w.runTable(regs, setExt, false)
			}
		})
	}
	var us []unit
	if !sh.rest {
		us = append(us, unit{"ext", func(w *worker) { w.crossCheck = true; w.runTable(nil, setExt, false); w.crossCheck = false }})
	}
	return append(us, tableUnits("ext", 2, sh, func(w *worker, regs []regSpec) {
		w.crossCheck = len(regs) == 1
		w.runTable(regs, setExt, false)
		w.crossCheck = false
	})...)
}

func unitsUnclean(sh share) []unit {
	us := tableUnits("unclean", 2, sh, func(w *worker, regs []regSpec) {
		var tmp [4]regSpec
		for pos := range regs {
			for _, sp := range spellingsOf[regs[pos].p] {
				t := append(tmp[:0], regs...)
				t[pos].p = sp
				w.runTable(t, setP1, true)
			}
		}
		if len(regs) == 1 {
			// the same cleaned pattern under the same method in two spellings, both orders
			for _, sp := range spellingsOf[regs[0].p] {
				w.runTable([]regSpec{regs[0], {regs[0].m, sp}}, setP1, false)
				w.runTable([]regSpec{{regs[0].m, sp}, regs[0]}, setP1, false)
			}
		}
	})
	return us
}

func insertAt(regs []regSpec, pos int, g regSpec) []regSpec {
	out := make([]regSpec, 0, len(regs)+1)
	out = append(out, regs[:pos]...)
	out = append(out, g)
	return append(out, regs[pos:]...)
}

func unitsBadReg(sh share) []unit {
	small := []int{patByRaw["/"], patByRaw["/a"], patByRaw["/:v1"]}
	bads := func(base []regSpec) []regSpec {
		var out []regSpec
		ps := append([]int(nil), small...)
		ms := []int{0}
		if len(base) > 0 {
			ps = append(ps, base[0].p)
			if base[0].m != 0 {
				ms = append(ms, base[0].m)
			}
		}
		for m := firstBadMeth; m < len(allMethods); m++ {
			seen := map[int]bool{}
			for _, p := range ps {
				if !seen[p] {
					seen[p] = true
					out = append(out, regSpec{m, p})
				}
			}
		}
		for _, p := range badPats {
			for _, m := range ms {
				out = append(out, regSpec{m, p})
			}
		}
		out = append(out, regSpec{firstBadMeth + 2, badPats[1]}) // both wrong
		return out
	}
	var us []unit
	if !sh.rest {
		us = append(us, unit{"badreg", func(w *worker) {
			w.crossCheck = true
			for _, b := range bads(nil) {
				w.runTable([]regSpec{b}, setP1, false)
			}
			w.crossCheck = false
		}})
	}
	return append(us, tableUnits("badreg", 2, sh, func(w *worker, regs []regSpec) {
		if len(regs) == 1 {
			w.crossCheck = true
			for _, b := range bads(regs) {
				w.runTable(insertAt(regs, 0, b), setP1, false)
				w.runTable(insertAt(regs, 1, b), setP1, false)
			}
			w.runTable([]regSpec{regs[0], regs[0]}, setP1, false)
			w.runTable([]regSpec{regs[0], regs[0], regs[0]}, setP1, false)
			w.crossCheck = false
			return
		}
		r0, r1 := regs[0], regs[1]
		w.runTable([]regSpec{r0, r0, r1}, setP1, false)
		w.runTable([]regSpec{r0, r1, r0}, setP1, false)
		w.runTable([]regSpec{r0, r1, r1}, setP1, false)
		w.runTable([]regSpec{r0, r1, {firstBadMeth + 2, r0.p}}, setP1, false)
		rel := patByRaw[pats[r1.p].raw[1:]] // r1's pattern without the leading '/'
		w.runTable([]regSpec{r0, r1, {r1.m, rel}}, setP1, false)
	})...)
}

// ---- configuration dimension "hooks": custom NotFound / NotAllowed handlers ----

// hookConfigs lists the (nf, na) installation positions for a table of k routes; a position is
// the number of Handle calls made before the Set call (0 = before every registration, k = after
// all), -1 = handler not installed. The default configuration (-1, -1) is never included (it is
// what every other family runs). quick: each handler absent / installed first / installed last;
// full: every position 0..k for each handler.
func hookConfigs(k int, full bool) [][2]int {
	pos := []int{-1, 0}
	if full {
		for i := 1; i <= k; i++ {
			pos = append(pos, i)
		}
	} else if k > 0 {
		pos = append(pos, k)
	}
	var out [][2]int
	for _, nf := range pos {
		for _, na := range pos {
			if nf >= 0 || na >= 0 {
				out = append(out, [2]int{nf, na})
			}
		}
	}
	return out
}

func inQuickHookConfigs(k int, c [2]int) bool {
	ok := func(p int) bool { return p == -1 || p == 0 || p == k }
	return ok(c[0]) && ok(c[1])
}

func (w *worker) withHooks(c [2]int, f func()) {
	w.nf, w.na = c[0], c[1]
	f()
	w.nf, w.na = -1, -1
}

// unitsHooks: tables k <= 2 (share sh decides the labellings of the 2-route tables) x hook
// configurations x P1; rest=false (quick share): first/last positions, plus - for k <= 1 - the EXT
// request spellings and every un-clean spelling of the route with the handlers installed first.
// rest=true (thorough remainder): the other labellings with every position, and the middle
// positions on the quick share's tables.
func unitsHooks(sh share) []unit {
	body := func(w *worker, regs []regSpec) {
		k := len(regs)
		canonQuick := k <= sh.kFull || canon(regs)
		if !sh.rest && !canonQuick {
			return // other labellings: thorough remainder
		}
		for _, c := range hookConfigs(k, sh.rest) {
			if sh.rest && canonQuick && inQuickHookConfigs(k, c) {
				continue // done by the quick share
			}
			w.withHooks(c, func() {
				w.crossCheck = k <= 1 && !sh.rest
				w.runTable(regs, setP1, true)
				w.crossCheck = false
			})
		}
		if sh.rest || k > 1 {
			return
		}
		var tmp [1]regSpec
		for _, c := range [][2]int{{0, -1}, {-1, 0}, {0, 0}} {
			w.withHooks(c, func() {
				w.runTable(regs, setExt, false)
				if k == 1 {
					for _, sp := range spellingsOf[regs[0].p] {
						tmp[0] = regSpec{regs[0].m, sp}
						w.runTable(tmp[:], setP1, false)
					}
				}
			})
		}
	}
	var us []unit
	if !sh.rest {
		us = append(us, unit{"hooks", func(w *worker) { body(w, nil) }})
	}
	all := share{kFull: 2} // visit every table; body sorts out which configurations belong to this share
	return append(us, tableUnits("hooks", 2, all, body)...)
}

// unitsHooks3 (thorough): 3-route tables in canonical labelling with the handlers installed
// before the registrations.
func unitsHooks3() []unit {
	return tableUnits("hooks-k3", 3, share{kFull: 2}, func(w *worker, regs []regSpec) {
		if len(regs) != 3 {
			return
		}
		for _, c := range [][2]int{{0, -1}, {-1, 0}, {0, 0}} {
			w.withHooks(c, func() { w.runTable(regs, setP1, false) })
		}
	})
}

// unitsTables4: every ordered 4-route table in canonical method/literal labelling, one unit per
// canonical 3-route prefix (thorough; time-boxed).
func unitsTables4() []unit {
	var us []unit
	forTables(nil, 3, func(regs []regSpec) {
		if len(regs) != 3 || !canon(regs) {
			return
		}
		prefix := make([]int, 3)
		for i, g := range regs {
			prefix[i] = g.p*nRouteMethods + g.m // index in pairs (pattern-major)
		}
		us = append(us, unit{"tables4", func(w *worker) {
			forTables(prefix, 4, func(t []regSpec) {
				if len(t) == 4 && canon(t) {
					w.runTable(t, setP1, false)
				}
			})
		}})
	})
	return us
}

// sampleRun executes a few hand-picked tables single-threaded to record deterministic samples
// for the evidence file (not counted anywhere).
func sampleRun() []any {
	w := newWorker()
	w.sampling = true
	mk := func(specs ...string) []regSpec {
		var out []regSpec
		for i := 0; i+1 < len(specs); i += 2 {
			m := 0
			for j, s := range allMethods {
				if s == specs[i] {
					m = j
				}
			}
			out = append(out, regSpec{m, patByRaw[specs[i+1]]})
		}
		return out
	}
	w.runTable(mk("GET", "/a/b", "GET", "/:v1/a", "POST", "/:v1/:v2"), []int{pathByRaw["/a/a"], pathByRaw["/a//b/"], pathByRaw["/c/b"]}, false)
	w.runTable(mk("PUT", "/a/:v2/a", "PUT", "/:v1/b/b", "PUT", "/a/b/:v3"), []int{pathByRaw["/a/b/b"], pathByRaw["/a/b/a"], pathByRaw["/a/c/a"]}, false)
	w.runTable(mk("GET", "/", "GET", "/:v1", "POST", "/:v1"), []int{pathByRaw["/"], pathByRaw["//"], pathByRaw["/c/"]}, false)
	return w.samples
}

func main() {
	only := flag.String("phases", "", "developer aid: run only the phases whose name starts with one of these comma-separated prefixes (the run is then marked non-exhaustive)")
	verbose := flag.Bool("v", false, "developer aid: print the wall time of every phase to stderr")
	prof := flag.String("cpuprofile", "", "developer aid: write a CPU profile of the run to this file")
	cfg := vlib.ParseFlags("C09", "exploration")
	if *prof != "" {
		if f, err := os.Create(*prof); err == nil {
			_ = pprof.StartCPUProfile(f)
			stopProfile = func() { pprof.StopCPUProfile(); f.Close() }
		}
	}
	want := func(name string) bool {
		if *only == "" {
			return true
		}
		for _, p := range strings.Split(*only, ",") {
			if strings.HasPrefix(name, p) {
				return true
			}
		}
		return false
	}
	silenceLogs()
	buildUniverse()
	buildPairs()
	buildTreeFamily()
	r := vlib.NewReport(cfg)

	if cfg.Replay != "" {
		var rc replayCase
		class, err := vlib.LoadReplay(cfg.Replay, &rc)
		if err != nil {
			vlib.Fatal("cannot load replay: %v", err)
		}
		if rc.Server != nil {
			replayServer(cfg, class, &rc)
		}
		regs, mi, pid := specsOf(rc)
		w := newWorker()
		reqSet := []int{}
		if pid >= 0 {
			reqSet = []int{pid}
		}
		w.onlyMethod = mi
		if rc.NotFoundAfter != nil {
			w.nf = *rc.NotFoundAfter
		}
		if rc.NotAllowedAfter != nil {
			w.na = *rc.NotAllowedAfter
		}
		if rc.Tree {
			if pid >= 0 {
				treePaths = []int{pid}
			}
			w.runTree(regs)
		} else {
			w.runTable(regs, reqSet, false)
		}
		fmt.Printf("replay class=%s %s", class, caseString(regs, w.nf, w.na, rc.Tree, mi, pid))
		fmt.Printf("\nrecorded: expected %s; observed %s\n", rc.Expected, rc.Observed)
		if len(w.viol) == 0 {
			fmt.Println("now: the case passes (reference and router agree)")
			os.Exit(0)
		}
		for _, k := range sortedClasses(w.viol) {
			v := w.viol[k]
			fmt.Printf("now: class=%s expected %s; observed %s\n", v.class, v.exp, v.got)
		}
		fmt.Printf("VIOLATION property=%s replay=%s\n", cfg.ID, cfg.Replay)
		os.Exit(1)
	}

	// soft time box: quick is sized to complete (the box is only a safety net); in thorough the
	// 4-route phase is expected to be cut by it on a loaded machine.
	deadline := cfg.Deadline()
	if cfg.BudgetS == 0 {
		box := 200 * time.Second
		if cfg.Thorough() {
			box = 1020 * time.Second
		}
		if d := cfg.Start.Add(box); d.Before(deadline) {
			deadline = d
		}
	}
	p := newPool(cfg, deadline)

	for _, s := range sampleRun() {
		r.Sample(s)
	}

	type phase struct {
		name  string
		units []unit
	}
	qMain, qSmall := share{kFull: 2}, share{kFull: 1}
	phases := []phase{
		// the server-level families come first: they are cheap, and the soft box must never cut them
		{"srv-alias", unitsSrvAlias(shareQuick)},
		{"srv-opts", unitsSrvOpts(shareQuick)},
		{"srv-conf", unitsSrvConf(shareQuick)},
		{"main", unitsMain(qMain)},
		{"ext", unitsExt(qSmall, false)},
		{"unclean", unitsUnclean(qSmall)},
		{"badreg", unitsBadReg(qSmall)},
		{"hooks", unitsHooks(qSmall)},
		{"tree", unitsTree()},
	}
	if cfg.Thorough() {
		qMain.rest, qSmall.rest = true, true
		phases = append(phases,
			phase{"main (other method/literal labellings of 3-route tables)", unitsMain(qMain)},
			phase{"unclean (other method/literal labellings of 2-route tables)", unitsUnclean(qSmall)},
			phase{"badreg (other method/literal labellings of 2-route tables)", unitsBadReg(qSmall)},
			phase{"ext (other method/literal labellings of 2-route tables)", unitsExt(qSmall, false)},
			phase{"hooks (other labellings of 2-route tables, every installation position)", unitsHooks(qSmall)},
			phase{"hooks-k3 (3-route tables, canonical labelling, handlers installed first)", unitsHooks3()},
			phase{"srv-alias (3 calls over every form, extended pool, two slice values)", unitsSrvAlias(shareRest)},
			phase{"srv-opts (lists of 2 options and 2-call programs on every slice, lists of 3 options)", unitsSrvOpts(shareRest)},
			phase{"srv-conf (every slice, 9 programs)", unitsSrvConf(shareRest)},
		)
	}
	if want("srv-print") {
		runSrvPrint(p.workers[0]) // swaps os.Stdout: before any worker goroutine runs
	}
	complete := true
	if *only != "" {
		r.NotExhaustive("phase filter -phases=" + *only)
	}
	phaseWall := map[string]float64{}
	for _, ph := range phases {
		if !want(ph.name) {
			continue
		}
		t0 := time.Now()
		ok := !time.Now().After(deadline) && p.run(ph.units, true)
		phaseWall[ph.name] = float64(time.Since(t0).Milliseconds()) / 1000
		if *verbose {
			fmt.Fprintf(os.Stderr, "phase %s: %.1fs\n", ph.name, phaseWall[ph.name])
		}
		if !ok {
			r.NotExhaustive("soft time box reached during phase \"" + ph.name + "\"; the phases before it are complete")
			complete = false
			break
		}
	}
	if cfg.Thorough() {
		if complete && want("tables4") {
			us := unitsTables4()
			done, ok := p.runCount(us, true)
			r.SetExtra("tables4_units", map[string]int{"completed": done, "total": len(us)})
			if !ok {
				r.NotExhaustive(fmt.Sprintf("4-route tables (every insertion order, canonical method/literal labelling): %d of %d work units (one per canonical 3-route prefix, simplest first) completed before the soft time box; ext-k3 not run", done, len(us)))
			} else if !want("ext-k3") {
			} else if time.Now().After(deadline) || !p.run(unitsExt(share{kFull: 2}, true), true) {
				r.NotExhaustive("soft time box reached during phase \"ext-k3 (EXT request spellings on 3-route tables, canonical labelling)\"; all other phases are complete")
			}
		}
		r.Assume("symmetry reduction (thorough): 4-route tables, and 3-route tables under the EXT request spellings, are enumerated modulo renaming of the route methods GET/POST/PUT and of the literals a/b (one canonical representative per class, every insertion order); all tables with <= 3 routes are enumerated in every labelling under the P1 requests")
	} else {
		r.Assume("symmetry reduction (quick): 3-route tables of the main family and 2-route tables of the ext/unclean/badreg families are enumerated modulo renaming of the route methods GET/POST/PUT and of the literals a/b (one canonical representative per class, every insertion order); smaller tables are enumerated in every labelling; the thorough tier enumerates every labelling")
	}

	// merge
	var tot counters
	viol := map[string]*cand{}
	var stot srvCounters
	for _, w := range p.workers {
		tot.add(&w.c)
		if w.srv != nil {
			stot.add(&w.srv.c)
		}
		for k, v := range w.viol {
			if old := viol[k]; old == nil || v.less(old) {
				viol[k] = v
			}
		}
	}
	r.Eval(int(tot.Evals))
	r.Distinct += tot.Nontrivial // every (table, request) pair is generated exactly once, so the count is a distinct count
	cnt := map[string]int64{
		"tables": tot.Tables, "requests_served": tot.Evals,
		"dispatched": tot.Dispatch, "dispatched_with_2plus_matching_routes": tot.DispatchPref,
		"dispatched_after_backtracking_from_literal_branch": tot.DispatchBack, "dispatched_with_path_variables": tot.WithVars,
		"answered_405": tot.R405, "answered_404": tot.R404, "answered_404_after_partial_match": tot.R404Partial,
		"unclean_request_spellings_served": tot.UncleanReq, "tables_with_unclean_pattern_spelling": tot.UncleanPatTables,
		"registrations_accepted": tot.RegOK, "registrations_rejected_duplicate": tot.RegDup,
		"registrations_rejected_unsupported_method": tot.RegBadMethod, "registrations_rejected_relative_pattern": tot.RegBadPath,
		"respelled_duplicate_rejected": tot.SpelledDupRejected, "respelled_duplicate_accepted_table_skipped": tot.SpelledDupAccepted,
		"oracle_failures_total": tot.Failures, "requests_cross_checked_with_httptest_recorder": tot.CrossChecked,
		"tables_with_custom_notfound_or_notallowed_handler": tot.HookTables,
		"requests_that_must_reach_custom_notfound_handler":  tot.HookNF, "requests_that_must_reach_custom_notallowed_handler": tot.HookNA,
		"direct_tree_tables": tot.TreeTables, "direct_tree_searches": tot.TreeSearches,
		"direct_tree_empty_segment_route_rejected": tot.TreeDupSlashRejected, "direct_tree_empty_segment_route_accepted_as_clean": tot.TreeEmptySegAccepted,
	}
	for k, v := range stot.counts() {
		cnt[k] = v
	}
	for k, v := range cnt {
		r.Count(k, int(v))
	}
	fams := make([]string, 0, len(p.fams))
	for k := range p.fams {
		fams = append(fams, k)
	}
	sort.Strings(fams)
	for _, k := range fams {
		r.Scenario(k, map[string]int64{"tables": p.fams[k].Tables, "requests": p.fams[k].Evals})
	}
	r.SetExtra("family_sizes", map[string]int{
		"route_methods": nRouteMethods, "request_methods": nReqMethods, "clean_patterns": len(cleanPats),
		"method_pattern_pairs": len(pairs), "unclean_pattern_spellings": nUnclean,
		"relative_patterns": nRelative, "unsupported_methods": len(allMethods) - firstBadMeth,
		"request_paths_P1": len(setP1), "request_paths_EXT": len(setExt),
		"direct_tree_routes": len(treeRoutes), "direct_tree_search_paths": len(treePaths),
	})
	r.SetRule("bounded-exhaustive: every ordered route table (insertion order = enumeration order) of the families in main.go is built on a fresh router.NewRouter() and " +
		"every request method x path of its request set is served through ServeHTTP; each (table, configuration, request) triple is generated exactly once. " +
		"Configuration = default router, or (family hooks) a custom NotFound and/or NotAllowed handler installed before/after the registrations; family tree drives " +
		"core/search.Tree directly (Add of clean and slash-only spellings, Search of clean paths). " +
		"Families srv-* drive the registration layer in front of the router: a program = 1-2 []rest.Route values x 1-3 AddRoutes/AddRoute calls (the same value again, a sub-slice, a copy, rest.WithMiddleware's result) x ordered RouteOption lists x (RestConf, RunOptions, Use) on a real rest.Server, started through StartWithOpts and aborted before listening; Routes(), the Start verdict, the caller's slices and every request of the universe through the server's handler are compared with the reference table computed from the calls. " +
		"evaluations = requests served (or direct tree searches) compared with the reference matcher. distinct_nontrivial = (table, request) pairs in which at least one registered route " +
		"is involved in the verdict: a handler must be dispatched, a 405 with an Allow set must be produced, or a 404 must be produced although a route of the " +
		"request's method matches the first segment (search descends and must fail); 404s on tables where nothing matches even the first segment are not counted.")
	r.Assume("server-level families (srv-*): the reference table of a program is the concatenation over its AddRoutes/AddRoute calls of (method, path.Join semantics of the WithPrefix options applied in order to the pattern); no other RouteOption, RunOption or middleware changes which route a request is dispatched to. Requests that the reference dispatches into a WithJwt group carry a valid token of that group, all others none (authentication is outside C09). WithCors installs its own NotAllowed handler and is judged like a custom one (no route handler, not the NotFound handler). Programs whose table breaks the statement's precondition (two variable names at one position under one prefix, or one name bound twice in a route) are executed up to Start and then skipped (counted)")
	r.Assume("route tables use one variable name per position (:v<depth>), as the statement's precondition requires; this is asserted when the pattern family is built")
	r.Assume("custom NotAllowed handler installed: the statement's '405 + Allow' describes the default answer; with the custom handler only 'that handler is reached exactly once, no route handler, not the NotFound handler' is demanded (the pinned router sets neither status nor Allow then); likewise for the custom NotFound handler")
	r.Assume("direct search.Tree family: a route with empty segments (//a, /a//b, /a/) may be rejected (then it must leave no trace) or accepted (then it must behave exactly as its clean spelling); the statement only fixes the router level, where such spellings are cleaned before they reach the tree")
	r.Assume("two registrations under one method whose patterns differ in spelling but clean to the same pattern: the statement is silent; rejection is accepted, acceptance makes the table skipped (counted)")
	for _, k := range sortedClasses(viol) {
		v := viol[k]
		desc := v.describe() + ": expected " + v.exp + "; observed " + v.got
		r.Violation(v.class, desc, v.replay())
	}
	r.SetExtra("phase_wall_s", phaseWall)
	stopProfile()
	r.Finish()
}

var stopProfile = func() {}
