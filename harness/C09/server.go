package main

// Family "server": the registration layer in front of the router (rest/server.go, rest/engine.go).
// A route table reaches the router only after it went through rest.Server: AddRoutes / AddRoute with
// RouteOptions (WithPrefix rewrites the patterns, the others set features of the group), the
// engine's list of route groups, Routes(), and - at Start - engine.bindRoutes, which wraps every
// handler in the middleware chain and hands (method, pattern, handler) to router.Handle.
//
// What is enumerated is a small PROGRAM against the public API only:
//
//	slices  one or two []rest.Route values s0, s1 (1-2 routes each; relative / empty / un-clean
//	        patterns and an unsupported method included)
//	calls   1-3 registrations, each = (which slice value: the SAME value again, a sub-slice s[:1]
//	        sharing its backing array, a fresh copy, one AddRoute per element, or the slice returned
//	        by rest.WithMiddleware(mw, s...)) x (an ordered list of RouteOptions: WithPrefix(p) with
//	        several p, WithJwt, WithJwtTransition, WithTimeout, WithMaxBytes, WithPriority, WithSSE,
//	        WithSignature)
//	config  RestConf bare or with every native middleware switched on, RunOptions
//	        (WithNotFoundHandler, WithNotAllowedHandler, WithRouter, WithCors), Server.Use
//
// then Routes() is read, the server is started through the public StartWithOpts with one extra
// StartOption that captures the *http.Server that is about to listen and aborts (nothing ever
// listens; this is the value engine.start would have served with), and every request of the
// universe is served through that server's Handler.
//
// Reference (written from the statement + the documentation of the options, shares no code with
// rest): the table is the concatenation over the calls of (method, join(prefixes..., pattern)); the
// other options do not change the table. Oracles:
//   - Start fails iff the table holds an unsupported method, a pattern not starting with '/', or
//     the same (method, pattern) twice (statement, last clause) - never for a table of distinct
//     valid routes;
//   - every request is dispatched / answered 405+Allow / 404 exactly as the statement says for that
//     table (same reference matcher rules as the router-level families, re-implemented on strings);
//   - Routes() lists exactly the registered (method, pattern) pairs (as a multiset);
//   - the caller's slices still hold the methods and patterns the caller wrote (they are what the
//     caller registers with the next call; a registration must not change a later one).
//
// Requests that the reference dispatches into a group registered WithJwt carry a token signed with
// that group's secret (authentication itself is not C09's business); all other requests carry none,
// so a group without WithJwt must be reachable without a token.

import (
	"crypto/tls"
	"fmt"
	"io"
	"io/fs"
	"net/http"
	"net/http/httptest"
	"os"
	"path"
	"sort"
	"strconv"
	"strings"
	"time"

	"github.com/golang-jwt/jwt/v4"
	"github.com/zeromicro/go-zero/core/logx"
	"github.com/zeromicro/go-zero/rest"
	"github.com/zeromicro/go-zero/rest/chain"
	"github.com/zeromicro/go-zero/rest/pathvar"
	"github.com/zeromicro/go-zero/rest/router"
	"github.com/zeromicro/go-zero/verifshim/vlib"
)

// ---- program model (also the replay artefact) ----

type sRoute struct {
	Method string `json:"method"`
	Path   string `json:"path"`
}

type sOpt struct {
	Kind string `json:"opt"`
	Arg  string `json:"arg,omitempty"`
}

const (
	oPrefix   = "WithPrefix"
	oJwt      = "WithJwt"
	oJwtT     = "WithJwtTransition"
	oTimeout  = "WithTimeout"
	oMaxBytes = "WithMaxBytes"
	oPriority = "WithPriority"
	oSSE      = "WithSSE"
	oSig      = "WithSignature"

	viaAddRoutes = ""               // AddRoutes(s, opts...)
	viaAddRoute  = "AddRoute"       // one AddRoute(s[i], opts...) per element
	viaMw        = "WithMiddleware" // AddRoutes(rest.WithMiddleware(mw, s...), opts...)
	viaMws       = "WithMiddlewares"

	secretA = "verif-secret-A"
	secretB = "verif-secret-B"
)

type sCall struct {
	Slice int    `json:"slice"`          // index of the slice value
	Len   int    `json:"len,omitempty"`  // > 0: s[:Len], a sub-slice sharing the backing array
	Copy  bool   `json:"copy,omitempty"` // a fresh copy of the value (what a slice literal at the call site is)
	Via   string `json:"via,omitempty"`
	Opts  []sOpt `json:"opts,omitempty"`
}

type sProg struct {
	Conf   string     `json:"conf,omitempty"`        // "" = rest.RestConf{}; "chain" = every native middleware on
	Run    []string   `json:"run_options,omitempty"` // notfound, notallowed, router, cors (in this order of application)
	Use    bool       `json:"use,omitempty"`         // Server.Use(middleware) before the registrations
	Slices [][]sRoute `json:"slices"`
	Calls  []sCall    `json:"calls"`
}

func (c sCall) ref() string {
	s := "s" + strconv.Itoa(c.Slice)
	if c.Len > 0 {
		s += "[:" + strconv.Itoa(c.Len) + "]"
	}
	if c.Copy {
		s = "copyOf(" + s + ")"
	}
	return s
}

func optString(o sOpt) string {
	switch o.Kind {
	case oPrefix:
		return "WithPrefix(" + strconv.Quote(o.Arg) + ")"
	case oJwt:
		return "WithJwt(" + o.Arg + ")"
	case oJwtT:
		return "WithJwtTransition(" + o.Arg + ")"
	}
	return o.Kind + "()"
}

func (p *sProg) String() string {
	var sb strings.Builder
	sb.WriteString("server")
	if p.Conf != "" || len(p.Run) > 0 || p.Use {
		var cf []string
		if p.Conf != "" {
			cf = append(cf, "conf="+p.Conf)
		}
		cf = append(cf, p.Run...)
		if p.Use {
			cf = append(cf, "Use(mw)")
		}
		sb.WriteString("(" + strings.Join(cf, ",") + ")")
	}
	for i, s := range p.Slices {
		fmt.Fprintf(&sb, " s%d=[", i)
		for j, r := range s {
			if j > 0 {
				sb.WriteString(", ")
			}
			sb.WriteString(r.Method + " " + strconv.Quote(r.Path))
		}
		sb.WriteString("]")
	}
	sb.WriteString(":")
	for _, c := range p.Calls {
		var as []string
		switch c.Via {
		case viaAddRoute:
			as = append(as, "each of "+c.ref())
		case viaMw, viaMws:
			as = append(as, c.Via+"(mw, "+c.ref()+"...)")
		default:
			as = append(as, c.ref())
		}
		for _, o := range c.Opts {
			as = append(as, optString(o))
		}
		name := "AddRoutes"
		if c.Via == viaAddRoute {
			name = "AddRoute"
		}
		sb.WriteString(" " + name + "(" + strings.Join(as, ", ") + ");")
	}
	return sb.String()
}

// reused reports whether some call uses a slice value (in any form: the value itself, a sub-slice,
// a copy made at call time, its elements) after an earlier call was handed that value's backing
// array - the aliasing that in-place transformations of a registered slice are sensitive to.
func (p *sProg) reused() bool {
	given := map[int]bool{}
	for _, c := range p.Calls {
		if given[c.Slice] {
			return true
		}
		if !c.Copy && c.Via == viaAddRoutes {
			given[c.Slice] = true
		}
	}
	return false
}

func (p *sProg) plain() bool { return p.Conf == "" && len(p.Run) == 0 && !p.Use }

// ---- reference ----

// refJoin is the documented effect of WithPrefix ("adds group as a prefix to the route paths",
// i.e. path.Join semantics): non-empty elements joined by '/', then cleaned. Only the shapes of the
// family occur (no ".." in a relative result); cross-checked against path.Join at start-up.
func refJoin(group, p string) string {
	var el []string
	for _, e := range []string{group, p} {
		if e != "" {
			el = append(el, e)
		}
	}
	if len(el) == 0 {
		return ""
	}
	j := strings.Join(el, "/")
	if j[0] == '/' {
		segs, _ := refClean(j)
		return joinSegs(segs)
	}
	var out []string
	for _, s := range strings.Split(j, "/") {
		switch s {
		case "", ".":
		case "..":
			vlib.Fatal("harness bug: refJoin(%q, %q): '..' in a relative path is outside the family", group, p)
		default:
			out = append(out, s)
		}
	}
	if len(out) == 0 {
		return "."
	}
	return strings.Join(out, "/")
}

type sEntry struct {
	method string
	mi     int // index in allMethods (request methods only), -1 otherwise
	raw    string
	okM    bool // supported method
	okP    bool // pattern starts with '/'
	segs   []string
	hid    int // handler identity: slice*8 + element
	call   int
	secret string // token the group demands ("" = none)
	viaMw  bool
}

func (e *sEntry) String() string { return e.method + " " + strconv.Quote(e.raw) }

var supportedMethods = map[string]bool{"DELETE": true, "GET": true, "HEAD": true, "OPTIONS": true, "PATCH": true, "POST": true, "PUT": true}

func (p *sProg) table() []sEntry {
	var tab []sEntry
	for ci, c := range p.Calls {
		s := p.Slices[c.Slice]
		if c.Len > 0 {
			s = s[:c.Len]
		}
		secret := ""
		for _, o := range c.Opts {
			switch o.Kind {
			case oJwt:
				secret = secretOf(o.Arg)
			case oJwtT:
				secret = secretOf(strings.Split(o.Arg, ",")[0])
			}
		}
		for j, r := range s {
			raw := r.Path
			for _, o := range c.Opts {
				if o.Kind == oPrefix {
					raw = refJoin(o.Arg, raw)
				}
			}
			e := sEntry{method: r.Method, mi: -1, raw: raw, okM: supportedMethods[r.Method], hid: c.Slice*8 + j, call: ci, secret: secret,
				viaMw: c.Via == viaMw || c.Via == viaMws}
			for i := 0; i < nReqMethods; i++ {
				if allMethods[i] == r.Method {
					e.mi = i
				}
			}
			e.segs, e.okP = refClean(raw)
			tab = append(tab, e)
		}
	}
	return tab
}

func secretOf(name string) string {
	if strings.TrimSpace(name) == "B" {
		return secretB
	}
	return secretA
}

func sameSegs(a, b []string) bool {
	if len(a) != len(b) {
		return false
	}
	for i := range a {
		if a[i] != b[i] {
			return false
		}
	}
	return true
}

// srvVerdict: what Start must do with the table. bad = index of the first entry that must be
// rejected (-1: none), lenient = index of the first entry (before bad) that re-spells an accepted
// pattern of its method (the statement is silent on those; -1: none).
func srvVerdict(tab []sEntry) (bad int, reason string, lenient int) {
	bad, lenient = -1, -1
	for i := range tab {
		e := &tab[i]
		switch {
		case !e.okM:
			return i, "method", lenient
		case !e.okP:
			return i, "path", lenient
		}
		for j := 0; j < i; j++ {
			if tab[j].method == e.method && sameSegs(tab[j].segs, e.segs) {
				if tab[j].raw == e.raw {
					return i, "dup", lenient
				}
				if lenient < 0 {
					lenient = i
				}
			}
		}
	}
	return -1, "", lenient
}

// srvPrecondition: one variable name per position under a given prefix (two routes that agree on
// their first i segments do not both have a variable with different names at segment i), and no
// route binds one name twice (then "the segments bound by that route" would not be a map).
func srvPrecondition(tab []sEntry) bool {
	for i := range tab {
		names := map[string]bool{}
		for _, s := range tab[i].segs {
			if isVar(s) {
				if names[s] {
					return false
				}
				names[s] = true
			}
		}
		for j := 0; j < i; j++ {
			a, b := tab[i].segs, tab[j].segs
			for k := 0; k < len(a) && k < len(b); k++ {
				if a[k] != b[k] {
					if isVar(a[k]) && isVar(b[k]) {
						return false
					}
					break
				}
			}
		}
	}
	return true
}

// srvChoose: the matching route of the method that prefers a literal at the first segment where
// the candidates differ (-1: none; -2: ambiguous = harness bug under the precondition).
func srvChoose(tab []sEntry, method string, req []string, buf []int) (chosen, ncand int) {
	cands := buf[:0]
	for i := range tab {
		if tab[i].method == method && refMatch(tab[i].segs, req) {
			cands = append(cands, i)
		}
	}
	ncand = len(cands)
	if ncand == 0 {
		return -1, 0
	}
	for pos := 0; pos < len(req) && len(cands) > 1; pos++ {
		lit, vr := false, false
		for _, c := range cands {
			if isVar(tab[c].segs[pos]) {
				vr = true
			} else {
				lit = true
			}
		}
		if lit && vr {
			k := 0
			for _, c := range cands {
				if !isVar(tab[c].segs[pos]) {
					cands[k] = c
					k++
				}
			}
			cands = cands[:k]
		}
	}
	if len(cands) != 1 {
		return -2, ncand
	}
	return cands[0], ncand
}

func srvAllow(tab []sEntry, method string, req []string) (mask uint, other bool) {
	for i := range tab {
		if tab[i].method != method && refMatch(tab[i].segs, req) {
			other = true
			if tab[i].mi >= 0 {
				mask |= 1 << uint(tab[i].mi)
			} else {
				mask |= 1 << 30
			}
		}
	}
	return mask, other
}

// ---- request universe of the family ----

var (
	// setSrvDepth[d]: every clean path of 0..d segments over {a,b,c} (d = 1..4) plus four un-clean
	// spellings ("//", "/a/", "//a", "/a//b": the server's handler must clean as the router does)
	setSrvDepth   [5][]int
	setSrvShallow []int // paths of at most one segment (the DELETE probes)
)

func buildServerUniverse() {
	var unclean []int
	for _, raw := range []string{"//", "/a/", "//a", "/a//b"} {
		id, _ := addPath(raw)
		unclean = append(unclean, id)
	}
	var acc []int
	for n := 0; n <= 4; n++ {
		product(n, func(int) []string { return []string{"a", "b", "c"} }, func(s []string) {
			id, _ := addPath(joinSegs(s))
			acc = append(acc, id)
		})
		if n >= 1 {
			setSrvDepth[n] = append(append([]int(nil), acc...), unclean...)
		}
		if n == 1 {
			setSrvShallow = append([]int(nil), acc...)
		}
	}
	// self-test of refJoin against the standard library on everything the family can combine
	groups := []string{"", "/", "/a", "/b", "/a/", "/a/b", "/:p", "a", "//a", "/a//b", "/./a"}
	pts := []string{"", "/", "/a", "/b", "/:x", "/a/:x", "/:x/a", "/a/b", "a", "a/b", "/a/", "//a", ":x"}
	for _, g := range groups {
		for _, q := range pts {
			if got, want := refJoin(g, q), path.Join(g, q); got != want {
				vlib.Fatal("harness bug: refJoin(%q,%q)=%q, path.Join=%q", g, q, got, want)
			}
			for _, g2 := range groups {
				if got, want := refJoin(g2, refJoin(g, q)), path.Join(g2, path.Join(g, q)); got != want {
					vlib.Fatal("harness bug: refJoin(%q,refJoin(%q,%q))=%q, path.Join=%q", g2, g, q, got, want)
				}
			}
		}
	}
}

// depth: the request universe of a program is every path of at most depth() segments, where
// depth = 1 + the longest pattern ANY composition of the program's ingredients can build (all
// prefix options of all calls stacked on the longest pattern of the slices), capped at 4. It is a
// function of the program only, not of the reference's verdicts.
func (p *sProg) depth() int {
	n, m := 0, 0
	for _, c := range p.Calls {
		for _, o := range c.Opts {
			if o.Kind == oPrefix {
				if segs, ok := refClean("/" + o.Arg); ok && !(len(segs) == 1 && segs[0] == "") {
					n += len(segs)
				}
			}
		}
	}
	for _, s := range p.Slices {
		for _, r := range s {
			if segs, ok := refClean("/" + r.Path); ok && len(segs) > m && segs[0] != "" {
				m = len(segs)
			}
		}
	}
	d := n + m + 1
	if d > 4 {
		d = 4
	}
	return d
}

// ---- execution ----

type srvCounters struct {
	Programs, Reused, BoundOK, StartRejected, Lenient, LenientAccepted, PrecondSkipped int64
	Requests, Dispatch, DispatchTok, R405, R404, HookNF, HookNA, Conf, RoutesListed    int64
	OptsApplied, PrefixApplied, Printed                                                int64
}

type abortStart struct{}

type srvState struct {
	hs      [16]http.HandlerFunc
	mw      rest.Middleware
	mwCalls int
	tokens  map[string]string
	tokReqs map[string][][]*http.Request
	c       srvCounters
	// printOnly: build the server, compare Routes() and the captured output of PrintRoutes(), stop
	// (os.Stdout is swapped: only in the single-threaded pre-phase)
	printOnly bool
}

func (w *worker) srvInit() {
	if w.srv != nil {
		return
	}
	s := &srvState{tokens: map[string]string{}, tokReqs: map[string][][]*http.Request{}}
	for i := range s.hs {
		id := i
		s.hs[i] = func(rw http.ResponseWriter, r *http.Request) {
			w.calls++
			w.gotIdx = id
			w.gotVars = pathvar.Vars(r)
			rw.WriteHeader(handlerStatus)
		}
	}
	s.mw = func(next http.HandlerFunc) http.HandlerFunc {
		return func(rw http.ResponseWriter, r *http.Request) {
			s.mwCalls++
			next(rw, r)
		}
	}
	for _, sec := range []string{secretA, secretB} {
		tok, err := jwt.NewWithClaims(jwt.SigningMethodHS256, jwt.MapClaims{"uid": "u1"}).SignedString([]byte(sec))
		if err != nil {
			vlib.Fatal("harness bug: cannot sign token: %v", err)
		}
		s.tokens[sec] = tok
	}
	w.srv = s
}

func (w *worker) tokReq(secret string, mi, pid int) *http.Request {
	s := w.srv
	arr := s.tokReqs[secret]
	if arr == nil {
		arr = make([][]*http.Request, nReqMethods)
		s.tokReqs[secret] = arr
	}
	if arr[mi] == nil {
		arr[mi] = make([]*http.Request, len(paths))
	}
	if arr[mi][pid] == nil {
		rq := httptest.NewRequest(allMethods[mi], paths[pid].raw, nil)
		rq.Header.Set("Authorization", s.tokens[secret])
		arr[mi][pid] = rq
	}
	return arr[mi][pid]
}

func (w *worker) req(mi, pid int) *http.Request {
	if pid >= len(w.reqs[mi]) || w.reqs[mi][pid] == nil {
		// paths added after the worker was built (replay of a hand-written artefact)
		for len(w.reqs[mi]) <= pid {
			w.reqs[mi] = append(w.reqs[mi], nil)
		}
		w.reqs[mi][pid] = httptest.NewRequest(allMethods[mi], paths[pid].raw, nil)
	}
	return w.reqs[mi][pid]
}

// silenceLogs switches go-zero's logging off for the whole process (called first thing in main):
// rest.NewServer sets logging up, and with the level disabled that set-up leaves the no-op writer.
func silenceLogs() {
	logx.Disable()
}

func srvConf(name string) rest.RestConf {
	var c rest.RestConf
	switch name {
	case "":
	case "chain":
		// every native middleware of engine.buildChainWithNativeMiddlewares is in the chain; the
		// limits are set so that none of them can answer instead of the handler for reasons outside
		// the property: no timeout (TimeoutHandler(0) is a pass-through: no wall clock), no CPU
		// threshold (no shedder: the machine's load must not matter), generous MaxConns / MaxBytes.
		c.Middlewares = rest.MiddlewaresConf{Trace: true, Log: true, Prometheus: true, MaxConns: true, Breaker: true,
			Shedding: true, Timeout: true, Recover: true, Metrics: true, MaxBytes: true, Gunzip: true}
		c.MaxConns = 1000
		c.MaxBytes = 1 << 20
	default:
		vlib.Fatal("harness bug: unknown conf %q", name)
	}
	return c
}

func (w *worker) srvRouteOpts(c sCall) []rest.RouteOption {
	var out []rest.RouteOption
	for _, o := range c.Opts {
		switch o.Kind {
		case oPrefix:
			out = append(out, rest.WithPrefix(o.Arg))
			w.srv.c.PrefixApplied++
		case oJwt:
			out = append(out, rest.WithJwt(secretOf(o.Arg)))
		case oJwtT:
			ab := strings.Split(o.Arg, ",")
			out = append(out, rest.WithJwtTransition(secretOf(ab[0]), secretOf(ab[1])))
		case oTimeout:
			out = append(out, rest.WithTimeout(time.Hour))
		case oMaxBytes:
			out = append(out, rest.WithMaxBytes(1<<16))
		case oPriority:
			out = append(out, rest.WithPriority())
		case oSSE:
			out = append(out, rest.WithSSE())
		case oSig:
			out = append(out, rest.WithSignature(rest.SignatureConf{}))
		default:
			vlib.Fatal("harness bug: unknown route option %q", o.Kind)
		}
		w.srv.c.OptsApplied++
	}
	return out
}

func (w *worker) recordSrv(class string, p *sProg, mi, pid int, exp, got string) {
	w.c.Failures++
	flags := "+server"
	if p.reused() {
		flags += "+reused-slice"
	}
	if !p.plain() {
		flags += "+conf"
	}
	class += flags
	nr, nt := 0, 0
	for _, c := range p.Calls {
		s := p.Slices[c.Slice]
		if c.Len > 0 {
			s = s[:c.Len]
		}
		nr += len(s)
		nt += len(c.Opts)
		if c.Via != "" || c.Copy || c.Len > 0 {
			nt++
		}
	}
	key := p.String()
	c := cand{class: class, cost: [4]int{4, len(p.Calls)*1000 + nr*100 + nt*10 + len(p.Slices), len(key), 0}, mi: mi, pid: pid, nf: -1, na: -1, srv: p}
	if !p.plain() {
		c.cost[0]++
	}
	if mi >= 0 {
		c.cost[3] = len(paths[pid].raw)
		key += " request " + allMethods[mi] + " " + paths[pid].raw
	}
	c.key = key
	group := groupOf(class)
	old := w.viol[group]
	if old != nil && !c.less(old) {
		return
	}
	cp := *p // the generators reuse their buffers: keep a deep copy
	cp.Slices = nil
	for _, s := range p.Slices {
		cp.Slices = append(cp.Slices, append([]sRoute(nil), s...))
	}
	cp.Calls = nil
	for _, cl := range p.Calls {
		cl.Opts = append([]sOpt(nil), cl.Opts...)
		cp.Calls = append(cp.Calls, cl)
	}
	cp.Run = append([]string(nil), p.Run...)
	c.srv = &cp
	c.exp, c.got = exp, got
	w.viol[group] = &c
}

// srvHook handlers: custom NotFound / NotAllowed handlers given to the RunOptions.
func (w *worker) runServer(p *sProg, onlyMi, onlyPid int) {
	w.srvInit()
	st := w.srv
	w.curMi, w.curPid = -1, -1
	defer func() {
		if r := recover(); r != nil {
			w.recordSrv("panic:none", p, w.curMi, maxInt(w.curPid, 0), "no panic", fmt.Sprint("panic: ", r))
		}
	}()
	if !st.printOnly {
		st.c.Programs++
		w.c.Tables++
		if p.reused() {
			st.c.Reused++
		}
		if !p.plain() {
			st.c.Conf++
		}
	}

	// the caller's values
	vals := make([][]rest.Route, len(p.Slices))
	for i, s := range p.Slices {
		vals[i] = make([]rest.Route, len(s))
		for j, r := range s {
			vals[i][j] = rest.Route{Method: r.Method, Path: r.Path, Handler: st.hs[i*8+j]}
		}
	}
	nfOn, naOn, corsOn := false, false, false
	var ropts []rest.RunOption
	for _, o := range p.Run {
		switch o {
		case "notfound":
			ropts = append(ropts, rest.WithNotFoundHandler(&w.nfH))
			nfOn = true
		case "notallowed":
			ropts = append(ropts, rest.WithNotAllowedHandler(&w.naH))
			naOn = true
		case "router":
			ropts = append(ropts, rest.WithRouter(router.NewRouter()))
		case "cors":
			ropts = append(ropts, rest.WithCors())
			corsOn = true
		case "cors-headers":
			ropts = append(ropts, rest.WithCorsHeaders("X-Verif"))
			corsOn = true
		case "cors-custom":
			ropts = append(ropts, rest.WithCustomCors(func(http.Header) {}, func(http.ResponseWriter) {}, "example.org"))
			corsOn = true
		case "chain":
			// WithChain replaces the native middleware chain by the caller's
			ropts = append(ropts, rest.WithChain(chain.New(func(next http.Handler) http.Handler { return next })))
		case "fileserver":
			// a file server over a file system without files: it can never serve, every request
			// (also GET under its path "/a") must fall through to the routes
			ropts = append(ropts, rest.WithFileServer("/a", noFiles{}))
		case "callbacks":
			ropts = append(ropts, rest.WithUnauthorizedCallback(func(http.ResponseWriter, *http.Request, error) {}),
				rest.WithUnsignedCallback(func(http.ResponseWriter, *http.Request, http.Handler, bool, int) {}),
				rest.WithTLSConfig(&tls.Config{}))
		default:
			vlib.Fatal("harness bug: unknown run option %q", o)
		}
	}
	var srv *rest.Server
	if p.Conf == "" {
		srv = rest.MustNewServer(srvConf(p.Conf), ropts...)
	} else {
		var err error
		if srv, err = rest.NewServer(srvConf(p.Conf), ropts...); err != nil {
			vlib.Fatal("harness bug: rest.NewServer: %v", err)
		}
	}
	if p.Use {
		srv.Use(func(next http.HandlerFunc) http.HandlerFunc { return next })
		srv.Use(rest.ToMiddleware(func(next http.Handler) http.Handler { return next }))
	}
	for _, c := range p.Calls {
		arg := vals[c.Slice]
		if c.Len > 0 {
			arg = arg[:c.Len]
		}
		if c.Copy {
			arg = append([]rest.Route(nil), arg...)
		}
		opts := w.srvRouteOpts(c)
		switch c.Via {
		case viaAddRoutes:
			srv.AddRoutes(arg, opts...)
		case viaAddRoute:
			for _, r := range arg {
				srv.AddRoute(r, opts...)
			}
		case viaMw:
			srv.AddRoutes(rest.WithMiddleware(st.mw, arg...), opts...)
		case viaMws:
			srv.AddRoutes(rest.WithMiddlewares([]rest.Middleware{st.mw, st.mw}, arg...), opts...)
		default:
			vlib.Fatal("harness bug: unknown via %q", c.Via)
		}
	}

	// 1. the caller's slices are the caller's
	for i, s := range p.Slices {
		for j, r := range s {
			if vals[i][j].Method != r.Method || vals[i][j].Path != r.Path {
				sh := "relative"
				if segs, ok := refClean(r.Path); ok {
					sh = shapeOf(segs)
				}
				w.recordSrv("caller-routes-modified:"+sh, p, -1, 0,
					fmt.Sprintf("s%d[%d] still is %s %q after the registrations (the value is the caller's; it is what a later AddRoutes(s%d) registers)", i, j, r.Method, r.Path, i),
					fmt.Sprintf("s%d[%d] = %s %q", i, j, vals[i][j].Method, vals[i][j].Path))
				break
			}
		}
	}

	// 2. Routes() lists exactly the registered routes
	tab := p.table()
	want := map[string]int{}
	for i := range tab {
		want[tab[i].method+" "+cleanOrRaw(tab[i].raw)]++
	}
	have := map[string]int{}
	listed := srv.Routes()
	for _, r := range listed {
		have[r.Method+" "+cleanOrRaw(r.Path)]++
	}
	st.c.RoutesListed += int64(len(listed))
	if diff := multisetDiff(want, have); diff != "" {
		w.recordSrv("routes-list-mismatch:none", p, -1, 0, "Routes() = "+multisetString(want), "Routes() = "+multisetString(have)+" ("+diff+")")
	}

	if st.printOnly {
		// 2b. PrintRoutes prints the same list (stdout is captured: single-threaded pre-phase only)
		old := os.Stdout
		pr, pw, err := os.Pipe()
		if err != nil {
			vlib.Fatal("harness bug: os.Pipe: %v", err)
		}
		os.Stdout = pw
		func() {
			defer func() { os.Stdout = old; pw.Close() }()
			srv.PrintRoutes()
		}()
		out, _ := io.ReadAll(pr)
		pr.Close()
		printed := map[string]int{}
		for _, ln := range strings.Split(string(out), "\n") {
			ln = strings.TrimSpace(ln)
			if ln == "" || ln == "Routes:" {
				continue
			}
			m, pth, _ := strings.Cut(ln, " ")
			printed[m+" "+cleanOrRaw(pth)]++
		}
		st.c.Printed++
		if diff := multisetDiff(want, printed); diff != "" {
			w.recordSrv("routes-list-mismatch:print", p, -1, 0, "PrintRoutes() prints "+multisetString(want), "PrintRoutes() prints "+multisetString(printed)+" ("+diff+")")
		}
		return
	}

	// 3. Start: binds the table to the router; aborted before anything listens
	var hs *http.Server
	var startErr any
	returned := false
	func() {
		defer func() {
			if r := recover(); r != nil {
				if _, ok := r.(abortStart); !ok {
					startErr = r
				}
			}
		}()
		srv.StartWithOpts(func(s *http.Server) {
			hs = s
			panic(abortStart{})
		})
		returned = true
	}()
	if returned {
		vlib.Fatal("harness bug: StartWithOpts returned without binding error and without reaching the start options (%s)", p)
	}
	bad, reason, lenient := srvVerdict(tab)
	switch {
	case startErr != nil && bad < 0 && lenient < 0:
		w.recordSrv("reg-rejected-valid:table", p, -1, 0, "Start binds the "+strconv.Itoa(len(tab))+" distinct valid routes "+tableOf(tab), fmt.Sprint("Start fails: ", startErr))
		return
	case startErr != nil && bad < 0:
		st.c.Lenient++
		w.c.SpelledDupRejected++
		return
	case startErr != nil:
		st.c.StartRejected++
		switch reason {
		case "dup":
			w.c.RegDup++
		case "method":
			w.c.RegBadMethod++
		default:
			w.c.RegBadPath++
		}
		return
	case bad >= 0:
		sh := "relative"
		if tab[bad].okP {
			sh = shapeOf(tab[bad].segs)
		}
		if reason == "method" {
			sh = methodLabel(tab[bad].method)
		}
		w.recordSrv("reg-accepted-"+reason+":"+sh, p, -1, 0, "Start fails: "+tab[bad].String()+" must be rejected ("+reason+") in table "+tableOf(tab), "Start binds every route")
		return
	case lenient >= 0:
		st.c.LenientAccepted++
		w.c.SpelledDupAccepted++
		return
	}
	if hs == nil || hs.Handler == nil {
		vlib.Fatal("harness bug: no handler captured (%s)", p)
	}
	if !srvPrecondition(tab) {
		st.c.PrecondSkipped++
		return
	}
	st.c.BoundOK++
	w.c.RegOK += int64(len(tab))
	h := hs.Handler
	heavy := p.Conf != "" // middlewares wrap the writer: use the standard recorder

	// 4. every request of the universe
	serve := func(mi, pid int) {
		req := paths[pid].segs
		method := allMethods[mi]
		chosen, _ := srvChoose(tab, method, req, w.buf)
		if chosen == -2 {
			vlib.Fatal("harness bug: reference ambiguous for %s request %s %s", p, method, paths[pid].raw)
		}
		rq := w.req(mi, pid)
		if chosen >= 0 && tab[chosen].secret != "" {
			rq = w.tokReq(tab[chosen].secret, mi, pid)
			st.c.DispatchTok++
		}
		w.calls, w.gotIdx, w.gotVars = 0, -1, nil
		w.nfCalls, w.naCalls = 0, 0
		w.curMi, w.curPid = mi, pid
		rec := &w.lw
		rec.reset()
		if heavy {
			std := httptest.NewRecorder()
			h.ServeHTTP(std, rq)
			rec.code, rec.wrote, rec.allow = std.Code, true, std.Header()["Allow"]
		} else {
			h.ServeHTTP(rec, rq)
		}
		w.c.Evals++
		st.c.Requests++
		if !paths[pid].clean {
			w.c.UncleanReq++
		}
		obs := func() string {
			s := ""
			if w.calls > 0 {
				s = fmt.Sprintf("handler of s%d[%d]", w.gotIdx/8, w.gotIdx%8)
				if w.gotIdx/8 < len(p.Slices) && w.gotIdx%8 < len(p.Slices[w.gotIdx/8]) {
					r := p.Slices[w.gotIdx/8][w.gotIdx%8]
					s += " (" + r.Method + " " + strconv.Quote(r.Path) + ")"
				}
				s += " vars " + fmtVars(w.gotVars)
				if w.calls > 1 {
					s += fmt.Sprintf(" called %d times", w.calls)
				}
				s += fmt.Sprintf(" status %d", rec.code)
			} else if rec.code == http.StatusMethodNotAllowed {
				s = fmt.Sprintf("405 Allow=%q", strings.Join(rec.allow, ","))
			} else {
				s = fmt.Sprintf("status %d, no handler", rec.code)
			}
			if w.nfCalls > 0 {
				s += fmt.Sprintf("; custom NotFound handler called %d time(s)", w.nfCalls)
			}
			if w.naCalls > 0 {
				s += fmt.Sprintf("; custom NotAllowed handler called %d time(s)", w.naCalls)
			}
			return s
		}
		if chosen >= 0 {
			e := &tab[chosen]
			w.c.Dispatch++
			w.c.Nontrivial++
			st.c.Dispatch++
			if strings.Contains(shapeOf(e.segs), "V") {
				w.c.WithVars++
			}
			kind := ""
			switch {
			case w.calls == 0:
				kind = "missed-dispatch"
			case w.calls > 1:
				kind = "multi-dispatch"
			case w.nfCalls+w.naCalls > 0:
				kind = "hook-on-dispatch"
			case w.gotIdx != e.hid:
				kind = "wrong-route"
			case !varsEqual(w.gotVars, e.segs, req):
				kind = "wrong-vars"
			case rec.code != handlerStatus:
				kind = "wrong-status"
			}
			if kind != "" {
				exp := fmt.Sprintf("handler of s%d[%d] registered by call %d as %s, vars %s status %d", e.hid/8, e.hid%8, e.call+1, e.String(),
					fmtVars(refVars(e.segs, req)), handlerStatus)
				if e.secret != "" {
					exp += " (request carries a token signed with the group's secret)"
				}
				w.recordSrv(kind+":"+shapeOf(e.segs)+reqFlags(pid), p, mi, pid, exp, obs())
			}
			return
		}
		mask, other := srvAllow(tab, method, req)
		kind, exp := "", ""
		hookCalls := w.nfCalls + w.naCalls
		if other {
			w.c.R405++
			w.c.Nontrivial++
			st.c.R405++
			exp = "405 Allow=" + maskString(mask)
			custom := naOn || corsOn
			if naOn {
				exp = "custom NotAllowed handler called once (other methods matching: " + maskString(mask) + ")"
				st.c.HookNA++
			} else if corsOn {
				exp = "the CORS not-allowed answer (other methods matching: " + maskString(mask) + "), no handler"
			}
			switch {
			case w.calls > 0:
				kind = "spurious-dispatch"
			case hookCalls > 1:
				kind = "hook-multi-call"
			case w.nfCalls > 0:
				kind = "404-instead-of-405"
			case naOn && w.naCalls == 1:
			case corsOn:
				// WithCors installs its own NotAllowed handler: as for every custom handler only
				// "no route handler, not the NotFound handler" is demanded
			case rec.code == http.StatusNotFound:
				kind = "404-instead-of-405"
			case custom:
				kind = "notallowed-hook-missed"
			case rec.code != http.StatusMethodNotAllowed:
				kind = "wrong-status"
			case allowMask(rec.allow) != mask:
				kind = "wrong-allow"
			}
		} else {
			w.c.R404++
			st.c.R404++
			exp = "404"
			if nfOn {
				exp = "custom NotFound handler called once"
				st.c.HookNF++
			}
			switch {
			case w.calls > 0:
				kind = "spurious-dispatch"
			case hookCalls > 1:
				kind = "hook-multi-call"
			case w.naCalls > 0:
				kind = "405-instead-of-404"
			case nfOn && w.nfCalls == 1:
			case rec.code == http.StatusMethodNotAllowed:
				kind = "405-instead-of-404"
			case nfOn:
				kind = "notfound-hook-missed"
			case rec.code != http.StatusNotFound:
				kind = "wrong-status"
			}
		}
		if kind != "" {
			sh := "none"
			if kind == "spurious-dispatch" && w.gotIdx >= 0 {
				for i := range tab {
					if tab[i].hid == w.gotIdx {
						sh = shapeOf(tab[i].segs)
						break
					}
				}
			} else {
				for i := range tab {
					if tab[i].method != method && refMatch(tab[i].segs, req) {
						sh = shapeOf(tab[i].segs)
						break
					}
				}
			}
			w.recordSrv(kind+":"+sh+reqFlags(pid), p, mi, pid, exp, obs())
		}
	}
	if onlyPid >= 0 {
		serve(onlyMi, onlyPid)
		return
	}
	// GET and POST (the route methods) probe the whole universe: together they determine the bound
	// table; DELETE (a method without routes: 405 with both other methods / 404) probes the paths
	// of at most one segment
	for _, pid := range setSrvDepth[p.depth()] {
		serve(0, pid)
		serve(1, pid)
	}
	for _, pid := range setSrvShallow {
		serve(3, pid)
	}
}

// noFiles is an http.FileSystem without files.
type noFiles struct{}

func (noFiles) Open(string) (http.File, error) { return nil, fs.ErrNotExist }

func cleanOrRaw(p string) string {
	if segs, ok := refClean(p); ok {
		return joinSegs(segs)
	}
	return p
}

func tableOf(tab []sEntry) string {
	var out []string
	for i := range tab {
		out = append(out, tab[i].method+" "+tab[i].raw)
	}
	return "[" + strings.Join(out, ", ") + "]"
}

func multisetString(m map[string]int) string {
	ks := make([]string, 0, len(m))
	for k := range m {
		ks = append(ks, k)
	}
	sort.Strings(ks)
	var out []string
	for _, k := range ks {
		if m[k] > 1 {
			out = append(out, fmt.Sprintf("%s x%d", k, m[k]))
		} else {
			out = append(out, k)
		}
	}
	return "[" + strings.Join(out, ", ") + "]"
}

func multisetDiff(want, have map[string]int) string {
	var out []string
	ks := map[string]bool{}
	for k := range want {
		ks[k] = true
	}
	for k := range have {
		ks[k] = true
	}
	keys := make([]string, 0, len(ks))
	for k := range ks {
		keys = append(keys, k)
	}
	sort.Strings(keys)
	for _, k := range keys {
		switch {
		case want[k] > have[k]:
			out = append(out, "missing "+k)
		case want[k] < have[k]:
			out = append(out, "unexpected "+k)
		}
	}
	return strings.Join(out, ", ")
}

// ---- plain go test rendering of a server program ----

func goTestSrv(p *sProg, meth, reqPath, expected string) string {
	var sb strings.Builder
	sb.WriteString("func TestC09Repro(t *testing.T) { // package rest_test; imports: fmt, net/http, net/http/httptest, testing, rest, rest/pathvar\n")
	sb.WriteString("\thit := \"\"\n")
	sb.WriteString("\th := func(n string) http.HandlerFunc { return func(w http.ResponseWriter, r *http.Request) { hit += fmt.Sprint(\"[\", n, \" \", pathvar.Vars(r), \"]\") } }\n")
	sb.WriteString("\tmw := func(next http.HandlerFunc) http.HandlerFunc { return next }\n\t_ = mw\n")
	for i, s := range p.Slices {
		fmt.Fprintf(&sb, "\ts%d := []rest.Route{", i)
		for j, r := range s {
			if j > 0 {
				sb.WriteString(", ")
			}
			fmt.Fprintf(&sb, "{Method: %q, Path: %q, Handler: h(\"s%d[%d]\")}", r.Method, r.Path, i, j)
		}
		sb.WriteString("}\n")
	}
	conf := "rest.RestConf{}"
	if p.Conf == "chain" {
		conf = "chainConf /* rest.RestConf with every Middlewares.* = true, MaxConns 1000, MaxBytes 1<<20 */"
	}
	var ro []string
	for _, o := range p.Run {
		switch o {
		case "notfound":
			ro = append(ro, "rest.WithNotFoundHandler(h(\"custom NotFound\"))")
		case "notallowed":
			ro = append(ro, "rest.WithNotAllowedHandler(h(\"custom NotAllowed\"))")
		case "router":
			ro = append(ro, "rest.WithRouter(router.NewRouter())")
		case "cors":
			ro = append(ro, "rest.WithCors()")
		case "cors-headers":
			ro = append(ro, "rest.WithCorsHeaders(\"X-Verif\")")
		case "cors-custom":
			ro = append(ro, "rest.WithCustomCors(func(http.Header) {}, func(http.ResponseWriter) {}, \"example.org\")")
		case "chain":
			ro = append(ro, "rest.WithChain(chain.New(func(next http.Handler) http.Handler { return next }))")
		case "fileserver":
			ro = append(ro, "rest.WithFileServer(\"/a\", noFiles{} /* Open always fails with fs.ErrNotExist */)")
		case "callbacks":
			ro = append(ro, "rest.WithUnauthorizedCallback(func(http.ResponseWriter, *http.Request, error) {})", "rest.WithUnsignedCallback(func(http.ResponseWriter, *http.Request, http.Handler, bool, int) {})", "rest.WithTLSConfig(&tls.Config{})")
		}
	}
	fmt.Fprintf(&sb, "\tsrv := rest.MustNewServer(%s", conf)
	for _, o := range ro {
		sb.WriteString(", " + o)
	}
	sb.WriteString(")\n")
	if p.Use {
		sb.WriteString("\tsrv.Use(mw)\n\tsrv.Use(rest.ToMiddleware(func(next http.Handler) http.Handler { return next }))\n")
	}
	for _, c := range p.Calls {
		arg := "s" + strconv.Itoa(c.Slice)
		if c.Len > 0 {
			arg += "[:" + strconv.Itoa(c.Len) + "]"
		}
		if c.Copy {
			arg = "append([]rest.Route(nil), " + arg + "...)"
		}
		var os []string
		for _, o := range c.Opts {
			switch o.Kind {
			case oPrefix:
				os = append(os, fmt.Sprintf("rest.WithPrefix(%q)", o.Arg))
			case oJwt:
				os = append(os, fmt.Sprintf("rest.WithJwt(%q)", secretOf(o.Arg)))
			case oJwtT:
				ab := strings.Split(o.Arg, ",")
				os = append(os, fmt.Sprintf("rest.WithJwtTransition(%q, %q)", secretOf(ab[0]), secretOf(ab[1])))
			case oTimeout:
				os = append(os, "rest.WithTimeout(time.Hour)")
			case oMaxBytes:
				os = append(os, "rest.WithMaxBytes(1<<16)")
			case oPriority:
				os = append(os, "rest.WithPriority()")
			case oSSE:
				os = append(os, "rest.WithSSE()")
			case oSig:
				os = append(os, "rest.WithSignature(rest.SignatureConf{})")
			}
		}
		tail := ""
		if len(os) > 0 {
			tail = ", " + strings.Join(os, ", ")
		}
		switch c.Via {
		case viaAddRoute:
			fmt.Fprintf(&sb, "\tfor _, r := range %s {\n\t\tsrv.AddRoute(r%s)\n\t}\n", arg, tail)
		case viaMw:
			fmt.Fprintf(&sb, "\tsrv.AddRoutes(rest.WithMiddleware(mw, %s...)%s)\n", arg, tail)
		case viaMws:
			fmt.Fprintf(&sb, "\tsrv.AddRoutes(rest.WithMiddlewares([]rest.Middleware{mw, mw}, %s...)%s)\n", arg, tail)
		default:
			fmt.Fprintf(&sb, "\tsrv.AddRoutes(%s%s)\n", arg, tail)
		}
	}
	for i := range p.Slices {
		fmt.Fprintf(&sb, "\tt.Log(\"s%d now:\", s%d[0].Method, s%d[0].Path)\n", i, i, i)
	}
	sb.WriteString("\tfor _, r := range srv.Routes() {\n\t\tt.Log(\"Routes():\", r.Method, r.Path)\n\t}\n")
	sb.WriteString("\tvar hd http.Handler\n")
	sb.WriteString("\tfunc() {\n\t\tdefer func() { t.Log(\"start:\", recover()) }()\n")
	sb.WriteString("\t\tsrv.StartWithOpts(func(s *http.Server) { hd = s.Handler; panic(\"bound, not listening\") })\n\t}()\n")
	if reqPath != "" {
		sb.WriteString("\trec := httptest.NewRecorder()\n")
		fmt.Fprintf(&sb, "\thd.ServeHTTP(rec, httptest.NewRequest(%q, %q, nil)) // add an Authorization header with a token for a WithJwt group\n", meth, reqPath)
		fmt.Fprintf(&sb, "\tt.Log(\"hit:\", hit, \"code:\", rec.Code, \"Allow:\", rec.Header().Get(\"Allow\")) // expected: %s\n", expected)
	} else {
		fmt.Fprintf(&sb, "\t// expected: %s\n", expected)
	}
	sb.WriteString("}\n")
	return sb.String()
}

func (c *srvCounters) add(o *srvCounters) {
	c.Programs += o.Programs
	c.Reused += o.Reused
	c.BoundOK += o.BoundOK
	c.StartRejected += o.StartRejected
	c.Lenient += o.Lenient
	c.LenientAccepted += o.LenientAccepted
	c.PrecondSkipped += o.PrecondSkipped
	c.Requests += o.Requests
	c.Dispatch += o.Dispatch
	c.DispatchTok += o.DispatchTok
	c.R405 += o.R405
	c.R404 += o.R404
	c.HookNF += o.HookNF
	c.HookNA += o.HookNA
	c.Conf += o.Conf
	c.RoutesListed += o.RoutesListed
	c.OptsApplied += o.OptsApplied
	c.PrefixApplied += o.PrefixApplied
	c.Printed += o.Printed
}

func (c *srvCounters) counts() map[string]int64 {
	return map[string]int64{
		"server_programs": c.Programs, "server_programs_reusing_a_slice_value": c.Reused,
		"server_programs_bound_and_served": c.BoundOK, "server_programs_start_rejected_as_expected": c.StartRejected,
		"server_programs_respelled_duplicate_rejected": c.Lenient, "server_programs_respelled_duplicate_accepted_skipped": c.LenientAccepted,
		"server_programs_outside_precondition_skipped": c.PrecondSkipped, "server_programs_with_nondefault_configuration": c.Conf,
		"server_requests_served": c.Requests, "server_dispatched": c.Dispatch, "server_dispatched_with_jwt_token": c.DispatchTok,
		"server_answered_405": c.R405, "server_answered_404": c.R404,
		"server_requests_that_must_reach_custom_notfound_handler": c.HookNF, "server_requests_that_must_reach_custom_notallowed_handler": c.HookNA,
		"server_routes_listed_by_Routes": c.RoutesListed, "server_route_options_applied": c.OptsApplied, "server_prefix_options_applied": c.PrefixApplied,
		"server_programs_checked_through_PrintRoutes": c.Printed,
	}
}

// replayServer re-executes one server program (and its one request, when the artefact names one).
func replayServer(cfg *vlib.Config, class string, rc *replayCase) {
	mi, pid := -1, -1
	if rc.ReqPath != "" {
		for i := 0; i < nReqMethods; i++ {
			if allMethods[i] == rc.ReqMeth {
				mi = i
			}
		}
		if mi < 0 {
			vlib.Fatal("replay: request method %q is outside the enumerated family", rc.ReqMeth)
		}
		pid, _ = addPath(rc.ReqPath)
	}
	w := newWorker()
	w.runServer(rc.Server, mi, pid)
	fmt.Printf("replay class=%s %s", class, rc.Server)
	if mi >= 0 {
		fmt.Printf(" request %s %s", rc.ReqMeth, rc.ReqPath)
	}
	fmt.Printf("\nrecorded: expected %s; observed %s\n", rc.Expected, rc.Observed)
	if len(w.viol) == 0 {
		fmt.Println("now: the case passes (reference and server agree)")
		os.Exit(0)
	}
	for _, k := range sortedClasses(w.viol) {
		v := w.viol[k]
		fmt.Printf("now: class=%s expected %s; observed %s\n", v.class, v.exp, v.got)
	}
	fmt.Printf("VIOLATION property=%s replay=%s\n", cfg.ID, cfg.Replay)
	os.Exit(1)
}
