//go:build verif

package hash

// White-box accessor for the C15 check: a read-only copy of the whole state of a
// ConsistentHash (what an in-package test could read). Nothing here mutates the ring.

// VerifDump is a deep copy of the ring state. Buckets are stored flat: the bucket of Keys[i] is
// Entries[Off[i]:Off[i+1]] (empty if h.ring has no entry for that key).
type VerifDump struct {
	Replicas int      // h.replicas (ring-wide maximum / default replica count)
	Keys     []uint64 // h.keys in stored order (expected sorted; duplicates = collisions)
	Off      []int    // len(Keys)+1 offsets into Entries
	Entries  []any    // concatenated copies of h.ring[Keys[i]] in stored order
	Orphans  []uint64 // hashes present in h.ring but absent from h.keys (sorted)
	OrphanB  [][]any  // their buckets
	Nodes    []string // h.nodes keys (unsorted; caller sorts)
	RingLen  int      // len(h.ring)
}

// Bucket returns the copy of h.ring[Keys[i]].
func (d *VerifDump) Bucket(i int) []any { return d.Entries[d.Off[i]:d.Off[i+1]] }

// VerifDump copies keys, ring and nodes under the read lock.
func (h *ConsistentHash) VerifDump() VerifDump {
	h.lock.RLock()
	defer h.lock.RUnlock()
	d := VerifDump{Replicas: h.replicas, RingLen: len(h.ring)}
	d.Keys = append(make([]uint64, 0, len(h.keys)), h.keys...)
	d.Off = make([]int, len(h.keys)+1)
	d.Entries = make([]any, 0, len(h.keys)+8)
	distinct, sorted := 0, true
	for i, k := range h.keys {
		d.Off[i] = len(d.Entries)
		if i > 0 && h.keys[i-1] > k {
			sorted = false
		}
		b, ok := h.ring[k]
		if ok && (i == 0 || h.keys[i-1] != k) {
			distinct++
		}
		d.Entries = append(d.Entries, b...)
	}
	d.Off[len(h.keys)] = len(d.Entries)
	if !sorted || distinct != len(h.ring) { // slow path: some ring entry has no key
		inKeys := make(map[uint64]struct{}, len(h.keys))
		for _, k := range h.keys {
			inKeys[k] = struct{}{}
		}
		for k := range h.ring {
			if _, ok := inKeys[k]; !ok {
				d.Orphans = append(d.Orphans, k)
			}
		}
		for i := 1; i < len(d.Orphans); i++ { // insertion sort, few entries
			for j := i; j > 0 && d.Orphans[j-1] > d.Orphans[j]; j-- {
				d.Orphans[j-1], d.Orphans[j] = d.Orphans[j], d.Orphans[j-1]
			}
		}
		for _, k := range d.Orphans {
			d.OrphanB = append(d.OrphanB, append([]any{}, h.ring[k]...))
		}
	}
	d.Nodes = make([]string, 0, len(h.nodes))
	for n := range h.nodes {
		d.Nodes = append(d.Nodes, n)
	}
	return d
}
