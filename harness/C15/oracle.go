package main

import (
	"crypto/sha256"
	"encoding/binary"
	"fmt"
	"sort"
	"strings"

	"github.com/zeromicro/go-zero/core/hash"
)

// ---- reference model: repr -> (node value index, effective replicas) ----

type member struct {
	node int
	reps int
}

type model map[string]member

func (sc *scenario) effReps(o op) int {
	r := 0
	switch o.Kind {
	case opAdd:
		r = sc.max
	case opAWR:
		r = o.Arg
	case opAWW:
		r = sc.max * o.Arg / 100 // weight is a percentage of the ring's replica count (TopWeight = 100)
	}
	if r > sc.max {
		r = sc.max // "replicas will be truncated to h.replicas"
	}
	if r < 0 {
		r = 0
	}
	return r
}

func (m model) clone() model {
	c := make(model, len(m)+1)
	for k, v := range m {
		c[k] = v
	}
	return c
}

func (sc *scenario) modelApply(m model, o op) model {
	c := m.clone()
	repr := sc.Nodes[o.Node].Repr
	if o.Kind == opRemove {
		delete(c, repr)
	} else {
		c[repr] = member{o.Node, sc.effReps(o)}
	}
	return c
}

func (sc *scenario) modelOf(path []op) model {
	m := model{}
	for _, o := range path {
		m = sc.modelApply(m, o)
	}
	return m
}

func (m model) reprs() []string {
	rs := make([]string, 0, len(m))
	for r := range m {
		rs = append(rs, r)
	}
	sort.Strings(rs)
	return rs
}

func (sc *scenario) modelString(m model) string {
	var b strings.Builder
	b.WriteString("{")
	for i, r := range m.reprs() {
		if i > 0 {
			b.WriteString(" ")
		}
		fmt.Fprintf(&b, "%s:%d", sc.Nodes[m[r].node].Name, m[r].reps)
	}
	b.WriteString("}")
	return b.String()
}

func (m model) live() int {
	n := 0
	for _, x := range m {
		if x.reps > 0 {
			n++
		}
	}
	return n
}

// fresh builds a new ring from the reference membership: sorted representations, same
// effective replica counts, through AddWithReplicas of the public API.
func (sc *scenario) fresh(m model) *hash.ConsistentHash {
	h := sc.newRing()
	for _, r := range m.reprs() {
		h.AddWithReplicas(sc.Nodes[m[r].node].Val, m[r].reps)
	}
	return h
}

type freshRes struct {
	owners []int16
	pmsg   string
}

// freshOwners: probe results of the fresh reference ring, memoised per membership (the fresh
// ring is a pure function of the membership; every entry is computed from a really built ring).
func (sc *scenario) freshOwners(m model, ms string) ([]int16, string) {
	if v, ok := sc.freshCache.Load(ms); ok {
		fr := v.(freshRes)
		return fr.owners, fr.pmsg
	}
	ow, p, _ := sc.probeAll(sc.fresh(m))
	sc.freshCache.Store(ms, freshRes{ow, p})
	return ow, p
}

func (sc *scenario) build(path []op) (*hash.ConsistentHash, string) {
	h := sc.newRing()
	for _, o := range path {
		if p := sc.apply(h, o); p != "" {
			return h, p
		}
	}
	return h, ""
}

// ---- canonical white-box dump ----

type dumpInfo struct {
	key        [32]byte
	nkeys      int
	collision  bool // duplicate key or bucket with >1 entries
	sorted     bool // keys sorted
	balanced   bool // every key has a ring entry and sum of bucket sizes == len(keys); no orphans
	nodesMatch bool // h.nodes == reference representations
	replicasOK bool // h.replicas == expected cap
	raw        hash.VerifDump
}

func (sc *scenario) dump(h *hash.ConsistentHash, m model) dumpInfo {
	d := h.VerifDump()
	di := dumpInfo{raw: d}
	buf := make([]byte, 0, 64+20*len(d.Keys))
	put := func(x uint64) { buf = binary.LittleEndian.AppendUint64(buf, x) }
	buf = append(buf, sc.Name...)
	put(uint64(d.Replicas))
	put(uint64(len(d.Keys)))
	di.nkeys = len(d.Keys)
	di.sorted = true
	di.balanced = len(d.Orphans) == 0
	di.replicasOK = d.Replicas == sc.max
	sum := 0
	bucket := func(b []any) {
		put(uint64(len(b)))
		for _, v := range b {
			o := sc.ownerOf(v, true)
			if o >= 0 {
				put(uint64(o))
			} else {
				buf = append(buf, fmt.Sprintf("?%T|%v", v, v)...)
			}
		}
	}
	for i, k := range d.Keys {
		put(k)
		if i > 0 {
			if d.Keys[i-1] > k {
				di.sorted = false
			}
			if d.Keys[i-1] == k {
				di.collision = true
				continue // bucket already written
			}
		}
		b := d.Bucket(i)
		if len(b) == 0 {
			di.balanced = false
		}
		if len(b) > 1 {
			di.collision = true
		}
		sum += len(b)
		bucket(b)
	}
	if sum != len(d.Keys) {
		di.balanced = false
	}
	buf = append(buf, "|orphans"...)
	for i, k := range d.Orphans {
		put(k)
		bucket(d.OrphanB[i])
		di.collision = di.collision || len(d.OrphanB[i]) > 1
	}
	sort.Strings(d.Nodes)
	nodes := strings.Join(d.Nodes, "\x00")
	buf = append(buf, "|nodes:"...)
	buf = append(buf, nodes...)
	di.nodesMatch = nodes == strings.Join(m.reprs(), "\x00")
	buf = append(buf, "|model:"...)
	buf = append(buf, sc.modelString(m)...)
	di.key = sha256.Sum256(buf)
	return di
}

// bucketStrings renders the buckets in stored order and as sorted multisets (diagnosis only).
func (sc *scenario) bucketStrings(d hash.VerifDump) (keys, seq, set string) {
	var kb, sq, st strings.Builder
	entry := func(v any) string {
		o := sc.ownerOf(v, true)
		if o >= 0 {
			return fmt.Sprintf("#%d", o)
		}
		return fmt.Sprintf("?%T|%v", v, v)
	}
	bucket := func(k uint64, b []any) {
		names := make([]string, len(b))
		for i, v := range b {
			names[i] = entry(v)
		}
		fmt.Fprintf(&sq, "%x=%s;", k, strings.Join(names, ","))
		sort.Strings(names)
		fmt.Fprintf(&st, "%x=%s;", k, strings.Join(names, ","))
	}
	for i, k := range d.Keys {
		fmt.Fprintf(&kb, "%x,", k)
		if i > 0 && d.Keys[i-1] == k {
			continue
		}
		bucket(k, d.Bucket(i))
	}
	for i, k := range d.Orphans {
		sq.WriteString("orphan:")
		st.WriteString("orphan:")
		bucket(k, d.OrphanB[i])
	}
	return kb.String(), sq.String(), st.String()
}

// ---- one transition: replay path, apply op, evaluate the oracles ----

type viol struct {
	class string
	desc  string
	probe string
	exp   string
	obs   string
}

type stepOut struct {
	key         [32]byte
	viols       []viol
	notes       []string // outside-quantifier observations (custom hash)
	counters    []string // counter names to bump
	collision   bool
	live        bool
	moved       int
	nkeys       int
	kind        string
	modelAfter  string
	prefixPanic bool
}

// transition kind relative to the reference membership
func kindOf(sc *scenario, m0 model, o op) string {
	_, was := m0[sc.Nodes[o.Node].Repr]
	switch {
	case o.Kind == opRemove && was:
		return "remove"
	case o.Kind == opRemove:
		return "remove-nonmember"
	case was:
		return "readd"
	default:
		return "add-new"
	}
}

// context suffix of a violation class: the trigger condition that is part of the failing shape
func (sc *scenario) context(path []op, o op) string {
	if sc.Custom {
		return "@custom-hash"
	}
	// every node that occurred in the history: an earlier operation may have left latent damage
	inv := map[int]bool{o.Node: true}
	for _, x := range path {
		inv[x.Node] = true
	}
	for i := range inv {
		for j := range inv {
			if sc.overlap[i][j] {
				return "+label-overlap"
			}
		}
	}
	return ""
}

// prepare replays the prefix once and probes the before-state.
func (sc *scenario) prepare(path []op) (m0 model, before []int16, bad bool) {
	sc.init()
	m0 = sc.modelOf(path)
	h0, p := sc.build(path)
	if p != "" {
		return m0, nil, true
	}
	before, pg, _ := sc.probeAll(h0)
	return m0, before, pg != ""
}

func (sc *scenario) step(path []op, o op, verbose bool) stepOut {
	m0, before, bad := sc.prepare(path)
	if bad {
		return stepOut{prefixPanic: true, modelAfter: sc.modelString(sc.modelApply(m0, o))}
	}
	return sc.stepFrom(path, m0, before, o, verbose)
}

func (sc *scenario) stepFrom(path []op, m0 model, before []int16, o op, verbose bool) stepOut {
	var out stepOut
	m1 := sc.modelApply(m0, o)
	out.kind = kindOf(sc, m0, o)
	out.modelAfter = sc.modelString(m1)
	ctx := sc.context(path, o)
	R := sc.Nodes[o.Node].Repr
	full := append(append([]op{}, path...), o)
	where := func() string {
		return fmt.Sprintf("scenario=%s ops=%v members=%s", sc.Name, sc.pathNames(full), out.modelAfter)
	}
	add := func(class, probe, exp, obs, msg string) {
		for _, v := range out.viols {
			if v.class == class {
				return
			}
		}
		out.viols = append(out.viols, viol{class: class, probe: probe, exp: exp, obs: obs,
			desc: fmt.Sprintf("%s: %s [probe %s: expected %s, observed %s]", where(), msg, probe, exp, obs)})
	}

	// after-state on a second, independently replayed ring
	h1, p := sc.build(path)
	if p == "" {
		p = sc.apply(h1, o)
	}
	if p != "" {
		add("panic-in-op"+ctx, "-", "no panic", "panic: "+p, sc.opName(o)+" panicked")
		return out
	}
	di := sc.dump(h1, m1)
	out.key, out.collision, out.nkeys = di.key, di.collision, di.nkeys
	out.live = m1.live() > 0
	if !di.sorted {
		out.counters = append(out.counters, "wb.keys_unsorted_states")
	}
	if !di.balanced {
		out.counters = append(out.counters, "wb.keys_ring_unbalanced_states")
	}
	if !di.nodesMatch {
		out.counters = append(out.counters, "wb.nodes_set_differs_from_reference_states")
	}
	if !di.replicasOK {
		out.counters = append(out.counters, "wb.ring_replicas_unexpected_states")
	}
	after, pg, pi := sc.probeAll(h1)
	if pg != "" {
		add("panic-in-get"+ctx, sc.prb[pi].Name, "a member or none", "panic: "+pg,
			fmt.Sprintf("Get panicked (len(keys)=%d, ring entries without key or vice versa=%v)", di.nkeys, !di.balanced))
		return out
	}

	// 1. member-only / none iff nothing owns a virtual node / never a removed or replaced value
	live := m1.live()
	for i, ow := range after {
		pn := sc.prb[i].Name
		switch {
		case ow == ownNone:
			if live > 0 {
				add("get-none-but-members"+ctx, pn, "one of "+out.modelAfter, "none", "Get found no node although members own virtual nodes")
			}
		case ow == ownForeign || ow == ownBadTuple:
			add("get-foreign-value"+ctx, pn, "one of "+out.modelAfter, sc.ownerName(ow), "Get returned a value that is no node / an inconsistent (value, ok)")
		default:
			mm, ok := m1[sc.Nodes[ow].Repr]
			switch {
			case len(m1) == 0:
				add("get-some-but-empty"+ctx, pn, "none", sc.ownerName(ow), "Get returned a node from an empty ring")
			case !ok:
				add("get-removed-node"+ctx, pn, "one of "+out.modelAfter, sc.ownerName(ow), "Get returned a node that was removed")
			case mm.node != int(ow):
				add("get-stale-value"+ctx, pn, sc.Nodes[mm.node].Name, sc.ownerName(ow), "Get returned a value that was replaced by a later Add of the same representation")
			case mm.reps == 0:
				add("get-zero-replica-node"+ctx, pn, "a member owning virtual nodes", sc.ownerName(ow), "Get returned a member registered with 0 replicas")
			}
		}
	}

	// 2. history independence: differential against a fresh ring built from the membership
	fr, pf := sc.freshOwners(m1, out.modelAfter)
	if pf != "" {
		add("panic-in-get"+ctx, "-", "no panic", "panic: "+pf, "Get on the FRESH reference ring panicked")
		return out
	}
	ndiff, first := 0, -1
	for i := range after {
		if after[i] != fr[i] {
			ndiff++
			if first < 0 {
				first = i
			}
		}
	}
	if ndiff > 0 {
		df := sc.dump(sc.fresh(m1), m1)
		diag := "other"
		fk, fseq, fset := sc.bucketStrings(df.raw)
		sk, sseq, sset := sc.bucketStrings(di.raw)
		switch {
		case fk != sk:
			diag = "vnode-keys-differ"
		case fset == sset && fseq != sseq:
			diag = "bucket-order"
		case fset != sset:
			diag = "bucket-contents-differ"
		}
		msg := fmt.Sprintf("%d of %d probes map differently than on a fresh ring with the same membership (keys: %d vs fresh %d; diagnosis %s)",
			ndiff, len(after), di.nkeys, df.nkeys, diag)
		if sc.Custom {
			out.notes = append(out.notes, where()+": "+msg)
			out.counters = append(out.counters, "outside_quantifier.custom_hash.history_dependent_transitions:"+diag)
		} else {
			add("history-dependence:"+diag+ctx, sc.prb[first].Name, sc.ownerName(fr[first])+" (fresh ring)", sc.ownerName(after[first]), msg)
		}
	}

	// 3. minimal disruption across the transition (statement has no exemption; custom hash is outside the quantifier)
	reprOf := func(ow int16) string {
		if ow >= 0 {
			return sc.Nodes[ow].Repr
		}
		return "\x00none"
	}
	for i := range after {
		if before[i] == after[i] {
			continue
		}
		out.moved++
		if sc.Custom {
			continue
		}
		pn := sc.prb[i].Name
		b, a := reprOf(before[i]), reprOf(after[i])
		mv := fmt.Sprintf("%s -> %s", sc.ownerName(before[i]), sc.ownerName(after[i]))
		switch out.kind {
		case "add-new":
			if a != R {
				add("disruption-add"+ctx, pn, "unchanged or moved to "+sc.Nodes[o.Node].Name, mv, "adding a new node moved a key that did not move to it")
			}
		case "remove":
			if b != R {
				add("disruption-remove"+ctx, pn, "unchanged (key was not assigned to "+sc.Nodes[o.Node].Name+")", mv, "removing a node moved a key that was not assigned to it")
			}
		case "remove-nonmember":
			add("disruption-remove-nonmember"+ctx, pn, "unchanged", mv, "removing a node that is not in the ring changed an assignment")
		case "readd":
			if a != R && b != R {
				add("disruption-readd"+ctx, pn, "unchanged or moved to/from "+sc.Nodes[o.Node].Name, mv, "re-adding a node moved a key between two other nodes")
			}
		}
	}
	if verbose && len(out.viols) == 0 && di.collision {
		out.notes = append(out.notes, "state contains colliding virtual-node hashes")
	}
	return out
}

// goTest renders a plain in-package-free Go test reproducing a history with the public API.
func (sc *scenario) goTest(path []op, v viol) string {
	var b strings.Builder
	lit := func(n nodeSpec) string {
		switch x := n.Val.(type) {
		case string:
			return fmt.Sprintf("%q", x)
		case int:
			return fmt.Sprint(x)
		default:
			return fmt.Sprintf("/* %s */ node%T(%q)", n.Name, x, n.Repr)
		}
	}
	ctor := "hash.NewConsistentHash()"
	if sc.Custom {
		ctor = fmt.Sprintf("hash.NewCustomConsistentHash(%d, func(b []byte) uint64 { return hash.Hash(b) %% 97 })", sc.RingReplicas)
	} else if sc.RingReplicas != 0 {
		ctor = fmt.Sprintf("hash.NewCustomConsistentHash(%d, nil)", sc.RingReplicas)
	}
	fmt.Fprintf(&b, "h := %s\n", ctor)
	for _, o := range path {
		n := lit(sc.Nodes[o.Node])
		switch o.Kind {
		case opAdd:
			fmt.Fprintf(&b, "h.Add(%s)\n", n)
		case opRemove:
			fmt.Fprintf(&b, "h.Remove(%s)\n", n)
		case opAWR:
			fmt.Fprintf(&b, "h.AddWithReplicas(%s, %d)\n", n, o.Arg)
		case opAWW:
			fmt.Fprintf(&b, "h.AddWithWeight(%s, %d)\n", n, o.Arg)
		}
	}
	fmt.Fprintf(&b, "got, ok := h.Get(/* probe %s */)\n// expected %s, observed %s (compare with the ring before the last op / a fresh ring with members %s)\n_, _ = got, ok\n",
		v.probe, v.exp, v.obs, sc.modelString(sc.modelOf(path)))
	return b.String()
}
