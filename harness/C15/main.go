// C15 — consistent hashing (core/hash/consistenthash.go): explicit-state search over operation
// histories of the REAL ring.
//
// A state is the shortest operation list reaching it; a successor is computed by building a fresh
// ring, replaying the list and applying one more operation (every transition executes the real
// code). The state key is the full white-box dump (h.replicas, h.keys, every h.ring bucket in
// stored order, h.nodes) ⊕ the reference membership (repr -> node value, effective replica
// count). The dump is the whole mutable state of a ConsistentHash, so equal keys have equal
// futures.
//
// Oracles (written from the property statement, evaluated in every reached state / across every
// transition, for every probe key):
//
//	member-only          Get returns the node value currently registered under one of the member
//	                     representations, none (nil,false) iff no member owns a virtual node,
//	                     never a removed / replaced / foreign value, never panics;
//	history independence probe results equal those of a FRESH ring built from the reference
//	                     membership in sorted order with the same effective replica counts
//	                     (differential, no expected values);
//	minimal disruption   across a transition on node n every probe whose owner changed moved
//	                     *to* n (n was not a member), *from* n (Remove), to-or-from n (n re-added);
//	                     a Remove of a non-member changes nothing.
//
// The reference model is a map repr -> (node value, effective replicas); representations of the
// node values are written by hand in the node tables (no call into lang.Repr).
package main

import (
	"encoding/json"
	"flag"
	"fmt"
	"os"
	"runtime/pprof"
	"sort"
	"strings"

	"github.com/zeromicro/go-zero/core/logx"
	"github.com/zeromicro/go-zero/core/stat"
	"github.com/zeromicro/go-zero/verifshim/vlib"
	"github.com/zeromicro/go-zero/verifshim/vx"
)

const concRule = " || CLUSTER PART (scenario cluster): every non-empty ordered selection of three redis servers with weights {100,30} (plus members of weight 0 / -5) " +
	"as cache.ClusterConf / kv.KvConf; the real cache cluster and kv store are built per configuration and driven with 46 keys through every single-key entry point; " +
	"placement read from the servers must be exactly one member of positive weight, equal for every order of the configuration, and between configurations differing in one member keys move only to/from that member; writes are found / deleted through the cluster; non-trivial = configuration whose keys spread over several servers" +
	" || SCHEDULE PART (scenarios conc/...): closed systems on one real ring under the controlled scheduler — " +
	"2-3 mutator threads with 1-2 operations each (Add / Remove / AddWithReplicas / AddWithWeight on different nodes, the same node, " +
	"nodes of one representation, nodes with coinciding virtual-node labels) plus a reader thread doing Get, from three initial rings; " +
	"one vx scenario per (initial ring, first mutator programme), the other programmes are an explorer-owned data choice; every interleaving " +
	"up to the preemption bound (quick P=2, thorough P=3); oracles: quiescent probe vector == fresh ring of a membership that a sequential " +
	"order of the calls consistent with real time produces, then sequential removal of every member (probe vector == fresh ring of the rest, " +
	"finally nothing), every concurrent Get == what a fresh ring of some membership possible during the call returns; " +
	"distinct_nontrivial counts (scenario, outcome signature = Get results + final membership) there"

// runSchedules explores the concurrent scenarios (conc.go); vx finishes the report and exits.
func runSchedules(cfg *vlib.Config, r *vlib.Report, rule string) {
	scs, filtered := concScenarios(cfg)
	if filtered && cfg.Shard == "" && cfg.Replay == "" {
		r.NotExhaustive("schedule part restricted by VERIF_C15_CONC")
	}
	vx.Main(cfg, r, scs, vx.Bounds{P: 2, T: 0}, vx.Bounds{P: 3, T: 0}, rule)
}

type replayT struct {
	Scenario string   `json:"scenario"`
	Ops      []string `json:"ops"`
	Probe    string   `json:"probe,omitempty"`
	Expected string   `json:"expected,omitempty"`
	Observed string   `json:"observed,omitempty"`
	GoTest   string   `json:"go_test,omitempty"`
}

func main() {
	only := flag.String("only", "", "developer aid: comma-separated scenario names to run (run is then marked not exhaustive)")
	cfg := vlib.ParseFlags("C15", "model_checking")
	r := vlib.NewReport(cfg)
	logx.Disable() // the cluster part links go-zero's redis / cache packages: no usage statistics on stdout
	stat.DisableLog()
	if cfg.RacePass {
		runSchedules(cfg, r, "") // ./check C15 --race: free-running race-detector pass over the scenario bodies only
	}
	scs := scenarios()
	if pf := os.Getenv("VERIF_C15_CPUPROF"); pf != "" { // developer aid only
		if f, err := os.Create(pf); err == nil {
			pprof.StartCPUProfile(f)
			defer pprof.StopCPUProfile()
		}
	}

	if cfg.Shard != "" {
		runSchedules(cfg, r, "") // vx worker process: runs one scenario, never returns
	}
	if cfg.Replay != "" {
		if b, err := os.ReadFile(cfg.Replay); err == nil {
			var probe struct {
				Replay struct {
					Choices  []int      `json:"choices"`
					Scenario string     `json:"scenario"`
					Engine   string     `json:"engine"`
					Conf     []clMember `json:"conf"`
					What     string     `json:"what"`
					Addrs    []string   `json:"server_addresses"`
				} `json:"replay"`
			}
			json.Unmarshal(b, &probe)
			if strings.HasPrefix(probe.Replay.Scenario, "conc/") {
				runSchedules(cfg, r, "") // vx replays the schedule and exits
			}
			if probe.Replay.Engine == "cluster" {
				fmt.Printf("replay cluster configuration %s\nrecorded: %s\n", confString(probe.Replay.Conf), probe.Replay.What)
				if runCluster(cfg, vlib.NewReport(cfg), probe.Replay.Conf, probe.Replay.Addrs) {
					fmt.Printf("VIOLATION property=%s replay=%s\n", cfg.ID, cfg.Replay)
					os.Exit(1)
				}
				fmt.Println("replay: no oracle failed")
				os.Exit(0)
			}
		}
		var rp replayT
		class, err := vlib.LoadReplay(cfg.Replay, &rp)
		if err != nil {
			vlib.Fatal("cannot load replay: %v", err)
		}
		os.Exit(replay(cfg, scs, class, &rp))
	}

	histRule := ("HISTORY PART: per scenario (node table, ring constructor, hash): breadth-first over all operation lists " +
		"(Add / Remove / AddWithReplicas r / AddWithWeight w for every node of the table, simplest first) up to the depth bound; " +
		"a state = shortest list reaching a distinct key (white-box dump of replicas+keys+ring buckets+nodes ⊕ reference membership); " +
		"every transition replays the list on a fresh real ring, applies the op and evaluates all probe keys against " +
		"member-only / fresh-ring differential / minimal-disruption oracles; violating states are reported once per class and not expanded. " +
		"distinct_nontrivial = distinct state keys in which at least one member owns a virtual node (Get returns a node), prefixed by scenario")
	r.SetRule(histRule)
	onlySet := func(name string) bool { return *only == "" || strings.Contains(","+*only+",", ","+name+",") }

	summary := map[string]any{}
	for _, sc := range scs {
		if sc.ThoroughOnly && !cfg.Thorough() {
			continue
		}
		if !onlySet(sc.Name) {
			r.NotExhaustive("scenario " + sc.Name + " skipped by -only")
			continue
		}
		if cfg.Expired() {
			r.NotExhaustive(fmt.Sprintf("scenario %s not started: time box expired", sc.Name))
			continue
		}
		res := explore(cfg, r, sc)
		summary[sc.Name] = res
		fmt.Printf("scenario %-8s nodes=%d ops=%d probes=%d depth<=%d states=%d transitions=%d closed=%v collisionStates=%d moved=%d violTrans=%d wall=%.1fs\n",
			sc.Name, len(sc.Nodes), len(sc.alphabet()), len(sc.probes()), res.DepthBound, res.States, res.Transitions, res.Closed,
			res.CollisionStates, res.TransitionsWithMoves, res.ViolatingTransitions, res.WallS)
	}
	r.SetExtra("scenario_results", summary)

	// collision assertion (evidence): in scenarios whose node tables have no overlapping
	// virtual-node labels under the default hash no two virtual-node hashes may coincide.
	var clean, dirty []string
	for _, sc := range scs {
		res, ok := summary[sc.Name].(*scenarioResult)
		if !ok {
			continue
		}
		if sc.ExpectCollisions {
			dirty = append(dirty, fmt.Sprintf("%s:%d/%d", sc.Name, res.CollisionStates, res.States))
			continue
		}
		clean = append(clean, fmt.Sprintf("%s:%d/%d", sc.Name, res.CollisionStates, res.States))
		if res.CollisionStates != 0 {
			r.NotExhaustive(fmt.Sprintf("assumption broken: %d states of collision-free scenario %s contain coinciding virtual-node hashes", res.CollisionStates, sc.Name))
		}
	}
	sort.Strings(clean)
	sort.Strings(dirty)
	r.SetExtra("vnode_hash_collision_states", map[string]any{
		"scenarios_expected_collision_free": clean,
		"scenarios_with_colliding_labels":   dirty,
		"format":                            "scenario:states_with_a_collision_bucket_or_duplicate_key/states",
	})
	r.Assume("default hash (murmur3 Sum64) of distinct virtual-node labels never coincided in the explored rings of the collision-free scenarios (measured: " + strings.Join(clean, " ") + ")")
	r.Assume("node identity is the representation (lang.Repr): a later Add of a value with the same representation replaces the earlier value; reference membership is keyed by hand-written representations")
	r.Assume("a member with 0 effective replicas (AddWithWeight 0) owns no virtual node: Get returns none iff no member owns a virtual node")
	pprof.StopCPUProfile()
	r.Assume("custom hash functions are outside the quantifier: in scenario 'custom' only member-only / never-removed / no-panic are violations; history dependence there is counted (counters outside_quantifier.*), not reported")
	r.Assume("schedule part: the statement is read for concurrent use as — at quiescence the ring is the ring of a membership some sequential order of the calls (consistent with real time) produces; a concurrent Get returns what the ring of some membership possible during the call returns; a re-add (documented as overwrite) may pass through 'node absent'")
	if onlySet("cluster") {
		runCluster(cfg, r, nil, nil)
	} else {
		r.NotExhaustive("cluster part skipped by -only")
	}
	if !onlySet("conc") {
		r.NotExhaustive("schedule part skipped by -only")
		r.Finish()
	}
	runSchedules(cfg, r, histRule+concRule)
}

func replay(cfg *vlib.Config, scs []*scenario, class string, rp *replayT) int {
	var sc *scenario
	for _, s := range scs {
		if s.Name == rp.Scenario {
			sc = s
		}
	}
	if sc == nil {
		vlib.Fatal("replay names unknown scenario %q", rp.Scenario)
	}
	sc.init()
	var path []op
	for _, s := range rp.Ops {
		o, ok := sc.parseOp(s)
		if !ok {
			vlib.Fatal("replay: unknown op %q in scenario %s", s, sc.Name)
		}
		path = append(path, o)
	}
	fmt.Printf("replay scenario=%s class=%s ops=%v\n", sc.Name, class, rp.Ops)
	fmt.Printf("recorded: probe=%s expected=%s observed=%s\n", rp.Probe, rp.Expected, rp.Observed)
	failed := false
	for n := 1; n <= len(path); n++ {
		out := sc.step(path[:n-1], path[n-1], true)
		fmt.Printf("  step %d %-28s members=%s vnodes=%d collisions=%v moved=%d\n", n, sc.opName(path[n-1]), out.modelAfter, out.nkeys, out.collision, out.moved)
		for _, v := range out.viols {
			failed = true
			mark := ""
			if v.class == class {
				mark = "  <== recorded class"
			}
			fmt.Printf("    observed: class=%s %s%s\n", v.class, v.desc, mark)
		}
		for _, v := range out.notes {
			fmt.Printf("    note (not a violation): %s\n", v)
		}
	}
	if failed {
		fmt.Printf("VIOLATION property=%s replay=%s\n", cfg.ID, cfg.Replay)
		return 1
	}
	fmt.Println("replay: no oracle failed")
	return 0
}
