package main

import (
	"fmt"
	"strconv"
	"sync"

	"github.com/zeromicro/go-zero/core/hash"
)

// ---- node / probe values ----

// sNode is a value Stringer; pNode a pointer Stringer (like the mockNode of the repo's tests).
type sNode struct{ S string }

func (s sNode) String() string { return s.S }

type pNode struct {
	S  string
	ID int
}

func (p *pNode) String() string { return p.S }

// nodeSpec: Repr is the hand-written representation (identity of the node in the ring).
type nodeSpec struct {
	Name string
	Repr string
	Val  any
}

type probeSpec struct {
	Name string
	Val  any
}

type opKind int

const (
	opAdd opKind = iota
	opRemove
	opAWR
	opAWW
)

type op struct {
	Kind opKind
	Node int
	Arg  int
}

type scenario struct {
	Name             string
	Nodes            []nodeSpec
	RingReplicas     int       // 0: NewConsistentHash(); else NewCustomConsistentHash(RingReplicas, Hash)
	Hash             hash.Func // nil = default
	Custom           bool      // custom hash: outside the quantifier
	Rs, Ws           []int
	AddRemoveOnly    bool
	DepthQuick       int
	DepthThorough    int
	ThoroughOnly     bool
	ExpectCollisions bool // node labels overlap (or custom hash): collision buckets expected

	once       sync.Once
	freshCache sync.Map // membership string -> freshRes
	max     int // effective h.replicas
	alpha   []op
	prb     []probeSpec
	valIdx  map[any]int // node value -> index
	overlap [][]bool    // overlap[i][j]: virtual-node labels of repr i and repr j intersect (i != j)
	opNames map[string]op
}

var (
	stdRs = []int{1, 50, 100, 150}
	stdWs = []int{0, 1, 50, 100, 200}
)

func scenarios() []*scenario {
	p7 := &pNode{S: "7", ID: 1}
	return []*scenario{
		{ // the scenario of DESIGN.md §C15
			Name: "base",
			Nodes: []nodeSpec{
				{"a", "a", "a"}, {"b", "b", "b"}, {"c", "c", "c"}, {"int(7)", "7", 7}, {"S(a)", "a", sNode{"a"}},
			},
			Rs: stdRs, Ws: stdWs, DepthQuick: 5, DepthThorough: 6,
		},
		{ // node identity by representation: seven values, one representation
			Name: "repr",
			Nodes: []nodeSpec{
				{"int(7)", "7", 7}, {"str(7)", "7", "7"}, {"int64(7)", "7", int64(7)}, {"S(7)", "7", sNode{"7"}},
				{"*P(7)", "7", p7}, {"float64(7)", "7", float64(7)}, {"uint8(7)", "7", uint8(7)}, {"b", "b", "b"},
			},
			Rs: stdRs, Ws: stdWs, DepthQuick: 3, DepthThorough: 4,
		},
		{ // ring built with NewCustomConsistentHash(200, nil): default hash, larger replica cap
			Name: "ring200", RingReplicas: 200,
			Nodes: []nodeSpec{{"a", "a", "a"}, {"b", "b", "b"}, {"int(7)", "7", 7}},
			Rs:    []int{1, 50, 100, 150, 250}, Ws: stdWs, DepthQuick: 4, DepthThorough: 5,
		},
		{ // ring built with NewCustomConsistentHash(50, nil): replicas raised to minReplicas
			Name: "ring50", RingReplicas: 50,
			Nodes: []nodeSpec{{"a", "a", "a"}, {"b", "b", "b"}, {"c", "c", "c"}},
			// negative replica counts / weights ("every replica count and weight"): a member without virtual nodes
			Rs: []int{1, 50, 100, 150, -1}, Ws: []int{0, 1, 50, 100, 200, -5}, DepthQuick: 4, DepthThorough: 4,
		},
		{ // representations where one is another plus digits: virtual-node labels repr+itoa(i) overlap
			// ("a"+"10" == "a1"+"0") under the DEFAULT hash — inside the quantifier
			Name: "prefix",
			Nodes: []nodeSpec{
				{"a", "a", "a"}, {"a1", "a1", "a1"}, {"b", "b", "b"}, {"int(1)", "1", 1}, {"int(11)", "11", 11},
			},
			Rs: stdRs, Ws: stdWs, DepthQuick: 4, DepthThorough: 5, ExpectCollisions: true,
		},
		{ // three-way label overlap under the default hash ("x"+"111" == "x1"+"11" == "x11"+"1") on a ring whose
			// replica cap (120) is large enough for it: collision buckets with three members, removal from the middle
			Name: "prefix3", RingReplicas: 120,
			Nodes: []nodeSpec{{"x", "x", "x"}, {"x1", "x1", "x1"}, {"x11", "x11", "x11"}, {"b", "b", "b"}},
			Rs:    []int{1, 100, 120}, Ws: []int{0, 50, 100}, DepthQuick: 4, DepthThorough: 5, ExpectCollisions: true,
		},
		{ // deliberately colliding custom hash (outside the quantifier): Add/Remove only
			Name: "custom", Custom: true, AddRemoveOnly: true,
			Hash:  func(b []byte) uint64 { return hash.Hash(b) % 97 },
			Nodes: []nodeSpec{{"a", "a", "a"}, {"b", "b", "b"}, {"c", "c", "c"}, {"S(a)", "a", sNode{"a"}}, {"int(7)", "7", 7}},
			DepthQuick: 5, DepthThorough: 7, ExpectCollisions: true,
		},
		{ // thorough only: wider membership (5 representations, 8 values)
			Name: "wide", ThoroughOnly: true,
			Nodes: []nodeSpec{
				{"a", "a", "a"}, {"b", "b", "b"}, {"c", "c", "c"}, {"d", "d", "d"}, {"int(7)", "7", 7},
				{"S(a)", "a", sNode{"a"}}, {"str(7)", "7", "7"}, {"int64(7)", "7", int64(7)},
			},
			Rs: stdRs, Ws: stdWs, DepthQuick: 6, DepthThorough: 6,
		},
	}
}

func (sc *scenario) init() {
	sc.once.Do(func() {
		sc.max = 100
		if sc.RingReplicas > sc.max {
			sc.max = sc.RingReplicas
		}
		sc.valIdx = map[any]int{}
		for i, n := range sc.Nodes {
			sc.valIdx[n.Val] = i
		}
		// alphabet, simplest first
		for i := range sc.Nodes {
			sc.alpha = append(sc.alpha, op{opAdd, i, 0})
		}
		for i := range sc.Nodes {
			sc.alpha = append(sc.alpha, op{opRemove, i, 0})
		}
		if !sc.AddRemoveOnly {
			for _, r := range sc.Rs {
				for i := range sc.Nodes {
					sc.alpha = append(sc.alpha, op{opAWR, i, r})
				}
			}
			for _, w := range sc.Ws {
				for i := range sc.Nodes {
					sc.alpha = append(sc.alpha, op{opAWW, i, w})
				}
			}
		}
		sc.opNames = map[string]op{}
		for _, o := range sc.alpha {
			sc.opNames[sc.opName(o)] = o
		}
		// label overlap between representations: repr_i + itoa(x) == repr_j + itoa(y), x,y < max
		labels := make([]map[string]bool, len(sc.Nodes))
		for i, n := range sc.Nodes {
			labels[i] = map[string]bool{}
			for x := 0; x < sc.max; x++ {
				labels[i][n.Repr+strconv.Itoa(x)] = true
			}
		}
		sc.overlap = make([][]bool, len(sc.Nodes))
		for i := range sc.Nodes {
			sc.overlap[i] = make([]bool, len(sc.Nodes))
			for j := range sc.Nodes {
				if sc.Nodes[i].Repr == sc.Nodes[j].Repr {
					continue
				}
				for l := range labels[i] {
					if labels[j][l] {
						sc.overlap[i][j] = true
						break
					}
				}
			}
		}
		sc.prb = sc.buildProbes()
	})
}

func (sc *scenario) alphabet() []op     { sc.init(); return sc.alpha }
func (sc *scenario) probes() []probeSpec { sc.init(); return sc.prb }

func (sc *scenario) opName(o op) string {
	n := sc.Nodes[o.Node].Name
	switch o.Kind {
	case opAdd:
		return "Add(" + n + ")"
	case opRemove:
		return "Remove(" + n + ")"
	case opAWR:
		return fmt.Sprintf("AddWithReplicas(%s,%d)", n, o.Arg)
	default:
		return fmt.Sprintf("AddWithWeight(%s,%d)", n, o.Arg)
	}
}

func (sc *scenario) parseOp(s string) (op, bool) {
	sc.init()
	o, ok := sc.opNames[s]
	return o, ok
}

func (sc *scenario) pathNames(p []op) []string {
	out := make([]string, len(p))
	for i, o := range p {
		out[i] = sc.opName(o)
	}
	return out
}

// buildProbes: >= 512 lookup keys — strings, ints, Stringers, keys equal to virtual-node labels
// (boundary: key hash == virtual-node hash) and a few odd values.
func (sc *scenario) buildProbes() []probeSpec {
	var ps []probeSpec
	for i := 0; i < 256; i++ {
		s := "k" + strconv.Itoa(i)
		ps = append(ps, probeSpec{"str(" + s + ")", s})
	}
	for i := 0; i < 200; i++ {
		ps = append(ps, probeSpec{"int(" + strconv.Itoa(i) + ")", i})
	}
	for i := 0; i < 64; i++ {
		s := "s" + strconv.Itoa(i)
		ps = append(ps, probeSpec{"S(" + s + ")", sNode{s}})
	}
	seen := map[string]bool{}
	for _, n := range sc.Nodes {
		if seen[n.Repr] {
			continue
		}
		seen[n.Repr] = true
		for _, x := range []int{0, 1, 9, 10, 19, 49, 50, 98, 99, 100, 149, 150, 199} {
			if x >= sc.max+51 {
				continue
			}
			l := n.Repr + strconv.Itoa(x)
			ps = append(ps, probeSpec{"label(" + l + ")", l})
		}
	}
	ps = append(ps,
		probeSpec{"nil", nil}, probeSpec{"str()", ""}, probeSpec{"bool(true)", true}, probeSpec{"float(3.5)", 3.5},
		probeSpec{"bytes(k1)", []byte("k1")}, probeSpec{"int64(1<<40)", int64(1) << 40}, probeSpec{"uint8(200)", uint8(200)},
		probeSpec{"int(-1)", -1}, probeSpec{"*P(k1)", &pNode{S: "k1"}},
	)
	return ps
}

// newRing builds the empty ring of the scenario through the public constructors.
func (sc *scenario) newRing() *hash.ConsistentHash {
	if sc.Custom || sc.RingReplicas != 0 {
		return hash.NewCustomConsistentHash(sc.RingReplicas, sc.Hash)
	}
	return hash.NewConsistentHash()
}

// apply executes one operation on the real ring; a panic is returned as text.
func (sc *scenario) apply(h *hash.ConsistentHash, o op) (pmsg string) {
	defer func() {
		if p := recover(); p != nil {
			pmsg = fmt.Sprint(p)
		}
	}()
	v := sc.Nodes[o.Node].Val
	switch o.Kind {
	case opAdd:
		h.Add(v)
	case opRemove:
		h.Remove(v)
	case opAWR:
		h.AddWithReplicas(v, o.Arg)
	case opAWW:
		h.AddWithWeight(v, o.Arg)
	}
	return ""
}

// owner codes of a probe result
const (
	ownNone     = -1 // (nil, false)
	ownForeign  = -2 // a value that is no node of the table
	ownBadTuple = -3 // (non-nil,false) or (nil,true)
)

func (sc *scenario) ownerOf(v any, ok bool) (o int) {
	if !ok {
		if v == nil {
			return ownNone
		}
		return ownBadTuple
	}
	if v == nil {
		return ownBadTuple
	}
	defer func() {
		if recover() != nil { // unhashable foreign value
			o = ownForeign
		}
	}()
	if i, found := sc.valIdx[v]; found {
		return i
	}
	return ownForeign
}

// probeAll looks every probe key up on the real ring.
func (sc *scenario) probeAll(h *hash.ConsistentHash) (owners []int16, pmsg string, pprobe int) {
	owners = make([]int16, len(sc.prb))
	pprobe = -1
	for i := range sc.prb {
		func() {
			defer func() {
				if p := recover(); p != nil {
					if pmsg == "" {
						pmsg, pprobe = fmt.Sprint(p), i
					}
					owners[i] = ownBadTuple
				}
			}()
			v, ok := h.Get(sc.prb[i].Val)
			owners[i] = int16(sc.ownerOf(v, ok))
		}()
	}
	return
}

func (sc *scenario) ownerName(o int16) string {
	switch {
	case o >= 0:
		return sc.Nodes[o].Name
	case o == ownNone:
		return "none"
	case o == ownForeign:
		return "<foreign value>"
	default:
		return "<inconsistent (value,ok) or panic>"
	}
}
