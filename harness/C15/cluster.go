package main

// Cluster part of C15: the two users of the ring named in the property's anchors —
// cache.New (core/stores/cache/cache.go: a cacheCluster dispatching every call by
// dispatcher.Get(key)) and kv.NewStore (core/stores/kv/store.go: clusterStore.getRedis(key)).
// Exhaustive enumeration of a bounded CONFIGURATION family: every non-empty ordered selection of three
// redis servers (in-process miniredis) with weights from {100, 30} (plus single members with weight 0
// or a negative weight beside a positive one), i.e. every subset x every weighting x every order in
// which the configuration lists the nodes. For each configuration the real cache cluster and the real
// kv store are built and driven with a fixed key set through every single-key entry point; where a
// key ended up is read from the servers themselves.
//
// Oracles (statement: "Get always returns one of the nodes currently in the ring", "the mapping of
// keys to nodes depends only on the current set of nodes and their replica counts, not on the order
// in which nodes were added"):
//   placement    every write lands on exactly ONE server and that server is listed in the configuration
//                with a positive weight; the placement is the same for every order in which the
//                configuration lists the same nodes and weights; between two configurations that
//                differ in ONE member (added / removed / re-weighted) a key whose server changed
//                moved to or from that member. (Whether the placement also equals that of a reference
//                ring built with AddWithWeight(address, configured weight) is counted, not demanded:
//                the statement does not fix how a configured weight becomes a replica count.)
//   routing      what was written through the cluster is found / deleted through the cluster
//                (Get after Set, Del of one key, Del of many keys spread over the nodes, Take caches on
//                the owner and runs the query once), whatever node it lives on.
//
// The servers listen on fixed loopback addresses (see newClEnv), so placements are identical in every run.

import (
	"errors"
	"fmt"
	"sort"
	"strings"
	"time"

	"github.com/alicebob/miniredis/v2"
	"github.com/zeromicro/go-zero/core/hash"
	"github.com/zeromicro/go-zero/core/logx"
	"github.com/zeromicro/go-zero/core/stores/cache"
	"github.com/zeromicro/go-zero/core/stores/kv"
	"github.com/zeromicro/go-zero/core/stores/redis"
	"github.com/zeromicro/go-zero/core/syncx"
	"github.com/zeromicro/go-zero/verifshim/vlib"
)

type clMember struct {
	Server int `json:"server"`
	Weight int `json:"weight"`
}

type clusterReplay struct {
	Engine string     `json:"engine"` // "cluster"
	Conf   []clMember `json:"conf"`
	What   string     `json:"what"`
	Addrs  []string   `json:"server_addresses"`
}

type clEnv struct {
	mrs   []*miniredis.Miniredis
	addrs []string
	keys  []string
}

// newClEnv starts three in-process redis servers on FIXED loopback addresses (127.0.15.1-3:6379, the
// whole 127/8 block is loopback), so that node representations — and with them every placement, every
// verdict and every replay — are the same in every run. Only if another C15 run holds them at the
// moment, the next free triple (127.0.15.4-6, ...) is taken; the addresses used are part of a replay.
func newClEnv(prefer []string) *clEnv {
	e := &clEnv{}
	try := func(addrs []string) bool {
		var started []*miniredis.Miniredis
		for _, a := range addrs {
			mr := miniredis.NewMiniRedis()
			if err := mr.StartAddr(a); err != nil {
				for _, m := range started {
					m.Close()
				}
				return false
			}
			started = append(started, mr)
		}
		e.mrs, e.addrs = started, append([]string{}, addrs...)
		return true
	}
	ok := len(prefer) == 3 && try(prefer)
	for slot := 0; !ok && slot < 80; slot++ {
		ok = try([]string{fmt.Sprintf("127.0.15.%d:6379", 3*slot+1), fmt.Sprintf("127.0.15.%d:6379", 3*slot+2), fmt.Sprintf("127.0.15.%d:6379", 3*slot+3)})
	}
	if !ok {
		vlib.Fatal("cluster part: cannot start three miniredis servers on 127.0.15.x:6379")
	}
	for i := 0; i < 40; i++ {
		e.keys = append(e.keys, fmt.Sprintf("user:%d", i))
	}
	e.keys = append(e.keys, "a", "k 1", "ключ", "0", "cache:user:id:42", strings.Repeat("x", 200))
	return e
}

func (e *clEnv) close() {
	for _, mr := range e.mrs {
		mr.Close()
	}
}

func (e *clEnv) flush() {
	for _, mr := range e.mrs {
		mr.FlushAll()
	}
}

// holders: indices of the servers that currently hold key.
func (e *clEnv) holders(key string) []int {
	var out []int
	for i, mr := range e.mrs {
		if mr.Exists(key) {
			out = append(out, i)
		}
	}
	return out
}

// clusterConfs enumerates the family, simplest first.
func clusterConfs() [][]clMember {
	var out [][]clMember
	weights := []int{100, 30}
	var perms func(rest []int, cur []int, f func([]int))
	perms = func(rest []int, cur []int, f func([]int)) {
		if len(rest) == 0 {
			f(append([]int{}, cur...))
			return
		}
		for i := range rest {
			r2 := append(append([]int{}, rest[:i]...), rest[i+1:]...)
			perms(r2, append(cur, rest[i]), f)
		}
	}
	for size := 1; size <= 3; size++ {
		for mask := 1; mask < 8; mask++ {
			var sub []int
			for s := 0; s < 3; s++ {
				if mask&(1<<s) != 0 {
					sub = append(sub, s)
				}
			}
			if len(sub) != size {
				continue
			}
			nw := 1
			for range sub {
				nw *= len(weights)
			}
			for wi := 0; wi < nw; wi++ {
				w := map[int]int{}
				x := wi
				for _, s := range sub {
					w[s] = weights[x%len(weights)]
					x /= len(weights)
				}
				perms(sub, nil, func(order []int) {
					var c []clMember
					for _, s := range order {
						c = append(c, clMember{s, w[s]})
					}
					out = append(out, c)
				})
			}
		}
	}
	// members without virtual nodes beside a positive one (weight 0 / negative), both orders
	for _, zw := range []int{0, -5} {
		out = append(out,
			[]clMember{{0, 100}, {1, zw}}, []clMember{{1, zw}, {0, 100}},
			[]clMember{{2, zw}, {0, 30}, {1, 100}}, []clMember{{1, 100}, {0, 30}, {2, zw}})
	}
	return out
}

func confString(c []clMember) string {
	var p []string
	for _, m := range c {
		p = append(p, fmt.Sprintf("s%d:%d", m.Server, m.Weight))
	}
	return "[" + strings.Join(p, " ") + "]"
}

// confSetKey: the configuration as a SET (order removed).
func confSetKey(c []clMember) string {
	var p []string
	for _, m := range c {
		p = append(p, fmt.Sprintf("s%d:%d", m.Server, m.Weight))
	}
	sort.Strings(p)
	return strings.Join(p, " ")
}

type clViol struct{ class, msg string }

var errClNotFound = errors.New("c15: not found")

// refOwner: reference placement — a ring of the address STRINGS with the configured weights, built in
// sorted order. -1: no node.
func (e *clEnv) refRing(c []clMember) (owner func(key string) int) {
	defer func() {
		if p := recover(); p != nil { // the reference is only counted, a ring that panics here is reported by the oracles proper
			owner = func(string) int { return -1 }
		}
	}()
	ms := append([]clMember{}, c...)
	sort.Slice(ms, func(i, j int) bool { return e.addrs[ms[i].Server] < e.addrs[ms[j].Server] })
	ref := hash.NewConsistentHash()
	for _, m := range ms {
		ref.AddWithWeight(e.addrs[m.Server], m.Weight)
	}
	idx := map[string]int{}
	for i, a := range e.addrs {
		idx[a] = i
	}
	return func(key string) int {
		v, ok := ref.Get(key)
		if !ok {
			return -1
		}
		return idx[v.(string)]
	}
}

// runConf drives one configuration; returns the violations, the placement vector and the number of
// operations issued through the clusters.
func (e *clEnv) runConf(c []clMember) (viols []clViol, placement []int, ops, refDiff int) {
	e.flush()
	add := func(class, format string, a ...any) {
		for _, v := range viols {
			if v.class == class {
				return
			}
		}
		viols = append(viols, clViol{class, "conf=" + confString(c) + ": " + fmt.Sprintf(format, a...)})
	}
	phase := "cache.New"
	defer func() {
		if p := recover(); p != nil {
			add("cluster-panic", "panic in %s: %v", phase, p)
		}
	}()
	positive := map[int]bool{}
	var cconf cache.ClusterConf
	for _, m := range c {
		if m.Weight > 0 {
			positive[m.Server] = true
		}
		cconf = append(cconf, cache.NodeConf{RedisConf: redis.RedisConf{Host: e.addrs[m.Server], Type: redis.NodeType, NonBlock: true}, Weight: m.Weight})
	}
	owner := e.refRing(c)
	// checkPlaced: key must be held by exactly the reference owner
	checkPlaced := func(kind, opn, key string) int {
		hs := e.holders(key)
		want := owner(key)
		switch {
		case len(hs) == 0:
			add("cluster-"+kind+"-write-lost", "%s(%q) succeeded but no server holds the key (reference owner s%d)", opn, key, want)
			return -1
		case len(hs) > 1:
			add("cluster-"+kind+"-key-on-several-nodes", "%s(%q) left the key on servers %v", opn, key, hs)
		case !positive[hs[0]]:
			add("cluster-"+kind+"-key-on-nonmember", "%s(%q) stored the key on s%d, which is not a member with positive weight", opn, key, hs[0])
		case hs[0] != want:
			// not demanded by the statement (it does not fix how a configured weight becomes a replica count): counted only
			refDiff++
		}
		return hs[0]
	}

	// ---- cache cluster ----
	cc := cache.New(cconf, syncx.NewSingleFlight(), clStat, errClNotFound)
	phase = "a cache cluster call"
	for i, k := range e.keys {
		val := "v" + k
		var err error
		opn := ""
		queries := 0
		switch i % 4 {
		case 0:
			opn, err = "cache.Set", cc.Set(k, val)
		case 1:
			opn, err = "cache.SetWithExpire", cc.SetWithExpire(k, val, time.Minute)
		case 2:
			var got string
			opn, err = "cache.Take", cc.Take(&got, k, func(v any) error { queries++; *v.(*string) = val; return nil })
			if err == nil && (queries != 1 || got != val) {
				add("cluster-cache-take-wrong", "Take(%q) on an empty cache ran the query %d times and returned %q (want once, %q)", k, queries, got, val)
			}
		case 3:
			var got string
			opn, err = "cache.TakeWithExpire", cc.TakeWithExpire(&got, k, func(v any, _ time.Duration) error { queries++; *v.(*string) = val; return nil })
			if err == nil && (queries != 1 || got != val) {
				add("cluster-cache-take-wrong", "TakeWithExpire(%q) on an empty cache ran the query %d times and returned %q (want once, %q)", k, queries, got, val)
			}
		}
		ops++
		if err != nil {
			add("cluster-cache-op-error", "%s(%q) failed: %v", opn, k, err)
			placement = append(placement, -2)
			continue
		}
		placement = append(placement, checkPlaced("cache", opn, k))
		// routing: read back through the cluster; a second Take must be served from the cache
		var got string
		ops++
		if err := cc.Get(k, &got); err != nil || got != val {
			add("cluster-cache-read-misrouted", "Get(%q) after %s returned (%q, %v), want %q", k, opn, got, err, val)
		}
		q2 := 0
		ops++
		if err := cc.Take(&got, k, func(v any) error { q2++; *v.(*string) = "other"; return nil }); err != nil || q2 != 0 || got != val {
			add("cluster-cache-read-misrouted", "Take(%q) of a cached key ran the query %d times and returned (%q, %v), want 0 times and %q", k, q2, got, err, val)
		}
	}
	var missing string
	ops++
	if err := cc.Get("c15:never-written", &missing); !cc.IsNotFound(err) {
		add("cluster-cache-notfound", "Get of a key that was never written returned %v, want the configured not-found error", err)
	}
	// deletion: the first half key by key, the second half in ONE call (keys spread over the nodes)
	half := len(e.keys) / 2
	for _, k := range e.keys[:half] {
		ops++
		if err := cc.Del(k); err != nil {
			add("cluster-cache-op-error", "Del(%q) failed: %v", k, err)
		}
	}
	ops++
	if err := cc.Del(e.keys[half:]...); err != nil {
		add("cluster-cache-op-error", "Del(%d keys) failed: %v", len(e.keys)-half, err)
	}
	for i, k := range e.keys {
		if hs := e.holders(k); len(hs) > 0 {
			how := "Del(key)"
			if i >= half {
				how = "Del(keys...)"
			}
			add("cluster-cache-delete-misrouted", "%s left %q on servers %v", how, k, hs)
		}
	}

	// ---- kv store ----
	e.flush()
	phase = "kv.NewStore"
	st := kv.NewStore(cconf)
	phase = "a kv store call"
	type wop struct {
		name string
		typ  string // string | hash | list | set | zset | hll
		exp  string // what a read of the key / field "f" must give afterwards
		fn   func(key string) error
	}
	writes := []wop{
		{"Set", "string", "v", func(k string) error { return st.Set(k, "v") }},
		{"Setex", "string", "v", func(k string) error { return st.Setex(k, "v", 60) }},
		{"Setnx", "string", "v", func(k string) error { _, err := st.Setnx(k, "v"); return err }},
		{"SetnxEx", "string", "v", func(k string) error { _, err := st.SetnxEx(k, "v", 60); return err }},
		{"Incr", "string", "1", func(k string) error { _, err := st.Incr(k); return err }},
		{"Incrby", "string", "5", func(k string) error { _, err := st.Incrby(k, 5); return err }},
		{"Decr", "string", "-1", func(k string) error { _, err := st.Decr(k); return err }},
		{"Decrby", "string", "-5", func(k string) error { _, err := st.Decrby(k, 5); return err }},
		{"GetSet", "string", "v", func(k string) error {
			_, err := st.GetSet(k, "v")
			if errors.Is(err, redis.Nil) {
				return nil
			}
			return err
		}},
		{"Hset", "hash", "v", func(k string) error { return st.Hset(k, "f", "v") }},
		{"Hsetnx", "hash", "v", func(k string) error { _, err := st.Hsetnx(k, "f", "v"); return err }},
		{"Hmset", "hash", "v", func(k string) error { return st.Hmset(k, map[string]string{"f": "v"}) }},
		{"Hincrby", "hash", "2", func(k string) error { _, err := st.Hincrby(k, "f", 2); return err }},
		{"Lpush", "list", "v", func(k string) error { _, err := st.Lpush(k, "v"); return err }},
		{"Rpush", "list", "v", func(k string) error { _, err := st.Rpush(k, "v"); return err }},
		{"Sadd", "set", "v", func(k string) error { _, err := st.Sadd(k, "v"); return err }},
		{"Zadd", "zset", "v", func(k string) error { _, err := st.Zadd(k, 1, "v"); return err }},
		{"ZaddFloat", "zset", "v", func(k string) error { _, err := st.ZaddFloat(k, 1.5, "v"); return err }},
		{"Zadds", "zset", "v", func(k string) error { _, err := st.Zadds(k, redis.Pair{Key: "v", Score: 1}); return err }},
		{"Zincrby", "zset", "v", func(k string) error { _, err := st.Zincrby(k, 2, "v"); return err }},
		{"Pfadd", "hll", "v", func(k string) error { _, err := st.Pfadd(k, "v"); return err }},
		{"Eval", "string", "v", func(k string) error {
			_, err := st.Eval("return redis.call('SET', KEYS[1], ARGV[1])", k, "v")
			return err
		}},
	}
	// every READ entry point of the key's type must see what was written, i.e. reach the same server
	type rop struct {
		name string
		ok   func(k, exp string) (bool, string)
	}
	one := func(xs []string, err error, exp string) (bool, string) {
		return err == nil && len(xs) == 1 && xs[0] == exp, fmt.Sprintf("(%q, %v)", xs, err)
	}
	pairs1 := func(ps []redis.Pair, err error) (bool, string) {
		return err == nil && len(ps) == 1 && ps[0].Key == "v", fmt.Sprintf("(%v, %v)", ps, err)
	}
	reads := map[string][]rop{
		"string": {
			{"Get", func(k, exp string) (bool, string) {
				v, err := st.Get(k)
				return err == nil && v == exp, fmt.Sprintf("(%q, %v)", v, err)
			}},
		},
		"hash": {
			{"Hget", func(k, exp string) (bool, string) {
				v, err := st.Hget(k, "f")
				return err == nil && v == exp, fmt.Sprintf("(%q, %v)", v, err)
			}},
			{"Hexists", func(k, exp string) (bool, string) {
				v, err := st.Hexists(k, "f")
				return err == nil && v, fmt.Sprintf("(%v, %v)", v, err)
			}},
			{"Hgetall", func(k, exp string) (bool, string) {
				m, err := st.Hgetall(k)
				return err == nil && len(m) == 1 && m["f"] == exp, fmt.Sprintf("(%v, %v)", m, err)
			}},
			{"Hkeys", func(k, exp string) (bool, string) { xs, err := st.Hkeys(k); return one(xs, err, "f") }},
			{"Hlen", func(k, exp string) (bool, string) {
				n, err := st.Hlen(k)
				return err == nil && n == 1, fmt.Sprintf("(%d, %v)", n, err)
			}},
			{"Hmget", func(k, exp string) (bool, string) { xs, err := st.Hmget(k, "f"); return one(xs, err, exp) }},
			{"Hvals", func(k, exp string) (bool, string) { xs, err := st.Hvals(k); return one(xs, err, exp) }},
		},
		"list": {
			{"Lindex", func(k, exp string) (bool, string) {
				v, err := st.Lindex(k, 0)
				return err == nil && v == exp, fmt.Sprintf("(%q, %v)", v, err)
			}},
			{"Llen", func(k, exp string) (bool, string) {
				n, err := st.Llen(k)
				return err == nil && n == 1, fmt.Sprintf("(%d, %v)", n, err)
			}},
			{"Lrange", func(k, exp string) (bool, string) { xs, err := st.Lrange(k, 0, -1); return one(xs, err, exp) }},
		},
		"set": {
			{"Scard", func(k, exp string) (bool, string) {
				n, err := st.Scard(k)
				return err == nil && n == 1, fmt.Sprintf("(%d, %v)", n, err)
			}},
			{"Sismember", func(k, exp string) (bool, string) {
				v, err := st.Sismember(k, exp)
				return err == nil && v, fmt.Sprintf("(%v, %v)", v, err)
			}},
			{"Smembers", func(k, exp string) (bool, string) { xs, err := st.Smembers(k); return one(xs, err, exp) }},
			{"Srandmember", func(k, exp string) (bool, string) { xs, err := st.Srandmember(k, 1); return one(xs, err, exp) }},
			{"Sscan", func(k, exp string) (bool, string) { xs, _, err := st.Sscan(k, 0, "", 10); return one(xs, err, exp) }},
		},
		"zset": {
			{"Zcard", func(k, exp string) (bool, string) {
				n, err := st.Zcard(k)
				return err == nil && n == 1, fmt.Sprintf("(%d, %v)", n, err)
			}},
			{"Zcount", func(k, exp string) (bool, string) {
				n, err := st.Zcount(k, 0, 10)
				return err == nil && n == 1, fmt.Sprintf("(%d, %v)", n, err)
			}},
			{"Zrank", func(k, exp string) (bool, string) {
				n, err := st.Zrank(k, exp)
				return err == nil && n == 0, fmt.Sprintf("(%d, %v)", n, err)
			}},
			{"Zrevrank", func(k, exp string) (bool, string) {
				n, err := st.Zrevrank(k, exp)
				return err == nil && n == 0, fmt.Sprintf("(%d, %v)", n, err)
			}},
			{"Zscore", func(k, exp string) (bool, string) {
				n, err := st.Zscore(k, exp)
				return err == nil && n >= 1, fmt.Sprintf("(%d, %v)", n, err)
			}},
			{"Zrange", func(k, exp string) (bool, string) { xs, err := st.Zrange(k, 0, -1); return one(xs, err, exp) }},
			{"Zrevrange", func(k, exp string) (bool, string) { xs, err := st.Zrevrange(k, 0, -1); return one(xs, err, exp) }},
			{"ZrangeWithScores", func(k, exp string) (bool, string) { return pairs1(st.ZrangeWithScores(k, 0, -1)) }},
			{"ZrangebyscoreWithScores", func(k, exp string) (bool, string) { return pairs1(st.ZrangebyscoreWithScores(k, 0, 10)) }},
			{"ZrangebyscoreWithScoresAndLimit", func(k, exp string) (bool, string) { return pairs1(st.ZrangebyscoreWithScoresAndLimit(k, 0, 10, 0, 10)) }},
			{"ZrevrangebyscoreWithScores", func(k, exp string) (bool, string) { return pairs1(st.ZrevrangebyscoreWithScores(k, 0, 10)) }},
			{"ZrevrangebyscoreWithScoresAndLimit", func(k, exp string) (bool, string) {
				return pairs1(st.ZrevrangebyscoreWithScoresAndLimit(k, 0, 10, 0, 10))
			}},
		},
		"hll": {
			{"Pfcount", func(k, exp string) (bool, string) {
				n, err := st.Pfcount(k)
				return err == nil && n == 1, fmt.Sprintf("(%d, %v)", n, err)
			}},
		},
	}
	for i, k := range e.keys {
		w := writes[i%len(writes)]
		ops++
		if err := w.fn(k); err != nil {
			add("cluster-kv-op-error", "kv.%s(%q) failed: %v", w.name, k, err)
			placement = append(placement, -2)
			continue
		}
		placement = append(placement, checkPlaced("kv", "kv."+w.name, k))
		ops++
		if ok, err := st.Exists(k); err != nil || !ok {
			add("cluster-kv-read-misrouted", "kv.Exists(%q) after kv.%s returned (%v, %v)", k, w.name, ok, err)
		}
		ops++
		if err := st.Expire(k, 100); err != nil {
			add("cluster-kv-op-error", "kv.Expire(%q) failed: %v", k, err)
		}
		ops++
		if ttl, err := st.Ttl(k); err != nil || ttl <= 0 {
			add("cluster-kv-read-misrouted", "kv.Ttl(%q) after Expire(100) returned (%d, %v): the two calls did not reach the same server", k, ttl, err)
		}
		ops++
		if err := st.Expireat(k, time.Now().Unix()+1000); err != nil {
			add("cluster-kv-op-error", "kv.Expireat(%q) failed: %v", k, err)
		}
		ops++
		if was, err := st.Persist(k); err != nil || !was {
			add("cluster-kv-read-misrouted", "kv.Persist(%q) of a key with a time to live returned (%v, %v): the call did not reach the key's server", k, was, err)
		}
		for _, rd := range reads[w.typ] {
			ops++
			if ok, got := rd.ok(k, w.exp); !ok {
				add("cluster-kv-read-misrouted", "kv.%s(%q) after kv.%s returned %s: it does not see what was written through the same store", rd.name, k, w.name, got)
			}
		}
	}
	// entry points that take the written element away again: each on three fresh keys
	type dop struct {
		name  string
		write func(k string) error
		take  func(k string) (bool, string)
	}
	takes := []dop{
		{"Hdel", func(k string) error { return st.Hset(k, "f", "v") }, func(k string) (bool, string) {
			v, err := st.Hdel(k, "f")
			return err == nil && v, fmt.Sprintf("(%v, %v)", v, err)
		}},
		{"Lpop", func(k string) error { _, err := st.Rpush(k, "v"); return err }, func(k string) (bool, string) {
			v, err := st.Lpop(k)
			return err == nil && v == "v", fmt.Sprintf("(%q, %v)", v, err)
		}},
		{"Lrem", func(k string) error { _, err := st.Rpush(k, "v"); return err }, func(k string) (bool, string) {
			n, err := st.Lrem(k, 0, "v")
			return err == nil && n == 1, fmt.Sprintf("(%d, %v)", n, err)
		}},
		{"Spop", func(k string) error { _, err := st.Sadd(k, "v"); return err }, func(k string) (bool, string) {
			v, err := st.Spop(k)
			return err == nil && v == "v", fmt.Sprintf("(%q, %v)", v, err)
		}},
		{"Srem", func(k string) error { _, err := st.Sadd(k, "v"); return err }, func(k string) (bool, string) {
			n, err := st.Srem(k, "v")
			return err == nil && n == 1, fmt.Sprintf("(%d, %v)", n, err)
		}},
		{"Zrem", func(k string) error { _, err := st.Zadd(k, 1, "v"); return err }, func(k string) (bool, string) {
			n, err := st.Zrem(k, "v")
			return err == nil && n == 1, fmt.Sprintf("(%d, %v)", n, err)
		}},
		{"Zremrangebyrank", func(k string) error { _, err := st.Zadd(k, 1, "v"); return err }, func(k string) (bool, string) {
			n, err := st.Zremrangebyrank(k, 0, -1)
			return err == nil && n == 1, fmt.Sprintf("(%d, %v)", n, err)
		}},
		{"Zremrangebyscore", func(k string) error { _, err := st.Zadd(k, 1, "v"); return err }, func(k string) (bool, string) {
			n, err := st.Zremrangebyscore(k, 0, 10)
			return err == nil && n == 1, fmt.Sprintf("(%d, %v)", n, err)
		}},
	}
	for _, d := range takes {
		for j := 0; j < 3; j++ {
			k := fmt.Sprintf("take:%s:%d", d.name, j)
			ops += 2
			if err := d.write(k); err != nil {
				add("cluster-kv-op-error", "write before kv.%s(%q) failed: %v", d.name, k, err)
				continue
			}
			if ok, got := d.take(k); !ok {
				add("cluster-kv-read-misrouted", "kv.%s(%q) returned %s: it does not find the element written through the same store", d.name, k, got)
			}
			if hs := e.holders(k); len(hs) > 0 {
				add("cluster-kv-delete-misrouted", "kv.%s(%q) took the only element away but servers %v still hold the key", d.name, k, hs)
			}
		}
	}
	for _, k := range e.keys[:half] {
		ops++
		if n, err := st.Del(k); err != nil || n != 1 {
			add("cluster-kv-delete-misrouted", "kv.Del(%q) returned (%d, %v), want 1", k, n, err)
		}
	}
	ops++
	if n, err := st.Del(e.keys[half:]...); err != nil || n != len(e.keys)-half {
		add("cluster-kv-delete-misrouted", "kv.Del(%d keys) returned (%d, %v)", len(e.keys)-half, n, err)
	}
	for _, k := range e.keys {
		if hs := e.holders(k); len(hs) > 0 {
			add("cluster-kv-delete-misrouted", "kv.Del left %q on servers %v", k, hs)
		}
	}
	return viols, placement, ops, refDiff
}

var clStat *cache.Stat

// runCluster enumerates the configuration family; only (class, configuration) of a violation is
// needed to replay it.
func runCluster(cfg *vlib.Config, r *vlib.Report, only []clMember, addrs []string) (failed bool) {
	logx.Disable()
	if clStat == nil {
		clStat = cache.NewStat("c15")
	}
	e := newClEnv(addrs)
	defer e.close()
	if only != nil {
		fmt.Printf("servers: %v\n", e.addrs)
	}
	confs := clusterConfs()
	if only != nil {
		confs = [][]clMember{only}
	}
	bySet := map[string][]int{} // configuration as a set -> placement of its first order
	firstOrder := map[string]string{}
	setConf := map[string][]clMember{}
	var setOrder []string
	nconf, nops, nsets, multi, refDiffs := 0, 0, 0, 0, 0
	t0 := time.Now()
	for _, c := range confs {
		if cfg.Expired() {
			r.NotExhaustive(fmt.Sprintf("cluster part: time box expired after %d of %d configurations", nconf, len(confs)))
			break
		}
		viols, placement, ops, rd := e.runConf(c)
		nconf++
		nops += ops
		refDiffs += rd
		sk := confSetKey(c)
		if prev, ok := bySet[sk]; ok {
			for i := range placement {
				if i < len(prev) && prev[i] != placement[i] && prev[i] >= 0 && placement[i] >= 0 {
					viols = append(viols, clViol{"cluster-placement-depends-on-config-order",
						fmt.Sprintf("conf=%s: key %q lives on s%d, with the same nodes and weights listed as %s it lives on s%d", confString(c), e.keys[i%len(e.keys)], placement[i], firstOrder[sk], prev[i])})
					break
				}
			}
		} else {
			bySet[sk], firstOrder[sk], setConf[sk] = placement, confString(c), c
			setOrder = append(setOrder, sk)
			nsets++
		}
		used := map[int]bool{}
		for _, p := range placement {
			if p >= 0 {
				used[p] = true
			}
		}
		if len(used) > 1 {
			multi++
			r.Nontrivial("cluster|" + confString(c)) // keys really spread over more than one server
		}
		for _, v := range viols {
			failed = true
			r.Violation(v.class, "cluster part: "+v.msg, clusterReplay{Engine: "cluster", Conf: c, What: v.msg, Addrs: e.addrs})
			if only != nil {
				fmt.Printf("    observed: class=%s %s\n", v.class, v.msg)
			}
		}
		if r.WantSample() && len(c) == 3 && nconf%17 == 0 {
			r.Sample(map[string]any{"cluster_configuration": confString(c), "keys": len(e.keys), "servers_used": len(used)})
		}
	}
	// minimal disruption ACROSS configurations: B = A plus one member with positive weight -> a key whose
	// server changed moved to the new member; A and B differ in the weight of one member -> it moved to or
	// from that member
	pairs := 0
	eff := func(w int) int {
		if w < 0 {
			return 0
		}
		return w
	}
	for _, ka := range setOrder {
		for _, kb := range setOrder {
			if ka == kb || only != nil {
				continue
			}
			wa, wb := map[int]int{}, map[int]int{}
			for _, m := range setConf[ka] {
				wa[m.Server] = eff(m.Weight)
			}
			for _, m := range setConf[kb] {
				wb[m.Server] = eff(m.Weight)
			}
			// the member in which they differ (exactly one; absent == weight 0 for this purpose)
			diff, nd := -1, 0
			for s := 0; s < 3; s++ {
				if wa[s] != wb[s] {
					diff, nd = s, nd+1
				}
			}
			if nd != 1 || ka > kb {
				continue
			}
			pairs++
			pa, pb := bySet[ka], bySet[kb]
			for i := range pa {
				if i >= len(pb) || pa[i] < 0 || pb[i] < 0 || pa[i] == pb[i] {
					continue
				}
				if pa[i] != diff && pb[i] != diff {
					failed = true
					msg := fmt.Sprintf("configurations %s and %s differ only in server s%d, but key %q moved from s%d to s%d", firstOrder[ka], firstOrder[kb], diff, e.keys[i%len(e.keys)], pa[i], pb[i])
					r.Violation("cluster-disruption-across-configurations", "cluster part: "+msg, clusterReplay{Engine: "cluster", Conf: setConf[kb], What: msg, Addrs: e.addrs})
					break
				}
			}
		}
	}
	r.Count("cluster.config_pairs_differing_in_one_member_checked_for_minimal_disruption", pairs)
	r.Count("cluster.placements_differing_from_reference_ring_of_configured_weights(not_an_oracle)", refDiffs)
	r.Eval(nops)
	r.AddTraces(nconf)
	r.Scenario("cluster", map[string]any{"configurations": nconf, "distinct_node_sets_with_weights": nsets, "configurations_spreading_keys_over_several_servers": multi,
		"keys": len(e.keys), "operations_through_cache_cluster_and_kv_store": nops, "wall_s": time.Since(t0).Seconds()})
	return failed
}
