package main

import (
	"encoding/hex"
	"fmt"
	"runtime"
	"sync"
	"time"

	"github.com/zeromicro/go-zero/verifshim/vlib"
)

type scenarioResult struct {
	Nodes                int            `json:"nodes"`
	Ops                  int            `json:"alphabet"`
	Probes               int            `json:"probes"`
	DepthBound           int            `json:"depth_bound"`
	MaxDepth             int            `json:"max_depth_with_new_state"`
	States               int            `json:"states"`
	StatesPerDepth       []int          `json:"new_states_per_depth"`
	Transitions          int            `json:"transitions"`
	Closed               bool           `json:"closed"` // frontier emptied: every reachable state (unbounded histories) was covered
	Exhaustive           bool           `json:"exhaustive_to_depth_bound"`
	CollisionStates      int            `json:"states_with_colliding_vnode_hashes"`
	LiveStates           int            `json:"states_where_get_returns_a_node"`
	TransitionsWithMoves int            `json:"transitions_that_moved_at_least_one_probe"`
	ProbesMoved          int64          `json:"probe_moves_checked"`
	ViolatingTransitions int            `json:"violating_transitions"`
	ByKind               map[string]int `json:"transitions_by_kind"`
	WallS                float64        `json:"wall_s"`
}

// explore: level-synchronous BFS. Successors of a chunk of frontier states are computed in
// parallel (the ring has no global state), then merged sequentially in frontier × alphabet order,
// so states, counts and the representative (shortest, simplest-first) paths are deterministic.
func explore(cfg *vlib.Config, r *vlib.Report, sc *scenario) *scenarioResult {
	sc.init()
	t0 := time.Now()
	alpha := sc.alphabet()
	res := &scenarioResult{Nodes: len(sc.Nodes), Ops: len(alpha), Probes: len(sc.prb), ByKind: map[string]int{}, Exhaustive: true}
	res.DepthBound = sc.DepthQuick
	if cfg.Thorough() {
		res.DepthBound = sc.DepthThorough
	}
	seen := map[[32]byte]struct{}{}

	// root
	h0 := sc.newRing()
	root := sc.dump(h0, model{})
	seen[root.key] = struct{}{}
	res.States = 1
	res.StatesPerDepth = []int{1}
	r.AddStates(1)
	r.AddTraces(1)
	if own, pg, _ := sc.probeAll(h0); pg != "" {
		r.Violation("panic-in-get", "scenario="+sc.Name+": Get on the empty ring panicked: "+pg, replayT{Scenario: sc.Name})
	} else {
		for i, o := range own {
			if o != ownNone {
				r.Violation("get-some-but-empty", fmt.Sprintf("scenario=%s: Get(%s) on a new ring returned %s", sc.Name, sc.prb[i].Name, sc.ownerName(o)),
					replayT{Scenario: sc.Name, Probe: sc.prb[i].Name, Expected: "none", Observed: sc.ownerName(o)})
				break
			}
		}
	}
	if root.collision {
		res.CollisionStates++
	}

	frontier := [][]op{nil}
	workers := runtime.GOMAXPROCS(0)
	const chunk = 256
	type cell struct {
		outs []stepOut
		bad  bool
	}
	for depth := 0; depth < res.DepthBound && len(frontier) > 0; depth++ {
		var next [][]op
		newStates := 0
		for lo := 0; lo < len(frontier); lo += chunk {
			if cfg.Expired() {
				res.Exhaustive = false
				r.NotExhaustive(fmt.Sprintf("scenario %s: time box expired at depth %d (%d of %d frontier states expanded; complete below depth %d)",
					sc.Name, depth+1, lo, len(frontier), depth+1))
				frontier = nil
				next = nil
				break
			}
			hi := lo + chunk
			if hi > len(frontier) {
				hi = len(frontier)
			}
			cells := make([]cell, hi-lo)
			// parallel: one job per (state, op) group — states are the unit, ops inside sequential
			var wg sync.WaitGroup
			jobs := make(chan int, hi-lo)
			for i := lo; i < hi; i++ {
				jobs <- i
			}
			close(jobs)
			for w := 0; w < workers; w++ {
				wg.Add(1)
				go func() {
					defer wg.Done()
					for i := range jobs {
						path := frontier[i]
						m0, before, bad := sc.prepare(path)
						c := cell{bad: bad}
						if !bad {
							c.outs = make([]stepOut, len(alpha))
							for j, o := range alpha {
								c.outs[j] = sc.stepFrom(path, m0, before, o, false)
							}
						}
						cells[i-lo] = c
					}
				}()
			}
			wg.Wait()
			// sequential, ordered merge
			for i := lo; i < hi; i++ {
				c := cells[i-lo]
				if c.bad {
					vlib.Fatal("scenario %s: prefix %v misbehaved on re-execution (nondeterminism)", sc.Name, sc.pathNames(frontier[i]))
				}
				for j, o := range alpha {
					out := &c.outs[j]
					res.Transitions++
					res.ByKind[out.kind]++
					r.Count("probe_results_checked", len(sc.prb))
					for _, cn := range out.counters {
						r.Count(cn, 1)
					}
					if out.moved > 0 {
						res.TransitionsWithMoves++
						res.ProbesMoved += int64(out.moved)
					}
					if len(out.viols) > 0 {
						res.ViolatingTransitions++
						full := append(append([]op{}, frontier[i]...), o)
						for _, v := range out.viols {
							r.Violation(v.class, v.desc, replayT{Scenario: sc.Name, Ops: sc.pathNames(full), Probe: v.probe,
								Expected: v.exp, Observed: v.obs, GoTest: sc.goTest(full, v)})
							r.Count("violating_transitions:"+v.class, 1)
						}
						continue // violating states are not expanded
					}
					if _, ok := seen[out.key]; ok {
						continue
					}
					seen[out.key] = struct{}{}
					res.States++
					newStates++
					res.MaxDepth = depth + 1
					if out.collision {
						res.CollisionStates++
					}
					if out.live {
						res.LiveStates++
						r.Nontrivial(sc.Name + "|" + hex.EncodeToString(out.key[:]))
					}
					full := append(append([]op{}, frontier[i]...), o)
					if r.WantSample() && depth+1 == res.DepthBound-1 && out.moved > 0 {
						r.Sample(map[string]any{"scenario": sc.Name, "ops": sc.pathNames(full), "members": out.modelAfter,
							"vnodes": out.nkeys, "probes_moved_by_last_op": out.moved, "kind": out.kind})
					}
					next = append(next, full)
				}
			}
		}
		if frontier == nil {
			break
		}
		res.StatesPerDepth = append(res.StatesPerDepth, newStates)
		frontier = next
	}
	res.Closed = res.Exhaustive && len(frontier) == 0
	if !res.Closed && res.Exhaustive {
		// depth bound reached with an unexpanded frontier: exhaustive up to the bound only
	}
	r.AddStates(res.States - 1)
	r.AddTransitions(res.Transitions)
	r.AddTraces(res.Transitions)
	r.Eval(res.Transitions)
	res.WallS = time.Since(t0).Seconds()
	r.Scenario(sc.Name, map[string]any{"states": res.States, "transitions": res.Transitions, "closed": res.Closed, "depth": res.DepthBound})
	return res
}
