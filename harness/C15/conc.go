package main

// Schedule part of C15: the ring under CONCURRENT use (it carries a lock; the cache cluster and the
// kv store call Get from every request goroutine while nothing stops a caller from adding or
// removing nodes). Every scenario is a closed system on one real ring (core/hash rewritten onto the
// controlled scheduler): 2-3 mutator threads with 1-2 operations each (Add / AddWithReplicas /
// AddWithWeight / Remove on different nodes, on the same node, on nodes with one representation, on
// nodes whose virtual-node labels coincide) plus a reader thread doing Get; all interleavings up to
// the preemption bound. One vx scenario = one (initial ring, first mutator) pair; the programme of
// the other threads is an explorer-owned data choice (vsched.Choose), so every member of the family
// is enumerated.
//
// Log records (totally ordered execution log):
//   C <t>.<i>            mutator t is about to issue its i-th operation
//   R <t>.<i> <panic|->  it returned
//   GC <g>               reader is about to issue its g-th Get
//   GR <g> <owner>       it returned (owner code: node index, -1 none, -2 foreign, -3 inconsistent/panic)
//
// Oracles, from the statement (nothing about the ring's internals is demanded):
//   quiescence   after all threads have finished, the probe vector equals that of a FRESH ring built
//                sequentially from one of the memberships that a sequential order of the calls
//                consistent with their real-time order can produce (operations on different nodes:
//                exactly one membership, the union) — "the mapping depends only on the current set
//                of nodes and their replica counts";
//   continuation then every member is removed in turn (sequentially): after each Remove the probe
//                vector equals that of the fresh ring of the remaining membership, at the end every
//                Get finds nothing — "a removed node is never returned", also for damage that a
//                concurrent phase left latent;
//   concurrent   every Get that ran during the mutations returned what a fresh ring of SOME membership
//   Get          that could have been current at some moment of the call returns for that key (per
//                node: the states the node can be in between the Get's call and return, given which
//                mutations had returned before / started after; a re-add may pass through "absent");
//                in particular never a node that was not a member during the call, and nothing only
//                if the ring could have been without virtual nodes.

import (
	"fmt"
	"os"
	"sort"
	"strconv"
	"strings"
	"sync"

	"github.com/zeromicro/go-zero/core/hash"
	"github.com/zeromicro/go-zero/verifshim/vlib"
	"github.com/zeromicro/go-zero/verifshim/vsched"
	"github.com/zeromicro/go-zero/verifshim/vx"
)

// concTable: the node table of the schedule part. It reuses the machinery of the history part
// (probes, reference model, fresh rings, white-box dump) through a *scenario value.
var (
	concTbl     *scenario
	concTblOnce sync.Once
	concKeyOf   []int // node index -> index of a probe key that the node owns when every node of the table is a full member
)

const (
	cnA = iota
	cnB
	cnC
	cnSA // Stringer "a": same representation as "a", different value
	cnA1 // "a1": virtual-node labels coincide with those of "a" ("a"+"10" == "a1"+"0")
)

func concTable() *scenario {
	concTblOnce.Do(func() {
		concTbl = &scenario{
			Name: "conc",
			Nodes: []nodeSpec{
				{"a", "a", "a"}, {"b", "b", "b"}, {"c", "c", "c"}, {"S(a)", "a", sNode{"a"}}, {"a1", "a1", "a1"},
			},
			Rs: []int{50}, Ws: []int{30}, ExpectCollisions: true,
		}
		concTbl.init()
		// reader keys: for every node a probe it owns in the ring of all (distinct) representations
		all := model{}
		for i, n := range concTbl.Nodes {
			if _, dup := all[n.Repr]; !dup {
				all[n.Repr] = member{i, concTbl.max}
			}
		}
		ow, _ := concTbl.freshOwners(all, concTbl.modelString(all))
		concKeyOf = make([]int, len(concTbl.Nodes))
		for i := range concKeyOf {
			concKeyOf[i] = -1
		}
		for pi, o := range ow {
			if o >= 0 && concKeyOf[o] < 0 {
				concKeyOf[o] = pi
			}
		}
		for i, n := range concTbl.Nodes { // same representation: same key
			if concKeyOf[i] < 0 {
				concKeyOf[i] = concKeyOf[all[n.Repr].node]
			}
			if concKeyOf[i] < 0 {
				vlib.Fatal("conc: no probe key owned by node %s", n.Name)
			}
		}
	})
	return concTbl
}

// ---- the family ----

type concCombo struct {
	Threads [][]op // mutator programmes
	Gets    []int  // probe indices the reader looks up, in order
}

type concFamily struct {
	Name   string
	Init   []op
	Combos []concCombo
	P      int  // > 0: preemption bound of this family (otherwise the tier default)
	Fine   bool // fine-grained mode: a thread can also be preempted right AFTER each lock / unlock (statements moved out of a critical section become visible)
	Order  int  // report order (simplest shapes first)
}

func b2i(b bool) int {
	if b {
		return 1
	}
	return 0
}

func opA(n int) op        { return op{opAdd, n, 0} }
func opR(n int) op        { return op{opRemove, n, 0} }
func opAR(n, r int) op    { return op{opAWR, n, r} }
func opAW(n, w int) op    { return op{opAWW, n, w} }
func opsOn(n int) []op    { return []op{opA(n), opR(n), opAR(n, 50), opAW(n, 30)} }
func opsOnFew(n int) []op { return []op{opA(n), opR(n), opAR(n, 50)} }

// sameReprAdds: both operations (re-)add a node of one representation (AddWithReplicas used to be
// "Remove, then insert" in two critical sections, see NOTES.md).
func sameReprAdds(t *scenario, x, y op) bool {
	return x.Kind != opRemove && y.Kind != opRemove && t.Nodes[x.Node].Repr == t.Nodes[y.Node].Repr
}

func readerKeys(ops ...op) []int {
	var ks []int
	seen := map[int]bool{}
	for _, o := range ops {
		k := concKeyOf[o.Node]
		if !seen[k] {
			seen[k] = true
			ks = append(ks, k)
		}
	}
	return ks
}

func concInits() (names []string, inits map[string][]op) {
	inits = map[string][]op{
		"empty": nil,
		"ab":    {opA(cnA), opA(cnB)},
		"a50a1": {opAR(cnA, 50), opA(cnA1), opAW(cnC, 30)}, // collision buckets a/a1 present, partial members
	}
	return []string{"empty", "ab", "a50a1"}, inits
}

// concFamilies enumerates the scenarios.
func concFamilies(thorough bool) []concFamily {
	t := concTable()
	var fams []concFamily
	names, inits := concInits()
	var alpha []op
	for _, n := range []int{cnA, cnB, cnSA, cnA1} {
		alpha = append(alpha, opsOnFew(n)...)
	}
	alpha = append(alpha, opAW(cnB, 30))
	if thorough {
		alpha = append(alpha, opAW(cnA, 30), opAW(cnSA, 30), opAW(cnA1, 30))
		for _, n := range []int{cnA, cnB} {
			alpha = append(alpha, opAR(n, 1), opAR(n, 150), opAW(n, 100))
		}
	}
	// pairs: two mutators with one operation each, the reader looks up a key of each node
	// (combinations in which two threads (re-)add a node of ONE representation live in families of their
	// own, "…same/…": they exposed the defect repaired by c7bb0ec, see NOTES.md, and a family stops
	// deepening P at the first level with a failure)
	for _, in := range names {
		// preemption bound 2 (thorough: 3 from the ring {a,b})
		pp := 2
		if thorough && in == "ab" {
			pp = 3
		}
		for i, x := range alpha {
			f := concFamily{Name: fmt.Sprintf("pair/%s/%s", in, t.opName(x)), Init: inits[in], P: pp}
			fs := concFamily{Name: fmt.Sprintf("pairsame/%s/%s", in, t.opName(x)), Init: inits[in], P: pp}
			for _, y := range alpha[i:] {
				cb := concCombo{Threads: [][]op{{x}, {y}}, Gets: readerKeys(x, y)}
				if sameReprAdds(t, x, y) {
					fs.Combos = append(fs.Combos, cb)
				} else {
					f.Combos = append(f.Combos, cb)
				}
			}
			for _, ff := range []concFamily{f, fs} {
				if len(ff.Combos) > 0 {
					fams = append(fams, ff)
				}
			}
		}
	}
	// triples: three mutators on three different nodes, one Get (quick: one preemption)
	for _, in := range []string{"empty", "ab"} {
		for _, x := range opsOnFew(cnA) {
			f := concFamily{Name: fmt.Sprintf("triple/%s/%s", in, t.opName(x)), Init: inits[in], P: 1, Order: 3}
			if thorough {
				f.P = 2
			}
			for _, y := range opsOnFew(cnB)[:2+b2i(thorough)] {
				for _, z := range opsOnFew(cnC)[:2+b2i(thorough)] {
					f.Combos = append(f.Combos, concCombo{Threads: [][]op{{x}, {y}, {z}}, Gets: readerKeys(y)})
				}
			}
			fams = append(fams, f)
		}
	}
	// fine-grained mode: preemption also between an Unlock and the plain statements that follow it
	for _, in := range names {
		f := concFamily{Name: "fine/" + in, Init: inits[in], Fine: true, Order: 1, P: 1}
		if thorough {
			f.P = 2
		}
		for _, x := range opsOnFew(cnA) {
			for _, y := range append(opsOnFew(cnB), opA(cnA1)) {
				f.Combos = append(f.Combos, concCombo{Threads: [][]op{{x}, {y}}, Gets: readerKeys(x, y)})
			}
		}
		fams = append(fams, f)
	}
	// two operations per mutator (a node joins and leaves / is re-weighted while another thread works)
	seqs := func(n int) [][]op {
		return [][]op{{opA(n), opR(n)}, {opR(n), opA(n)}, {opAR(n, 50), opA(n)}, {opA(n), opAW(n, 30)}}
	}
	for _, in := range []string{"empty", "ab"} {
		for si, sx := range seqs(cnA) {
			f := concFamily{Name: fmt.Sprintf("seq2/%s/%d", in, si), Init: inits[in], Order: 2, P: 1 + b2i(thorough)}
			fs := concFamily{Name: fmt.Sprintf("seq2same/%s/%d", in, si), Init: inits[in], Order: 2, P: 1 + b2i(thorough)}
			for _, other := range []int{cnB, cnA1, cnA, cnSA} {
				for _, sy := range seqs(other) {
					cb := concCombo{Threads: [][]op{sx, sy}, Gets: readerKeys(sx[0], sy[0])[:1]}
					if t.Nodes[other].Repr == t.Nodes[cnA].Repr { // every seqs programme contains an add
						fs.Combos = append(fs.Combos, cb)
					} else {
						f.Combos = append(f.Combos, cb)
					}
				}
			}
			fams = append(fams, f, fs)
		}
	}
	return fams
}

// ---- one execution ----

type concState struct {
	h     *hash.ConsistentHash
	combo int
}

func (f *concFamily) body() func() {
	t := concTable()
	return func() {
		h := t.newRing()
		for _, o := range f.Init {
			t.apply(h, o)
		}
		ci := vsched.Choose(len(f.Combos))
		cb := f.Combos[ci]
		vsched.SetUser(&concState{h: h, combo: ci})
		var wg vsched.WaitGroup
		for ti, prog := range cb.Threads {
			ti, prog := ti, prog
			wg.Add(1)
			vsched.GoNamed("m"+strconv.Itoa(ti), false, func() {
				defer wg.Done()
				for oi, o := range prog {
					vsched.Log("C %d.%d", ti, oi)
					p := t.apply(h, o)
					if p == "" {
						p = "-"
					}
					vsched.Log("R %d.%d %s", ti, oi, p)
				}
			})
		}
		wg.Add(1)
		vsched.GoNamed("reader", false, func() {
			defer wg.Done()
			for gi, k := range cb.Gets {
				vsched.Log("GC %d", gi)
				ow := func() (ow int) {
					defer func() {
						if p := recover(); p != nil {
							ow = ownBadTuple
						}
					}()
					v, ok := h.Get(t.prb[k].Val)
					return t.ownerOf(v, ok)
				}()
				vsched.Log("GR %d %d", gi, ow)
			}
		})
		wg.Wait()
	}
}

// ---- oracle ----

type ivl struct{ c, r int } // log positions of call and return (-1: missing)

// status of one representation: absent, or present as (node value, effective replicas)
type rstatus struct {
	present bool
	m       member
}

type revent struct {
	th, oi, k int // thread, op index, event index inside the op
	st        rstatus
}

const posInf = 1 << 30

// statuses lists the states the representation repr can be in at some moment of the window [lo,hi]
// of log positions, given the initial membership and the call/return positions of the mutations.
// An Add* is two events (the node leaves, the node joins with the new replica count), a Remove one;
// an event of operation x can be the last one before a moment t of the window iff x was called
// before hi and no event that must come after it (later event of x, or event of an operation called
// after x returned) must come before lo (its operation returned before lo).
func statuses(t *scenario, init model, cb concCombo, iv [][]ivl, repr string, lo, hi int) []rstatus {
	var evs []revent
	for ti, prog := range cb.Threads {
		for oi, o := range prog {
			if t.Nodes[o.Node].Repr != repr {
				continue
			}
			evs = append(evs, revent{ti, oi, 0, rstatus{}})
			if o.Kind != opRemove {
				evs = append(evs, revent{ti, oi, 1, rstatus{true, member{o.Node, t.effReps(o)}}})
			}
		}
	}
	var out []rstatus
	add := func(s rstatus) {
		for _, x := range out {
			if x == s {
				return
			}
		}
		out = append(out, s)
	}
	returnedBefore := func(e revent, pos int) bool {
		r := iv[e.th][e.oi].r
		return r >= 0 && r < pos
	}
	// initial status: possible iff no operation on repr had returned before lo
	initOK := true
	for _, e := range evs {
		if returnedBefore(e, lo) {
			initOK = false
		}
	}
	if initOK {
		if m, ok := init[repr]; ok {
			add(rstatus{true, m})
		} else {
			add(rstatus{})
		}
	}
	for _, e := range evs {
		c := iv[e.th][e.oi].c
		if c < 0 || c >= hi {
			continue // not called before the end of the window
		}
		last := true
		for _, f := range evs {
			after := (f.th == e.th && f.oi == e.oi && f.k > e.k) ||
				(iv[e.th][e.oi].r >= 0 && iv[f.th][f.oi].c >= 0 && iv[e.th][e.oi].r < iv[f.th][f.oi].c)
			if after && returnedBefore(f, lo) {
				last = false
				break
			}
		}
		if last {
			add(e.st)
		}
	}
	return out
}

// memberships: product of the per-representation statuses.
func memberships(t *scenario, init model, cb concCombo, iv [][]ivl, lo, hi int) []model {
	reprSet := map[string]bool{}
	for r := range init {
		reprSet[r] = true
	}
	for _, prog := range cb.Threads {
		for _, o := range prog {
			reprSet[t.Nodes[o.Node].Repr] = true
		}
	}
	var reprs []string
	for r := range reprSet {
		reprs = append(reprs, r)
	}
	sort.Strings(reprs)
	out := []model{{}}
	for _, r := range reprs {
		sts := statuses(t, init, cb, iv, r, lo, hi)
		var next []model
		for _, m := range out {
			for _, s := range sts {
				c := m.clone()
				if s.present {
					c[r] = s.m
				}
				next = append(next, c)
			}
		}
		out = next
	}
	return out
}

// finalRes: what the quiescent ring looks like and how it behaves when its members are removed one
// by one — a pure function of the ring's complete state, memoised by the white-box dump key.
type finalRes struct {
	owners   []int16
	pmsg     string
	nkeys    int
	raw      hash.VerifDump
	structEq map[string]bool // membership string -> same keys / buckets as the fresh ring of that membership
}

var (
	concFinalMu sync.Mutex
	concFinal   = map[[32]byte]*finalRes{}
)

// overlappingAdds: did two Add* calls for ONE representation, issued by different threads, overlap in
// time in this execution? Context for the message only (the repaired defect of NOTES.md needed it).
func overlappingAdds(t *scenario, cb concCombo, iv [][]ivl) (string, bool) {
	for ti, prog := range cb.Threads {
		for oi, x := range prog {
			for tj := ti + 1; tj < len(cb.Threads); tj++ {
				for oj, y := range cb.Threads[tj] {
					if !sameReprAdds(t, x, y) {
						continue
					}
					a, b := iv[ti][oi], iv[tj][oj]
					if a.c < 0 || b.c < 0 {
						continue
					}
					if (a.r >= 0 && a.r < b.c) || (b.r >= 0 && b.r < a.c) {
						continue // one returned before the other was called
					}
					return fmt.Sprintf("%s of thread %d overlapped %s of thread %d", t.opName(x), ti, t.opName(y), tj), true
				}
			}
		}
	}
	return "", false
}

func concCheck(f *concFamily) func(e *vsched.Exec) vx.Verdict {
	inner := concCheckRaw(f)
	return func(e *vsched.Exec) vx.Verdict {
		v, cb, iv := inner(e)
		if v.Class == "" || iv == nil || v.Class == "conc-harness" {
			return v
		}
		if how, ok := overlappingAdds(concTable(), cb, iv); ok {
			v.Msg = "[" + how + "] " + v.Msg
		}
		return v
	}
}

func concCheckRaw(f *concFamily) func(e *vsched.Exec) (vx.Verdict, concCombo, [][]ivl) {
	t := concTable()
	init := t.modelOf(f.Init)
	return func(e *vsched.Exec) (vx.Verdict, concCombo, [][]ivl) { return concCheck1(t, f, init, e) }
}

func concCheck1(t *scenario, f *concFamily, init model, e *vsched.Exec) (verdict vx.Verdict, cb concCombo, iv [][]ivl) {
	check := func() vx.Verdict {
		switch e.Outcome {
		case "ok":
		case "deadlock":
			return vx.Verdict{Class: "conc-deadlock{" + e.BlockedKey() + "}", Msg: "deadlock: " + strings.Join(e.Blocked(), " "), Sig: "deadlock"}
		case "crash":
			return vx.Verdict{Class: "conc-crash", Msg: "uncaught panic in a thread: " + strings.Join(e.Panics(), "; "), Sig: "crash"}
		default:
			return vx.Verdict{Class: "conc-" + e.Outcome, Msg: e.Outcome + ": " + strings.Join(e.Blocked(), " "), Sig: e.Outcome}
		}
		st, _ := e.User.(*concState)
		if st == nil {
			return vx.Verdict{Class: "conc-harness", Msg: "execution ended without harness state"}
		}
		cb = f.Combos[st.combo]
		desc := func() string {
			var th []string
			for _, prog := range cb.Threads {
				th = append(th, strings.Join(t.pathNames(prog), ";"))
			}
			return fmt.Sprintf("init=%s threads=[%s]", t.modelString(init), strings.Join(th, " || "))
		}
		// parse the log
		iv = make([][]ivl, len(cb.Threads))
		for ti, prog := range cb.Threads {
			iv[ti] = make([]ivl, len(prog))
			for oi := range prog {
				iv[ti][oi] = ivl{-1, -1}
			}
		}
		gets := make([]ivl, len(cb.Gets))
		gotOwner := make([]int, len(cb.Gets))
		for i := range gets {
			gets[i] = ivl{-1, -1}
		}
		for pos, l := range e.Log() {
			fs := strings.SplitN(l, " ", 3)
			switch fs[0] {
			case "C", "R":
				var ti, oi int
				fmt.Sscanf(fs[1], "%d.%d", &ti, &oi)
				if fs[0] == "C" {
					iv[ti][oi].c = pos
				} else {
					iv[ti][oi].r = pos
					if fs[2] != "-" {
						return vx.Verdict{Class: "conc-panic-in-op", Msg: fmt.Sprintf("%s: %s panicked: %s", desc(), t.opName(cb.Threads[ti][oi]), fs[2]), Sig: "panic"}
					}
				}
			case "GC":
				gi, _ := strconv.Atoi(fs[1])
				gets[gi].c = pos
			case "GR":
				gi, _ := strconv.Atoi(fs[1])
				gets[gi].r = pos
				gotOwner[gi], _ = strconv.Atoi(fs[2])
			}
		}
		for ti := range iv {
			for oi := range iv[ti] {
				if iv[ti][oi].c < 0 || iv[ti][oi].r < 0 {
					return vx.Verdict{Class: "conc-harness", Msg: fmt.Sprintf("%s: operation %d.%d did not return although the execution ended normally", desc(), ti, oi)}
				}
			}
		}
		var sig strings.Builder

		// concurrent Gets
		for gi, g := range gets {
			if g.c < 0 || g.r < 0 {
				return vx.Verdict{Class: "conc-harness", Msg: fmt.Sprintf("%s: Get %d did not return", desc(), gi)}
			}
			pi := cb.Gets[gi]
			got := int16(gotOwner[gi])
			fmt.Fprintf(&sig, "g%d=%s;", gi, t.ownerName(got))
			if got == ownBadTuple || got == ownForeign {
				return vx.Verdict{Class: "conc-get-foreign-or-panic", Msg: fmt.Sprintf("%s: concurrent Get(%s) panicked or returned a value that is no node / an inconsistent (value, ok)", desc(), t.prb[pi].Name), Sig: sig.String()}
			}
			ms := memberships(t, init, cb, iv, g.c, g.r)
			allowed := map[int16]bool{}
			memberSomewhere, couldBeEmpty := false, false
			var mss []string
			for _, m := range ms {
				s := t.modelString(m)
				mss = append(mss, s)
				fr, pf := t.freshOwners(m, s)
				if pf != "" {
					return vx.Verdict{Class: "conc-harness", Msg: "fresh reference ring panicked: " + pf}
				}
				allowed[fr[pi]] = true
				if m.live() == 0 {
					couldBeEmpty = true
				}
				if got >= 0 {
					if mm, ok := m[t.Nodes[got].Repr]; ok && mm.node == int(got) {
						memberSomewhere = true
					}
				}
			}
			if allowed[got] {
				continue
			}
			where := fmt.Sprintf("%s: Get(%s) issued at log position %d, returned at %d = %s; memberships possible during the call: %s",
				desc(), t.prb[pi].Name, g.c, g.r, t.ownerName(got), strings.Join(mss, " "))
			switch {
			case got == ownNone && !couldBeEmpty:
				return vx.Verdict{Class: "conc-get-none-but-members", Msg: where + " — every one of them has members owning virtual nodes", Sig: sig.String()}
			case got >= 0 && !memberSomewhere:
				return vx.Verdict{Class: "conc-get-nonmember", Msg: where + " — the returned node is a member in none of them", Sig: sig.String()}
			default:
				return vx.Verdict{Class: "conc-get-wrong-owner", Msg: where + " — no fresh ring of these memberships maps the key to that node", Sig: sig.String()}
			}
		}

		// quiescence
		di := t.dump(st.h, model{})
		concFinalMu.Lock()
		fr := concFinal[di.key]
		concFinalMu.Unlock()
		if fr == nil {
			fr = &finalRes{nkeys: di.nkeys, raw: di.raw, structEq: map[string]bool{}}
			fr.owners, fr.pmsg, _ = t.probeAll(st.h)
			concFinalMu.Lock()
			concFinal[di.key] = fr
			concFinalMu.Unlock()
		}
		if fr.pmsg != "" {
			return vx.Verdict{Class: "conc-panic-in-get", Msg: fmt.Sprintf("%s: Get on the quiescent ring panicked: %s (len(keys)=%d)", desc(), fr.pmsg, fr.nkeys), Sig: "panic-in-get"}
		}
		finals := memberships(t, init, cb, iv, posInf, posInf)
		var matched model
		var fstr []string
		for _, m := range finals {
			s := t.modelString(m)
			fstr = append(fstr, s)
			fo, pf := t.freshOwners(m, s)
			if pf != "" {
				return vx.Verdict{Class: "conc-harness", Msg: "fresh reference ring panicked: " + pf}
			}
			if matched == nil && equalOwners(fo, fr.owners) {
				matched = m
			}
		}
		if matched == nil {
			// diagnose against the first legal membership
			m := finals[0]
			fo, _ := t.freshOwners(m, fstr[0])
			nd, first := 0, -1
			for i := range fo {
				if fo[i] != fr.owners[i] {
					nd++
					if first < 0 {
						first = i
					}
				}
			}
			df := t.dump(t.fresh(m), model{})
			fk, fseq, fset := t.bucketStrings(df.raw)
			sk, sseq, sset := t.bucketStrings(fr.raw)
			diag := "other"
			switch {
			case fk != sk:
				diag = "vnode-keys-differ"
			case fset == sset && fseq != sseq:
				diag = "bucket-order"
			case fset != sset:
				diag = "bucket-contents-differ"
			}
			sort.Strings(fr.raw.Nodes)
			return vx.Verdict{Class: "conc-history-dependence:" + diag,
				Msg: fmt.Sprintf("%s: after all calls returned the ring maps %d of %d probes differently than a fresh ring of the membership %s (legal final memberships: %s); e.g. Get(%s) = %s, fresh ring: %s; ring has %d virtual-node keys, fresh %d; nodes set %v",
					desc(), nd, len(fo), fstr[0], strings.Join(fstr, " "), t.prb[first].Name, t.ownerName(fr.owners[first]), t.ownerName(fo[first]), fr.nkeys, df.nkeys, fr.raw.Nodes),
				Sig: sig.String() + "final=MISMATCH"}
		}
		fmt.Fprintf(&sig, "final=%s", t.modelString(matched))
		if !sameStructure(t, matched, fr) {
			sig.WriteString("(structure differs from fresh)")
		}

		// continuation: remove the members one by one
		rest := matched.clone()
		for _, r := range matched.reprs() {
			n := rest[r].node
			delete(rest, r)
			if p := t.apply(st.h, opR(n)); p != "" {
				return vx.Verdict{Class: "conc-then-panic-in-op", Msg: fmt.Sprintf("%s: quiescent ring %s, then Remove(%s) panicked: %s", desc(), t.modelString(matched), t.Nodes[n].Name, p), Sig: sig.String()}
			}
			ow, pg, pi := t.probeAll(st.h)
			if pg != "" {
				return vx.Verdict{Class: "conc-then-panic-in-get", Msg: fmt.Sprintf("%s: quiescent ring %s, then Remove(%s): Get(%s) panicked: %s", desc(), t.modelString(matched), t.Nodes[n].Name, t.prb[pi].Name, pg), Sig: sig.String()}
			}
			rs := t.modelString(rest)
			fo, _ := t.freshOwners(rest, rs)
			for i := range ow {
				if ow[i] == fo[i] {
					continue
				}
				class := "conc-then-history-dependence"
				if ow[i] >= 0 {
					if _, ok := rest[t.Nodes[ow[i]].Repr]; !ok {
						class = "conc-then-get-removed-node"
					}
				} else if ow[i] == ownNone {
					class = "conc-then-get-none-but-members"
				}
				return vx.Verdict{Class: class,
					Msg: fmt.Sprintf("%s: quiescent ring behaved like %s; after the sequential Remove of its members up to %s the remaining membership is %s but Get(%s) = %s (fresh ring: %s)",
						desc(), t.modelString(matched), t.Nodes[n].Name, rs, t.prb[i].Name, t.ownerName(ow[i]), t.ownerName(fo[i])),
					Sig: sig.String()}
			}
		}
		return vx.Verdict{Sig: sig.String()}
	}
	verdict = check()
	return
}

func equalOwners(a, b []int16) bool {
	if len(a) != len(b) {
		return false
	}
	for i := range a {
		if a[i] != b[i] {
			return false
		}
	}
	return true
}

// sameStructure: does the quiescent ring have the same keys / buckets as the fresh ring of the
// matched membership? Coverage signature only — the statement does not speak about the structure.
func sameStructure(t *scenario, m model, fr *finalRes) bool {
	ms := t.modelString(m)
	concFinalMu.Lock()
	eq, ok := fr.structEq[ms]
	concFinalMu.Unlock()
	if ok {
		return eq
	}
	df := t.dump(t.fresh(m), model{})
	fk, _, fset := t.bucketStrings(df.raw)
	sk, _, sset := t.bucketStrings(fr.raw)
	eq = fk == sk && fset == sset
	concFinalMu.Lock()
	fr.structEq[ms] = eq
	concFinalMu.Unlock()
	return eq
}

func concScenarios(cfg *vlib.Config) (out []vx.Scenario, filtered bool) {
	fams := concFamilies(cfg.Thorough())
	filter := os.Getenv("VERIF_C15_CONC") // developer aid: substring of the scenario names to run
	for i := range fams {
		f := &fams[i]
		if filter != "" && !strings.Contains("conc/"+f.Name, filter) {
			filtered = true
			continue
		}
		// vx starts (and merges) shards by descending weight: simplest shapes first, so that the violation kept
		// per class is the smallest one
		sc := vx.Scenario{Name: "conc/" + f.Name, Body: f.body(), Check: concCheck(f), Weight: (4-f.Order)*1000 + len(f.Combos), Fine: f.Fine}
		if f.P > 0 {
			sc.P, sc.SetBound = f.P, true
		}
		out = append(out, sc)
	}
	return out, filtered
}
