package main

// A recording database/sql/driver. One *rec per case: every driver call that matters for the
// transaction protocol is appended to rec.log, and the case's fault plan decides which call
// fails. Nothing here knows about go-zero.

import (
	"context"
	"database/sql"
	"database/sql/driver"
	"errors"
	"io"
	"runtime"
	"strings"
	"sync"
	"sync/atomic"
	"time"
)

const driverName = "verifc14"

var (
	errOpen     = errors.New("c14-open-refused")
	errBegin    = errors.New("c14-begin-refused")
	errStmt     = errors.New("c14-statement-refused")
	errPrepare  = errors.New("c14-prepare-refused")
	errCommit   = errors.New("c14-commit-refused")
	errRollback = errors.New("c14-rollback-refused")
)

// rec is the recorder and fault plan of one case.
type rec struct {
	mu  sync.Mutex
	log []string

	skip         bool // flavour "skip": Conn.ExecContext/QueryContext answer driver.ErrSkip, so database/sql prepares
	failOpen     bool
	failBegin    bool
	failCommit   bool
	failRollback bool
	arm          string // "", "driver", "norows", "prepare": consumed by the next matching statement-level call

	hitOpen, hitBegin, hitStmt, hitCommit, hitRollback bool

	// ---- context faults (ctxfam.go): the caller's context ends INSIDE a driver callback ----
	ctxAt    string        // "", open, begin, end: the callback in which the context ends (statement-level calls: armCtx)
	ctxRes   string        // ok (the call completes all the same) | ctxerr (the call answers ctx.Err(), as real drivers do)
	armCtx   int           // -1 = not armed; n = let n statement-level driver calls pass, end the context inside the next one
	endCtx   func() error  // ends the case's context and returns its Err()
	returned chan struct{} // closed by the runner when Transact/TransactCtx has returned (or panicked)
	gateWait time.Duration // see fire
	hitCtx   bool          // the context was ended at the planned point
	async    bool          // ... and that callback was not running on the caller's goroutine
	gate     string        // "", returned, expired

	inflight int // driver callbacks currently executing
	openTx   int // transactions begun (Begin answered ok) and not yet ended by a Commit/Rollback call

	beginErr, commitErr, rollbackErr error // what the driver actually answered
}

func (r *rec) enter() { r.mu.Lock(); r.inflight++; r.mu.Unlock() }
func (r *rec) leave() { r.mu.Lock(); r.inflight--; r.mu.Unlock() }

// unsettled: some driver callback is still executing or a begun transaction has not been ended.
func (r *rec) unsettled() bool {
	r.mu.Lock()
	defer r.mu.Unlock()
	return r.inflight > 0 || r.openTx > 0
}

// invokeFrame is the function (run.go) from which the harness calls Transact/TransactCtx.
const invokeFrame = "main.(*runner).invoke"

// onCallerGoroutine reports whether the harness' call of Transact/TransactCtx is on the current
// goroutine's stack, i.e. whether the driver callback runs synchronously below that call. If it
// does, the call cannot return before the callback does.
func onCallerGoroutine() bool {
	var pcs [256]uintptr
	n := runtime.Callers(2, pcs[:])
	frames := runtime.CallersFrames(pcs[:n])
	for {
		f, more := frames.Next()
		if strings.HasSuffix(f.Function, invokeFrame) {
			return true
		}
		if !more {
			return false
		}
	}
}

// fire ends the case's context if this callback is the planned point. "The call is in flight
// when the caller's context ends and completes afterwards": if the callback runs below the
// harness' call (always, on the pinned tree) the caller cannot have gone away and nothing is
// waited for. If it runs on another goroutine (the implementation handed the driver call to a
// helper), the callback is held until the runner has seen Transact/TransactCtx return — the slow
// server answers after the caller gave up — or until gateWait expires (an implementation that
// waits for its helper: the call then simply completes; the expiry never decides a verdict).
// Must be called without r.mu held.
func (r *rec) fire(point string) (bool, error) {
	r.mu.Lock()
	match := false
	switch {
	case r.hitCtx || r.endCtx == nil:
	case point == "stmt":
		if r.armCtx == 0 {
			match = true
			r.armCtx = -1
		} else if r.armCtx > 0 {
			r.armCtx--
		}
	default:
		match = r.ctxAt == point
	}
	if !match {
		r.mu.Unlock()
		return false, nil
	}
	r.hitCtx = true
	r.log = append(r.log, "ctx!")
	r.mu.Unlock()
	err := r.endCtx()
	if !onCallerGoroutine() {
		g := "expired"
		t := time.NewTimer(r.gateWait)
		select {
		case <-r.returned:
			g = "returned"
		case <-t.C:
		}
		t.Stop()
		r.mu.Lock()
		r.async, r.gate = true, g
		r.log = append(r.log, "gate:"+g)
		r.mu.Unlock()
	}
	return true, err
}

func (r *rec) setArmCtx(n int) {
	r.mu.Lock()
	r.armCtx = n
	r.mu.Unlock()
}

func (r *rec) add(op string) {
	r.mu.Lock()
	r.log = append(r.log, op)
	r.mu.Unlock()
}

func (r *rec) setArm(mode string) {
	r.mu.Lock()
	r.arm = mode
	r.mu.Unlock()
}

// disarm clears a fault that was not consumed; reports whether it had been consumed.
func (r *rec) disarm() (consumed bool) {
	r.mu.Lock()
	consumed = r.arm == ""
	r.arm = ""
	r.mu.Unlock()
	return
}

func (r *rec) snapshot() []string {
	r.mu.Lock()
	defer r.mu.Unlock()
	return append([]string(nil), r.log...)
}

// ---- registry for the sql.Open(driverName, dsn) path (sqlx.NewSqlConn) ----

// sqlx.NewSqlConn keeps one *sql.DB per datasource for the life of the process (its connection
// manager), so pooled driver connections outlive a case. A slot is the per-datasource indirection:
// connections opened for a datasource report to whatever recorder is current in its slot.
type slot struct{ cur atomic.Pointer[rec] }

func (s *slot) rec() *rec { return s.cur.Load() }

var registry sync.Map // dsn -> *slot

type namedDriver struct{}

func (namedDriver) Open(dsn string) (driver.Conn, error) {
	v, ok := registry.Load(dsn)
	if !ok {
		return nil, errors.New("c14: unknown dsn " + dsn)
	}
	return v.(*slot).open()
}

func init() { sql.Register(driverName, namedDriver{}) }

// ---- connector for the sql.OpenDB path (sqlx.NewSqlConnFromDB) ----

type connector struct{ s *slot }

func (c connector) Connect(context.Context) (driver.Conn, error) { return c.s.open() }
func (c connector) Driver() driver.Driver                        { return namedDriver{} }

func (s *slot) open() (driver.Conn, error) {
	r := s.rec()
	r.enter()
	defer r.leave()
	r.add("open")
	fired, cerr := r.fire("open")
	if r.failOpen || (fired && r.ctxRes == "ctxerr") {
		r.mu.Lock()
		r.hitOpen = true
		r.mu.Unlock()
		if r.failOpen {
			return nil, errOpen
		}
		return nil, cerr
	}
	return &conn{s: s}, nil
}

// ---- driver.Conn ----

type conn struct{ s *slot }

var (
	_ driver.ConnBeginTx        = (*conn)(nil)
	_ driver.ExecerContext      = (*conn)(nil)
	_ driver.QueryerContext     = (*conn)(nil)
	_ driver.ConnPrepareContext = (*conn)(nil)
	_ driver.Pinger             = (*conn)(nil)
)

func (c *conn) Ping(context.Context) error { c.s.rec().add("ping"); return nil }
func (c *conn) Close() error               { c.s.rec().add("connclose"); return nil }
func (c *conn) Begin() (driver.Tx, error)  { return c.BeginTx(context.Background(), driver.TxOptions{}) }

func (c *conn) BeginTx(ctx context.Context, _ driver.TxOptions) (driver.Tx, error) {
	r := c.s.rec()
	r.enter()
	defer r.leave()
	r.add("begin")
	fired, cerr := r.fire("begin")
	r.mu.Lock()
	defer r.mu.Unlock()
	switch {
	case r.failBegin:
		r.hitBegin, r.beginErr = true, errBegin
	case fired && r.ctxRes == "ctxerr":
		r.hitBegin, r.beginErr = true, cerr
	case ctx.Err() != nil: // like any real driver: a call that carries an ended context is refused
		r.hitBegin, r.beginErr = true, ctx.Err()
	default:
		r.openTx++
		return &tx{r: r}, nil
	}
	return nil, r.beginErr
}

func (c *conn) Prepare(q string) (driver.Stmt, error) {
	return c.PrepareContext(context.Background(), q)
}

func (c *conn) PrepareContext(ctx context.Context, q string) (driver.Stmt, error) {
	r := c.s.rec()
	r.enter()
	defer r.leave()
	r.add("prepare")
	fired, cerr := r.fire("stmt")
	r.mu.Lock()
	defer r.mu.Unlock()
	if fired && r.ctxRes == "ctxerr" {
		return nil, cerr
	}
	if r.arm == "prepare" {
		r.arm = ""
		r.hitStmt = true
		return nil, errPrepare
	}
	if !fired && ctx.Err() != nil {
		return nil, ctx.Err()
	}
	return &stmt{r: r}, nil
}

func (c *conn) ExecContext(ctx context.Context, _ string, _ []driver.NamedValue) (driver.Result, error) {
	r := c.s.rec()
	if r.skip {
		return nil, driver.ErrSkip
	}
	return r.doExec(ctx)
}

func (c *conn) QueryContext(ctx context.Context, _ string, _ []driver.NamedValue) (driver.Rows, error) {
	r := c.s.rec()
	if r.skip {
		return nil, driver.ErrSkip
	}
	return r.doQuery(ctx)
}

func (r *rec) doExec(ctx context.Context) (driver.Result, error) {
	r.enter()
	defer r.leave()
	r.add("exec")
	fired, cerr := r.fire("stmt")
	r.mu.Lock()
	defer r.mu.Unlock()
	if fired && r.ctxRes == "ctxerr" {
		return nil, cerr
	}
	if r.arm == "driver" {
		r.arm = ""
		r.hitStmt = true
		return nil, errStmt
	}
	if !fired && ctx.Err() != nil {
		return nil, ctx.Err()
	}
	return driver.RowsAffected(1), nil
}

func (r *rec) doQuery(ctx context.Context) (driver.Rows, error) {
	r.enter()
	defer r.leave()
	r.add("query")
	fired, cerr := r.fire("stmt")
	r.mu.Lock()
	defer r.mu.Unlock()
	if fired {
		// never rows together with an ended context: database/sql closes such rows from a goroutine
		// of its own (Rows.awaitDone), so whether the body still reads them is a race inside
		// database/sql that would make the body's outcome — not the verdict — schedule dependent
		return nil, cerr
	}
	if ctx.Err() != nil {
		return nil, ctx.Err()
	}
	switch r.arm {
	case "driver":
		r.arm = ""
		r.hitStmt = true
		return nil, errStmt
	case "norows":
		r.arm = ""
		r.hitStmt = true
		return &rows{left: 0}, nil
	}
	return &rows{left: 1}, nil
}

// ---- driver.Stmt ----

type stmt struct{ r *rec }

var (
	_ driver.StmtExecContext  = (*stmt)(nil)
	_ driver.StmtQueryContext = (*stmt)(nil)
)

func (s *stmt) Close() error                               { s.r.add("stmtclose"); return nil }
func (s *stmt) NumInput() int                              { return -1 }
func (s *stmt) Exec([]driver.Value) (driver.Result, error) { return s.r.doExec(context.Background()) }
func (s *stmt) Query([]driver.Value) (driver.Rows, error)  { return s.r.doQuery(context.Background()) }
func (s *stmt) ExecContext(ctx context.Context, _ []driver.NamedValue) (driver.Result, error) {
	return s.r.doExec(ctx)
}
func (s *stmt) QueryContext(ctx context.Context, _ []driver.NamedValue) (driver.Rows, error) {
	return s.r.doQuery(ctx)
}

// ---- driver.Tx ----

type tx struct{ r *rec }

func (t *tx) Commit() error {
	r := t.r
	r.enter()
	defer r.leave()
	r.add("commit")
	fired, cerr := r.fire("end")
	r.mu.Lock()
	defer r.mu.Unlock()
	r.openTx-- // database/sql never asks the driver twice: the attempt ends the transaction
	switch {
	case r.failCommit:
		r.hitCommit, r.commitErr = true, errCommit
	case fired && r.ctxRes == "ctxerr":
		r.hitCommit, r.commitErr = true, cerr
	}
	return r.commitErr
}

func (t *tx) Rollback() error {
	r := t.r
	r.enter()
	defer r.leave()
	r.add("rollback")
	fired, cerr := r.fire("end")
	r.mu.Lock()
	defer r.mu.Unlock()
	r.openTx--
	switch {
	case r.failRollback:
		r.hitRollback, r.rollbackErr = true, errRollback
	case fired && r.ctxRes == "ctxerr":
		r.hitRollback, r.rollbackErr = true, cerr
	}
	return r.rollbackErr
}

// ---- driver.Rows: one column "v", zero or one row ----

type rows struct{ left int }

func (r *rows) Columns() []string { return []string{"v"} }
func (r *rows) Close() error      { return nil }
func (r *rows) Next(dest []driver.Value) error {
	if r.left <= 0 {
		return io.EOF
	}
	r.left--
	dest[0] = int64(7)
	return nil
}
