package main

// A recording database/sql/driver. One *rec per case: every driver call that matters for the
// transaction protocol is appended to rec.log, and the case's fault plan decides which call
// fails. Nothing here knows about go-zero.

import (
	"context"
	"database/sql"
	"database/sql/driver"
	"errors"
	"io"
	"sync"
	"sync/atomic"
)

const driverName = "verifc14"

var (
	errOpen     = errors.New("c14-open-refused")
	errBegin    = errors.New("c14-begin-refused")
	errStmt     = errors.New("c14-statement-refused")
	errPrepare  = errors.New("c14-prepare-refused")
	errCommit   = errors.New("c14-commit-refused")
	errRollback = errors.New("c14-rollback-refused")
)

// rec is the recorder and fault plan of one case.
type rec struct {
	mu  sync.Mutex
	log []string

	skip         bool // flavour "skip": Conn.ExecContext/QueryContext answer driver.ErrSkip, so database/sql prepares
	failOpen     bool
	failBegin    bool
	failCommit   bool
	failRollback bool
	arm          string // "", "driver", "norows", "prepare": consumed by the next matching statement-level call

	hitOpen, hitBegin, hitStmt, hitCommit, hitRollback bool
}

func (r *rec) add(op string) {
	r.mu.Lock()
	r.log = append(r.log, op)
	r.mu.Unlock()
}

func (r *rec) setArm(mode string) {
	r.mu.Lock()
	r.arm = mode
	r.mu.Unlock()
}

// disarm clears a fault that was not consumed; reports whether it had been consumed.
func (r *rec) disarm() (consumed bool) {
	r.mu.Lock()
	consumed = r.arm == ""
	r.arm = ""
	r.mu.Unlock()
	return
}

func (r *rec) snapshot() []string {
	r.mu.Lock()
	defer r.mu.Unlock()
	return append([]string(nil), r.log...)
}

// ---- registry for the sql.Open(driverName, dsn) path (sqlx.NewSqlConn) ----

// sqlx.NewSqlConn keeps one *sql.DB per datasource for the life of the process (its connection
// manager), so pooled driver connections outlive a case. A slot is the per-datasource indirection:
// connections opened for a datasource report to whatever recorder is current in its slot.
type slot struct{ cur atomic.Pointer[rec] }

func (s *slot) rec() *rec { return s.cur.Load() }

var registry sync.Map // dsn -> *slot

type namedDriver struct{}

func (namedDriver) Open(dsn string) (driver.Conn, error) {
	v, ok := registry.Load(dsn)
	if !ok {
		return nil, errors.New("c14: unknown dsn " + dsn)
	}
	return v.(*slot).open()
}

func init() { sql.Register(driverName, namedDriver{}) }

// ---- connector for the sql.OpenDB path (sqlx.NewSqlConnFromDB) ----

type connector struct{ s *slot }

func (c connector) Connect(context.Context) (driver.Conn, error) { return c.s.open() }
func (c connector) Driver() driver.Driver                        { return namedDriver{} }

func (s *slot) open() (driver.Conn, error) {
	r := s.rec()
	r.add("open")
	if r.failOpen {
		r.mu.Lock()
		r.hitOpen = true
		r.mu.Unlock()
		return nil, errOpen
	}
	return &conn{s: s}, nil
}

// ---- driver.Conn ----

type conn struct{ s *slot }

var (
	_ driver.ConnBeginTx        = (*conn)(nil)
	_ driver.ExecerContext      = (*conn)(nil)
	_ driver.QueryerContext     = (*conn)(nil)
	_ driver.ConnPrepareContext = (*conn)(nil)
	_ driver.Pinger             = (*conn)(nil)
)

func (c *conn) Ping(context.Context) error { c.s.rec().add("ping"); return nil }
func (c *conn) Close() error               { c.s.rec().add("connclose"); return nil }
func (c *conn) Begin() (driver.Tx, error)  { return c.BeginTx(context.Background(), driver.TxOptions{}) }

func (c *conn) BeginTx(context.Context, driver.TxOptions) (driver.Tx, error) {
	r := c.s.rec()
	r.mu.Lock()
	defer r.mu.Unlock()
	r.log = append(r.log, "begin")
	if r.failBegin {
		r.hitBegin = true
		return nil, errBegin
	}
	return &tx{r: r}, nil
}

func (c *conn) Prepare(q string) (driver.Stmt, error) {
	return c.PrepareContext(context.Background(), q)
}

func (c *conn) PrepareContext(_ context.Context, q string) (driver.Stmt, error) {
	r := c.s.rec()
	r.mu.Lock()
	defer r.mu.Unlock()
	r.log = append(r.log, "prepare")
	if r.arm == "prepare" {
		r.arm = ""
		r.hitStmt = true
		return nil, errPrepare
	}
	return &stmt{r: r}, nil
}

func (c *conn) ExecContext(_ context.Context, _ string, _ []driver.NamedValue) (driver.Result, error) {
	r := c.s.rec()
	if r.skip {
		return nil, driver.ErrSkip
	}
	return r.doExec()
}

func (c *conn) QueryContext(_ context.Context, _ string, _ []driver.NamedValue) (driver.Rows, error) {
	r := c.s.rec()
	if r.skip {
		return nil, driver.ErrSkip
	}
	return r.doQuery()
}

func (r *rec) doExec() (driver.Result, error) {
	r.mu.Lock()
	defer r.mu.Unlock()
	r.log = append(r.log, "exec")
	if r.arm == "driver" {
		r.arm = ""
		r.hitStmt = true
		return nil, errStmt
	}
	return driver.RowsAffected(1), nil
}

func (r *rec) doQuery() (driver.Rows, error) {
	r.mu.Lock()
	defer r.mu.Unlock()
	r.log = append(r.log, "query")
	switch r.arm {
	case "driver":
		r.arm = ""
		r.hitStmt = true
		return nil, errStmt
	case "norows":
		r.arm = ""
		r.hitStmt = true
		return &rows{left: 0}, nil
	}
	return &rows{left: 1}, nil
}

// ---- driver.Stmt ----

type stmt struct{ r *rec }

var (
	_ driver.StmtExecContext  = (*stmt)(nil)
	_ driver.StmtQueryContext = (*stmt)(nil)
)

func (s *stmt) Close() error                               { s.r.add("stmtclose"); return nil }
func (s *stmt) NumInput() int                              { return -1 }
func (s *stmt) Exec([]driver.Value) (driver.Result, error) { return s.r.doExec() }
func (s *stmt) Query([]driver.Value) (driver.Rows, error)  { return s.r.doQuery() }
func (s *stmt) ExecContext(context.Context, []driver.NamedValue) (driver.Result, error) {
	return s.r.doExec()
}
func (s *stmt) QueryContext(context.Context, []driver.NamedValue) (driver.Rows, error) {
	return s.r.doQuery()
}

// ---- driver.Tx ----

type tx struct{ r *rec }

func (t *tx) Commit() error {
	r := t.r
	r.mu.Lock()
	defer r.mu.Unlock()
	r.log = append(r.log, "commit")
	if r.failCommit {
		r.hitCommit = true
		return errCommit
	}
	return nil
}

func (t *tx) Rollback() error {
	r := t.r
	r.mu.Lock()
	defer r.mu.Unlock()
	r.log = append(r.log, "rollback")
	if r.failRollback {
		r.hitRollback = true
		return errRollback
	}
	return nil
}

// ---- driver.Rows: one column "v", zero or one row ----

type rows struct{ left int }

func (r *rows) Columns() []string { return []string{"v"} }
func (r *rows) Close() error      { return nil }
func (r *rows) Next(dest []driver.Value) error {
	if r.left <= 0 {
		return io.EOF
	}
	r.left--
	dest[0] = int64(7)
	return nil
}
