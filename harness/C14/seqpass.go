package main

// The sequential pass runs in a process of its own: its goroutine census (ctxfam.go settle) must
// see only the one case that is running, not what thousands of earlier cases of a leaking
// implementation left behind in the parent (every transaction that is never ended keeps a
// database/sql goroutine alive for ever).

import (
	"encoding/json"
	"fmt"
	"os"
	"os/exec"
	"path/filepath"
	"time"

	"github.com/alicebob/miniredis/v2"
	"github.com/zeromicro/go-zero/core/logx"
)

type seqIn struct {
	Cases   []Case  `json:"cases"`
	BudgetS float64 `json:"budget_s"`
	UnitIdx int     `json:"unit_idx"`
}

type candJ struct {
	Score int    `json:"score"`
	Ord   int    `json:"ord"`
	Class string `json:"class"`
	Desc  string `json:"desc"`
	C     Case   `json:"case"`
}

type seqOut struct {
	Evals      int               `json:"evals"`
	Counters   map[string]int    `json:"counters"`
	Viol       []candJ           `json:"viol"`
	Samples    map[string]sample `json:"samples"`
	Inconcl    []string          `json:"inconcl"`
	Nontrivial []string          `json:"nontrivial"`
	Left       int               `json:"left"`
}

const seqEnvIn, seqEnvOut = "C14_SEQ_IN", "C14_SEQ_OUT"

// runSeqChild is the whole life of the child process.
func runSeqChild() {
	logx.Disable()
	var in seqIn
	b, err := os.ReadFile(os.Getenv(seqEnvIn))
	if err == nil {
		err = json.Unmarshal(b, &in)
	}
	if err != nil {
		fmt.Println("ERROR C14 sequential pass: cannot read its input:", err)
		os.Exit(2)
	}
	mr, err := miniredis.Run()
	if err != nil {
		fmt.Println("ERROR C14 sequential pass: miniredis:", err)
		os.Exit(2)
	}
	defer mr.Close()
	redisAddr = mr.Addr()
	flushCache = mr.FlushAll

	deadline := time.Now().Add(time.Duration(in.BudgetS * float64(time.Second)))
	res := newUnitRes()
	out := seqOut{}
	wk := newWorker()
	wk.seq = true
	// once a placement (open, begin, pool, ...) has a violation on record, a bounded number of
	// further re-runs of that placement suffices
	more := map[string]int{}
	for i, c := range in.Cases {
		if time.Now().After(deadline) {
			out.Left += len(in.Cases) - i
			break
		}
		if n, ok := more[c.CtxAt]; ok && n <= 0 {
			out.Left++
			continue
		}
		before := len(res.viol)
		res.judge(in.UnitIdx, c, runCase(c, wk), func(k string) { out.Nontrivial = append(out.Nontrivial, k) })
		if _, ok := more[c.CtxAt]; ok {
			more[c.CtxAt]--
		} else if len(res.viol) > before {
			more[c.CtxAt] = 40
		}
	}
	out.Evals, out.Counters, out.Samples, out.Inconcl = res.evals, res.counters, res.samples, res.inconcl
	for _, cd := range res.viol {
		out.Viol = append(out.Viol, candJ{cd.score, cd.ord, cd.class, cd.desc, cd.c})
	}
	b, _ = json.Marshal(out)
	if err := os.WriteFile(os.Getenv(seqEnvOut), b, 0o644); err != nil {
		fmt.Println("ERROR C14 sequential pass: cannot write its output:", err)
		os.Exit(2)
	}
	os.Exit(0)
}

// runSeqPass runs the cases in a child process and returns its result as a unitRes.
func runSeqPass(cases []Case, unitIdx int, budget time.Duration, nontrivial func(string)) (*unitRes, int, error) {
	dir, err := os.MkdirTemp("", "c14seq")
	if err != nil {
		return nil, 0, err
	}
	defer os.RemoveAll(dir)
	inF, outF := filepath.Join(dir, "in.json"), filepath.Join(dir, "out.json")
	b, _ := json.Marshal(seqIn{Cases: cases, BudgetS: budget.Seconds(), UnitIdx: unitIdx})
	if err := os.WriteFile(inF, b, 0o644); err != nil {
		return nil, 0, err
	}
	cmd := exec.Command(os.Args[0])
	cmd.Env = append(os.Environ(), seqEnvIn+"="+inF, seqEnvOut+"="+outF)
	cmd.Stdout, cmd.Stderr = os.Stderr, os.Stderr
	if err := cmd.Run(); err != nil {
		return nil, 0, fmt.Errorf("child process: %w", err)
	}
	var out seqOut
	b, err = os.ReadFile(outF)
	if err == nil {
		err = json.Unmarshal(b, &out)
	}
	if err != nil {
		return nil, 0, err
	}
	res := newUnitRes()
	res.evals, res.inconcl = out.Evals, out.Inconcl
	if out.Counters != nil {
		res.counters = out.Counters
	}
	if out.Samples != nil {
		res.samples = out.Samples
	}
	for _, v := range out.Viol {
		res.viol[v.Class] = cand{score: v.Score, unit: unitIdx, ord: v.Ord, class: v.Class, desc: v.Desc, c: v.C}
	}
	for _, k := range out.Nontrivial {
		nontrivial(k)
	}
	return res, out.Left, nil
}
