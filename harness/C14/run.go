package main

// Execution of one case against the real go-zero API, and the observation it yields.

import (
	"context"
	"database/sql"
	"errors"
	"fmt"
	"strings"
	"sync/atomic"
	"time"

	"github.com/zeromicro/go-zero/core/stores/cache"
	"github.com/zeromicro/go-zero/core/stores/redis"
	"github.com/zeromicro/go-zero/core/stores/sqlc"
	"github.com/zeromicro/go-zero/core/stores/sqlx"
)

// Case is one (entry point, body shape, fault placement). It is also the replay artefact.
type Case struct {
	API     string   `json:"api"`     // entry point, see apis
	Kinds   []string `json:"kinds"`   // body statements: exec | query | prepexec | prepquery | nested
	Flavour string   `json:"flavour"` // driver flavour: direct | skip (database/sql falls back to prepare+stmt)
	Begin   string   `json:"begin"`   // ok | fail (driver Begin fails) | openfail (no connection at all)
	Ctx     string   `json:"ctx"`     // live | pre (cancelled before the call) | inbody (body cancels it first thing)
	FailAt  int      `json:"fail_at"` // 0 = no statement fault, else the 1-based statement that fails
	Mode    string   `json:"mode"`    // how it fails: driver | norows | prepare
	OnErr   string   `json:"on_err"`  // what the body does with a statement error: return | ignore
	Term    string   `json:"term"`    // what the body does after its last statement: nil | err | typednil | panic:<kind>
	End     string   `json:"end"`     // none | commit (driver Commit fails) | rollback (driver Rollback fails)
}

func (c Case) key() string {
	return fmt.Sprintf("%s|%s|%s|%s|%s|%d|%s|%s|%s|%s", c.API, strings.Join(c.Kinds, ","), c.Flavour, c.Begin,
		c.Ctx, c.FailAt, c.Mode, c.OnErr, c.Term, c.End)
}

func (c Case) String() string {
	s := fmt.Sprintf("%s body=[%s] flavour=%s", c.API, strings.Join(c.Kinds, " "), c.Flavour)
	if c.Begin != "ok" {
		s += " begin=" + c.Begin
	}
	if c.Ctx != "live" {
		s += " ctx=" + c.Ctx
	}
	if c.FailAt > 0 {
		s += fmt.Sprintf(" stmt#%d fails(%s) body-%ss-it", c.FailAt, c.Mode, c.OnErr)
	}
	s += " then=" + c.Term
	if c.End != "none" {
		s += " " + c.End + "-fails"
	}
	return s
}

type apiSpec struct {
	name   string
	ctxAPI bool   // TransactCtx (bodies use the *Ctx methods) vs Transact
	ctor   string // fromdb | newconn
	cached string // "", custom, node, conf
	via    string // how the body talks to the session: direct | wrap (NewSqlConnFromSession) | withsession (CachedConn.WithSession)
}

var apis = []apiSpec{
	{"sqlx.NewSqlConnFromDB.Transact", false, "fromdb", "", "direct"},
	{"sqlx.NewSqlConnFromDB.TransactCtx", true, "fromdb", "", "direct"},
	{"sqlx.NewSqlConn.Transact", false, "newconn", "", "wrap"},
	{"sqlx.NewSqlConn.TransactCtx", true, "newconn", "", "wrap"},
	{"sqlc.NewConnWithCache.Transact", false, "fromdb", "custom", "direct"},
	{"sqlc.NewConnWithCache.TransactCtx", true, "fromdb", "custom", "withsession"},
	{"sqlc.NewNodeConn.Transact", false, "fromdb", "node", "withsession"},
	{"sqlc.NewConn.TransactCtx", true, "fromdb", "conf", "direct"},
}

func apiByName(n string) (apiSpec, bool) {
	for _, a := range apis {
		if a.name == n {
			return a, true
		}
	}
	return apiSpec{}, false
}

// Obs is everything the oracle may look at.
type Obs struct {
	Log         []string // driver calls and the body markers "body{" / "}body"
	BodyRuns    int
	BodyOutcome string // "" (never finished), nil, err, panic
	Err         error  // what Transact/TransactCtx returned
	Escaped     any    // a panic that escaped Transact/TransactCtx
	DidEscape   bool
	InUse       int // sql.DB connections still in use after the call (-1: no DB)

	HitOpen, HitBegin, HitStmt, HitCommit, HitRollback bool
	TermReached                                        bool
	NestedRan                                          int
	NestedErrs                                         []string
}

type typedNilErr struct{}

func (*typedNilErr) Error() string { return "typed-nil" }

type panicStruct struct{ A, B int }

var errOwn = errors.New("c14-body-own-error")
var errPanicValue = errors.New("c14-panic-error-value")

var panicKinds = []string{"error", "string", "int", "nil", "struct", "runtime", "typednil"}

func doPanic(kind string) {
	switch kind {
	case "error":
		panic(errPanicValue)
	case "string":
		panic("c14-panic-string")
	case "int":
		panic(42)
	case "nil":
		panic(nil) //nolint — go.mod says go >= 1.21: becomes *runtime.PanicNilError
	case "struct":
		panic(panicStruct{1, 2})
	case "runtime":
		var m map[string]int
		m["x"] = 1 // real runtime.Error
	case "typednil":
		panic((*int)(nil))
	}
	panic("c14: unknown panic kind " + kind)
}

// ---- caches for the sqlc constructors ----

type nopCache struct{}

func (nopCache) Del(...string) error                            { return nil }
func (nopCache) DelCtx(context.Context, ...string) error        { return nil }
func (nopCache) Get(string, any) error                          { return sql.ErrNoRows }
func (nopCache) GetCtx(context.Context, string, any) error      { return sql.ErrNoRows }
func (nopCache) IsNotFound(err error) bool                      { return errors.Is(err, sql.ErrNoRows) }
func (nopCache) Set(string, any) error                          { return nil }
func (nopCache) SetCtx(context.Context, string, any) error      { return nil }
func (nopCache) SetWithExpire(string, any, time.Duration) error { return nil }
func (nopCache) Take(v any, _ string, q func(any) error) error  { return q(v) }
func (nopCache) SetWithExpireCtx(context.Context, string, any, time.Duration) error {
	return nil
}
func (nopCache) TakeCtx(_ context.Context, v any, _ string, q func(any) error) error { return q(v) }
func (nopCache) TakeWithExpire(v any, _ string, q func(any, time.Duration) error) error {
	return q(v, time.Second)
}
func (nopCache) TakeWithExpireCtx(_ context.Context, v any, _ string, q func(any, time.Duration) error) error {
	return q(v, time.Second)
}

var _ cache.Cache = nopCache{}

var redisAddr string // miniredis, started once in main

// worker is the per-goroutine context: the datasource names it uses with sqlx.NewSqlConn (whose
// *sql.DB is cached per datasource by go-zero and therefore shared by this worker's cases, as in
// production) and the redis handle given to sqlc.NewNodeConn.
type worker struct {
	dsn, dsnOpenFail string
	slot             *slot
	rds              *redis.Redis
}

var workerSeq atomic.Int64

func newWorker() *worker {
	w := &worker{slot: &slot{}, rds: redis.New(redisAddr)}
	w.renew()
	return w
}

// renew gives the worker fresh datasource names (hence a fresh cached *sql.DB). Used after a
// case left a connection checked out, so that a leaking implementation cannot exhaust the
// shared pool and hang later cases instead of being reported.
func (w *worker) renew() {
	id := workerSeq.Add(1)
	w.dsn, w.dsnOpenFail = fmt.Sprintf("c14#%d", id), fmt.Sprintf("c14#%d#noconn", id)
	registry.Store(w.dsn, w.slot)
	registry.Store(w.dsnOpenFail, w.slot)
}

const (
	qExec  = "update t set v = ? where id = 1"
	qQuery = "select v from t where id = ?"
)

// transactor is what both sqlx.SqlConn and sqlc.CachedConn offer.
type transactor interface {
	Transact(fn func(sqlx.Session) error) error
	TransactCtx(ctx context.Context, fn func(context.Context, sqlx.Session) error) error
}

type runner struct {
	c      Case
	a      apiSpec
	r      *rec
	o      *Obs
	cc     *sqlc.CachedConn
	cancel context.CancelFunc
	ret    bool
}

// runCase builds a fresh driver recorder, a fresh sql.DB, a fresh SqlConn (fresh breaker) and,
// for the sqlc entry points, a fresh CachedConn; runs the case once; returns what happened.
func runCase(c Case, w *worker) *Obs {
	a, ok := apiByName(c.API)
	if !ok {
		panic("unknown api " + c.API)
	}
	r := &rec{skip: c.Flavour == "skip", failOpen: c.Begin == "openfail", failBegin: c.Begin == "fail",
		failCommit: c.End == "commit", failRollback: c.End == "rollback"}
	o := &Obs{InUse: -1}
	x := &runner{c: c, a: a, r: r, o: o}

	w.slot.cur.Store(r)
	var sc sqlx.SqlConn
	var db *sql.DB
	switch a.ctor {
	case "fromdb":
		db = sql.OpenDB(connector{w.slot})
		defer db.Close()
		sc = sqlx.NewSqlConnFromDB(db)
	case "newconn":
		dsn := w.dsn
		if c.Begin == "openfail" {
			dsn = w.dsnOpenFail // never cached by go-zero: opening it always fails
		}
		sc = sqlx.NewSqlConn(driverName, dsn)
	}
	var t transactor = sc
	switch a.cached {
	case "custom":
		cc := sqlc.NewConnWithCache(sc, nopCache{})
		x.cc, t = &cc, cc
	case "node":
		cc := sqlc.NewNodeConn(sc, w.rds)
		x.cc, t = &cc, cc
	case "conf":
		cc := sqlc.NewConn(sc, cache.CacheConf{{RedisConf: redis.RedisConf{Host: redisAddr, Type: redis.NodeType, NonBlock: true}, Weight: 100}})
		x.cc, t = &cc, cc
	}

	ctx, cancel := context.WithCancel(context.Background())
	defer cancel()
	x.cancel = cancel
	if c.Ctx == "pre" {
		cancel()
	}

	func() {
		defer func() {
			p := recover()
			if !x.ret { // Transact/TransactCtx did not return normally
				o.Escaped, o.DidEscape = p, true
			}
		}()
		if a.ctxAPI {
			o.Err = t.TransactCtx(ctx, x.body)
		} else {
			o.Err = t.Transact(func(s sqlx.Session) error { return x.body(context.Background(), s) })
		}
		x.ret = true
	}()

	if db == nil && c.Begin != "openfail" {
		// the *sql.DB created by sqlx's connection manager
		if d, err := sc.RawDB(); err == nil {
			db = d
		}
	}
	if db != nil {
		o.InUse = db.Stats().InUse
		if o.InUse != 0 && a.ctor == "newconn" {
			w.renew()
		}
	}
	o.Log = r.snapshot()
	r.mu.Lock()
	o.HitOpen, o.HitBegin, o.HitStmt, o.HitCommit, o.HitRollback = r.hitOpen, r.hitBegin, r.hitStmt, r.hitCommit, r.hitRollback
	r.mu.Unlock()
	return o
}

// body is the transaction body handed to go-zero.
func (x *runner) body(ctx context.Context, sess sqlx.Session) (err error) {
	c, o := x.c, x.o
	o.BodyRuns++
	x.r.add("body{")
	defer x.r.add("}body") // also on panic: the body's frame unwinds before go-zero's recover runs
	if c.Ctx == "inbody" {
		x.cancel()
	}
	for i, kind := range c.Kinds {
		armed := c.FailAt == i+1
		if armed {
			x.r.setArm(c.Mode)
		}
		e := x.step(ctx, sess, kind)
		if armed {
			x.r.disarm()
		}
		if e != nil && c.OnErr == "return" {
			o.BodyOutcome = "err"
			return e
		}
	}
	o.TermReached = true
	switch {
	case c.Term == "nil":
		o.BodyOutcome = "nil"
		return nil
	case c.Term == "err":
		o.BodyOutcome = "err"
		return errOwn
	case c.Term == "typednil":
		o.BodyOutcome = "err"
		var e *typedNilErr
		return e // non-nil error interface holding a nil pointer
	case strings.HasPrefix(c.Term, "panic:"):
		o.BodyOutcome = "panic"
		doPanic(strings.TrimPrefix(c.Term, "panic:"))
	}
	panic("c14: bad terminal " + c.Term)
}

// step runs one body statement through the session the way the entry point's "via" says.
func (x *runner) step(ctx context.Context, sess sqlx.Session, kind string) error {
	useCtx := x.a.ctxAPI
	s := sess
	if x.a.via == "wrap" {
		s = sqlx.NewSqlConnFromSession(sess) // a SqlConn is a Session
	}
	var ccs *sqlc.CachedConn
	if x.a.via == "withsession" && x.cc != nil {
		w := x.cc.WithSession(sess)
		ccs = &w
	}
	var v int
	switch kind {
	case "exec":
		var err error
		switch {
		case ccs != nil && useCtx:
			_, err = ccs.ExecNoCacheCtx(ctx, qExec, 5)
		case ccs != nil:
			_, err = ccs.ExecNoCache(qExec, 5)
		case useCtx:
			_, err = s.ExecCtx(ctx, qExec, 5)
		default:
			_, err = s.Exec(qExec, 5)
		}
		return err
	case "query":
		switch {
		case ccs != nil && useCtx:
			return ccs.QueryRowNoCacheCtx(ctx, &v, qQuery, 1)
		case ccs != nil:
			return ccs.QueryRowNoCache(&v, qQuery, 1)
		case useCtx:
			return s.QueryRowCtx(ctx, &v, qQuery, 1)
		default:
			return s.QueryRow(&v, qQuery, 1)
		}
	case "prepexec", "prepquery":
		q := qExec
		if kind == "prepquery" {
			q = qQuery
		}
		var st sqlx.StmtSession
		var err error
		if useCtx {
			st, err = s.PrepareCtx(ctx, q)
		} else {
			st, err = s.Prepare(q)
		}
		if err != nil {
			return err
		}
		defer st.Close()
		switch {
		case kind == "prepexec" && useCtx:
			_, err = st.ExecCtx(ctx, 5)
		case kind == "prepexec":
			_, err = st.Exec(5)
		case useCtx:
			err = st.QueryRowCtx(ctx, &v, 1)
		default:
			err = st.QueryRow(&v, 1)
		}
		return err
	case "nested":
		// An attempt to open a transaction on the transaction's own session. Its result is not a
		// statement error of the body (the body carries on); what it did is recorded.
		inner := func(context.Context, sqlx.Session) error { x.o.NestedRan++; return nil }
		var err error
		switch {
		case ccs != nil && useCtx:
			err = ccs.TransactCtx(ctx, inner)
		case ccs != nil:
			err = ccs.Transact(func(s sqlx.Session) error { return inner(ctx, s) })
		case useCtx:
			err = sqlx.NewSqlConnFromSession(sess).TransactCtx(ctx, inner)
		default:
			err = sqlx.NewSqlConnFromSession(sess).Transact(func(s sqlx.Session) error { return inner(ctx, s) })
		}
		x.o.NestedErrs = append(x.o.NestedErrs, fmt.Sprint(err))
		return nil
	}
	panic("c14: unknown statement kind " + kind)
}
