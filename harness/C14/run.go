package main

// Execution of one case against the real go-zero API, and the observation it yields.

import (
	"context"
	"database/sql"
	"errors"
	"fmt"
	"strings"
	"sync"
	"sync/atomic"
	"time"

	"github.com/zeromicro/go-zero/core/stores/cache"
	"github.com/zeromicro/go-zero/core/stores/redis"
	"github.com/zeromicro/go-zero/core/stores/sqlc"
	"github.com/zeromicro/go-zero/core/stores/sqlx"
)

// Case is one (entry point, body shape, fault placement). It is also the replay artefact.
type Case struct {
	API     string   `json:"api"`     // entry point, see apis
	Kinds   []string `json:"kinds"`   // body statements: exec | query | prepexec | prepquery | nested
	Flavour string   `json:"flavour"` // driver flavour: direct | skip (database/sql falls back to prepare+stmt)
	Begin   string   `json:"begin"`   // ok | fail (driver Begin fails) | openfail (no connection at all)
	Ctx     string   `json:"ctx"`     // live | pre (cancelled before the call) | inbody (body cancels it first thing)
	FailAt  int      `json:"fail_at"` // 0 = no statement fault, else the 1-based statement that fails
	Mode    string   `json:"mode"`    // how it fails: driver | norows | prepare
	OnErr   string   `json:"on_err"`  // what the body does with a statement error: return | ignore
	Term    string   `json:"term"`    // what the body does after its last statement: nil | err | typednil | panic:<kind>
	End     string   `json:"end"`     // none | commit (driver Commit fails) | rollback (driver Rollback fails)

	// context-fault family (ctxfam.go): the caller's context ends at a placed point of the call
	CtxKind string `json:"ctx_kind,omitempty"` // cancel | deadline
	CtxAt   string `json:"ctx_at,omitempty"`   // open | begin | stmt | end (inside that driver callback) | pre (by the body) | pool (while Begin waits for a pooled connection)
	CtxK    int    `json:"ctx_k,omitempty"`    // pre: before statement k (len+1: before the terminal); stmt: inside statement k
	CtxCall int    `json:"ctx_call,omitempty"` // stmt: inside the n-th statement-level driver call of statement k
	CtxRes  string `json:"ctx_res,omitempty"`  // ok (the driver call completes all the same) | ctxerr (it answers ctx.Err())
}

func (c Case) ctxFam() bool { return c.CtxKind != "" }

func (c Case) key() string {
	k := fmt.Sprintf("%s|%s|%s|%s|%s|%d|%s|%s|%s|%s", c.API, strings.Join(c.Kinds, ","), c.Flavour, c.Begin,
		c.Ctx, c.FailAt, c.Mode, c.OnErr, c.Term, c.End)
	if c.ctxFam() {
		k += fmt.Sprintf("|%s|%s|%d|%d|%s", c.CtxKind, c.CtxAt, c.CtxK, c.CtxCall, c.CtxRes)
	}
	return k
}

func (c Case) String() string {
	s := fmt.Sprintf("%s body=[%s] flavour=%s", c.API, strings.Join(c.Kinds, " "), c.Flavour)
	if c.Begin != "ok" {
		s += " begin=" + c.Begin
	}
	if c.Ctx != "live" {
		s += " ctx=" + c.Ctx
	}
	if c.FailAt > 0 {
		s += fmt.Sprintf(" stmt#%d fails(%s) body-%ss-it", c.FailAt, c.Mode, c.OnErr)
	}
	if c.ctxFam() {
		switch c.CtxAt {
		case "":
			s += " ctx(" + c.CtxKind + ") never ends"
		case "pre":
			s += fmt.Sprintf(" ctx-%s by the body before stmt#%d", c.CtxKind, c.CtxK)
		case "stmt":
			s += fmt.Sprintf(" ctx-%s inside driver call %d of stmt#%d (call answers %s)", c.CtxKind, c.CtxCall, c.CtxK, c.CtxRes)
		case "pool":
			s += " ctx-" + c.CtxKind + " while Begin waits for the only pooled connection"
		default:
			s += fmt.Sprintf(" ctx-%s inside the driver's %s callback (call answers %s)", c.CtxKind, c.CtxAt, c.CtxRes)
		}
		if c.FailAt == 0 && c.CtxAt != "" {
			s += " body-" + c.OnErr + "s-errors"
		}
	}
	s += " then=" + c.Term
	if c.End != "none" {
		s += " " + c.End + "-fails"
	}
	return s
}

type apiSpec struct {
	name   string
	ctxAPI bool   // TransactCtx (bodies use the *Ctx methods) vs Transact
	ctor   string // fromdb | newconn
	cached string // "", custom, node, conf
	via    string // how the body talks to the session: direct | wrap (NewSqlConnFromSession) | withsession (CachedConn.WithSession)
	opt    string // "", acceptable (constructed with sqlx.WithAcceptable)
}

// ctxAPIs are the entry points of the context-fault family: every one that takes a context.
var ctxAPIs = []apiSpec{
	{"sqlx.NewSqlConnFromDB.TransactCtx", true, "fromdb", "", "direct", ""},
	{"sqlx.NewSqlConn.TransactCtx", true, "newconn", "", "wrap", ""},
	{"sqlc.NewConnWithCache.TransactCtx", true, "fromdb", "custom", "withsession", ""},
	{"sqlc.NewConn.TransactCtx", true, "fromdb", "conf", "direct", ""},
	{"sqlx.NewSqlConnFromDB(WithAcceptable).TransactCtx", true, "fromdb", "", "wrap", "acceptable"},
	{"sqlc.NewNodeConn(sqlx.NewSqlConn(WithAcceptable)).TransactCtx", true, "newconn", "node", "withsession", "acceptable"},
}

var apis = []apiSpec{
	{"sqlx.NewSqlConnFromDB.Transact", false, "fromdb", "", "direct", ""},
	{"sqlx.NewSqlConnFromDB.TransactCtx", true, "fromdb", "", "direct", ""},
	{"sqlx.NewSqlConn.Transact", false, "newconn", "", "wrap", ""},
	{"sqlx.NewSqlConn.TransactCtx", true, "newconn", "", "wrap", ""},
	{"sqlc.NewConnWithCache.Transact", false, "fromdb", "custom", "direct", ""},
	{"sqlc.NewConnWithCache.TransactCtx", true, "fromdb", "custom", "withsession", ""},
	{"sqlc.NewNodeConn.Transact", false, "fromdb", "node", "withsession", ""},
	{"sqlc.NewConn.TransactCtx", true, "fromdb", "conf", "direct", ""},
}

func apiByName(n string) (apiSpec, bool) {
	for _, a := range apis {
		if a.name == n {
			return a, true
		}
	}
	for _, a := range ctxAPIs {
		if a.name == n {
			return a, true
		}
	}
	return apiSpec{}, false
}

// Obs is everything the oracle may look at.
type Obs struct {
	Log         []string // driver calls and the body markers "body{" / "}body"
	BodyRuns    int
	BodyOutcome string // "" (never finished), nil, err, panic
	Err         error  // what Transact/TransactCtx returned
	Escaped     any    // a panic that escaped Transact/TransactCtx
	DidEscape   bool
	InUse       int // sql.DB connections still in use after the call (-1: no DB)

	HitOpen, HitBegin, HitStmt, HitCommit, HitRollback bool
	TermReached                                        bool
	NestedRan                                          int
	NestedErrs                                         []string

	HitCtx                 bool   // the context ended at the planned point
	Async                  bool   // ... inside a driver callback that did not run below the harness' call
	Gate                   string // how that callback was let go: returned (the call had returned) | expired
	CommitErr, RollbackErr error  // what the driver answered to Commit / Rollback
	Deferred               bool   // parallel pass only: something was still going on when the call returned; judged in the sequential pass
	Inconclusive           string // sequential pass: could not wait for the end of all activity (never a verdict)
}

type typedNilErr struct{}

func (*typedNilErr) Error() string { return "typed-nil" }

type panicStruct struct{ A, B int }

var errOwn = errors.New("c14-body-own-error")
var errPanicValue = errors.New("c14-panic-error-value")

var panicKinds = []string{"error", "string", "int", "nil", "struct", "runtime", "typednil"}

func doPanic(kind string) {
	switch kind {
	case "error":
		panic(errPanicValue)
	case "string":
		panic("c14-panic-string")
	case "int":
		panic(42)
	case "nil":
		panic(nil) //nolint — go.mod says go >= 1.21: becomes *runtime.PanicNilError
	case "struct":
		panic(panicStruct{1, 2})
	case "runtime":
		var m map[string]int
		m["x"] = 1 // real runtime.Error
	case "typednil":
		panic((*int)(nil))
	}
	panic("c14: unknown panic kind " + kind)
}

// ---- caches for the sqlc constructors ----

type nopCache struct{}

func (nopCache) Del(...string) error                            { return nil }
func (nopCache) DelCtx(context.Context, ...string) error        { return nil }
func (nopCache) Get(string, any) error                          { return sql.ErrNoRows }
func (nopCache) GetCtx(context.Context, string, any) error      { return sql.ErrNoRows }
func (nopCache) IsNotFound(err error) bool                      { return errors.Is(err, sql.ErrNoRows) }
func (nopCache) Set(string, any) error                          { return nil }
func (nopCache) SetCtx(context.Context, string, any) error      { return nil }
func (nopCache) SetWithExpire(string, any, time.Duration) error { return nil }
func (nopCache) Take(v any, _ string, q func(any) error) error  { return q(v) }
func (nopCache) SetWithExpireCtx(context.Context, string, any, time.Duration) error {
	return nil
}
func (nopCache) TakeCtx(_ context.Context, v any, _ string, q func(any) error) error { return q(v) }
func (nopCache) TakeWithExpire(v any, _ string, q func(any, time.Duration) error) error {
	return q(v, time.Second)
}
func (nopCache) TakeWithExpireCtx(_ context.Context, v any, _ string, q func(any, time.Duration) error) error {
	return q(v, time.Second)
}

var _ cache.Cache = nopCache{}

var redisAddr string // miniredis, started once in main
var flushCache func()

// worker is the per-goroutine context: the datasource names it uses with sqlx.NewSqlConn (whose
// *sql.DB is cached per datasource by go-zero and therefore shared by this worker's consecutive
// cases, as in production) and the redis handle given to sqlc.NewNodeConn.
type worker struct {
	dsn, dsnOpenFail string
	slot             *slot
	rds              *redis.Redis
	fresh            bool // the datasource has not been used yet (no cached *sql.DB, no pooled connection)
	seq              bool // sequential pass: this is the only case running in the process (see settle)
}

var workerSeq, cacheKeySeq atomic.Int64

func newWorker() *worker {
	w := &worker{rds: redis.New(redisAddr)}
	w.renew()
	return w
}

// renew gives the worker fresh datasource names (hence a fresh cached *sql.DB) and a fresh slot.
// Used after a case left a connection checked out or anything still running, so that a leaking
// implementation cannot exhaust the shared pool and hang later cases instead of being reported,
// and late driver calls of an earlier case cannot land in a later case's log.
func (w *worker) renew() {
	if w.dsn != "" && !w.fresh {
		// go-zero keeps the *sql.DB of the abandoned datasource for ever: close it (its goroutines,
		// its connection); the datasource name is never used again
		if d, err := sqlx.NewSqlConn(driverName, w.dsn).RawDB(); err == nil {
			d.Close()
		}
	}
	id := workerSeq.Add(1)
	w.slot = &slot{}
	w.dsn, w.dsnOpenFail = fmt.Sprintf("c14#%d", id), fmt.Sprintf("c14#%d#noconn", id)
	registry.Store(w.dsn, w.slot)
	registry.Store(w.dsnOpenFail, w.slot)
	w.fresh = true
}

const (
	qExec  = "update t set v = ? where id = 1"
	qQuery = "select v from t where id = ?"
)

// transactor is what both sqlx.SqlConn and sqlc.CachedConn offer.
type transactor interface {
	Transact(fn func(sqlx.Session) error) error
	TransactCtx(ctx context.Context, fn func(context.Context, sqlx.Session) error) error
}

type runner struct {
	c      Case
	a      apiSpec
	r      *rec
	o      *Obs
	cc     *sqlc.CachedConn
	cancel func()
	ret    bool
}

// endableCtx is a context the harness ends by hand as a DEADLINE: Err() turns into
// context.DeadlineExceeded at a placed point instead of at a wall-clock instant.
type endableCtx struct {
	mu   sync.Mutex
	done chan struct{}
	err  error
}

var farDeadline = time.Date(2100, 1, 1, 0, 0, 0, 0, time.UTC)

func (c *endableCtx) Deadline() (time.Time, bool) { return farDeadline, true }
func (c *endableCtx) Done() <-chan struct{}       { return c.done }
func (c *endableCtx) Value(any) any               { return nil }
func (c *endableCtx) Err() error {
	c.mu.Lock()
	defer c.mu.Unlock()
	return c.err
}
func (c *endableCtx) end() {
	c.mu.Lock()
	if c.err == nil {
		c.err = context.DeadlineExceeded
		close(c.done)
	}
	c.mu.Unlock()
}

func errorOpt(err error) bool { return errors.Is(err, errOwn) }

const (
	gateWaitParallel   = 50 * time.Millisecond
	gateWaitSequential = 500 * time.Millisecond
	settleLimit        = 5 * time.Second
)

// runCase builds a fresh driver recorder, a fresh sql.DB, a fresh SqlConn (fresh breaker) and,
// for the sqlc entry points, a fresh CachedConn; runs the case once; returns what happened.
func runCase(c Case, w *worker) *Obs {
	a, ok := apiByName(c.API)
	if !ok {
		panic("unknown api " + c.API)
	}
	r := &rec{skip: c.Flavour == "skip", failOpen: c.Begin == "openfail", failBegin: c.Begin == "fail",
		failCommit: c.End == "commit", failRollback: c.End == "rollback", armCtx: -1,
		returned: make(chan struct{}), gateWait: gateWaitParallel}
	if w.seq {
		r.gateWait = gateWaitSequential
	}
	switch c.CtxAt {
	case "open", "begin", "end":
		r.ctxAt = c.CtxAt
	}
	r.ctxRes = c.CtxRes
	o := &Obs{InUse: -1}
	x := &runner{c: c, a: a, r: r, o: o}

	var ctx context.Context
	if c.CtxKind == "deadline" {
		e := &endableCtx{done: make(chan struct{})}
		ctx, x.cancel = e, e.end
	} else {
		cctx, cancel := context.WithCancel(context.Background())
		defer cancel()
		ctx, x.cancel = cctx, cancel
	}
	r.endCtx = func() error { x.cancel(); return ctx.Err() }
	if c.Ctx == "pre" {
		x.cancel()
	}

	// The case needs the connection to be opened by this call. sqlx.NewSqlConn: either a datasource
	// nobody has used yet (go-zero then opens and pings inside the call; go-zero keeps every
	// datasource's *sql.DB for ever, so this form is limited to short bodies), or the idle
	// connections of the worker's datasource are dropped (database/sql then opens one inside Begin).
	needFresh := a.ctor == "newconn" && (c.CtxAt == "pool" || (c.CtxAt == "open" && len(c.Kinds) <= 1))
	if needFresh && !w.fresh {
		w.renew()
	}
	if a.ctor == "newconn" && c.CtxAt == "open" && !needFresh && !w.fresh && c.Begin != "openfail" {
		if d, err := sqlx.NewSqlConn(driverName, w.dsn).RawDB(); err == nil {
			d.SetMaxIdleConns(0) // closes the idle connections (seen by the previous case's recorder)
			d.SetMaxIdleConns(64)
		}
	}
	w.slot.cur.Store(r)
	var opts []sqlx.SqlOption
	if a.opt == "acceptable" {
		opts = append(opts, sqlx.WithAcceptable(errorOpt))
	}
	var sc sqlx.SqlConn
	var db *sql.DB
	switch a.ctor {
	case "fromdb":
		db = sql.OpenDB(connector{w.slot})
		defer db.Close()
		sc = sqlx.NewSqlConnFromDB(db, opts...)
	case "newconn":
		dsn := w.dsn
		if c.Begin == "openfail" {
			dsn = w.dsnOpenFail // never cached by go-zero: opening it always fails
		} else {
			w.fresh = false
		}
		sc = sqlx.NewSqlConn(driverName, dsn, opts...)
	}
	var t transactor = sc
	switch a.cached {
	case "custom":
		cc := sqlc.NewConnWithCache(sc, nopCache{})
		x.cc, t = &cc, cc
	case "node":
		cc := sqlc.NewNodeConn(sc, w.rds)
		x.cc, t = &cc, cc
	case "conf":
		cc := sqlc.NewConn(sc, cache.CacheConf{{RedisConf: redis.RedisConf{Host: redisAddr, Type: redis.NodeType, NonBlock: true}, Weight: 100}})
		x.cc, t = &cc, cc
	}

	if c.CtxAt == "pool" {
		db = x.runPool(t, ctx, sc, db)
	} else {
		x.invoke(t, ctx)
	}

	if w.seq {
		// nothing else runs in this process: wait until nobody can touch the transaction any more
		if inc := settle(settleLimit); inc != "" && o.Inconclusive == "" {
			o.Inconclusive = inc
		}
	} else if r.unsettled() || r.isAsync() {
		o.Deferred = true
	}

	if db == nil && c.Begin != "openfail" {
		// the *sql.DB created by sqlx's connection manager
		if d, err := sc.RawDB(); err == nil {
			db = d
		}
	}
	if db != nil {
		o.InUse = db.Stats().InUse
		if a.ctor == "newconn" {
			if needFresh || o.Deferred || o.Inconclusive != "" || o.InUse != 0 {
				w.renew() // closes the datasource's *sql.DB: not used again
			}
		}
	}
	if o.Deferred && a.ctor != "newconn" {
		w.renew() // a fresh slot: late driver calls of this case stay in this case's recorder
	}
	o.Log = r.snapshot()
	r.mu.Lock()
	o.HitOpen, o.HitBegin, o.HitStmt, o.HitCommit, o.HitRollback = r.hitOpen, r.hitBegin, r.hitStmt, r.hitCommit, r.hitRollback
	o.HitCtx, o.Async, o.Gate = o.HitCtx || r.hitCtx, r.async, r.gate
	o.CommitErr, o.RollbackErr = r.commitErr, r.rollbackErr
	r.mu.Unlock()
	return o
}

func (r *rec) isAsync() bool {
	r.mu.Lock()
	defer r.mu.Unlock()
	return r.async
}

// invoke is the harness' call of the entry point (its frame is what onCallerGoroutine looks for).
//
//go:noinline
func (x *runner) invoke(t transactor, ctx context.Context) {
	defer func() {
		p := recover()
		if !x.ret { // Transact/TransactCtx did not return normally
			x.o.Escaped, x.o.DidEscape = p, true
		}
		close(x.r.returned)
	}()
	if x.a.ctxAPI {
		x.o.Err = t.TransactCtx(ctx, x.body)
	} else {
		x.o.Err = t.Transact(func(s sqlx.Session) error { return x.body(context.Background(), s) })
	}
	x.ret = true
}

// runPool: the pool has one connection and it is busy; the call is made on a goroutine of its
// own; once it is stuck (waiting for the connection) the context ends; the connection is given
// back only after the call has returned or is still stuck — so Begin completes after the caller's
// context ended. Sequential pass only (needs the goroutine census of settle).
func (x *runner) runPool(t transactor, ctx context.Context, sc sqlx.SqlConn, db *sql.DB) *sql.DB {
	if db == nil {
		d, err := sc.RawDB()
		if err != nil {
			x.o.Inconclusive = "pool: no *sql.DB: " + err.Error()
			close(x.r.returned)
			return nil
		}
		db = d
	}
	db.SetMaxOpenConns(1)
	busy, err := db.Conn(context.Background())
	if err != nil {
		x.o.Inconclusive = "pool: cannot take the connection: " + err.Error()
		close(x.r.returned)
		return db
	}
	go x.invoke(t, ctx)
	returned := func() bool {
		select {
		case <-x.r.returned:
			return true
		default:
			return false
		}
	}
	// until the call has returned, or Begin queues for the connection, or nothing moves any more
	waitStuck := func(queued bool) {
		deadline := time.Now().Add(4 * settleLimit)
		for !returned() && !(queued && db.Stats().WaitCount > 0) && len(activeGoroutines()) > 0 && time.Now().Before(deadline) {
			time.Sleep(50 * time.Microsecond)
		}
	}
	waitStuck(true)
	if !returned() {
		x.r.add("ctx!")
		x.o.HitCtx = true
		x.cancel()
		waitStuck(false) // the caller may give up now; if it does not, it is still stuck
	}
	busy.Close()
	select {
	case <-x.r.returned:
	case <-time.After(2 * settleLimit):
		x.o.Inconclusive = "pool: the call did not return after the connection was given back"
	}
	return db
}

// body is the transaction body handed to go-zero.
func (x *runner) body(ctx context.Context, sess sqlx.Session) (err error) {
	c, o := x.c, x.o
	o.BodyRuns++
	x.r.add("body{")
	defer x.r.add("}body") // also on panic: the body's frame unwinds before go-zero's recover runs
	if c.Ctx == "inbody" {
		x.cancel()
	}
	for i, kind := range c.Kinds {
		if c.CtxAt == "pre" && c.CtxK == i+1 {
			x.endByBody()
		}
		armed := c.FailAt == i+1
		if armed {
			x.r.setArm(c.Mode)
		}
		armedCtx := c.CtxAt == "stmt" && c.CtxK == i+1
		if armedCtx {
			x.r.setArmCtx(c.CtxCall - 1)
		}
		e := x.step(ctx, sess, kind)
		if armed {
			x.r.disarm()
		}
		if armedCtx {
			x.r.setArmCtx(-1)
		}
		if e != nil && c.OnErr == "return" {
			o.BodyOutcome = "err"
			return e
		}
	}
	if c.CtxAt == "pre" && c.CtxK == len(c.Kinds)+1 {
		x.endByBody()
	}
	o.TermReached = true
	switch {
	case c.Term == "nil":
		o.BodyOutcome = "nil"
		return nil
	case c.Term == "err":
		o.BodyOutcome = "err"
		return errOwn
	case c.Term == "typednil":
		o.BodyOutcome = "err"
		var e *typedNilErr
		return e // non-nil error interface holding a nil pointer
	case strings.HasPrefix(c.Term, "panic:"):
		o.BodyOutcome = "panic"
		doPanic(strings.TrimPrefix(c.Term, "panic:"))
	}
	panic("c14: bad terminal " + c.Term)
}

func (x *runner) endByBody() {
	x.r.add("ctx!")
	x.o.HitCtx = true
	x.cancel()
}

// step runs one body statement through the session the way the entry point's "via" says.
func (x *runner) step(ctx context.Context, sess sqlx.Session, kind string) error {
	useCtx := x.a.ctxAPI
	s := sess
	if x.a.via == "wrap" {
		s = sqlx.NewSqlConnFromSession(sess) // a SqlConn is a Session
	}
	var ccs *sqlc.CachedConn
	if x.a.via == "withsession" && x.cc != nil {
		w := x.cc.WithSession(sess)
		ccs = &w
	}
	var v int
	switch kind {
	case "exec":
		var err error
		switch {
		case ccs != nil && useCtx:
			_, err = ccs.ExecNoCacheCtx(ctx, qExec, 5)
		case ccs != nil:
			_, err = ccs.ExecNoCache(qExec, 5)
		case useCtx:
			_, err = s.ExecCtx(ctx, qExec, 5)
		default:
			_, err = s.Exec(qExec, 5)
		}
		return err
	case "query":
		switch {
		case ccs != nil && useCtx:
			return ccs.QueryRowNoCacheCtx(ctx, &v, qQuery, 1)
		case ccs != nil:
			return ccs.QueryRowNoCache(&v, qQuery, 1)
		case useCtx:
			return s.QueryRowCtx(ctx, &v, qQuery, 1)
		default:
			return s.QueryRow(&v, qQuery, 1)
		}
	case "cexec", "cquery":
		// CachedConn.ExecCtx / QueryRowCtx on WithSession(tx): the statement goes through the cache
		// layer (delete the key after the exec; take the key, query on a miss). A key per statement:
		// no case depends on what an earlier one left in the cache.
		if ccs == nil {
			panic("c14: " + kind + " needs a withsession entry point")
		}
		kn := cacheKeySeq.Add(1)
		key := fmt.Sprintf("c14:k:%d", kn)
		if kn%8192 == 0 && flushCache != nil {
			flushCache() // no key is ever read again after its statement: keeps miniredis small
		}
		if kind == "cexec" {
			var err error
			if useCtx {
				_, err = ccs.ExecCtx(ctx, func(ctx context.Context, conn sqlx.SqlConn) (sql.Result, error) {
					return conn.ExecCtx(ctx, qExec, 5)
				}, key)
			} else {
				_, err = ccs.Exec(func(conn sqlx.SqlConn) (sql.Result, error) { return conn.Exec(qExec, 5) }, key)
			}
			return err
		}
		if useCtx {
			return ccs.QueryRowCtx(ctx, &v, key, func(ctx context.Context, conn sqlx.SqlConn, v any) error {
				return conn.QueryRowCtx(ctx, v, qQuery, 1)
			})
		}
		return ccs.QueryRow(&v, key, func(conn sqlx.SqlConn, v any) error { return conn.QueryRow(v, qQuery, 1) })
	case "queryrows", "querypartial", "queryrowspartial":
		var vs []int
		switch {
		case kind == "queryrows" && ccs != nil && useCtx:
			return ccs.QueryRowsNoCacheCtx(ctx, &vs, qQuery, 1)
		case kind == "queryrows" && ccs != nil:
			return ccs.QueryRowsNoCache(&vs, qQuery, 1)
		case kind == "queryrows" && useCtx:
			return s.QueryRowsCtx(ctx, &vs, qQuery, 1)
		case kind == "queryrows":
			return s.QueryRows(&vs, qQuery, 1)
		case kind == "querypartial" && ccs != nil && useCtx:
			return ccs.QueryRowPartialNoCacheCtx(ctx, &v, qQuery, 1)
		case kind == "querypartial" && ccs != nil:
			return ccs.QueryRowPartialNoCache(&v, qQuery, 1)
		case kind == "querypartial" && useCtx:
			return s.QueryRowPartialCtx(ctx, &v, qQuery, 1)
		case kind == "querypartial":
			return s.QueryRowPartial(&v, qQuery, 1)
		case ccs != nil && useCtx:
			return ccs.QueryRowsPartialNoCacheCtx(ctx, &vs, qQuery, 1)
		case ccs != nil:
			return ccs.QueryRowsPartialNoCache(&vs, qQuery, 1)
		case useCtx:
			return s.QueryRowsPartialCtx(ctx, &vs, qQuery, 1)
		default:
			return s.QueryRowsPartial(&vs, qQuery, 1)
		}
	case "prepexec", "prepquery":
		q := qExec
		if kind == "prepquery" {
			q = qQuery
		}
		var st sqlx.StmtSession
		var err error
		if useCtx {
			st, err = s.PrepareCtx(ctx, q)
		} else {
			st, err = s.Prepare(q)
		}
		if err != nil {
			return err
		}
		defer st.Close()
		switch {
		case kind == "prepexec" && useCtx:
			_, err = st.ExecCtx(ctx, 5)
		case kind == "prepexec":
			_, err = st.Exec(5)
		case useCtx:
			err = st.QueryRowCtx(ctx, &v, 1)
		default:
			err = st.QueryRow(&v, 1)
		}
		return err
	case "nested":
		// An attempt to open a transaction on the transaction's own session. Its result is not a
		// statement error of the body (the body carries on); what it did is recorded.
		inner := func(context.Context, sqlx.Session) error { x.o.NestedRan++; return nil }
		var err error
		switch {
		case ccs != nil && useCtx:
			err = ccs.TransactCtx(ctx, inner)
		case ccs != nil:
			err = ccs.Transact(func(s sqlx.Session) error { return inner(ctx, s) })
		case useCtx:
			err = sqlx.NewSqlConnFromSession(sess).TransactCtx(ctx, inner)
		default:
			err = sqlx.NewSqlConnFromSession(sess).Transact(func(s sqlx.Session) error { return inner(ctx, s) })
		}
		x.o.NestedErrs = append(x.o.NestedErrs, fmt.Sprint(err))
		return nil
	}
	panic("c14: unknown statement kind " + kind)
}
