package main

// The context-fault family: the caller's context ENDS (cancel / deadline) at a placed point of a
// TransactCtx call — while the driver connects, inside the driver's BeginTx, before the k-th
// statement (by the body), inside the n-th driver call of the k-th statement, inside the driver's
// Commit / Rollback, or while Begin waits for the only pooled connection — and the driver call in
// flight either completes all the same or answers ctx.Err(). Placement is by the driver callbacks
// themselves (driver.go: fire), never by timing.
//
// Two passes. The parallel pass runs every case whose outcome is complete when the call returns
// (on the pinned tree: all of them — nothing in go-zero's transaction path leaves the caller's
// goroutine). A case in which something was still going on when the call returned (a driver
// callback in flight on another goroutine, a begun transaction not ended yet) is not judged
// there: it is re-run in the sequential pass, alone in the process, where settle() waits until a
// census of all goroutines shows that nobody can touch the transaction any more. The pool cases
// always run in the sequential pass.

import (
	"regexp"
	"runtime"
	"strings"
	"time"
)

var ctxNewKinds = []string{"queryrows", "querypartial", "queryrowspartial"}
var ctxCachedKinds = []string{"cexec", "cquery"} // CachedConn.ExecCtx / QueryRowCtx on WithSession(tx): withsession entry points only

func isNewKind(k string) bool {
	for _, n := range ctxNewKinds {
		if k == n {
			return true
		}
	}
	return k == "cexec" || k == "cquery"
}

func ctxModesFor(kind string) []string {
	switch kind {
	case "queryrows", "querypartial", "queryrowspartial", "cquery":
		return []string{"driver", "norows"}
	case "cexec":
		return []string{"driver"}
	}
	return modesFor(kind)
}

// driverCalls lists the statement-level driver calls one statement of the kind makes.
func driverCalls(kind, flavour string) []string {
	switch kind {
	case "exec", "cexec":
		if flavour == "skip" {
			return []string{"prepare", "exec"}
		}
		return []string{"exec"}
	case "query", "queryrows", "querypartial", "queryrowspartial", "cquery":
		if flavour == "skip" {
			return []string{"prepare", "query"}
		}
		return []string{"query"}
	case "prepexec":
		return []string{"prepare", "exec"}
	case "prepquery":
		return []string{"prepare", "query"}
	}
	return nil // nested: rejected by go-zero before it reaches the driver
}

// ctxTerminals: the four terminals of the quick tier; thorough: all ten for bodies of up to two statements.
func ctxTerminals(thorough bool, n int) []string {
	if thorough && n <= 2 {
		return terminals()
	}
	return []string{"nil", "err", "panic:error", "panic:runtime"}
}

func buildCtxUnits(maxN int, base int) []unit {
	var us []unit
	// the statement kinds the base family does not have, through the entry points that take no
	// context (plain fault placements only)
	for n := 1; n <= maxN; n++ {
		for _, a := range apis {
			if a.ctxAPI {
				continue
			}
			alphabet := append(append([]string(nil), stmtKinds...), ctxNewKinds...)
			if a.via == "withsession" {
				alphabet = append(alphabet, ctxCachedKinds...)
			}
			var rec func(cur []string)
			rec = func(cur []string) {
				if len(cur) == n {
					for _, k := range cur {
						if isNewKind(k) {
							us = append(us, unit{idx: base + len(us), api: a, kinds: append([]string(nil), cur...), fam: "ctx"})
							break
						}
					}
					return
				}
				for _, k := range alphabet {
					rec(append(cur, k))
				}
			}
			rec(nil)
		}
	}
	for n := 0; n <= maxN; n++ {
		for _, a := range ctxAPIs {
			alphabet := append(append([]string(nil), stmtKinds...), ctxNewKinds...)
			switch {
			case a.opt != "" && a.via == "withsession":
				alphabet = []string{"exec", "cexec", "cquery"}
			case a.opt != "":
				alphabet = []string{"exec", "query", "queryrows"}
			case a.via == "withsession":
				alphabet = append(alphabet, ctxCachedKinds...)
			}
			var rec func(cur []string)
			rec = func(cur []string) {
				if len(cur) == n {
					us = append(us, unit{idx: base + len(us), api: a, kinds: append([]string(nil), cur...), fam: "ctx"})
					return
				}
				for _, k := range alphabet {
					rec(append(cur, k))
				}
			}
			rec(nil)
		}
	}
	return us
}

type placement struct {
	at      string
	k, call int
	res     string
	begin   string
	blocked bool // no transaction can begin: the body is unobservable
	stmts   bool // some statement may run with an ended context / fail: the body's error policy is observable
}

func placements(u unit, flavour string) []placement {
	n := len(u.kinds)
	var ps []placement
	ps = append(ps,
		placement{at: "open", res: "ok", begin: "ok", stmts: n > 0},
		placement{at: "open", res: "ok", begin: "fail", blocked: true},
		placement{at: "open", res: "ctxerr", begin: "ok", blocked: true},
		placement{at: "begin", res: "ok", begin: "ok", stmts: n > 0},
		placement{at: "begin", res: "ok", begin: "fail", blocked: true},
		placement{at: "begin", res: "ctxerr", begin: "ok", blocked: true})
	for k := 1; k <= n+1; k++ {
		ps = append(ps, placement{at: "pre", k: k, begin: "ok", stmts: k <= n})
	}
	for i, kind := range u.kinds {
		for j, call := range driverCalls(kind, flavour) {
			if call != "query" { // see driver.go doQuery: never rows together with an ended context
				ps = append(ps, placement{at: "stmt", k: i + 1, call: j + 1, res: "ok", begin: "ok", stmts: true})
			}
			ps = append(ps, placement{at: "stmt", k: i + 1, call: j + 1, res: "ctxerr", begin: "ok", stmts: true})
		}
	}
	ps = append(ps, placement{at: "end", res: "ok", begin: "ok"}, placement{at: "end", res: "ctxerr", begin: "ok"})
	return ps
}

// enumerateCtxUnit calls f for every context-fault placement of the unit (parallel pass).
func enumerateCtxUnit(u unit, thorough bool, f func(Case)) {
	terms := ctxTerminals(thorough, len(u.kinds))
	hasNew := false
	for _, k := range u.kinds {
		hasNew = hasNew || isNewKind(k)
	}
	ctxKinds := []string{"cancel", "deadline"}
	if !u.api.ctxAPI {
		ctxKinds = []string{"n/a"} // Transact: there is no caller's context
	}
	for _, fl := range []string{"direct", "skip"} {
		for _, ck := range ctxKinds {
			for _, p := range placements(u, fl) {
				if !u.api.ctxAPI {
					break
				}
				onErrs := []string{"return", "ignore"}
				if p.blocked || !p.stmts {
					onErrs = onErrs[:1]
				}
				for _, oe := range onErrs {
					for _, tm := range terms {
						if p.blocked && tm != "nil" && tm != "err" && tm != "panic:error" {
							continue
						}
						for _, end := range []string{"none", "commit", "rollback"} {
							if p.at == "end" && p.res == "ctxerr" && end != "none" {
								continue // the driver's own error would take precedence: same as the plain end fault
							}
							f(Case{API: u.api.name, Kinds: u.kinds, Flavour: fl, Begin: p.begin, Ctx: "live", OnErr: oe, Term: tm, End: end,
								CtxKind: ck, CtxAt: p.at, CtxK: p.k, CtxCall: p.call, CtxRes: p.res})
						}
					}
				}
			}
			// bodies with a statement kind the base family does not have: also the plain fault
			// placements (context never ends), so that those kinds meet driver errors / no rows
			if hasNew {
				for i, k := range u.kinds {
					if !isNewKind(k) {
						continue
					}
					for _, m := range ctxModesFor(k) {
						for _, oe := range []string{"return", "ignore"} {
							for _, tm := range terms {
								if oe == "return" && tm != "nil" {
									continue
								}
								for _, end := range []string{"none", "commit", "rollback"} {
									f(Case{API: u.api.name, Kinds: u.kinds, Flavour: fl, Begin: "ok", Ctx: "live", FailAt: i + 1, Mode: m, OnErr: oe, Term: tm, End: end, CtxKind: ck})
								}
							}
						}
					}
				}
				for _, tm := range terms {
					for _, end := range []string{"none", "commit", "rollback"} {
						f(Case{API: u.api.name, Kinds: u.kinds, Flavour: fl, Begin: "ok", Ctx: "live", OnErr: "return", Term: tm, End: end, CtxKind: ck})
					}
				}
			}
		}
	}
}

// poolCases: the context ends while Begin waits for the only connection of the pool (sequential pass).
func poolCases() []Case {
	var out []Case
	for _, kinds := range [][]string{{}, {"exec"}, {"query"}} {
		for _, a := range ctxAPIs {
			for _, ck := range []string{"cancel", "deadline"} {
				onErrs := []string{"return", "ignore"}
				if len(kinds) == 0 {
					onErrs = onErrs[:1]
				}
				for _, oe := range onErrs {
					for _, tm := range []string{"nil", "err", "panic:error"} {
						for _, end := range []string{"none", "commit", "rollback"} {
							out = append(out, Case{API: a.name, Kinds: kinds, Flavour: "direct", Begin: "ok", Ctx: "live", OnErr: oe, Term: tm, End: end,
								CtxKind: ck, CtxAt: "pool"})
						}
					}
				}
			}
		}
	}
	return out
}

// ---- goroutine census (sequential pass only) ----

var stackBuf = make([]byte, 1<<20)

var goroutineHeader = regexp.MustCompile(`^goroutine \d+ \[([^\]]*)\]:$`)

// relevant: a goroutine with such a frame may still act on a transaction of the case.
var relevantPrefixes = []string{"main.", "database/sql.", "context.",
	"github.com/zeromicro/go-zero/core/stores/sqlx.", "github.com/zeromicro/go-zero/core/stores/sqlc."}

// inertTops: a goroutine BLOCKED (select / chan receive) in one of these functions waits for
// something that none of the others will do any more once they are all blocked likewise: the
// end of a transaction's own context (Tx.awaitDone, Rows.awaitDone), a request to the pool
// (connectionOpener/Cleaner), a pooled connection (DB.conn), the end of a parent context (the
// relay goroutine of context.WithCancel under a foreign parent). Closing a channel makes its
// waiters runnable at once, so a goroutine still shown as blocked has not been woken.
var inertTops = []string{"database/sql.(*Tx).awaitDone", "database/sql.(*Rows).awaitDone",
	"database/sql.(*DB).connectionOpener", "database/sql.(*DB).connectionCleaner", "database/sql.(*DB).conn",
	"context.(*cancelCtx).propagateCancel."}

// activeGoroutines returns one line for every goroutine other than the calling one that has a
// relevant frame and is not inert.
func activeGoroutines() []string {
	var n int
	for {
		n = runtime.Stack(stackBuf, true)
		if n < len(stackBuf) {
			break
		}
		stackBuf = make([]byte, 2*len(stackBuf))
	}
	var active []string
	blocks := strings.Split(string(stackBuf[:n]), "\n\n")
	for bi, b := range blocks {
		if bi == 0 {
			continue // the calling goroutine comes first
		}
		lines := strings.Split(strings.TrimSpace(b), "\n")
		if len(lines) < 2 {
			continue
		}
		m := goroutineHeader.FindStringSubmatch(lines[0])
		if m == nil {
			continue
		}
		state := m[1]
		if i := strings.IndexByte(state, ','); i >= 0 {
			state = state[:i]
		}
		top, rel := "", false
		for _, ln := range lines[1:] {
			if strings.HasPrefix(ln, "\t") || strings.HasPrefix(ln, "created by ") {
				continue
			}
			if top == "" {
				top = ln
			}
			for _, p := range relevantPrefixes {
				if strings.HasPrefix(ln, p) {
					rel = true
				}
			}
		}
		if !rel {
			continue
		}
		inert := false
		if state == "select" || state == "chan receive" {
			for _, p := range inertTops {
				if strings.HasPrefix(top, p) {
					inert = true
				}
			}
		}
		if !inert {
			active = append(active, "["+state+"] "+top)
		}
	}
	return active
}

// settle waits until no goroutine can act on the case any more. Real time only bounds the wait:
// if the bound is hit the case is inconclusive (reported as not exhaustive, never as a verdict).
func settle(limit time.Duration) string {
	deadline := time.Now().Add(limit)
	for {
		act := activeGoroutines()
		if len(act) == 0 {
			return ""
		}
		if time.Now().After(deadline) {
			return "still active after " + limit.String() + ": " + strings.Join(act, " ; ")
		}
		time.Sleep(50 * time.Microsecond)
	}
}
