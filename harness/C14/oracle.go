package main

// The oracle, written from the property statement only:
//
//   Transact/TransactCtx begins one transaction and ends it exactly once: it commits if and only
//   if the body returned nil, and rolls back if the body returned an error or panicked (the panic
//   is reported as an error, not swallowed as success); the body is not run if the transaction
//   cannot begin. The returned error is nil only when the commit succeeded, and commit or
//   rollback failures are reported to the caller.
//
// It looks at three things it did not produce itself: the driver's call log, the body's own
// trace (how often it ran, how it ended) and the error the entry point returned. It never asks
// what the fault plan "should" have caused — only what the body and the driver actually saw.

import (
	"database/sql"
	"errors"
	"fmt"
	"strings"
)

type verdict struct{ class, desc string }

func significant(op string) bool {
	switch op {
	case "begin", "exec", "query", "prepare", "commit", "rollback":
		return true
	}
	return false // open, ping, stmtclose, connclose, markers: housekeeping of database/sql
}

func isEnd(op string) bool { return op == "commit" || op == "rollback" }

func filterSig(ops []string) []string {
	var out []string
	for _, op := range ops {
		if significant(op) {
			out = append(out, op)
		}
	}
	return out
}

func count(ops []string, what string) int {
	n := 0
	for _, op := range ops {
		if op == what {
			n++
		}
	}
	return n
}

// reports: does err carry target? errors.Is, or — the statement only says "reported" — its text.
func reports(err, target error) bool {
	return err != nil && (errors.Is(err, target) || strings.Contains(err.Error(), target.Error()))
}

// bodyTag names how the body actually ended (from its own trace).
func bodyTag(c Case, o *Obs) string {
	switch o.BodyOutcome {
	case "nil":
		return "success"
	case "err":
		if !o.TermReached {
			return "statement-error-returned"
		}
		if c.Term == "typednil" {
			return "body-error(typed-nil)"
		}
		return "body-error"
	case "panic":
		return "panic(" + strings.TrimPrefix(c.Term, "panic:") + ")"
	}
	return "body-unfinished"
}

func split(o *Obs) (pre, in, post []string) {
	start, end := -1, -1
	for i, op := range o.Log {
		if op == "body{" && start < 0 {
			start = i
		}
		if op == "}body" {
			end = i
		}
	}
	if start < 0 || end < start {
		return o.Log, nil, nil
	}
	return o.Log[:start], o.Log[start+1 : end], o.Log[end+1:]
}

// ctxEnd is the position in the log at which the caller's context ended (-1: it never did).
func ctxEnd(log []string) int {
	for i, op := range log {
		if op == "ctx!" {
			return i
		}
	}
	return -1
}

func firstIndex(log []string, what string) int {
	for i, op := range log {
		if op == what {
			return i
		}
	}
	return -1
}

// ctxWhere names the point at which the context ended, for cause keys.
func ctxWhere(c Case) string {
	switch c.CtxAt {
	case "open":
		return "ctx-ended-while-connecting"
	case "begin":
		return "ctx-ended-during-begin"
	case "pool":
		return "ctx-ended-while-waiting-for-connection"
	}
	return "ctx-ended-before-body"
}

func hasNested(c Case) bool {
	for _, k := range c.Kinds {
		if k == "nested" {
			return true
		}
	}
	return false
}

// check returns the violations of one observed run: at most one protocol violation (the first
// rule that fails, so that one cause gets one class), plus "panic-escapes" when the call did not
// return at all (then the rules about the returned error are not applicable).
func check(c Case, o *Obs) []verdict {
	var out []verdict
	if o.DidEscape {
		out = append(out, verdict{"panic-escapes:" + bodyTag(c, o),
			fmt.Sprintf("Transact did not return: panic value %#v escaped instead of being reported as an error", o.Escaped)})
	}
	return append(out, checkProtocol(c, o, !o.DidEscape)...)
}

func checkProtocol(c Case, o *Obs, returned bool) []verdict {
	one := func(class, format string, a ...any) []verdict {
		return []verdict{{class, fmt.Sprintf(format, a...)}}
	}
	tag := bodyTag(c, o)
	if o.BodyRuns > 1 {
		return one("body-run-more-than-once", "the body ran %d times", o.BodyRuns)
	}
	pre, in, post := split(o)
	all := filterSig(o.Log)
	nBegin := count(pre, "begin")

	if nBegin == 0 {
		// No transaction was begun before the body: legitimate only if it could not be (no
		// connection, or the call was made with an already cancelled context — the statement
		// leaves open whether a cancelled context still begins).
		if o.BodyRuns > 0 {
			return one("body-run-without-begin", "the body ran although no transaction had been begun")
		}
		if count(all, "commit")+count(all, "rollback") > 0 {
			return one("termination-without-begin", "Commit/Rollback issued although no transaction had been begun")
		}
		if returned && o.Err == nil {
			return one("nil-error-without-begin", "nil returned although no transaction was begun (so none was committed)")
		}
		// ... or the context ended before any Begin was sent (while connecting, while waiting for a connection)
		if c.Begin == "ok" && c.Ctx != "pre" && ctxEnd(o.Log) < 0 {
			return one("no-begin", "no transaction begun although a connection was available and the context was live")
		}
		return nil
	}
	if nBegin > 1 {
		return one("multiple-begins", "%d Begin calls for one Transact", nBegin)
	}
	if o.HitBegin { // the one Begin failed
		if o.BodyRuns > 0 {
			return one("body-run-after-begin-failure", "the body ran although Begin had failed")
		}
		if len(all) > 1 {
			return one("ops-after-begin-failure", "driver calls after the failed Begin: %v", all[1:])
		}
		if returned && o.Err == nil {
			return one("nil-error-after-begin-failure", "nil returned although Begin failed")
		}
		return nil
	}
	// the transaction is open
	ce := ctxEnd(o.Log)
	if o.BodyRuns == 0 {
		if ce < 0 {
			return one("body-not-run", "a transaction was begun but the body was never run")
		}
		// The context ended before the body could start. The statement does not say that the body
		// must still be run then; it does say that the transaction that was begun is ended exactly
		// once, that it is committed only if the body returned nil (it did not), and that nil is
		// returned only after a successful commit.
		where := ctxWhere(c)
		t := filterSig(o.Log[firstIndex(o.Log, "begin")+1:])
		switch {
		case len(t) == 0:
			return one("not-terminated:"+where, "a transaction was begun, the body was not run, and neither Commit nor Rollback followed (%s)", where)
		case t[0] == "commit":
			return one("commit-without-body:"+where, "committed although the body never ran (%s)", where)
		case t[0] != "rollback":
			return one("statement-without-body", "%s issued although the body never ran", t[0])
		case len(t) > 1 && isEnd(t[1]):
			return one("terminated-twice:"+where, "transaction ended more than once: %v", t)
		case len(t) > 1:
			return one("ops-after-termination", "driver calls after %s: %v", t[0], t[1:])
		}
		if o.InUse != 0 {
			return one("conn-not-released", "%d connection(s) still held by the transaction after Transact returned", o.InUse)
		}
		if returned && o.Err == nil {
			return one("nil-error-without-body:"+where, "nil returned although the body never ran and nothing was committed (%s)", where)
		}
		if returned && o.HitRollback && !reports(o.Err, o.RollbackErr) {
			return one("rollback-error-not-reported:"+where, "Rollback failed with %q but the returned error %q does not carry it", o.RollbackErr, o.Err.Error())
		}
		return nil
	}
	if sp := filterSig(pre); len(sp) > 1 {
		return one("ops-before-body", "driver calls between Begin and the body: %v", sp[1:])
	}
	// A Rollback that arrives while the body is still running is tolerated once the caller's
	// context has ended (database/sql rolls a context-bound transaction back by itself): it then is
	// THE termination, and the body cannot count as committed.
	early := false
	if !hasNested(c) {
		bodyStart := firstIndex(o.Log, "body{")
		for i, op := range in {
			if op == "begin" || isEnd(op) {
				if op == "rollback" && !early && ce >= 0 && ce < bodyStart+1+i {
					early = true
					continue
				}
				return one("termination-inside-body", "%s issued while the body was still running", op)
			}
		}
	}
	t := filterSig(post)
	if early {
		for _, op := range t {
			if isEnd(op) {
				return one("terminated-twice:"+tag, "transaction rolled back when the context ended and ended again after %s: %v", tag, t)
			}
		}
		t = []string{"rollback"}
	}
	if len(t) == 0 {
		return one("not-terminated:"+tag, "neither Commit nor Rollback after the body ended (%s)", tag)
	}
	if !isEnd(t[0]) {
		return one("statement-after-body", "%s issued after the body ended, before the transaction was ended", t[0])
	}
	if len(t) > 1 {
		if isEnd(t[1]) {
			return one("terminated-twice:"+tag, "transaction ended more than once after %s: %v", tag, t)
		}
		return one("ops-after-termination", "driver calls after %s: %v", t[0], t[1:])
	}
	want := "rollback"
	if tag == "success" {
		want = "commit"
	}
	if t[0] != want {
		if t[0] == "commit" {
			return one("commit-after-"+tag, "committed although the body ended with %s", tag)
		}
		return one("rollback-after-success", "rolled back although the body returned nil")
	}
	if o.InUse != 0 {
		return one("conn-not-released", "%d connection(s) still held by the transaction after Transact returned", o.InUse)
	}
	if !returned {
		return nil
	}
	commitOK := t[0] == "commit" && !o.HitCommit
	if o.Err == nil && !commitOK {
		why := tag
		switch {
		case o.HitCommit:
			why = "commit-failure"
		case o.HitRollback:
			why = "rollback-failure:" + tag
		}
		return one("nil-error-after-"+why, "nil returned although no commit succeeded (%s)", why)
	}
	if o.Err != nil && commitOK {
		return one("error-after-successful-commit", "error %q returned although the body returned nil and Commit succeeded", o.Err.Error())
	}
	if o.HitCommit && !reports(o.Err, o.CommitErr) {
		return one("commit-error-not-reported", "Commit failed with %q but the returned error %q does not carry it", o.CommitErr, o.Err.Error())
	}
	// "ends it exactly once": database/sql hides a second Commit/Rollback from the driver (it answers
	// sql.ErrTxDone itself), so a termination attempted twice shows only as that error leaking into
	// the returned error — reported as a rollback failure that never happened
	if o.HitCommit && !o.HitRollback && errors.Is(o.Err, sql.ErrTxDone) {
		return one("terminated-twice:rollback-after-failed-commit", "Commit failed with %q and a second termination was attempted: the returned error %q carries sql.ErrTxDone", o.CommitErr, o.Err.Error())
	}
	if o.HitRollback && !reports(o.Err, o.RollbackErr) {
		k := "body-error"
		if o.BodyOutcome == "panic" {
			k = "panic"
		}
		return one("rollback-error-not-reported:"+k, "Rollback failed with %q but the returned error %q does not carry it", o.RollbackErr, o.Err.Error())
	}
	return nil
}

// outcomeCategory classifies a run for the evidence counters (not used by the oracle).
func outcomeCategory(c Case, o *Obs) string {
	all := filterSig(o.Log)
	switch {
	case o.DidEscape:
		return "panic-escaped"
	case count(all, "begin") == 0 && o.HitOpen:
		return "no-connection"
	case count(all, "begin") == 0:
		return "not-begun(ctx-cancelled)"
	case o.HitBegin:
		return "begin-failed"
	}
	end := "unterminated"
	for _, op := range all {
		if isEnd(op) {
			end = op
		}
	}
	switch {
	case o.HitCommit:
		end = "commit-failed"
	case o.HitRollback:
		end = "rollback-failed"
	}
	return end + "-after-" + bodyTag(c, o)
}

// expectation is the human-readable expected behaviour printed by --replay.
func expectation(c Case, o *Obs) string {
	switch {
	case count(filterSig(o.Log), "begin") == 0:
		return "no transaction begun: body not run, no Commit/Rollback, non-nil error"
	case o.HitBegin:
		return "Begin failed: body not run, nothing else sent to the driver, non-nil error"
	}
	tag := bodyTag(c, o)
	if o.BodyRuns == 0 && ctxEnd(o.Log) >= 0 {
		return "a transaction was begun and the caller's context ended before the body could start (" + ctxWhere(c) + "): the body need not run, but the transaction must be ended exactly once, by Rollback, and a non-nil error returned"
	}
	if tag == "success" {
		return "body returned nil: exactly one Commit after the body and nothing after it; returned error nil iff Commit succeeded, otherwise it carries the commit error"
	}
	return "body ended with " + tag + ": exactly one Rollback after the body and nothing after it, no Commit; non-nil error returned (carrying the rollback error if Rollback failed); no panic escapes"
}
