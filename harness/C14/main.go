// C14 — SQL transactions end exactly once: commit iff the body succeeded.
//
// Exhaustive fault enumeration. A recording database/sql/driver (driver.go) sits under the real
// sqlx.SqlConn / sqlc.CachedConn; every case = (entry point, body of 0..N statements, fault
// placement) is run once on a fresh driver recorder, fresh sql.DB and fresh SqlConn (fresh
// breaker), and the driver log + the body's own trace + the returned error are judged by an
// oracle written from the property statement (oracle.go). Nothing is sampled.
package main

import (
	"fmt"
	"os"
	"runtime"
	"runtime/debug"
	"runtime/pprof"
	"sort"
	"strings"
	"sync"

	"github.com/alicebob/miniredis/v2"
	"github.com/zeromicro/go-zero/core/logx"
	"github.com/zeromicro/go-zero/verifshim/vlib"
)

var stmtKinds = []string{"exec", "query", "prepexec", "prepquery", "nested"}

// modesFor lists the ways a statement of the given kind can be made to fail.
func modesFor(kind string) []string {
	switch kind {
	case "exec":
		return []string{"driver"}
	case "query":
		return []string{"driver", "norows"}
	case "prepexec":
		return []string{"driver", "prepare"}
	case "prepquery":
		return []string{"driver", "norows", "prepare"}
	}
	return nil // nested: rejected by go-zero before it reaches the driver
}

func terminals() []string {
	t := []string{"nil", "err", "typednil"}
	for _, k := range panicKinds {
		t = append(t, "panic:"+k)
	}
	return t
}

// unit = one (statement count, entry point, statement kinds); its fault placements are
// enumerated inside enumerateUnit in a fixed order.
type unit struct {
	idx   int
	api   apiSpec
	kinds []string
}

func buildUnits(maxN int) []unit {
	var us []unit
	for n := 0; n <= maxN; n++ {
		var tuples [][]string
		var rec func(cur []string)
		rec = func(cur []string) {
			if len(cur) == n {
				tuples = append(tuples, append([]string(nil), cur...))
				return
			}
			for _, k := range stmtKinds {
				rec(append(cur, k))
			}
		}
		rec(nil)
		for _, a := range apis {
			for _, t := range tuples {
				us = append(us, unit{idx: len(us), api: a, kinds: t})
			}
		}
	}
	return us
}

// enumerateUnit calls f for every fault placement of the unit.
func enumerateUnit(u unit, f func(Case)) {
	begins := []string{"ok", "fail"}
	if u.api.ctor == "newconn" {
		begins = append(begins, "openfail")
	}
	ctxs := []string{"live"}
	if u.api.ctxAPI {
		ctxs = append(ctxs, "pre", "inbody")
	}
	type sf struct {
		at   int
		mode string
	}
	sfs := []sf{{0, ""}}
	for i, k := range u.kinds {
		for _, m := range modesFor(k) {
			sfs = append(sfs, sf{i + 1, m})
		}
	}
	terms := terminals()
	for _, fl := range []string{"direct", "skip"} {
		for _, bg := range begins {
			for _, cx := range ctxs {
				// When no transaction can be begun (Begin fails, no connection, context cancelled
				// before the call) the body must not run at all, so faults *inside* the body and
				// its policy are unobservable unless the property is already violated — and then
				// any body shows it. Those cases keep every body shape but only three terminals
				// and no statement fault; the end faults stay (a stray Commit/Rollback would hit them).
				blocked := bg != "ok" || cx == "pre"
				for _, s := range sfs {
					if blocked && s.at != 0 {
						continue
					}
					if cx == "inbody" && s.at != 0 {
						// every statement of a TransactCtx body carries the context the body has
						// just cancelled: database/sql refuses it before the driver is asked, so
						// a driver-level statement fault can never be reached
						continue
					}
					onErrs := []string{"return", "ignore"}
					if blocked || (s.at == 0 && cx != "inbody") {
						onErrs = onErrs[:1] // no statement can fail: the policy is unobservable
					}
					for _, oe := range onErrs {
						for _, tm := range terms {
							if blocked && tm != "nil" && tm != "err" && tm != "panic:error" {
								continue
							}
							if s.at > 0 && oe == "return" && cx == "live" && tm != "nil" {
								// the harness body returns the k-th statement's error itself, so
								// its terminal is unreachable by construction (should the fault not
								// fire, "then=nil" records that)
								continue
							}
							for _, end := range []string{"none", "commit", "rollback"} {
								f(Case{API: u.api.name, Kinds: u.kinds, Flavour: fl, Begin: bg, Ctx: cx,
									FailAt: s.at, Mode: s.mode, OnErr: oe, Term: tm, End: end})
							}
						}
					}
				}
			}
		}
	}
}

// armed counts the fault points of a case and says whether every one of them was reached.
func armed(c Case, o *Obs) (n int, allReached bool) {
	allReached = true
	add := func(reached bool) {
		n++
		if !reached {
			allReached = false
		}
	}
	switch c.Begin {
	case "fail":
		add(o.HitBegin)
	case "openfail":
		add(o.HitOpen)
	}
	switch c.Ctx {
	case "pre":
		add(true)
	case "inbody":
		add(o.BodyRuns > 0)
	}
	if c.FailAt > 0 {
		add(o.HitStmt)
	}
	if c.Term != "nil" {
		add(o.TermReached)
	}
	switch c.End {
	case "commit":
		add(o.HitCommit)
	case "rollback":
		add(o.HitRollback)
	}
	return
}

type cand struct {
	score, unit, ord int
	class, desc      string
	c                Case
}

func (a cand) less(b cand) bool {
	if a.score != b.score {
		return a.score < b.score
	}
	if a.unit != b.unit {
		return a.unit < b.unit
	}
	return a.ord < b.ord
}

type sample struct {
	Case     string `json:"case"`
	Driver   string `json:"driver_log"`
	Returned string `json:"returned"`
	Outcome  string `json:"outcome"`
}

type unitRes struct {
	evals    int
	counters map[string]int
	viol     map[string]cand
	samples  map[string]sample
}

func errString(err error) string {
	if err == nil {
		return "<nil>"
	}
	return err.Error()
}

// protocolLog drops pool housekeeping (open/ping/connclose depend on whether the pooled
// connection of a shared *sql.DB already existed) so that samples are schedule-independent.
func protocolLog(log []string) []string {
	var out []string
	for _, op := range log {
		if op != "open" && op != "ping" && op != "connclose" {
			out = append(out, op)
		}
	}
	return out
}

func runUnit(u unit, r *vlib.Report, w *worker) *unitRes {
	res := &unitRes{counters: map[string]int{}, viol: map[string]cand{}, samples: map[string]sample{}}
	enumerateUnit(u, func(c Case) {
		o := runCase(c, w)
		ord := res.evals
		res.evals++
		n, all := armed(c, o)
		cat := outcomeCategory(c, o)
		res.counters["outcome:"+cat]++
		switch {
		case n == 0:
			res.counters["fault_free_cases"]++
		case all:
			res.counters["all_faults_reached"]++
			r.Nontrivial(c.key())
			if _, ok := res.samples[cat]; !ok {
				res.samples[cat] = sample{Case: c.String(), Driver: strings.Join(protocolLog(o.Log), " "), Returned: errString(o.Err), Outcome: cat}
			}
		default:
			res.counters["some_fault_not_reached"]++
		}
		if o.NestedRan > 0 {
			res.counters["nested_transact_ran_its_body"]++
		}
		for _, v := range check(c, o) {
			cd := cand{score: len(c.Kinds)*10 + n, unit: u.idx, ord: ord, class: v.class, desc: v.desc + " — " + c.String() +
				" | driver log: " + strings.Join(o.Log, " ") + " | returned: " + errString(o.Err), c: c}
			if old, ok := res.viol[v.class]; !ok || cd.less(old) {
				res.viol[v.class] = cd
			}
		}
	})
	return res
}

func main() {
	cfg := vlib.ParseFlags("C14", "fault_enumeration")
	r := vlib.NewReport(cfg)
	logx.Disable()
	debug.SetGCPercent(400) // cases are short-lived garbage; the live heap is tiny

	mr, err := miniredis.Run()
	if err != nil {
		vlib.Fatal("miniredis: %v", err)
	}
	defer mr.Close()
	redisAddr = mr.Addr()

	if cfg.Replay != "" {
		var c Case
		class, err := vlib.LoadReplay(cfg.Replay, &c)
		if err != nil {
			vlib.Fatal("cannot load replay: %v", err)
		}
		o := runCase(c, newWorker())
		fmt.Printf("replay class=%s\ncase: %s\n", class, c.String())
		fmt.Printf("driver log: %s\nbody: runs=%d outcome=%q nested-ran=%d nested-results=%v\nreturned: %s\nescaped panic: %v %v\nconnections in use afterwards: %d\n",
			strings.Join(o.Log, " "), o.BodyRuns, o.BodyOutcome, o.NestedRan, o.NestedErrs, errString(o.Err), o.DidEscape, o.Escaped, o.InUse)
		fmt.Printf("expected: %s\n", expectation(c, o))
		vs := check(c, o)
		for _, v := range vs {
			fmt.Printf("observed: class=%s %s\n", v.class, v.desc)
		}
		if len(vs) > 0 {
			fmt.Printf("VIOLATION property=%s replay=%s\n", cfg.ID, cfg.Replay)
			os.Exit(1)
		}
		fmt.Println("observed: conforms")
		os.Exit(0)
	}

	if p := os.Getenv("C14_CPUPROFILE"); p != "" { // development aid only
		if f, err := os.Create(p); err == nil {
			pprof.StartCPUProfile(f)
		}
	}
	maxN := 3
	if cfg.Thorough() {
		maxN = 4
	}
	units := buildUnits(maxN)
	results := make([]*unitRes, len(units))
	skipped := make([]bool, len(units))
	workers := runtime.NumCPU()
	if workers > cfg.Workers && cfg.Workers > 0 {
		workers = cfg.Workers
	}
	var wg sync.WaitGroup
	next := make(chan int)
	for w := 0; w < workers; w++ {
		wg.Add(1)
		go func() {
			defer wg.Done()
			wk := newWorker()
			for i := range next {
				if cfg.Expired() {
					skipped[i] = true
					continue
				}
				results[i] = runUnit(units[i], r, wk)
			}
		}()
	}
	for i := range units {
		next <- i
	}
	close(next)
	wg.Wait()

	// merge in unit order: deterministic whatever the goroutine schedule was
	nskipped := 0
	best := map[string]cand{}
	samples := map[string]sample{}
	perN := map[int]int{}
	for i, res := range results {
		if skipped[i] || res == nil {
			nskipped++
			continue
		}
		r.Eval(res.evals)
		perN[len(units[i].kinds)] += res.evals
		for k, v := range res.counters {
			r.Count(k, v)
		}
		for cl, cd := range res.viol {
			if old, ok := best[cl]; !ok || cd.less(old) {
				best[cl] = cd
			}
		}
		for cat, s := range res.samples {
			if _, ok := samples[cat]; !ok {
				samples[cat] = s
			}
		}
	}
	if nskipped > 0 {
		r.NotExhaustive(fmt.Sprintf("time box: %d of %d (entry point, statement kinds) units not run; units are ordered by statement count, all earlier ones were fully enumerated", nskipped, len(units)))
	}
	var cats []string
	for cat := range samples {
		cats = append(cats, cat)
	}
	sort.Strings(cats)
	for _, cat := range cats {
		r.Sample(samples[cat])
	}
	var cands []cand
	for _, cd := range best {
		cands = append(cands, cd)
	}
	sort.Slice(cands, func(i, j int) bool { return cands[i].less(cands[j]) })
	for _, cd := range cands {
		r.Violation(cd.class, cd.desc, cd.c)
	}
	sizes := map[string]int{}
	for n, e := range perN {
		sizes[fmt.Sprintf("%d_statements", n)] = e
	}
	r.SetExtra("cases_by_body_length", sizes)
	r.SetExtra("units", len(units))
	var apiNames []string
	for _, a := range apis {
		apiNames = append(apiNames, a.name+" (body uses session "+a.via+")")
	}
	r.SetExtra("entry_points", apiNames)
	r.SetExtra("dimensions", map[string]any{
		"statement_kinds": stmtKinds, "max_statements": maxN, "driver_flavours": []string{"direct", "skip"},
		"begin": []string{"ok", "fail", "openfail (sqlx.NewSqlConn only)"}, "ctx": []string{"live", "pre", "inbody (TransactCtx only)"},
		"statement_fault_modes": []string{"driver", "norows (queries)", "prepare (prepared kinds)"}, "on_error": []string{"return", "ignore"},
		"terminals": terminals(), "end_faults": []string{"none", "commit", "rollback"}})
	r.Assume("the transaction body finishes by returning or panicking (runtime.Goexit inside the body is outside the quantifier)")
	r.Assume("driver errors are ordinary errors (driver.ErrBadConn, on which database/sql itself retries Begin, is not injected)")
	r.Assume("go.mod says go >= 1.21, so panic(nil) reaches recover as *runtime.PanicNilError (GODEBUG=panicnil=1 not considered)")
	r.SetRule("cross product: 8 entry points (sqlx.NewSqlConnFromDB / sqlx.NewSqlConn / sqlc.NewConnWithCache / sqlc.NewNodeConn / sqlc.NewConn, Transact and TransactCtx) " +
		"x every body of 0..N statements over {exec, query, prepared exec, prepared query, nested Transact attempt} x driver flavour {direct, prepare-fallback} " +
		"x begin {ok, Begin fails, connection cannot be opened} x ctx {live, cancelled before, cancelled by the body} x statement fault {none, k-th statement fails by driver error / no rows / Prepare error} " +
		"x body policy {returns the error, ignores it} x terminal {return nil, own error, typed-nil error, panic with 7 kinds of value} x end fault {none, Commit fails, Rollback fails}; " +
		"only combinations whose extra coordinate is unobservable by construction of the harness body or of database/sql are left out (statement faults and 7 of the 10 terminals when no transaction can begin; " +
		"terminals behind a statement error the body itself returns; driver statement faults behind a context the body has cancelled). " +
		"Each case runs once on a fresh recorder and fresh SqlConn/breaker. A case is distinct by all those coordinates and non-trivial iff it has at least one fault point and every fault point it arms " +
		"was actually reached (the driver call was made and failed, the body reached its return-error/panic point, the call saw the cancelled context); fault-free and fault-masked cases " +
		"(e.g. Commit armed to fail but the body failed, so Rollback ran) are evaluated by the same oracle but not counted")
	pprof.StopCPUProfile()
	r.Finish()
}
