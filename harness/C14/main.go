// C14 — SQL transactions end exactly once: commit iff the body succeeded.
//
// Exhaustive fault enumeration. A recording database/sql/driver (driver.go) sits under the real
// sqlx.SqlConn / sqlc.CachedConn; every case = (entry point, body of 0..N statements, fault
// placement) is run once on a fresh driver recorder, fresh sql.DB and fresh SqlConn (fresh
// breaker), and the driver log + the body's own trace + the returned error are judged by an
// oracle written from the property statement (oracle.go). Nothing is sampled.
package main

import (
	"fmt"
	"os"
	"runtime"
	"runtime/debug"
	"runtime/pprof"
	"sort"
	"strings"
	"sync"
	"sync/atomic"
	"time"

	"github.com/alicebob/miniredis/v2"
	"github.com/zeromicro/go-zero/core/logx"
	"github.com/zeromicro/go-zero/verifshim/vlib"
)

var (
	timing = os.Getenv("C14_TIMING") != "" // development aid: busy time per entry point on stderr
	timeMu sync.Mutex
	timeBy = map[string]time.Duration{}
)

var stmtKinds = []string{"exec", "query", "prepexec", "prepquery", "nested"}

// modesFor lists the ways a statement of the given kind can be made to fail.
func modesFor(kind string) []string {
	switch kind {
	case "exec":
		return []string{"driver"}
	case "query":
		return []string{"driver", "norows"}
	case "prepexec":
		return []string{"driver", "prepare"}
	case "prepquery":
		return []string{"driver", "norows", "prepare"}
	}
	return nil // nested: rejected by go-zero before it reaches the driver
}

func terminals() []string {
	t := []string{"nil", "err", "typednil"}
	for _, k := range panicKinds {
		t = append(t, "panic:"+k)
	}
	return t
}

// unit = one (statement count, entry point, statement kinds); its fault placements are
// enumerated inside enumerateUnit in a fixed order.
type unit struct {
	idx   int
	api   apiSpec
	kinds []string
	fam   string // "" base family | ctx (ctxfam.go)
}

func buildUnits(maxN int) []unit {
	var us []unit
	for n := 0; n <= maxN; n++ {
		var tuples [][]string
		var rec func(cur []string)
		rec = func(cur []string) {
			if len(cur) == n {
				tuples = append(tuples, append([]string(nil), cur...))
				return
			}
			for _, k := range stmtKinds {
				rec(append(cur, k))
			}
		}
		rec(nil)
		for _, a := range apis {
			for _, t := range tuples {
				us = append(us, unit{idx: len(us), api: a, kinds: t})
			}
		}
	}
	return us
}

// enumerateUnit calls f for every fault placement of the unit.
func enumerateUnit(u unit, f func(Case)) {
	begins := []string{"ok", "fail"}
	if u.api.ctor == "newconn" {
		begins = append(begins, "openfail")
	}
	ctxs := []string{"live"}
	if u.api.ctxAPI {
		ctxs = append(ctxs, "pre", "inbody")
	}
	type sf struct {
		at   int
		mode string
	}
	sfs := []sf{{0, ""}}
	for i, k := range u.kinds {
		for _, m := range modesFor(k) {
			sfs = append(sfs, sf{i + 1, m})
		}
	}
	terms := terminals()
	for _, fl := range []string{"direct", "skip"} {
		for _, bg := range begins {
			for _, cx := range ctxs {
				// When no transaction can be begun (Begin fails, no connection, context cancelled
				// before the call) the body must not run at all, so faults *inside* the body and
				// its policy are unobservable unless the property is already violated — and then
				// any body shows it. Those cases keep every body shape but only three terminals
				// and no statement fault; the end faults stay (a stray Commit/Rollback would hit them).
				blocked := bg != "ok" || cx == "pre"
				for _, s := range sfs {
					if blocked && s.at != 0 {
						continue
					}
					if cx == "inbody" && s.at != 0 {
						// every statement of a TransactCtx body carries the context the body has
						// just cancelled: database/sql refuses it before the driver is asked, so
						// a driver-level statement fault can never be reached
						continue
					}
					onErrs := []string{"return", "ignore"}
					if blocked || (s.at == 0 && cx != "inbody") {
						onErrs = onErrs[:1] // no statement can fail: the policy is unobservable
					}
					for _, oe := range onErrs {
						for _, tm := range terms {
							if blocked && tm != "nil" && tm != "err" && tm != "panic:error" {
								continue
							}
							if s.at > 0 && oe == "return" && cx == "live" && tm != "nil" {
								// the harness body returns the k-th statement's error itself, so
								// its terminal is unreachable by construction (should the fault not
								// fire, "then=nil" records that)
								continue
							}
							for _, end := range []string{"none", "commit", "rollback"} {
								f(Case{API: u.api.name, Kinds: u.kinds, Flavour: fl, Begin: bg, Ctx: cx,
									FailAt: s.at, Mode: s.mode, OnErr: oe, Term: tm, End: end})
							}
						}
					}
				}
			}
		}
	}
}

// armed counts the fault points of a case and says whether every one of them was reached.
func armed(c Case, o *Obs) (n int, allReached bool) {
	allReached = true
	add := func(reached bool) {
		n++
		if !reached {
			allReached = false
		}
	}
	switch c.Begin {
	case "fail":
		add(o.HitBegin)
	case "openfail":
		add(o.HitOpen)
	}
	switch c.Ctx {
	case "pre":
		add(true)
	case "inbody":
		add(o.BodyRuns > 0)
	}
	if c.FailAt > 0 {
		add(o.HitStmt)
	}
	if c.CtxAt != "" {
		add(o.HitCtx)
	}
	if c.Term != "nil" {
		add(o.TermReached)
	}
	switch c.End {
	case "commit":
		add(o.HitCommit)
	case "rollback":
		add(o.HitRollback)
	}
	return
}

type cand struct {
	score, unit, ord int
	class, desc      string
	c                Case
}

func (a cand) less(b cand) bool {
	if a.score != b.score {
		return a.score < b.score
	}
	if a.unit != b.unit {
		return a.unit < b.unit
	}
	return a.ord < b.ord
}

type sample struct {
	Case     string `json:"case"`
	Driver   string `json:"driver_log"`
	Returned string `json:"returned"`
	Outcome  string `json:"outcome"`
}

type unitRes struct {
	evals    int
	counters map[string]int
	viol     map[string]cand
	samples  map[string]sample
	deferred []Case   // ctx family, parallel pass: to be run again in the sequential pass
	inconcl  []string // sequential pass: cases that could not be waited out
}

func errString(err error) string {
	if err == nil {
		return "<nil>"
	}
	return err.Error()
}

// protocolLog drops pool housekeeping (open/ping/connclose depend on whether the pooled
// connection of a shared *sql.DB already existed) so that samples are schedule-independent.
func protocolLog(log []string) []string {
	var out []string
	for _, op := range log {
		if op != "open" && op != "ping" && op != "connclose" {
			out = append(out, op)
		}
	}
	return out
}

const maxDeferredPerPlacement = 150

var deferredCount sync.Map // CtxAt -> *atomic.Int64

func deferredAt(at string) *atomic.Int64 {
	if v, ok := deferredCount.Load(at); ok {
		return v.(*atomic.Int64)
	}
	v, _ := deferredCount.LoadOrStore(at, new(atomic.Int64))
	return v.(*atomic.Int64)
}

func newUnitRes() *unitRes {
	return &unitRes{counters: map[string]int{}, viol: map[string]cand{}, samples: map[string]sample{}}
}

func runUnit(u unit, r *vlib.Report, w *worker, thorough bool) *unitRes {
	res := newUnitRes()
	if u.fam == "ctx" {
		enumerateCtxUnit(u, thorough, func(c Case) {
			// Never on a conforming tree (nothing is deferred there). Where an implementation leaves
			// work behind at some placement, each such case leaks goroutines and connections, and a
			// bounded number of them is all the sequential pass needs.
			if deferredAt(c.CtxAt).Load() >= maxDeferredPerPlacement {
				res.counters["ctx:not_run_placement_already_deferred_often"]++
				return
			}
			o := runCase(c, w)
			if o.Deferred {
				deferredAt(c.CtxAt).Add(1)
			}
			res.judge(u.idx, c, o, r.Nontrivial)
		})
	} else {
		enumerateUnit(u, func(c Case) {
			o := runCase(c, w)
			if o.Deferred {
				// base family: a bounded number of such cases is judged after waiting in the sequential
				// pass; beyond it they are judged on what was seen when the call returned
				if deferredAt("base").Add(1) > maxDeferredPerPlacement {
					o.Deferred = false
				}
			}
			res.judge(u.idx, c, o, r.Nontrivial)
		})
	}
	return res
}

// judge counts one executed case and keeps its violations.
func (res *unitRes) judge(uidx int, c Case, o *Obs, nontrivial func(string)) {
	pfx := ""
	if c.ctxFam() {
		pfx = "ctx:"
	}
	if o.Deferred {
		res.counters[pfx+"deferred_to_sequential_pass"]++
		res.deferred = append(res.deferred, c)
		return
	}
	if o.Inconclusive != "" {
		res.counters[pfx+"inconclusive"]++
		res.inconcl = append(res.inconcl, c.String()+": "+o.Inconclusive)
		return
	}
	ord := res.evals
	res.evals++
	n, all := armed(c, o)
	cat := outcomeCategory(c, o)
	res.counters[pfx+"outcome:"+cat]++
	if c.ctxFam() {
		at := c.CtxAt
		if at == "" {
			at = "never"
		}
		res.counters["ctx:cases_ctx_ends:"+at]++
		if o.HitCtx {
			res.counters["ctx:reached_ctx_ends:"+at]++
		}
		if o.Async {
			res.counters["ctx:driver_call_off_the_callers_goroutine:gate_"+o.Gate]++
		}
	}
	switch {
	case n == 0:
		res.counters[pfx+"fault_free_cases"]++
	case all:
		res.counters[pfx+"all_faults_reached"]++
		nontrivial(c.key())
		if _, ok := res.samples[pfx+cat]; !ok {
			res.samples[pfx+cat] = sample{Case: c.String(), Driver: strings.Join(protocolLog(o.Log), " "), Returned: errString(o.Err), Outcome: cat}
		}
	default:
		res.counters[pfx+"some_fault_not_reached"]++
	}
	if o.NestedRan > 0 {
		res.counters[pfx+"nested_transact_ran_its_body"]++
	}
	for _, v := range check(c, o) {
		cd := cand{score: len(c.Kinds)*10 + n, unit: uidx, ord: ord, class: v.class, desc: v.desc + " — " + c.String() +
			" | driver log: " + strings.Join(o.Log, " ") + " | returned: " + errString(o.Err), c: c}
		if old, ok := res.viol[v.class]; !ok || cd.less(old) {
			res.viol[v.class] = cd
		}
	}
}

func main() {
	if os.Getenv(seqEnvIn) != "" {
		runSeqChild()
		return
	}
	cfg := vlib.ParseFlags("C14", "fault_enumeration")
	r := vlib.NewReport(cfg)
	logx.Disable()
	debug.SetGCPercent(400) // cases are short-lived garbage; the live heap is tiny
	debug.SetMemoryLimit(4 << 30) // ... but the machine is shared: collect harder beyond 4 GB

	mr, err := miniredis.Run()
	if err != nil {
		vlib.Fatal("miniredis: %v", err)
	}
	defer mr.Close()
	redisAddr = mr.Addr()
	flushCache = mr.FlushAll

	if cfg.Replay != "" {
		var c Case
		class, err := vlib.LoadReplay(cfg.Replay, &c)
		if err != nil {
			vlib.Fatal("cannot load replay: %v", err)
		}
		wk := newWorker()
		wk.seq = true // alone in the process: wait until nothing can act on the transaction any more
		o := runCase(c, wk)
		fmt.Printf("replay class=%s\ncase: %s\n", class, c.String())
		if o.Inconclusive != "" {
			fmt.Printf("inconclusive (no verdict): %s\n", o.Inconclusive)
			os.Exit(2)
		}
		fmt.Printf("driver log: %s\nbody: runs=%d outcome=%q nested-ran=%d nested-results=%v\nreturned: %s\nescaped panic: %v %v\nconnections in use afterwards: %d\n",
			strings.Join(o.Log, " "), o.BodyRuns, o.BodyOutcome, o.NestedRan, o.NestedErrs, errString(o.Err), o.DidEscape, o.Escaped, o.InUse)
		fmt.Printf("expected: %s\n", expectation(c, o))
		vs := check(c, o)
		for _, v := range vs {
			fmt.Printf("observed: class=%s %s\n", v.class, v.desc)
		}
		if len(vs) > 0 {
			fmt.Printf("VIOLATION property=%s replay=%s\n", cfg.ID, cfg.Replay)
			os.Exit(1)
		}
		fmt.Println("observed: conforms")
		os.Exit(0)
	}

	if p := os.Getenv("C14_CPUPROFILE"); p != "" { // development aid only
		if f, err := os.Create(p); err == nil {
			pprof.StartCPUProfile(f)
		}
	}
	maxN := 3
	if cfg.Thorough() {
		maxN = 4
	}
	units := buildUnits(maxN)
	nBase := len(units)
	maxCtxN := 2
	if cfg.Thorough() {
		maxCtxN = 3
	}
	units = append(units, buildCtxUnits(maxCtxN, nBase)...)
	results := make([]*unitRes, len(units))
	skipped := make([]bool, len(units))
	workers := runtime.NumCPU()
	if workers > cfg.Workers && cfg.Workers > 0 {
		workers = cfg.Workers
	}
	var wg sync.WaitGroup
	next := make(chan int)
	for w := 0; w < workers; w++ {
		wg.Add(1)
		go func() {
			defer wg.Done()
			wk := newWorker()
			for i := range next {
				if cfg.Expired() {
					skipped[i] = true
					continue
				}
				t0 := time.Now()
				results[i] = runUnit(units[i], r, wk, cfg.Thorough())
				if timing {
					timeMu.Lock()
					timeBy[units[i].fam+" "+units[i].api.name] += time.Since(t0)
					timeMu.Unlock()
				}
			}
		}()
	}
	for i := range units {
		next <- i
	}
	close(next)
	wg.Wait()

	if timing {
		for k, v := range timeBy {
			fmt.Fprintf(os.Stderr, "timing: %-70s %v\n", k, v)
		}
		fmt.Fprintf(os.Stderr, "timing: parallel passes done at %v\n", time.Since(cfg.Start))
		var ms runtime.MemStats
		runtime.ReadMemStats(&ms)
		fmt.Fprintf(os.Stderr, "timing: heap in use %d MB, heap sys %d MB, stacks %d MB, total sys %d MB, live after last GC ~%d MB\n", ms.HeapInuse>>20, ms.HeapSys>>20, ms.StackSys>>20, ms.Sys>>20, ms.HeapAlloc>>20)
		if f := os.Getenv("C14_HEAPPROFILE"); f != "" {
			runtime.GC()
			if fh, err := os.Create(f); err == nil {
				pprof.WriteHeapProfile(fh)
				fh.Close()
			}
		}
		t0 := time.Now()
		act := activeGoroutines()
		if os.Getenv("C14_TIMING") == "dump" {
			pprof.Lookup("goroutine").WriteTo(os.Stderr, 1)
		}
		fmt.Fprintf(os.Stderr, "timing: %d goroutines, census takes %v, active now: %v\n", runtime.NumGoroutine(), time.Since(t0), act)
	}
	// sequential pass of the context-fault family (ctxfam.go): the pool cases, and every case of
	// the parallel pass in which something was still going on when the call returned
	{
		var todo []Case
		todo = append(todo, poolCases()...)
		for i, res := range results {
			if !skipped[i] && res != nil {
				todo = append(todo, res.deferred...)
			}
		}
		budget := time.Until(cfg.Deadline())
		if budget < 0 {
			budget = 0
		}
		seq, left, err := runSeqPass(todo, len(units), budget, r.Nontrivial)
		if err != nil {
			vlib.Fatal("sequential pass: %v", err)
		}
		notRun := 0
		for i, res := range results {
			if !skipped[i] && res != nil {
				notRun += res.counters["ctx:not_run_placement_already_deferred_often"]
			}
		}
		if notRun > 0 {
			r.NotExhaustive(fmt.Sprintf("context-fault family: %d cases not run because cases of the same placement had already left work behind %d times (those are judged in the sequential pass)", notRun, maxDeferredPerPlacement))
		}
		if left > 0 {
			r.NotExhaustive(fmt.Sprintf("sequential pass of the context-fault family: %d of %d cases not run (time box, or violations already on record)", left, len(todo)))
		}
		for i, s := range seq.inconcl {
			if i < 5 {
				r.NotExhaustive("no verdict (activity did not end): " + s)
			}
		}
		seq.counters["ctx:sequential_pass_cases"] = seq.evals
		if timing {
			fmt.Fprintf(os.Stderr, "timing: sequential pass done at %v\n", time.Since(cfg.Start))
		}
		units = append(units, unit{idx: len(units), fam: "ctx"})
		results = append(results, seq)
		skipped = append(skipped, false)
	}

	// merge in unit order: deterministic whatever the goroutine schedule was
	nskipped := 0
	best := map[string]cand{}
	samples := map[string]sample{}
	perN := map[int]int{}
	perFam := map[string]int{}
	for i, res := range results {
		if skipped[i] || res == nil {
			nskipped++
			continue
		}
		r.Eval(res.evals)
		if units[i].fam == "ctx" {
			perFam["context_fault_family"] += res.evals
		} else {
			perFam["base_family"] += res.evals
		}
		perN[len(units[i].kinds)] += res.evals
		for k, v := range res.counters {
			r.Count(k, v)
		}
		for cl, cd := range res.viol {
			if old, ok := best[cl]; !ok || cd.less(old) {
				best[cl] = cd
			}
		}
		for cat, s := range res.samples {
			if _, ok := samples[cat]; !ok {
				samples[cat] = s
			}
		}
	}
	if nskipped > 0 {
		r.NotExhaustive(fmt.Sprintf("time box: %d of %d (entry point, statement kinds) units not run; units are ordered by statement count, all earlier ones were fully enumerated", nskipped, len(units)))
	}
	var cats []string
	for cat := range samples {
		cats = append(cats, cat)
	}
	sort.Strings(cats)
	for _, cat := range cats {
		r.Sample(samples[cat])
	}
	var cands []cand
	for _, cd := range best {
		cands = append(cands, cd)
	}
	sort.Slice(cands, func(i, j int) bool { return cands[i].less(cands[j]) })
	for _, cd := range cands {
		r.Violation(cd.class, cd.desc, cd.c)
	}
	sizes := map[string]int{}
	for n, e := range perN {
		sizes[fmt.Sprintf("%d_statements", n)] = e
	}
	r.SetExtra("cases_by_body_length", sizes)
	r.SetExtra("cases_by_family", perFam)
	r.SetExtra("units", len(units))
	var apiNames []string
	for _, a := range apis {
		apiNames = append(apiNames, a.name+" (body uses session "+a.via+")")
	}
	for _, a := range ctxAPIs {
		apiNames = append(apiNames, "context-fault family: "+a.name+" (body uses session "+a.via+")")
	}
	r.SetExtra("entry_points", apiNames)
	r.SetExtra("context_fault_family", map[string]any{"max_statements": maxCtxN, "extra_statement_kinds": append(append([]string(nil), ctxNewKinds...), ctxCachedKinds...),
		"ctx_kinds": []string{"cancel", "deadline"}, "placements": []string{"open", "begin", "pre k", "stmt k call j", "end", "pool"}, "terminals": ctxTerminals(cfg.Thorough(), 0), "terminals_longest_bodies": ctxTerminals(cfg.Thorough(), maxCtxN)})
	r.SetExtra("dimensions", map[string]any{
		"statement_kinds": stmtKinds, "max_statements": maxN, "driver_flavours": []string{"direct", "skip"},
		"begin": []string{"ok", "fail", "openfail (sqlx.NewSqlConn only)"}, "ctx": []string{"live", "pre", "inbody (TransactCtx only)"},
		"statement_fault_modes": []string{"driver", "norows (queries)", "prepare (prepared kinds)"}, "on_error": []string{"return", "ignore"},
		"terminals": terminals(), "end_faults": []string{"none", "commit", "rollback"}})
	r.Assume("the transaction body finishes by returning or panicking (runtime.Goexit inside the body is outside the quantifier)")
	r.Assume("driver errors are ordinary errors (driver.ErrBadConn, on which database/sql itself retries Begin, is not injected)")
	r.Assume("context-fault family: a query call never returns rows together with an ended context (database/sql closes such rows from its own goroutine: a race inside database/sql); the recording driver refuses calls that carry an ended context, as real drivers do")
	r.Assume("go.mod says go >= 1.21, so panic(nil) reaches recover as *runtime.PanicNilError (GODEBUG=panicnil=1 not considered)")
	r.SetRule("cross product: 8 entry points (sqlx.NewSqlConnFromDB / sqlx.NewSqlConn / sqlc.NewConnWithCache / sqlc.NewNodeConn / sqlc.NewConn, Transact and TransactCtx) " +
		"x every body of 0..N statements over {exec, query, prepared exec, prepared query, nested Transact attempt} x driver flavour {direct, prepare-fallback} " +
		"x begin {ok, Begin fails, connection cannot be opened} x ctx {live, cancelled before, cancelled by the body} x statement fault {none, k-th statement fails by driver error / no rows / Prepare error} " +
		"x body policy {returns the error, ignores it} x terminal {return nil, own error, typed-nil error, panic with 7 kinds of value} x end fault {none, Commit fails, Rollback fails}; " +
		"only combinations whose extra coordinate is unobservable by construction of the harness body or of database/sql are left out (statement faults and 7 of the 10 terminals when no transaction can begin; " +
		"terminals behind a statement error the body itself returns; driver statement faults behind a context the body has cancelled). " +
		"Each case runs once on a fresh recorder and fresh SqlConn/breaker. A case is distinct by all those coordinates and non-trivial iff it has at least one fault point and every fault point it arms " +
		"was actually reached (the driver call was made and failed, the body reached its return-error/panic point, the call saw the cancelled context); fault-free and fault-masked cases " +
		"(e.g. Commit armed to fail but the body failed, so Rollback ran) are evaluated by the same oracle but not counted")
	pprof.StopCPUProfile()
	r.Finish()
}
