// Additional program families of the VS self-test (see the header of main.go). Every family has
// its own small operation alphabet; one operation definition serves both sides: it is written
// against interfaces that the vsched types and the real sync / sync/atomic types both satisfy
// (channels: a small adapter, the real side uses native operators and reflect.Select, which is
// the runtime's selectgo).
package main

import (
	"encoding/json"
	"fmt"
	"math/rand"
	"os"
	"reflect"
	"runtime"
	"sort"
	"strconv"
	"strings"
	"sync"
	"sync/atomic"
	"time"

	"github.com/zeromicro/go-zero/verifshim/vlib"
	"github.com/zeromicro/go-zero/verifshim/vsched"
)

// ---- the primitives behind interfaces ----

type lockI interface {
	Lock()
	Unlock()
	TryLock() bool
}
type rwI interface {
	Lock()
	Unlock()
	RLock()
	RUnlock()
}
type rwTryI interface {
	TryLock() bool
	TryRLock() bool
}
type wgI interface {
	Add(int)
	Done()
	Wait()
}
type onceI interface{ Do(func()) }
type condI interface {
	Wait()
	Signal()
	Broadcast()
}
type i32I interface {
	Load() int32
	Store(int32)
	Add(int32) int32
	Swap(int32) int32
	CompareAndSwap(o, n int32) bool
}
type boolI interface {
	Load() bool
	Store(bool)
	Swap(bool) bool
	CompareAndSwap(o, n bool) bool
}
type valI interface {
	Load() any
	Store(any)
	Swap(any) any
	CompareAndSwap(o, n any) bool
}
type mapI interface {
	Load(any) (any, bool)
	Store(k, v any)
	LoadOrStore(k, v any) (any, bool)
	LoadAndDelete(any) (any, bool)
	Delete(any)
	Swap(k, v any) (any, bool)
	CompareAndSwap(k, o, n any) bool
	CompareAndDelete(k, o any) bool
	Range(func(k, v any) bool)
}

// function-style atomics (atomic.AddInt64(&x, d) / vsched.AtomicAddInt64(&x, d))
type fnAtomI interface {
	Add64(int64) int64
	Cas64(o, n int64) bool
	Load64() int64
	Store64(int64)
	Swap64(int64) int64
	AddU(uint32) uint32
	CasU(o, n uint32) bool
	LoadU() uint32
	StoreU(uint32)
	SwapU(uint32) uint32
}

type mFn struct {
	x int64
	u uint32
}

func (m *mFn) Add64(d int64) int64   { return vsched.AtomicAddInt64(&m.x, d) }
func (m *mFn) Cas64(o, n int64) bool { return vsched.AtomicCompareAndSwapInt64(&m.x, o, n) }
func (m *mFn) Load64() int64         { return vsched.AtomicLoadInt64(&m.x) }
func (m *mFn) Store64(v int64)       { vsched.AtomicStoreInt64(&m.x, v) }
func (m *mFn) Swap64(v int64) int64  { return vsched.AtomicSwapInt64(&m.x, v) }
func (m *mFn) AddU(d uint32) uint32  { return vsched.AtomicAddUint32(&m.u, d) }
func (m *mFn) CasU(o, n uint32) bool { return vsched.AtomicCompareAndSwapUint32(&m.u, o, n) }
func (m *mFn) LoadU() uint32         { return vsched.AtomicLoadUint32(&m.u) }
func (m *mFn) StoreU(v uint32)       { vsched.AtomicStoreUint32(&m.u, v) }
func (m *mFn) SwapU(v uint32) uint32 { return vsched.AtomicSwapUint32(&m.u, v) }

type rFn struct {
	x int64
	u uint32
}

func (m *rFn) Add64(d int64) int64   { return atomic.AddInt64(&m.x, d) }
func (m *rFn) Cas64(o, n int64) bool { return atomic.CompareAndSwapInt64(&m.x, o, n) }
func (m *rFn) Load64() int64         { return atomic.LoadInt64(&m.x) }
func (m *rFn) Store64(v int64)       { atomic.StoreInt64(&m.x, v) }
func (m *rFn) Swap64(v int64) int64  { return atomic.SwapInt64(&m.x, v) }
func (m *rFn) AddU(d uint32) uint32  { return atomic.AddUint32(&m.u, d) }
func (m *rFn) CasU(o, n uint32) bool { return atomic.CompareAndSwapUint32(&m.u, o, n) }
func (m *rFn) LoadU() uint32         { return atomic.LoadUint32(&m.u) }
func (m *rFn) StoreU(v uint32)       { atomic.StoreUint32(&m.u, v) }
func (m *rFn) SwapU(v uint32) uint32 { return atomic.SwapUint32(&m.u, v) }

// insideI counts the threads inside a critical section without adding scheduling points to the
// model. Model: a plain counter, incremented right after the acquisition and decremented right
// after the release — both glued to the lock operation, because a controlled thread runs on until
// its next shim call: the exact number of holders. Real: an atomic counter, incremented after the
// acquisition and decremented BEFORE the release: never more than the number of holders.
type insideI interface {
	enter() int
	leaveBefore()
	leaveAfter()
}
type mInside struct{ n int }

func (m *mInside) enter() int   { m.n++; return m.n }
func (m *mInside) leaveBefore() {}
func (m *mInside) leaveAfter()  { m.n-- }

type rInside struct{ n atomic.Int32 }

func (m *rInside) enter() int   { return int(m.n.Add(1)) }
func (m *rInside) leaveBefore() { m.n.Add(-1) }
func (m *rInside) leaveAfter()  {}

// channels: index 0 unbuffered, 1 cap 1, 2 cap 2, 3 nil
type scase struct {
	c    int
	send bool
	v    int
}
type chI interface {
	send(c, v int)
	recv(c int) (int, bool)
	close(c int)
	length(c int) int
	capacity(c int) int
	sel(def bool, cs []scase) (int, int, bool) // chosen index (-1 default), received value, ok
}

type mch struct{ c [4]chan int }

func (m *mch) send(c, v int)          { vsched.Send(m.c[c], v) }
func (m *mch) recv(c int) (int, bool) { return vsched.Recv2(m.c[c]) }
func (m *mch) close(c int)            { vsched.Close(m.c[c]) }
func (m *mch) length(c int) int       { return vsched.ChanLen[int](m.c[c]) }
func (m *mch) capacity(c int) int     { return vsched.ChanCap[int](m.c[c]) }
func (m *mch) sel(def bool, cs []scase) (int, int, bool) {
	cases := make([]vsched.Case, len(cs))
	rcs := make([]*vsched.RCase[int], len(cs))
	for i, s := range cs {
		if s.send {
			cases[i] = vsched.SendCase(m.c[s.c], s.v)
		} else {
			rc := vsched.RecvCase[int](m.c[s.c])
			rcs[i], cases[i] = rc, rc
		}
	}
	i := vsched.Select(def, cases...)
	if i >= 0 && rcs[i] != nil {
		v, ok := rcs[i].Val2()
		return i, v, ok
	}
	return i, 0, false
}

type rch struct{ c [4]chan int }

func (m *rch) send(c, v int)          { m.c[c] <- v }
func (m *rch) recv(c int) (int, bool) { v, ok := <-m.c[c]; return v, ok }
func (m *rch) close(c int)            { close(m.c[c]) }
func (m *rch) length(c int) int       { return len(m.c[c]) }
func (m *rch) capacity(c int) int     { return cap(m.c[c]) }
func (m *rch) sel(def bool, cs []scase) (int, int, bool) {
	var rc []reflect.SelectCase
	for _, s := range cs {
		if s.send {
			rc = append(rc, reflect.SelectCase{Dir: reflect.SelectSend, Chan: reflect.ValueOf(m.c[s.c]), Send: reflect.ValueOf(s.v)})
		} else {
			rc = append(rc, reflect.SelectCase{Dir: reflect.SelectRecv, Chan: reflect.ValueOf(m.c[s.c])})
		}
	}
	if def {
		rc = append(rc, reflect.SelectCase{Dir: reflect.SelectDefault})
	}
	i, v, ok := reflect.Select(rc)
	if def && i == len(cs) {
		return -1, 0, false
	}
	if !cs[i].send {
		if ok {
			return i, int(v.Int()), true
		}
		return i, 0, false
	}
	return i, 0, false
}

type env struct {
	slips bool
	mu    lockI
	rw    rwI
	rwt   rwTryI // nil when the model has no RWMutex.TryLock / TryRLock
	wg    wgI
	once  onceI
	cond  condI
	i32   i32I
	b     boolI
	av    valI
	sm    mapI
	fn    fnAtomI
	ch    chI
	in    insideI
}

func newModelEnv() *env {
	x := &env{}
	mu := &vsched.Mutex{}
	rw := &vsched.RWMutex{}
	x.mu, x.rw = mu, rw
	x.rwt, _ = any(rw).(rwTryI)
	x.wg, x.once = &vsched.WaitGroup{}, &vsched.Once{}
	x.cond = vsched.NewCond(mu)
	x.i32, x.b, x.av = &vsched.AtomicInt32{}, &vsched.AtomicBool{}, &vsched.AtomicValue{}
	x.sm = &vsched.Map{}
	x.fn, x.in = &mFn{}, &mInside{}
	x.ch = &mch{c: [4]chan int{vsched.MakeChan[int](0), vsched.MakeChan[int](1), vsched.MakeChan[int](2), nil}}
	return x
}

func newRealEnv() *env {
	x := &env{}
	mu := &sync.Mutex{}
	rw := &sync.RWMutex{}
	x.mu, x.rw, x.rwt = mu, rw, rw
	x.wg, x.once = &sync.WaitGroup{}, &sync.Once{}
	x.cond = sync.NewCond(mu)
	x.i32, x.b, x.av = &atomic.Int32{}, &atomic.Bool{}, &atomic.Value{}
	x.sm = &sync.Map{}
	x.fn, x.in = &rFn{}, &rInside{}
	x.ch = &rch{c: [4]chan int{make(chan int), make(chan int, 1), make(chan int, 2), nil}}
	return x
}

// modelHasRWTry: does the engine's RWMutex have TryLock / TryRLock at all?
func modelHasRWTry() bool { _, ok := any(&vsched.RWMutex{}).(rwTryI); return ok }

// ---- operations ----

// tctx is the thread-local state of a harness thread: operation index, value to send/store, and
// what the thread itself holds (unlock / wait of something the thread does not hold is a FATAL
// error of the real primitive, not a panic: such an operation is rendered "skip" on both sides and
// touches nothing; the decision depends only on the thread's own earlier results).
type tctx struct {
	ti, k, v     int
	held, rh, wh int
	n            int  // steps taken so far
	first        bool // the next step is the first one of an operation
	// step is called before EVERY primitive operation (by the runner before an operation, by a
	// composite operation or a callback before each further primitive). Model side: a marker in
	// the trace when a witness execution is replayed; real side, free run: random delay / yield;
	// real side, directed run: sleep until the time slot the model's schedule gives this step.
	step func()
}

type opdef struct {
	name string
	f    func(x *env, c *tctx) string
}

func rv(v int, ok bool) string { return fmt.Sprintf("%d/%v", v, ok) }

func selOp(name string, def bool, mk func(c *tctx) []scase) opdef {
	return opdef{name, func(x *env, c *tctx) string {
		i, v, ok := x.ch.sel(def, mk(c))
		if i < 0 {
			return "default"
		}
		cs := mk(c)
		if cs[i].send {
			return fmt.Sprintf("#%d:sent", i)
		}
		return fmt.Sprintf("#%d:%s", i, rv(v, ok))
	}}
}

func sendOp(ci int) opdef {
	return opdef{"send" + chName(ci), func(x *env, c *tctx) string { x.ch.send(ci, c.v); return "ok" }}
}
func recvOp(ci int) opdef {
	return opdef{"recv" + chName(ci), func(x *env, c *tctx) string { return rv(x.ch.recv(ci)) }}
}
func closeOp(ci int) opdef {
	return opdef{"close" + chName(ci), func(x *env, c *tctx) string { x.ch.close(ci); return "ok" }}
}
func lenOp(ci int) opdef {
	return opdef{"len" + chName(ci), func(x *env, c *tctx) string {
		return fmt.Sprintf("%d/%d", x.ch.length(ci), x.ch.capacity(ci))
	}}
}
func chName(ci int) string {
	if ci == 3 {
		return "N"
	}
	return strconv.Itoa(ci)
}

var (
	opLock   = opdef{"lock", func(x *env, c *tctx) string { x.mu.Lock(); c.held++; return "ok" }}
	opUnlock = opdef{"unlock", func(x *env, c *tctx) string {
		if c.held == 0 {
			return "skip"
		}
		c.held--
		x.mu.Unlock()
		return "ok"
	}}
	opTryLock = opdef{"trylock", func(x *env, c *tctx) string {
		if x.mu.TryLock() {
			c.held++
			return "true"
		}
		return "false"
	}}

	opRLock = opdef{"rlock", func(x *env, c *tctx) string {
		if c.rh > 0 && !x.slips {
			return "skip"
		}
		x.rw.RLock()
		c.rh++
		return "ok"
	}}
	opRUnlock = opdef{"runlock", func(x *env, c *tctx) string {
		if c.rh == 0 {
			return "skip"
		}
		c.rh--
		x.rw.RUnlock()
		return "ok"
	}}
	opWLock   = opdef{"wlock", func(x *env, c *tctx) string { x.rw.Lock(); c.wh++; return "ok" }}
	opWUnlock = opdef{"wunlock", func(x *env, c *tctx) string {
		if c.wh == 0 {
			return "skip"
		}
		c.wh--
		x.rw.Unlock()
		return "ok"
	}}
	opTryRLock = opdef{"tryrlock", func(x *env, c *tctx) string {
		if x.rwt.TryRLock() {
			c.rh++
			return "true"
		}
		return "false"
	}}
	opTryWLock = opdef{"trywlock", func(x *env, c *tctx) string {
		if x.rwt.TryLock() {
			c.wh++
			return "true"
		}
		return "false"
	}}

	// critical sections that count the threads inside (see insideI; the real side pauses inside):
	// what a section sees tells who shared it with whom
	opCSec = opdef{"csec", func(x *env, c *tctx) string {
		if c.held > 0 {
			return "skip"
		}
		x.mu.Lock()
		n := x.in.enter()
		c.step()
		x.in.leaveBefore()
		x.mu.Unlock()
		x.in.leaveAfter()
		return fmt.Sprint(n)
	}}
	opRSec = opdef{"rsec", func(x *env, c *tctx) string {
		if c.rh > 0 || c.wh > 0 {
			return "skip"
		}
		x.rw.RLock()
		n := x.in.enter()
		c.step()
		x.in.leaveBefore()
		x.rw.RUnlock()
		x.in.leaveAfter()
		return fmt.Sprint(n)
	}}
	opWSec = opdef{"wsec", func(x *env, c *tctx) string {
		if c.rh > 0 || c.wh > 0 {
			return "skip"
		}
		x.rw.Lock()
		n := x.in.enter()
		c.step()
		x.in.leaveBefore()
		x.rw.Unlock()
		x.in.leaveAfter()
		return fmt.Sprint(n)
	}}

	opWgAdd  = opdef{"add", func(x *env, c *tctx) string { x.wg.Add(1); return "ok" }}
	opWgDone = opdef{"done", func(x *env, c *tctx) string { x.wg.Done(); return "ok" }}
	opWgWait = opdef{"wait", func(x *env, c *tctx) string { x.wg.Wait(); return "ok" }}

	// sync.Once
	opDo = opdef{"do", func(x *env, c *tctx) string {
		r := "no"
		x.once.Do(func() { c.step(); r = "ran" })
		return r
	}}
	opDoPanic = opdef{"dopanic", func(x *env, c *tctx) string {
		r := "no"
		func() {
			defer func() {
				if recover() != nil {
					r += "+panicked"
				}
			}()
			x.once.Do(func() { r = "ran"; c.step(); panic("boom") })
		}()
		return r
	}}
	opDoRecv0 = opdef{"dorecv0", func(x *env, c *tctx) string {
		r := "no"
		x.once.Do(func() { c.step(); r = "ran:" + rv(x.ch.recv(0)) })
		return r
	}}
	opDoSend0 = opdef{"dosend0", func(x *env, c *tctx) string {
		r := "no"
		x.once.Do(func() { c.step(); x.ch.send(0, c.v); r = "ran:sent" })
		return r
	}}
	opDoNest = opdef{"donest", func(x *env, c *tctx) string {
		r := "no"
		x.once.Do(func() { r = "outer"; c.step(); x.once.Do(func() { r = "inner" }); r = "outer-done" })
		return r
	}}

	// sync.Cond over the mutex
	opCWait = opdef{"cwait", func(x *env, c *tctx) string {
		if c.held == 0 {
			return "skip"
		}
		x.cond.Wait()
		return "ok"
	}}
	opSignal = opdef{"signal", func(x *env, c *tctx) string { x.cond.Signal(); return "ok" }}
	opBcast  = opdef{"bcast", func(x *env, c *tctx) string { x.cond.Broadcast(); return "ok" }}
	opLWU    = opdef{"lock+cwait+unlock", func(x *env, c *tctx) string {
		if c.held > 0 {
			return "skip"
		}
		x.mu.Lock()
		c.step()
		x.cond.Wait()
		c.step()
		x.mu.Unlock()
		return "ok"
	}}
	opLSU = opdef{"lock+signal+unlock", func(x *env, c *tctx) string {
		if c.held > 0 {
			return "skip"
		}
		x.mu.Lock()
		c.step()
		x.cond.Signal()
		c.step()
		x.mu.Unlock()
		return "ok"
	}}
	opLBU = opdef{"lock+bcast+unlock", func(x *env, c *tctx) string {
		if c.held > 0 {
			return "skip"
		}
		x.mu.Lock()
		c.step()
		x.cond.Broadcast()
		c.step()
		x.mu.Unlock()
		return "ok"
	}}

	// typed atomic.Int32
	opAdd1   = opdef{"add1", func(x *env, c *tctx) string { return fmt.Sprint(x.i32.Add(1)) }}
	opSub1   = opdef{"sub1", func(x *env, c *tctx) string { return fmt.Sprint(x.i32.Add(-1)) }}
	opCas01  = opdef{"cas0>1", func(x *env, c *tctx) string { return fmt.Sprint(x.i32.CompareAndSwap(0, 1)) }}
	opCas12  = opdef{"cas1>2", func(x *env, c *tctx) string { return fmt.Sprint(x.i32.CompareAndSwap(1, 2)) }}
	opLoad   = opdef{"load", func(x *env, c *tctx) string { return fmt.Sprint(x.i32.Load()) }}
	opStore7 = opdef{"store7", func(x *env, c *tctx) string { x.i32.Store(7); return "ok" }}
	opSwapV  = opdef{"swapv", func(x *env, c *tctx) string { return fmt.Sprint(x.i32.Swap(int32(c.v))) }}

	// function-style int64 / uint32
	opAdd64   = opdef{"add64", func(x *env, c *tctx) string { return fmt.Sprint(x.fn.Add64(-1)) }}
	opCas64   = opdef{"cas64:-1>5", func(x *env, c *tctx) string { return fmt.Sprint(x.fn.Cas64(-1, 5)) }}
	opLoad64  = opdef{"load64", func(x *env, c *tctx) string { return fmt.Sprint(x.fn.Load64()) }}
	opSwap64  = opdef{"swap64", func(x *env, c *tctx) string { return fmt.Sprint(x.fn.Swap64(int64(c.v) << 33)) }}
	opStore64 = opdef{"store64", func(x *env, c *tctx) string { x.fn.Store64(-1 << 40); return "ok" }}
	opAddU    = opdef{"addu-1", func(x *env, c *tctx) string { return fmt.Sprint(x.fn.AddU(^uint32(0))) }}
	opCasU    = opdef{"casu:max>1", func(x *env, c *tctx) string { return fmt.Sprint(x.fn.CasU(^uint32(0), 1)) }}
	opLoadU   = opdef{"loadu", func(x *env, c *tctx) string { return fmt.Sprint(x.fn.LoadU()) }}
	opSwapU   = opdef{"swapu", func(x *env, c *tctx) string { return fmt.Sprint(x.fn.SwapU(uint32(c.v))) }}

	// atomic.Bool / atomic.Value
	opBStore  = opdef{"bstoreT", func(x *env, c *tctx) string { x.b.Store(true); return "ok" }}
	opBSwap   = opdef{"bswapT", func(x *env, c *tctx) string { return fmt.Sprint(x.b.Swap(true)) }}
	opBCasTF  = opdef{"bcasT>F", func(x *env, c *tctx) string { return fmt.Sprint(x.b.CompareAndSwap(true, false)) }}
	opBCasFT  = opdef{"bcasF>T", func(x *env, c *tctx) string { return fmt.Sprint(x.b.CompareAndSwap(false, true)) }}
	opBLoad   = opdef{"bload", func(x *env, c *tctx) string { return fmt.Sprint(x.b.Load()) }}
	opVStore  = opdef{"vstore", func(x *env, c *tctx) string { x.av.Store(fmt.Sprintf("s%d", c.v)); return "ok" }}
	opVLoad   = opdef{"vload", func(x *env, c *tctx) string { return fmt.Sprint(x.av.Load()) }}
	opVSwap   = opdef{"vswap", func(x *env, c *tctx) string { return fmt.Sprint(x.av.Swap(fmt.Sprintf("w%d", c.v))) }}
	opVCasN   = opdef{"vcas:nil>x", func(x *env, c *tctx) string { return fmt.Sprint(x.av.CompareAndSwap(nil, "x")) }}
	opVCasX   = opdef{"vcas:x>y", func(x *env, c *tctx) string { return fmt.Sprint(x.av.CompareAndSwap("x", "y")) }}
	opVStoreI = opdef{"vstoreint", func(x *env, c *tctx) string { x.av.Store(c.v); return "ok" }} // inconsistent type: panics after a string
	opVStoreN = opdef{"vstorenil", func(x *env, c *tctx) string { x.av.Store(nil); return "ok" }} // always panics

	// sync.Map
	opMLoad  = opdef{"mload", func(x *env, c *tctx) string { v, ok := x.sm.Load("a"); return fmt.Sprintf("%v/%v", v, ok) }}
	opMStore = opdef{"mstore", func(x *env, c *tctx) string { x.sm.Store("a", c.v); return "ok" }}
	opMLos   = opdef{"mloadorstore", func(x *env, c *tctx) string {
		v, ok := x.sm.LoadOrStore("a", c.v)
		return fmt.Sprintf("%v/%v", v, ok)
	}}
	opMLad = opdef{"mloadanddelete", func(x *env, c *tctx) string {
		v, ok := x.sm.LoadAndDelete("a")
		return fmt.Sprintf("%v/%v", v, ok)
	}}
	opMDel  = opdef{"mdelete", func(x *env, c *tctx) string { x.sm.Delete("a"); return "ok" }}
	opMSwap = opdef{"mswap", func(x *env, c *tctx) string {
		v, ok := x.sm.Swap("a", c.v)
		return fmt.Sprintf("%v/%v", v, ok)
	}}
	opMCas    = opdef{"mcas:1>99", func(x *env, c *tctx) string { return fmt.Sprint(x.sm.CompareAndSwap("a", 1, 99)) }}
	opMCad    = opdef{"mcad:1", func(x *env, c *tctx) string { return fmt.Sprint(x.sm.CompareAndDelete("a", 1)) }}
	opMStoreB = opdef{"mstoreB", func(x *env, c *tctx) string { x.sm.Store("b", c.v); return "ok" }}
	opMDelB   = opdef{"mdeleteB", func(x *env, c *tctx) string { x.sm.Delete("b"); return "ok" }}
	opMRange  = opdef{"mrange", func(x *env, c *tctx) string {
		var kv []string
		x.sm.Range(func(k, v any) bool {
			kv = append(kv, fmt.Sprintf("%v=%v", k, v))
			c.step()
			return true
		})
		sort.Strings(kv)
		return "{" + strings.Join(kv, " ") + "}"
	}}
)

func callOp(o opdef, x *env, c *tctx) (r string) {
	defer func() {
		if p := recover(); p != nil {
			r = "panic"
		}
	}()
	return o.f(x, c)
}

// ---- families ----

type prog [][]int

type family struct {
	name   string
	doc    string
	ops    []opdef
	gated  bool         // runs only with VS_SLIPS=1 (demonstrates a reported model slip: fails on the current engine)
	setup  func(x *env) // runs in the parent before the threads start
	filter func(f *family, p prog) bool
	// enumeration: two threads of up to l2 operations, three threads of up to l3; quick/thorough
	// keep every program of at most full operations and an even sample of the larger ones
	l2, l3       int
	full         int
	quick, thoro int      // target program counts
	extra        []string // showcase programs, always included: "lock,cwait | trylock,signal"
}

func (f *family) opIndex(name string) int {
	for i, o := range f.ops {
		if o.name == name {
			return i
		}
	}
	panic("VS: family " + f.name + " has no op " + name)
}

func (f *family) parse(s string) prog {
	var p prog
	for _, t := range strings.Split(s, "|") {
		var th []int
		for _, o := range strings.Split(strings.TrimSpace(t), ",") {
			th = append(th, f.opIndex(strings.TrimSpace(o)))
		}
		p = append(p, th)
	}
	return p
}

func (f *family) str(p prog) string {
	var ts []string
	for _, t := range p {
		var os []string
		for _, o := range t {
			os = append(os, f.ops[o].name)
		}
		ts = append(ts, strings.Join(os, ","))
	}
	return strings.Join(ts, " | ")
}

func seqsUpTo(n, l int) [][]int {
	var out [][]int
	var rec func(cur []int)
	rec = func(cur []int) {
		if len(cur) > 0 {
			out = append(out, append([]int(nil), cur...))
		}
		if len(cur) == l {
			return
		}
		for a := 0; a < n; a++ {
			rec(append(cur, a))
		}
	}
	rec(nil)
	sort.SliceStable(out, func(i, j int) bool { return len(out[i]) < len(out[j]) })
	return out
}

func (p prog) size() int {
	n := 0
	for _, t := range p {
		n += len(t)
	}
	return n
}

func (f *family) programs(thorough bool) []prog {
	var all []prog
	ok := func(p prog) bool { return f.filter == nil || f.filter(f, p) }
	s2 := seqsUpTo(len(f.ops), f.l2)
	for i, a := range s2 {
		for j, b := range s2 {
			if j < i {
				continue
			}
			if p := (prog{a, b}); ok(p) {
				all = append(all, p)
			}
		}
	}
	if f.l3 > 0 {
		s3 := seqsUpTo(len(f.ops), f.l3)
		for i, a := range s3 {
			for j, b := range s3 {
				if j < i {
					continue
				}
				for k, c := range s3 {
					if k < j {
						continue
					}
					if p := (prog{a, b, c}); ok(p) {
						all = append(all, p)
					}
				}
			}
		}
	}
	target := f.quick
	if thorough {
		target = f.thoro
	}
	var out []prog
	seen := map[string]bool{}
	add := func(p prog) {
		if k := f.str(p); !seen[k] {
			seen[k] = true
			out = append(out, p)
		}
	}
	for _, s := range f.extra {
		add(f.parse(s))
	}
	var rest []prog
	for _, p := range all {
		if p.size() <= f.full {
			add(p)
		} else {
			rest = append(rest, p)
		}
	}
	if room := target - len(out); room > 0 && len(rest) > 0 {
		if room >= len(rest) {
			for _, p := range rest {
				add(p)
			}
		} else {
			// even sample with a fixed pseudo-random offset per stride window
			for i := 0; i < room; i++ {
				lo, hi := i*len(rest)/room, (i+1)*len(rest)/room
				add(rest[lo+int(mixi(uint64(i), uint64(len(rest))))%(hi-lo)])
			}
		}
	}
	return out
}

func mixi(a, b uint64) uint64 {
	x := a*0x9e3779b97f4a7c15 ^ b
	x ^= x >> 31
	x *= 0xbf58476d1ce4e5b9
	x ^= x >> 29
	return x & 0x7fffffff
}

// static lock discipline: what a thread certainly holds (families without try-operations)
func lockDiscipline(f *family, p prog) bool {
	for _, t := range p {
		held, rh, wh := 0, 0, 0
		for _, oi := range t {
			switch f.ops[oi].name {
			case "lock":
				if held > 0 {
					return false // self-deadlock: nothing to compare
				}
				held++
			case "unlock":
				if held == 0 {
					return false
				}
				held--
			case "cwait":
				if held == 0 {
					return false
				}
			case "lock+cwait+unlock", "lock+signal+unlock", "lock+bcast+unlock", "csec":
				if held > 0 {
					return false
				}
			case "rsec", "wsec":
				if rh > 0 || wh > 0 {
					return false
				}
			case "rlock":
				if rh > 0 || wh > 0 {
					return false // nested: see family rwx
				}
				rh++
			case "runlock":
				if rh == 0 {
					return false
				}
				rh--
			case "wlock":
				if rh > 0 || wh > 0 {
					return false
				}
				wh++
			case "wunlock":
				if wh == 0 {
					return false
				}
				wh--
			}
		}
		// a thread that ends holding the RWMutex makes a WAITING writer observable (the real
		// RWMutex then blocks new readers for good, the model does not: slip S1, family rwx)
		if rh > 0 || wh > 0 {
			return false
		}
	}
	return true
}

// tryDiscipline: an unlock needs an earlier acquisition attempt in the same thread (whether a
// try-acquisition succeeded is only known at run time: the operation then renders "skip").
func tryDiscipline(f *family, p prog) bool {
	for _, t := range p {
		a, ra, wa := 0, 0, 0
		for _, oi := range t {
			switch f.ops[oi].name {
			case "lock", "trylock":
				a++
			case "unlock", "cwait":
				if a == 0 {
					return false
				}
			case "rlock", "tryrlock":
				ra++
			case "runlock":
				if ra == 0 {
					return false
				}
			case "wlock", "trywlock":
				wa++
			case "wunlock":
				if wa == 0 {
					return false
				}
			}
		}
	}
	return true
}

// wgContract admits a WaitGroup program with a negative counter, but none that can trip the
// runtime's best-effort MISUSE detectors ("Add called concurrently with Wait", "reused before
// previous Wait has returned"): those fire only when the counter is changed again after a
// transition to zero that may have released a waiter. Programs without Wait are all admitted;
// with a Wait, no interleaving of the Add/Done operations may continue after the counter came
// back to zero from a non-zero value.
func wgContract(f *family, p prog) bool {
	hasWait := false
	var deltas [][]int
	for _, t := range p {
		var d []int
		for _, oi := range t {
			switch f.ops[oi].name {
			case "add":
				d = append(d, 1)
			case "done":
				d = append(d, -1)
			case "wait":
				hasWait = true
			}
		}
		deltas = append(deltas, d)
	}
	if !hasWait {
		return true
	}
	pos := make([]int, len(deltas))
	var rec func(n int, dead []bool) bool
	rec = func(n int, dead []bool) bool {
		for i, d := range deltas {
			if pos[i] >= len(d) || dead[i] {
				continue
			}
			m := n + d[pos[i]]
			more := false
			pos[i]++
			if m == 0 {
				for j, e := range deltas {
					if pos[j] < len(e) && !dead[j] {
						more = true
					}
				}
			}
			okk := !more
			if okk {
				nd := dead
				if m < 0 { // the Done panicked: that thread stops
					nd = append([]bool(nil), dead...)
					nd[i] = true
				}
				okk = rec(m, nd)
			}
			pos[i]--
			if !okk {
				return false
			}
		}
		return true
	}
	return rec(0, make([]bool, len(deltas)))
}

func families() []*family {
	rwOps := []opdef{opRLock, opRUnlock, opWLock, opWUnlock, opRSec, opWSec}
	rwxOps := []opdef{opRLock, opRUnlock, opWLock, opWUnlock, sendOp(0), recvOp(0)}
	if modelHasRWTry() {
		rwxOps = append(rwxOps, opTryRLock, opTryWLock)
	}
	sr01 := selOp("sel{0<-v|<-1}", false, func(c *tctx) []scase { return []scase{{0, true, c.v}, {1, false, 0}} })
	rs01 := selOp("sel{<-0|1<-v}", false, func(c *tctx) []scase { return []scase{{0, false, 0}, {1, true, c.v}} })
	ss01 := selOp("sel{0<-v|1<-v}", false, func(c *tctx) []scase { return []scase{{0, true, c.v}, {1, true, c.v}} })
	sr00 := selOp("sel{0<-v|<-0}", false, func(c *tctx) []scase { return []scase{{0, true, c.v}, {0, false, 0}} })
	srd := selOp("sel{0<-v|<-1|default}", true, func(c *tctx) []scase { return []scase{{0, true, c.v}, {1, false, 0}} })
	rnr1 := selOp("sel{<-nil|<-1}", false, func(c *tctx) []scase { return []scase{{3, false, 0}, {1, false, 0}} })
	snd := selOp("sel{nil<-v|default}", true, func(c *tctx) []scase { return []scase{{3, true, c.v}} })
	rns0 := selOp("sel{<-nil|0<-v}", false, func(c *tctx) []scase { return []scase{{3, false, 0}, {0, true, c.v}} })
	tryr2 := selOp("sel{<-2|default}", true, func(c *tctx) []scase { return []scase{{2, false, 0}} })
	return []*family{
		{name: "mutex", doc: "sync.Mutex with TryLock", ops: []opdef{opLock, opUnlock, opTryLock, opCSec},
			filter: tryDiscipline, l2: 3, l3: 2, full: 4, quick: 500, thoro: 4000},
		{name: "rw", doc: "sync.RWMutex RLock/RUnlock/Lock/Unlock: balanced, un-nested sections (who is inside together is observed)", ops: rwOps,
			filter: lockDiscipline, l2: 3, l3: 1, full: 4, quick: 300, thoro: 1500},
		{name: "rwx", gated: true, doc: "RWMutex with recursive read locks, a rendezvous channel and (when the engine has them) TryLock/TryRLock: a writer that WAITS already blocks new readers (model slip S1)", ops: rwxOps,
			filter: tryDiscipline, l2: 3, l3: 3, full: 3, quick: 1500, thoro: 12000,
			extra: []string{"rlock,rlock | wlock", "rlock,recv0,runlock | wlock | rlock,send0"}},
		{name: "once", doc: "sync.Once: plain, panicking, blocking (receives on c0), sending and nested functions", ops: []opdef{opDo, opDoPanic, opDoRecv0, opDoSend0, opDoNest, sendOp(0), recvOp(0)},
			l2: 2, l3: 1, full: 3, quick: 500, thoro: 5000},
		{name: "cond", doc: "sync.Cond over the mutex: Wait with the lock held, Signal/Broadcast with and without it", ops: []opdef{opLock, opUnlock, opCWait, opSignal, opBcast, opLWU, opLSU, opLBU},
			filter: lockDiscipline, l2: 3, l3: 2, full: 3, quick: 900, thoro: 9000,
			extra: []string{"lock+cwait+unlock | lock+cwait+unlock | signal,signal", "lock+cwait+unlock | lock+cwait+unlock | lock+bcast+unlock", "lock,cwait,unlock | lock,signal,unlock"}},
		{name: "condx", gated: true, doc: "cond plus Mutex.TryLock: the step between Lock and the waiter's registration in Wait is observable (model slip S2)", ops: []opdef{opLock, opUnlock, opCWait, opSignal, opBcast, opTryLock},
			filter: tryDiscipline, l2: 3, l3: 0, full: 4, quick: 600, thoro: 3000,
			extra: []string{"lock,cwait | trylock,signal"}},
		{name: "wg", doc: "sync.WaitGroup including negative counters (panic), within the documented contract", ops: []opdef{opWgAdd, opWgDone, opWgWait},
			filter: wgContract, l2: 3, l3: 2, full: 6, quick: 400, thoro: 3000},
		{name: "atomic", doc: "atomic.Int32 (typed): Add/CompareAndSwap/Load/Store/Swap", ops: []opdef{opAdd1, opSub1, opCas01, opCas12, opLoad, opStore7, opSwapV},
			l2: 2, l3: 1, full: 3, quick: 700, thoro: 1700},
		{name: "atomicfn", doc: "function-style atomics on an int64 and a uint32 (wrap-around)", ops: []opdef{opAdd64, opCas64, opLoad64, opSwap64, opStore64, opAddU, opCasU, opLoadU, opSwapU},
			l2: 2, l3: 1, full: 2, quick: 600, thoro: 4400},
		{name: "atomicv", doc: "atomic.Bool and atomic.Value (nil and inconsistently typed stores panic)", ops: []opdef{opBSwap, opBCasTF, opBCasFT, opBLoad, opVStore, opVLoad, opVSwap, opVCasN, opVCasX, opVStoreI, opVStoreN},
			l2: 2, l3: 1, full: 2, quick: 700, thoro: 9200},
		{name: "smap", doc: "sync.Map on one key (+ a second key for Range)", ops: []opdef{opMLoad, opMStore, opMLos, opMLad, opMDel, opMSwap, opMCas, opMCad, opMStoreB, opMRange},
			l2: 2, l3: 1, full: 2, quick: 700, thoro: 6500},
		{name: "smaprange", gated: true, doc: "sync.Map.Range over two existing keys while another thread stores: Range is not a snapshot (model slip S3)", ops: []opdef{opMRange, opMStore, opMStoreB, opMDel, opMDelB},
			setup: func(x *env) { x.sm.Store("a", 0); x.sm.Store("b", 0) },
			l2:    2, l3: 1, full: 4, quick: 150, thoro: 500,
			extra: []string{"mrange | mstore,mstoreB"}},
		{name: "chansel", doc: "select with a send and a receive case, two send cases, both directions of one channel, closed and ready cases", ops: []opdef{sendOp(0), recvOp(0), sendOp(1), recvOp(1), closeOp(0), closeOp(1), sr01, rs01, ss01, sr00, srd},
			l2: 2, l3: 1, full: 2, quick: 900, thoro: 9000},
		{name: "channil", doc: "nil channels: send/recv/close/len, nil cases in select", ops: []opdef{sendOp(3), recvOp(3), closeOp(3), lenOp(3), rnr1, snd, rns0, sendOp(1), closeOp(1), recvOp(0)},
			l2: 2, l3: 1, full: 2, quick: 400, thoro: 6200},
		{name: "chanlen", doc: "len/cap of a capacity-2 and an unbuffered channel under concurrent traffic", ops: []opdef{sendOp(2), recvOp(2), closeOp(2), lenOp(2), tryr2, lenOp(0), sendOp(0), recvOp(0)},
			l2: 3, l3: 1, full: 3, quick: 700, thoro: 8000},
	}
}

// ---- model side ----

type modelResult struct {
	outs     map[string][]int   // outcome → choices of the first witness execution
	more     map[string][][]int // further witnesses (the 2nd, 4th, 8th ... execution with that outcome)
	seenN    map[string]int
	complete bool
	execs    int64
}

func (f *family) body(p prog, res [][]string, marking *bool) func() {
	return func() {
		for i := range res {
			res[i] = nil
		}
		x := newModelEnv()
		x.slips = f.gated
		if f.setup != nil {
			f.setup(x)
		}
		for ti, ops := range p {
			ti, ops := ti, ops
			vsched.GoNamed(fmt.Sprintf("t%d", ti), false, func() {
				c := &tctx{ti: ti}
				c.step = func() {
					if *marking {
						vsched.Log("@%d.%d", ti, c.n)
					}
					c.n++
				}
				for k, oi := range ops {
					c.k, c.v = k, ti*10+k+1
					c.step()
					r := callOp(f.ops[oi], x, c)
					res[ti] = append(res[ti], r)
					if r == "panic" {
						return
					}
				}
			})
		}
	}
}

func (f *family) runModel(p prog) *modelResult {
	mr := &modelResult{outs: map[string][]int{}, more: map[string][][]int{}, seenN: map[string]int{}}
	res := make([][]string, len(p))
	marking := false
	check := func(e *vsched.Exec) string {
		o := renderX(p, res)
		if _, ok := mr.outs[o]; !ok {
			mr.outs[o] = e.Choices()
		}
		// witnesses that differ: the same outcome reached along other schedules (a directed run that
		// follows one witness may fail for reasons of its own, e.g. where the model glues two steps)
		mr.seenN[o]++
		if n := mr.seenN[o]; n > 1 && (n <= 12 || n&(n-1) == 0) && len(mr.more[o]) < 24 {
			mr.more[o] = append(mr.more[o], e.Choices())
		}
		return ""
	}
	st := vsched.Explore(vsched.Options{P: 64, T: 0, Horizon: 4000, MaxExecs: 300000}, f.body(p, res, &marking), check)
	mr.complete, mr.execs = st.Complete, st.Execs
	return mr
}

// slots: replay the witness execution of a model outcome with tracing and derive, for every
// step of every thread (tctx.step: one before each primitive operation), the position of its first
// primitive event in the model's total order. A directed real run performs each step at
// (position × δ/2): the real primitives are then asked
// for the model's schedule, so that a model outcome that Go can produce IS produced (what remains
// unobserved after that deserves the human argument).
func (f *family) slots(p prog, choices []int) ([][]int, bool) {
	res := make([][]string, len(p))
	marking := true
	e := vsched.Replay(choices, f.body(p, res, &marking), 4000)
	// Positions are counted in HALF slots (events sit on even positions). One place needs the odd
	// ones: the model registers the waiter of a Cond.Wait when Wait is CALLED — glued to the
	// thread's previous operation — and unlocks later, whereas the runtime registers and unlocks in
	// one go. When a Signal/Broadcast of another thread falls into that window of the witness (the
	// witness is then not "clean"), the real Wait is started where the window opens (just before
	// the next event after the call) instead of where the model unlocks.
	sl := make([][]int, len(p))
	want := make([]int, len(p))     // pending marker (step index + 1) per thread
	markPos := make([]int, len(p))  // position counter when that marker was written
	suspect := make([]bool, len(p)) // a signal/broadcast happened since the thread's last marker
	unlocked := make([]int, len(p)) // step index + 1 whose first event was a mutex.unlock in such a window
	unlockedAt := make([]int, len(p))
	clean := true
	pos := 0
	set := func(ti, step, v int) {
		for len(sl[ti]) <= step {
			sl[ti] = append(sl[ti], -1)
		}
		sl[ti][step] = v
	}
	assign := func(ti int) {
		if want[ti] > 0 {
			set(ti, want[ti]-1, 2*pos)
			pos++
			want[ti] = 0
		}
	}
	for _, ln := range e.Trace() {
		a, b := strings.IndexByte(ln, '('), strings.IndexByte(ln, ')')
		if a < 0 || b < a || !strings.HasPrefix(ln, "T") {
			continue
		}
		name, rest := ln[a+1:b], strings.TrimSpace(ln[b+1:])
		if len(name) < 2 || name[0] != 't' {
			continue
		}
		ti, err := strconv.Atoi(name[1:])
		if err != nil || ti >= len(p) {
			continue
		}
		if strings.HasPrefix(rest, "LOG @") {
			assign(ti) // the previous step had no primitive event at all
			var a, k int
			fmt.Sscanf(rest, "LOG @%d.%d", &a, &k)
			want[ti], markPos[ti] = k+1, pos
			suspect[ti], unlocked[ti] = false, 0
			continue
		}
		if strings.HasPrefix(rest, "cond.signal") || strings.HasPrefix(rest, "cond.broadcast") {
			for j := range suspect {
				if j != ti && want[j] > 0 {
					suspect[j] = true
				}
			}
		}
		if unlocked[ti] > 0 && strings.HasPrefix(rest, "cond.wait") {
			clean = false
			if v := 2*unlockedAt[ti] - 1; v >= 0 {
				set(ti, unlocked[ti]-1, v)
			} else {
				set(ti, unlocked[ti]-1, 0)
			}
		}
		unlocked[ti] = 0
		if want[ti] > 0 && suspect[ti] && strings.HasPrefix(rest, "mutex.unlock") {
			unlocked[ti], unlockedAt[ti] = want[ti], markPos[ti]
		}
		assign(ti)
	}
	for ti := range p {
		assign(ti)
	}
	if dbg := os.Getenv("VS_DEBUG_SLOTS"); dbg != "" {
		if fh, err := os.OpenFile(dbg, os.O_APPEND|os.O_CREATE|os.O_WRONLY, 0o644); err == nil {
			fmt.Fprintf(fh, "[%s] half-slots %v clean=%v outcome %s\n  %s\n", f.str(p), sl, clean, renderX(p, res), strings.Join(e.Trace(), "\n  "))
			fh.Close()
		}
	}
	return sl, clean
}

func renderX(p prog, res [][]string) string {
	var ts []string
	for i, ops := range p {
		rs := append([]string(nil), res[i]...)
		if len(rs) < len(ops) && (len(rs) == 0 || rs[len(rs)-1] != "panic") {
			rs = append(rs, "blocked")
		}
		ts = append(ts, strings.Join(rs, ","))
	}
	return strings.Join(ts, " | ")
}

// ---- real side ----

// runRealX: one free (slots == nil) or directed run on the real primitives. Returns the outcome
// and whether it is a CONFIRMED blocked state that is not a model outcome: a run that has not
// finished is polled until its state has been stable for 20 ms and is a model outcome (returned as
// observed), or has been stable for 1.5 s AND 1 500 wake-ups of the poller without being one
// (operations take microseconds: the unfinished threads are blocked for good). A slow machine can
// therefore only delay the answer.
func (f *family) runRealX(p prog, seed int64, slots [][]int, delta time.Duration, inM func(string) bool) (string, bool) {
	rng := rand.New(rand.NewSource(seed))
	res := make([][]string, len(p))
	var rmu sync.Mutex
	x := newRealEnv()
	x.slips = f.gated
	if f.setup != nil {
		f.setup(x)
	}
	var done sync.WaitGroup
	var stop atomic.Bool
	// release: once the outcome is decided, let go of as many of the run's blocked goroutines as can
	// be let go (closed channels wake receivers and make senders panic, a broadcast wakes Cond
	// waiters; the threads then stop before their next operation) — they would otherwise pile up
	// by the hundred thousand in a thorough run.
	release := func() {
		stop.Store(true)
		if rc, ok := x.ch.(*rch); ok {
			for i := 0; i < 3; i++ {
				func() {
					defer func() { recover() }()
					close(rc.c[i])
				}()
			}
		}
		x.cond.Broadcast()
	}
	defer release()
	phase := make([]atomic.Int32, len(p))
	t0 := time.Now()
	maxSlot := 0
	for _, sl := range slots {
		for _, v := range sl {
			if v > maxSlot {
				maxSlot = v
			}
		}
	}
	for ti, ops := range p {
		ti, ops := ti, ops
		prng := rand.New(rand.NewSource(seed*131 + int64(ti) + rng.Int63n(1000)))
		done.Add(1)
		go func() {
			defer done.Done()
			c := &tctx{ti: ti}
			c.step = func() {
				phase[ti].Store(0) // in the harness (sleeping, yielding), not inside a primitive
				defer phase[ti].Store(1)
				n, first := c.n, c.first
				c.n, c.first = c.n+1, false
				if slots != nil {
					if n < len(slots[ti]) && slots[ti][n] >= 0 {
						time.Sleep(time.Until(t0.Add(time.Duration(slots[ti][n]) * delta / 2)))
					}
					return
				}
				if first {
					if d := prng.Intn(4); d > 0 {
						time.Sleep(time.Duration(d) * 200 * time.Microsecond)
					} else if prng.Intn(2) == 0 {
						runtime.Gosched()
					}
					return
				}
				switch prng.Intn(4) {
				case 0:
					runtime.Gosched()
				case 1:
					time.Sleep(time.Duration(1+prng.Intn(3)) * 100 * time.Microsecond)
				}
			}
			for k, oi := range ops {
				if stop.Load() {
					return
				}
				c.k, c.v, c.first = k, ti*10+k+1, true
				c.step()
				r := callOp(f.ops[oi], x, c)
				if stop.Load() {
					return // woken by release: not a result
				}
				phase[ti].Store(0)
				rmu.Lock()
				res[ti] = append(res[ti], r)
				rmu.Unlock()
				if r == "panic" {
					break
				}
			}
			phase[ti].Store(2) // finished
		}()
	}
	// every unfinished thread is inside a primitive operation (between the end of a step and the
	// return of the operation or its next step)
	allInside := func() bool {
		for i := range phase {
			if phase[i].Load() == 0 {
				return false
			}
		}
		return true
	}
	snapshot := func() string {
		rmu.Lock()
		defer rmu.Unlock()
		cp := make([][]string, len(res))
		for i := range res {
			cp[i] = append([]string(nil), res[i]...)
		}
		return renderX(p, cp)
	}
	fin := make(chan struct{})
	go func() { done.Wait(); close(fin) }()
	base := 20 * time.Millisecond
	if slots != nil {
		base += time.Duration(maxSlot/2+1) * delta
	}
	select {
	case <-fin:
		return snapshot(), false
	case <-time.After(base):
	}
	// The poller is its own canary: it sleeps in 1 ms pieces, so "stable" is measured in wake-ups
	// of a goroutine of THIS process, not only in wall time (a process that was not scheduled for a
	// second — the machine may be heavily loaded — proves nothing about its goroutines): while the
	// poller was dispatched 1 500 times, a runnable worker goroutine was dispatched as well.
	// Moreover a thread counts as blocked only while it is INSIDE a primitive operation: one that
	// sits in the harness (sleeping before its next operation) is merely slow, however long it takes
	// (seen on a loaded machine: several runs of one process at once, "blocked" before a Signal).
	prev := snapshot()
	began := time.Now()
	lastChange, wakeups := began, 0
	for {
		for i := 0; i < 20; i++ {
			time.Sleep(time.Millisecond)
			wakeups++
		}
		select {
		case <-fin:
			return snapshot(), false
		default:
		}
		cur := snapshot()
		if cur != prev {
			prev, lastChange, wakeups = cur, time.Now(), 0
			continue
		}
		if !allInside() {
			lastChange, wakeups = time.Now(), 0
			if time.Since(began) > 30*time.Second {
				return "", false // gave up: an unfinished run says nothing
			}
			continue
		}
		if inM(cur) {
			return cur, false
		}
		if wakeups >= 1500 && time.Since(lastChange) >= 1500*time.Millisecond {
			if dir := os.Getenv("VS_STUCKDIR"); dir != "" { // where are the unfinished goroutines?
				buf := make([]byte, 8<<20)
				buf = buf[:runtime.Stack(buf, true)]
				head := fmt.Sprintf("family %s program [%s] state %q slots %v delta %v\n", f.name, f.str(p), cur, slots, delta)
				os.WriteFile(fmt.Sprintf("%s/stuck-%d-%d.txt", dir, os.Getpid(), seed), append([]byte(head), buf...), 0o644)
			}
			return cur, true
		}
	}
}

// ---- per-shard driver of the additional families ----

type xjob struct {
	f *family
	p prog
}

// on by default since the three slips were corrected in the engine (session 4); VS_SLIPS=0 leaves the families out
func slipsEnabled() bool { return os.Getenv("VS_SLIPS") != "0" }

func onlyFamily(name string) bool {
	s := os.Getenv("VS_FAMILIES") // comma-separated subset (experiments); "legacy" = the original family
	if s == "" {
		return true
	}
	for _, x := range strings.Split(s, ",") {
		if x == name {
			return true
		}
	}
	return false
}

func xjobs(thorough bool) []xjob {
	var out []xjob
	if only := os.Getenv("VS_ONLY"); only != "" { // "family:program", VS_REPEAT times (experiments)
		i := strings.IndexByte(only, ':')
		n, _ := strconv.Atoi(os.Getenv("VS_REPEAT"))
		for _, f := range families() {
			if i > 0 && f.name == only[:i] {
				for k := 0; k < n || k == 0; k++ {
					out = append(out, xjob{f, f.parse(only[i+1:])})
				}
			}
		}
		return out
	}
	for _, f := range families() {
		if f.gated && !slipsEnabled() || !onlyFamily(f.name) {
			continue
		}
		for _, p := range f.programs(thorough) {
			out = append(out, xjob{f, p})
		}
	}
	return out
}

type finding struct {
	Family  string   `json:"family"`
	Program string   `json:"program"`
	Outcome string   `json:"real_outcome"`
	Model   []string `json:"model_outcomes"`
	Blocked bool     `json:"confirmed_blocked"`
}

func runXShard(cfg *vlib.Config, r *vlib.Report, shard, nshards int, jobs []xjob) {
	realRuns, maxBatches, directedTries := 25, 3, 3
	if cfg.Thorough() {
		realRuns, maxBatches, directedTries = 60, 4, 3
	}
	type fstat struct {
		progs, mOut, rOut, mOnly, directed, notInM, incomplete int
		ms                                                     int64
		execs                                                  int64
		modelOnly                                              []string
	}
	stats := map[string]*fstat{}
	var findings []finding
	for ji, j := range jobs {
		if ji%nshards != shard {
			continue
		}
		if cfg.Expired() {
			r.NotExhaustive(fmt.Sprintf("time budget after %d of %d programs of the additional families", ji, len(jobs)))
			break
		}
		f, p := j.f, j.p
		st := stats[f.name]
		if st == nil {
			st = &fstat{}
			stats[f.name] = st
		}
		start := time.Now()
		mr := f.runModel(p)
		st.execs += mr.execs
		if !mr.complete {
			st.incomplete++
			r.NotExhaustive(fmt.Sprintf("family %s: model exploration of [%s] not complete", f.name, f.str(p)))
			continue
		}
		inM := func(o string) bool { _, ok := mr.outs[o]; return ok }
		seen := map[string]bool{}
		record := func(o string, confirmed bool) {
			seen[o] = true
			if inM(o) {
				return
			}
			if strings.Contains(o, "blocked") && !confirmed {
				return // an unfinished run that was cut: says nothing
			}
			var ms []string
			for x := range mr.outs {
				ms = append(ms, x)
			}
			sort.Strings(ms)
			for _, g := range findings {
				if g.Family == f.name && g.Program == f.str(p) && g.Outcome == o {
					return
				}
			}
			findings = append(findings, finding{f.name, f.str(p), o, ms, confirmed})
			st.notInM++
		}
		covered := func() bool {
			for o := range mr.outs {
				if !seen[o] {
					return false
				}
			}
			return true
		}
		for b := 0; b < maxBatches && (b == 0 || !covered()); b++ {
			outs := make([]string, realRuns)
			conf := make([]bool, realRuns)
			var rw sync.WaitGroup
			for k := 0; k < realRuns; k++ {
				k := k
				rw.Add(1)
				go func() {
					defer rw.Done()
					outs[k], conf[k] = f.runRealX(p, int64(ji*100000+b*1000+k), nil, 0, inM)
				}()
			}
			rw.Wait()
			for k := range outs {
				if outs[k] != "" {
					record(outs[k], conf[k])
				}
			}
			r.Eval(realRuns)
		}
		// directed runs for the model outcomes not yet observed
		var missing []string
		for o := range mr.outs {
			if !seen[o] {
				missing = append(missing, o)
			}
		}
		sort.Strings(missing)
		if len(missing) > 40 {
			missing = missing[:40]
		}
		if len(missing) > 0 {
			wit := make([][][][]int, len(missing)) // per missing outcome: the slots of up to 4 witnesses, clean ones first
			nw := 0
			for i, o := range missing {
				var dirty [][][]int
				for _, ch := range append([][]int{mr.outs[o]}, mr.more[o]...) {
					if sl, clean := f.slots(p, ch); clean {
						wit[i] = append(wit[i], sl)
					} else {
						dirty = append(dirty, sl)
					}
					if len(wit[i]) == 4 {
						break
					}
				}
				for _, sl := range dirty {
					if len(wit[i]) < 4 {
						wit[i] = append(wit[i], sl)
					}
				}
				if len(wit[i]) > nw {
					nw = len(wit[i])
				}
			}
			for try := 0; try < directedTries*nw; try++ {
				delta := time.Duration(2<<(2*(try/nw))) * time.Millisecond // 2, 8, 32 ms, each with every witness
				outs := make([]string, len(missing))
				conf := make([]bool, len(missing))
				var rw sync.WaitGroup
				n := 0
				for i, o := range missing {
					if seen[o] || try%nw >= len(wit[i]) {
						continue
					}
					i := i
					sl := wit[i][try%nw]
					n++
					rw.Add(1)
					go func() {
						defer rw.Done()
						outs[i], conf[i] = f.runRealX(p, int64(ji*100000+90000+try*100+i), sl, delta, inM)
					}()
				}
				rw.Wait()
				for i := range outs {
					if outs[i] != "" {
						record(outs[i], conf[i])
					}
				}
				r.Eval(n)
			}
			for _, o := range missing {
				if seen[o] {
					st.directed++
				}
			}
		}
		st.progs++
		nReal := 0
		for o := range seen {
			if inM(o) {
				nReal++
			}
		}
		st.rOut += nReal
		for o := range mr.outs {
			st.mOut++
			if !seen[o] {
				st.mOnly++
				if len(st.modelOnly) < 60 {
					st.modelOnly = append(st.modelOnly, fmt.Sprintf("[%s] => %s", f.str(p), o))
				}
			}
		}
		st.ms += time.Since(start).Milliseconds()
		if dbg := os.Getenv("VS_DEBUG"); dbg != "" {
			if fh, err := os.OpenFile(dbg, os.O_APPEND|os.O_CREATE|os.O_WRONLY, 0o644); err == nil {
				fmt.Fprintf(fh, "%s\t%d execs\t%d ms\t%d outcomes\t[%s]\n", f.name, mr.execs, time.Since(start).Milliseconds(), len(mr.outs), f.str(p))
				fh.Close()
			}
		}
		r.Eval(1)
		r.Nontrivial(f.name + ": " + f.str(p))
		if r.WantSample() && len(mr.outs) > 2 && ji%7 == 0 {
			var ms []string
			for x := range mr.outs {
				ms = append(ms, x)
			}
			sort.Strings(ms)
			r.Sample(map[string]any{"family": f.name, "program": f.str(p), "model_outcomes": ms})
		}
	}
	for name, st := range stats {
		r.Count("x/"+name+"/programs", st.progs)
		r.Count("x/"+name+"/model_outcomes", st.mOut)
		r.Count("x/"+name+"/real_outcomes", st.rOut)
		r.Count("x/"+name+"/model_only", st.mOnly)
		r.Count("x/"+name+"/model_outcomes_seen_only_in_directed_runs", st.directed)
		r.Count("x/"+name+"/real_not_in_model", st.notInM)
		r.Count("x/"+name+"/model_incomplete", st.incomplete)
		r.Count("x/"+name+"/model_executions", int(st.execs))
		r.Count("x/"+name+"/shard_ms", int(st.ms))
		if len(st.modelOnly) > 0 {
			r.SetExtra(fmt.Sprintf("x_model_only_%s_shard%02d", name, shard), st.modelOnly)
		}
	}
	if len(findings) > 0 {
		r.SetExtra(fmt.Sprintf("x_real_not_in_model_shard%02d", shard), findings)
	}
}

// summarizeFamilies (parent process, after the shards were merged): one line per family; a real
// outcome that is not a model outcome is a hard failure (ERROR, exit 2) after everything was
// listed and written to $VERIF_DIR/.work/vs-findings.json.
func summarizeFamilies(r *vlib.Report, legacyProgs int) {
	c := r.Counters
	fmt.Printf("VS family %-10s programs=%d model_outcomes=%d model_only=%d  (sum of shard wall %.1fs)\n", "legacy", legacyProgs,
		c["model_outcomes"], c["model_outcomes_not_observed_in_free_real_runs"], float64(c["legacy_shard_ms"])/1000)
	bad := int64(0)
	for _, f := range families() {
		k := "x/" + f.name + "/"
		if c[k+"programs"] == 0 {
			continue
		}
		g := ""
		if f.gated {
			g = " [VS_SLIPS]"
		}
		fmt.Printf("VS family %-10s programs=%d model_outcomes=%d real_outcomes=%d model_only=%d (resolved by directed runs: %d) real_not_in_model=%d model_execs=%d  (sum of shard wall %.1fs)%s\n",
			f.name, c[k+"programs"], c[k+"model_outcomes"], c[k+"real_outcomes"], c[k+"model_only"], c[k+"model_outcomes_seen_only_in_directed_runs"],
			c[k+"real_not_in_model"], c[k+"model_executions"], float64(c[k+"shard_ms"])/1000, g)
		bad += c[k+"real_not_in_model"]
	}
	if !modelHasRWTry() {
		fmt.Println("VS note: the engine's RWMutex has no TryLock/TryRLock (rewritten code that calls them does not build); those operations are left out of family rwx")
	}
	var keys []string
	for k := range r.Extra {
		if strings.HasPrefix(k, "x_model_only_") {
			keys = append(keys, k)
		}
	}
	sort.Strings(keys)
	if os.Getenv("VS_VERBOSE") == "1" {
		for _, k := range keys {
			fmt.Printf("%s: %v\n", k, r.Extra[k])
		}
	}
	if bad == 0 {
		return
	}
	var all []any
	keys = keys[:0]
	for k := range r.Extra {
		if strings.HasPrefix(k, "x_real_not_in_model_") {
			keys = append(keys, k)
		}
	}
	sort.Strings(keys)
	n := 0
	for _, k := range keys {
		if l, ok := r.Extra[k].([]any); ok {
			for _, x := range l {
				all = append(all, x)
				if m, ok := x.(map[string]any); ok && n < 40 {
					n++
					fmt.Printf("ERROR self-test: family %v program [%v]: real outcome %q is not a model outcome; model outcomes: %q\n", m["family"], m["program"], m["real_outcome"], m["model_outcomes"])
				}
			}
		}
	}
	if dir := os.Getenv("VERIF_DIR"); dir != "" {
		if b, err := jsonIndent(all); err == nil {
			os.WriteFile(dir+"/.work/vs-findings.json", b, 0o644)
		}
	}
	fmt.Printf("ERROR self-test: %d real outcomes are not model outcomes (the model misses real behaviours)\n", bad)
	os.Exit(2)
}

func jsonIndent(v any) ([]byte, error) { return json.MarshalIndent(v, "", " ") }
