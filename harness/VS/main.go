// VS — differential self-test of the scheduler shim's model of channels, select, mutex, RWMutex,
// WaitGroup, Once, Cond, atomics and sync.Map against the real Go primitives. Not a property check:
// it guards the trusted base of every vsched-based check (a model that admits behaviours Go cannot
// perform raises false alarms; a model that misses behaviours hides defects).
//
// Original program family (this file, unchanged): 2–3 threads × 1–3 operations over an unbuffered
// channel c0, a buffered channel c1 (cap 1), a mutex and a WaitGroup. For each program
//   M = the set of outcomes of ALL schedules of the model (unbounded preemptions, exhaustive);
//   R = the outcomes observed in N free runs on the real primitives with random yields/sleeps.
// Hard check:  R ⊆ M   (every real behaviour is a model behaviour — otherwise ERROR).
// Soft metric: M \ R   (model outcomes never observed for real; reported, they are either rare
//                       schedules or model slips — listed in the evidence for inspection).
// An outcome = per-thread list of operation results (+ "blocked" for operations that never return,
// "panic" for an operation that panicked: the thread stops there).
//
// Additional families (families.go), each with its own small alphabet; one operation definition
// serves both sides (written against interfaces that the vsched and the real types both satisfy):
//   mutex     Lock / Unlock / TryLock + a critical section that counts who is inside
//   rw        RWMutex: RLock/RUnlock/Lock/Unlock and read / write sections that count who is inside;
//             balanced, un-nested use only (everything else shows slip S1, see rwx)
//   once      Once.Do with a plain, panicking, blocking (receive), sending and nested function
//   cond      Cond over the mutex: Wait with the lock held, Signal/Broadcast with and without it,
//             also as composite lock+wait+unlock / lock+signal+unlock / lock+broadcast+unlock
//   wg        WaitGroup with negative counters (panic) inside the documented contract (wgContract)
//   atomic    atomic.Int32;  atomicfn  function-style int64 / uint32 (wrap-around);
//   atomicv   atomic.Bool and atomic.Value (nil / inconsistently typed Store panics)
//   smap      sync.Map Load/Store/LoadOrStore/LoadAndDelete/Delete/Swap/CompareAndSwap/
//             CompareAndDelete/Range
//   chansel   select with a send and a receive case, two send cases, both directions of one channel,
//             closed and ready cases, send/close on closed channels
//   channil   nil channels (send/recv/close/len/cap, nil cases in select)
//   chanlen   len/cap of a cap-2 and an unbuffered channel under traffic
// Families rwx / condx / smaprange (VS_SLIPS=0 leaves them out) FAILED on the engine as it was before session 4 and pass since
// the three corrections in vsched/sync.go (a real behaviour the model could not produce;
// proposed corrections in /verif/.work/vs-proposed/, with which all of them pass):
//   rwx       S1: a writer that WAITS in RWMutex.Lock already blocks new readers; the model lets
//             them in ("rlock | rlock | wlock" really ends "ok | blocked | blocked"). Also: the
//             engine's RWMutex has no TryLock/TryRLock (added by the patch, then part of rwx).
//   condx     S2: Cond.Wait registers the waiter glued to the caller's previous operation, so a
//             Signal without the lock can never fall between Lock and the registration
//             ("lock,cwait | trylock,signal" really can end "ok,blocked | false,ok").
//   smaprange S3: sync.Map.Range is one atomic step in the model; really it fixes the key set and
//             reads each value when it gets there, in any order ("mrange | mdelete,mdeleteB" over
//             {a,b} really can give {a=0}).
//
// New in the additional families: (1) a run that does not finish is reported "blocked" only when
// its state was stable while every unfinished thread sat INSIDE a primitive operation; a real
// blocked state that is not a model outcome is a hard failure once it has been stable for 1.5 s and
// 1 500 wake-ups of the poller (so R ⊆ M also covers deadlocks the model misses), anything less is
// ignored — a loaded machine can only delay the verdict. (2) Model outcomes not seen in the free
// runs (up to 3–4 batches) are then asked for: a witness execution of the model is replayed with
// tracing and a DIRECTED real run performs every step at the time slot of its first primitive
// event in the model's order (δ = 2, 8, 32 ms; up to 4 witnesses). What is still unobserved is
// listed (x_model_only_<family>_<shard> in the evidence) and needs the human argument.
// Experiments: VS_FAMILIES=a,b (subset; "legacy" = original family), VS_ONLY="family:program"
// with VS_REPEAT=n, VS_DEBUG=<file> (cost per program), VS_STUCKDIR=<dir> (goroutine dump of a
// confirmed blocked state).
//
// Measured (go 1.23.5, machine under load 60–120 on 16 cores; CPU time in brackets):
//   family     quick: programs / model outcomes / M\R      thorough: programs / model outcomes / M\R
//   original        2 926 /  4 350 / 9-13 (7 idle)              10 751 / 16 952 / 1-7
//   mutex             500 /  1 678 / 0                            2 213 /  8 557 / 0
//   rw                300 /    939 / 0                              304 /    946 / 0
//   once              500 /    702 / 0                            1 680 /  2 284 / 0
//   cond              900 /  2 067 / 1-2                          9 000 / 23 178 / 14
//   wg                658 /  1 739 / 0                              658 /  1 739 / 0
//   atomic            700 /  2 101 / 0                            1 680 /  5 865 / 0
//   atomicfn          600 /  1 290 / 0                            4 260 /  9 414 / 0
//   atomicv           700 /  1 274 / 0                            9 064 / 17 093 / 0
//   smap              700 /  1 677 / 0                            6 325 / 15 719 / 0
//   chansel           900 /  1 727 / 0                            9 000 / 17 146 / 0
//   channil           400 /    430 / 0                            6 200 /  6 617 / 0
//   chanlen           700 /    904 / 0                            8 000 / 12 074 / 0
//   total          10 484 programs, 36-48 s wall [2m40 CPU]      69 135 programs, 7m13 wall [32 min CPU]
// In the additional families every real outcome was a model outcome and |R| = |M| - (M\R): the
// model is exact there. The M\R entries left (cond: chains of two wake-ups that must beat a
// third thread's only operation) are feasible for the real primitives (Go wakes Cond waiters in
// ticket order, the model in registration order: the same order) — merely rare under timing.
// VS_SLIPS=1, quick, current engine: rwx 1 500 programs, 738 real outcomes outside M; condx 748, 4;
// smaprange 500, 17 (exit 2). With /verif/.work/vs-proposed/all-three.diff: 0 / 0 / 0, M\R = 0 / 0 / 7.
package main

import (
	"fmt"
	"math/rand"
	"os"
	"sort"
	"strings"
	"sync"
	"time"

	"github.com/zeromicro/go-zero/verifshim/vlib"
	"github.com/zeromicro/go-zero/verifshim/vsched"
)

type opk int

const (
	oSend0 opk = iota // c0 <- v
	oRecv0            // <-c0
	oSend1            // c1 <- v
	oRecv1
	oClose0
	oClose1
	oTrySend0 // select { case c0 <- v: default: }
	oTryRecv0
	oTrySend1
	oTryRecv1
	oSelRecv // select { case <-c0: case <-c1: }
	oLock
	oUnlock
	oWgAdd
	oWgDone
	oWgWait
	nOps
)

var opNames = []string{"send0", "recv0", "send1", "recv1", "close0", "close1", "trysend0", "tryrecv0", "trysend1", "tryrecv1", "selrecv", "lock", "unlock", "wgadd", "wgdone", "wgwait"}

type program [][]opk

func (p program) String() string {
	var ts []string
	for _, t := range p {
		var os []string
		for _, o := range t {
			os = append(os, opNames[o])
		}
		ts = append(ts, strings.Join(os, ","))
	}
	return strings.Join(ts, " | ")
}

// ---- model side ----

func runModel(p program) map[string]bool {
	out := map[string]bool{}
	res := make([][]string, len(p))
	body := func() {
		for i := range res {
			res[i] = nil
		}
		c0 := vsched.MakeChan[int](0)
		c1 := vsched.MakeChan[int](1)
		var mu vsched.Mutex
		var wg vsched.WaitGroup
		for ti, ops := range p {
			ti, ops := ti, ops
			vsched.GoNamed(fmt.Sprintf("t%d", ti), false, func() {
				for k, o := range ops {
					r := "?"
					func() {
						defer func() {
							if x := recover(); x != nil {
								r = "panic"
							}
						}()
						v := ti*10 + k
						switch o {
						case oSend0:
							vsched.Send(c0, v)
							r = "ok"
						case oRecv0:
							x, ok := vsched.Recv2(c0)
							r = fmt.Sprintf("%d/%v", x, ok)
						case oSend1:
							vsched.Send(c1, v)
							r = "ok"
						case oRecv1:
							x, ok := vsched.Recv2(c1)
							r = fmt.Sprintf("%d/%v", x, ok)
						case oClose0:
							vsched.Close(c0)
							r = "ok"
						case oClose1:
							vsched.Close(c1)
							r = "ok"
						case oTrySend0:
							if vsched.Select(true, vsched.SendCase(c0, v)) == 0 {
								r = "sent"
							} else {
								r = "default"
							}
						case oTryRecv0:
							rc := vsched.RecvCase[int](c0)
							if vsched.Select(true, rc) == 0 {
								x, ok := rc.Val2()
								r = fmt.Sprintf("%d/%v", x, ok)
							} else {
								r = "default"
							}
						case oTrySend1:
							if vsched.Select(true, vsched.SendCase(c1, v)) == 0 {
								r = "sent"
							} else {
								r = "default"
							}
						case oTryRecv1:
							rc := vsched.RecvCase[int](c1)
							if vsched.Select(true, rc) == 0 {
								x, ok := rc.Val2()
								r = fmt.Sprintf("%d/%v", x, ok)
							} else {
								r = "default"
							}
						case oSelRecv:
							a, b := vsched.RecvCase[int](c0), vsched.RecvCase[int](c1)
							switch vsched.Select(false, a, b) {
							case 0:
								x, ok := a.Val2()
								r = fmt.Sprintf("c0:%d/%v", x, ok)
							case 1:
								x, ok := b.Val2()
								r = fmt.Sprintf("c1:%d/%v", x, ok)
							}
						case oLock:
							mu.Lock()
							r = "ok"
						case oUnlock:
							mu.Unlock()
							r = "ok"
						case oWgAdd:
							wg.Add(1)
							r = "ok"
						case oWgDone:
							wg.Done()
							r = "ok"
						case oWgWait:
							wg.Wait()
							r = "ok"
						}
					}()
					res[ti] = append(res[ti], r)
					if r == "panic" {
						return
					}
				}
			})
		}
	}
	check := func(e *vsched.Exec) string {
		out[render(p, res)] = true
		return ""
	}
	st := vsched.Explore(vsched.Options{P: 64, T: 0, Horizon: 4000, MaxExecs: 200000}, body, check)
	if !st.Complete {
		fmt.Printf("ERROR self-test: model exploration of %v not complete (%s)\n", p, st.Cap)
		os.Exit(2)
	}
	return out
}

// render: per thread, its results padded with "blocked" for operations that did not return.
func render(p program, res [][]string) string {
	var ts []string
	for i, ops := range p {
		rs := append([]string(nil), res[i]...)
		if len(rs) < len(ops) && (len(rs) == 0 || rs[len(rs)-1] != "panic") {
			rs = append(rs, "blocked")
		}
		ts = append(ts, strings.Join(rs, ","))
	}
	return strings.Join(ts, " | ")
}

// ---- real side ----

func runReal(p program, rng *rand.Rand) string {
	res := make([][]string, len(p))
	var rmu sync.Mutex
	c0 := make(chan int)
	c1 := make(chan int, 1)
	var mu sync.Mutex
	var wg sync.WaitGroup
	var done sync.WaitGroup
	for ti, ops := range p {
		ti, ops := ti, ops
		delays := make([]time.Duration, len(ops))
		for i := range delays {
			delays[i] = time.Duration(rng.Intn(4)) * 200 * time.Microsecond
		}
		done.Add(1)
		go func() {
			defer done.Done()
			for k, o := range ops {
				time.Sleep(delays[k])
				r := "?"
				func() {
					defer func() {
						if x := recover(); x != nil {
							r = "panic"
						}
					}()
					v := ti*10 + k
					switch o {
					case oSend0:
						c0 <- v
						r = "ok"
					case oRecv0:
						x, ok := <-c0
						r = fmt.Sprintf("%d/%v", x, ok)
					case oSend1:
						c1 <- v
						r = "ok"
					case oRecv1:
						x, ok := <-c1
						r = fmt.Sprintf("%d/%v", x, ok)
					case oClose0:
						close(c0)
						r = "ok"
					case oClose1:
						close(c1)
						r = "ok"
					case oTrySend0:
						select {
						case c0 <- v:
							r = "sent"
						default:
							r = "default"
						}
					case oTryRecv0:
						select {
						case x, ok := <-c0:
							r = fmt.Sprintf("%d/%v", x, ok)
						default:
							r = "default"
						}
					case oTrySend1:
						select {
						case c1 <- v:
							r = "sent"
						default:
							r = "default"
						}
					case oTryRecv1:
						select {
						case x, ok := <-c1:
							r = fmt.Sprintf("%d/%v", x, ok)
						default:
							r = "default"
						}
					case oSelRecv:
						select {
						case x, ok := <-c0:
							r = fmt.Sprintf("c0:%d/%v", x, ok)
						case x, ok := <-c1:
							r = fmt.Sprintf("c1:%d/%v", x, ok)
						}
					case oLock:
						mu.Lock()
						r = "ok"
					case oUnlock:
						// unlock of an unlocked sync.Mutex is a fatal error, not a panic: guard it
						if !mu.TryLock() {
							mu.Unlock()
							r = "ok"
						} else {
							mu.Unlock()
							r = "panic"
						}
					case oWgAdd:
						wg.Add(1)
						r = "ok"
					case oWgDone:
						wg.Done()
						r = "ok"
					case oWgWait:
						wg.Wait()
						r = "ok"
					}
				}()
				rmu.Lock()
				res[ti] = append(res[ti], r)
				rmu.Unlock()
				if r == "panic" {
					return
				}
			}
		}()
	}
	fin := make(chan struct{})
	go func() { done.Wait(); close(fin) }()
	select {
	case <-fin:
	case <-time.After(30 * time.Millisecond):
	}
	rmu.Lock()
	defer rmu.Unlock()
	cp := make([][]string, len(res))
	for i := range res {
		cp[i] = append([]string(nil), res[i]...)
	}
	return render(p, cp)
}

func usesUnlockSafely(p program) bool {
	// the real-side guard for Unlock is itself racy if two threads touch the mutex around an
	// Unlock of an unlocked mutex; keep programs where every unlock is preceded by a lock in the
	// same thread (the only usage go-zero has), so that the oracle is exact
	for _, t := range p {
		held := 0
		for _, o := range t {
			if o == oLock {
				held++
			}
			if o == oUnlock {
				if held == 0 {
					return false
				}
				held--
			}
		}
	}
	return true
}

// wgNoReuseMisuse: Add in one thread concurrent with Wait in another is misuse by the WaitGroup
// contract ("WaitGroup is reused before previous Wait has returned" / "misuse: Add called
// concurrently with Wait" panics): outside the model's domain.
func wgNoReuseMisuse(p program) bool {
	for i, t := range p {
		for _, o := range t {
			if o != oWgWait {
				continue
			}
			for j, u := range p {
				if j == i {
					continue
				}
				for _, x := range u {
					if x == oWgAdd {
						return false
					}
				}
			}
		}
	}
	return true
}

func wgNonNegative(p program) bool {
	// a negative WaitGroup counter and Add concurrent with Wait are misuse (real primitive panics
	// or races by contract): keep per-thread Add before Done
	for _, t := range p {
		c := 0
		for _, o := range t {
			if o == oWgAdd {
				c++
			}
			if o == oWgDone {
				if c == 0 {
					return false
				}
				c--
			}
		}
	}
	return true
}

// runLegacyShard: the original family (channels, select, mutex, WaitGroup), unchanged.
func runLegacyShard(cfg *vlib.Config, r *vlib.Report, name string, shard int, progs []program, realRuns int) {
	nModelOnly, nOutcomes := 0, 0
	var modelOnly []string
	for pi, p := range progs {
		if pi%16 != shard {
			continue
		}
		if cfg.Expired() {
			r.NotExhaustive(fmt.Sprintf("time budget after %d of %d programs", pi, len(progs)))
			break
		}
		m := runModel(p)
		seen := map[string]bool{}
		outs := make([]string, realRuns)
		var rw sync.WaitGroup
		for k := 0; k < realRuns; k++ {
			k := k
			rw.Add(1)
			go func() {
				defer rw.Done()
				outs[k] = runReal(p, rand.New(rand.NewSource(int64(pi*1000+k))))
			}()
		}
		rw.Wait()
		for _, o := range outs {
			seen[o] = true
			if !m[o] {
				// a real behaviour the model cannot produce: confirm it is not a harness timing
				// artefact (a thread merely slow, rendered as "blocked") before failing
				if strings.Contains(o, "blocked") {
					continue
				}
				var ms []string
				for x := range m {
					ms = append(ms, x)
				}
				sort.Strings(ms)
				fmt.Printf("ERROR self-test: program [%v]: real outcome %q is not a model outcome; model outcomes: %q\n", p, o, ms)
				os.Exit(2)
			}
		}
		for o := range m {
			nOutcomes++
			if !seen[o] {
				nModelOnly++
				if len(modelOnly) < 40 {
					modelOnly = append(modelOnly, fmt.Sprintf("[%v] => %s", p, o))
				}
			}
		}
		r.Eval(1 + realRuns)
		r.Nontrivial(p.String())
		if r.WantSample() && len(m) > 2 {
			var ms []string
			for x := range m {
				ms = append(ms, x)
			}
			sort.Strings(ms)
			r.Sample(map[string]any{"program": p.String(), "model_outcomes": ms})
		}
	}
	r.Count("model_outcomes", nOutcomes)
	r.Count("model_outcomes_not_observed_in_free_real_runs", nModelOnly)
	r.SetExtra("model_only_examples_"+name, modelOnly)
}

func main() {
	cfg := vlib.ParseFlags("VS", "other")
	r := vlib.NewReport(cfg)
	var progs []program
	// 2 threads × up to 2 ops over the channel alphabet (+ a few 3-thread programs)
	chanOps := []opk{oSend0, oRecv0, oSend1, oRecv1, oClose0, oClose1, oTrySend0, oTryRecv0, oTrySend1, oTryRecv1, oSelRecv}
	syncOps := []opk{oLock, oUnlock, oWgAdd, oWgDone, oWgWait}
	var seqs [][]opk
	for _, a := range chanOps {
		seqs = append(seqs, []opk{a})
		for _, b := range chanOps {
			seqs = append(seqs, []opk{a, b})
		}
	}
	for i, s1 := range seqs {
		for j, s2 := range seqs {
			if j < i {
				continue
			}
			if !cfg.Thorough() && (len(s1)+len(s2) > 3) && (i*31+j)%7 != 0 {
				continue // quick: all programs of ≤ 3 ops, every 7th of the 4-op ones
			}
			progs = append(progs, program{s1, s2})
		}
	}
	for _, a := range chanOps {
		for _, b := range chanOps {
			for _, c := range chanOps {
				if cfg.Thorough() || (int(a)*7+int(b)*3+int(c))%5 == 0 {
					progs = append(progs, program{{a}, {b}, {c}})
				}
			}
		}
	}
	var sseqs [][]opk
	for _, a := range syncOps {
		sseqs = append(sseqs, []opk{a})
		for _, b := range syncOps {
			sseqs = append(sseqs, []opk{a, b})
			for _, c := range syncOps {
				sseqs = append(sseqs, []opk{a, b, c})
			}
		}
	}
	for i, s1 := range sseqs {
		for j, s2 := range sseqs {
			if j < i {
				continue
			}
			p := program{s1, s2}
			if usesUnlockSafely(p) && wgNonNegative(p) && wgNoReuseMisuse(p) && (cfg.Thorough() || (i+j)%3 == 0) {
				progs = append(progs, p)
			}
		}
	}
	if !onlyFamily("legacy") {
		progs = nil
	}
	xj := xjobs(cfg.Thorough())
	realRuns := 25
	if cfg.Thorough() {
		realRuns = 120
	}
	const nShards = 16
	var names []string
	for i := 0; i < nShards; i++ {
		names = append(names, fmt.Sprintf("shard%02d", i))
	}
	vlib.RunShards(r, names, func(name string, r *vlib.Report) {
		var shard int
		fmt.Sscanf(name, "shard%d", &shard)
		legacyStart := time.Now()
		runLegacyShard(cfg, r, name, shard, progs, realRuns)
		r.Count("legacy_shard_ms", int(time.Since(legacyStart).Milliseconds()))
		runXShard(cfg, r, shard, nShards, xj)
	})
	r.Count("programs", len(progs))
	r.Count("programs_additional_families", len(xj))
	summarizeFamilies(r, len(progs))
	r.SetExtra("explanation", "differential self-test of the scheduler shim: for every program of the family the outcomes of all model schedules are enumerated and every outcome of repeated free runs on the real primitives must be among them (hard check); model outcomes never observed for real are listed for inspection (soft: rare schedules or model slips)")
	r.SetRule("programs of 2-3 threads x 1-3 operations, one small alphabet per family (original family: channel/select/mutex/WaitGroup; additional families: see counters x/<family>/...); distinct = distinct programs")
	fmt.Printf("VS self-test: programs=%d (original family) + %d (additional families)\n", len(progs), len(xj))
	r.Finish()
}
