//go:build verif

package redis

import (
	red "github.com/redis/go-redis/v9"
	"github.com/zeromicro/go-zero/core/breaker"
)

// VerifBreakerHook constructs the (unexported) breaker hook around the given breaker, exactly as
// getClient/getCluster do.
func VerifBreakerHook(brk breaker.Breaker) red.Hook {
	return breakerHook{brk: brk}
}

// VerifAcceptable exposes the package's acceptability predicate (read-only).
func VerifAcceptable(err error) bool { return acceptable(err) }
