//go:build verif

package breaker

import (
	"fmt"
	"time"

	"github.com/zeromicro/go-zero/core/timex"
)

// White-box accessors of the C01 check. Read-only views of a breaker's rolling window and a
// constructor; nothing here is used by go-zero itself.

// VerifBucket is one raw bucket of the rolling window.
type VerifBucket struct{ Sum, Success, Failure, Drop int64 }

// VerifState is the complete state of a googleBreaker.
type VerifState struct {
	Raw      [buckets]VerifBucket // ring, physical order
	Offset   int
	LastTime time.Duration // start of the bucket at Offset (timex scale)
	LastPass time.Duration // 0 = unset
	Now      time.Duration // timex.Now() at the time of the dump
	Interval time.Duration
	// Live is what Reduce visits at time Now (expired buckets skipped), oldest first.
	Live []VerifBucket
}

func verifGoogle(b Breaker) *googleBreaker {
	cb, ok := b.(*circuitBreaker)
	if !ok {
		panic(fmt.Sprintf("verif: not a circuitBreaker: %T", b))
	}
	lt, ok := cb.throttle.(loggedThrottle)
	if !ok {
		panic(fmt.Sprintf("verif: not a loggedThrottle: %T", cb.throttle))
	}
	g, ok := lt.internalThrottle.(*googleBreaker)
	if !ok {
		panic(fmt.Sprintf("verif: not a googleBreaker: %T", lt.internalThrottle))
	}
	return g
}

// VerifDump reads the whole breaker state.
func VerifDump(b Breaker) VerifState {
	g := verifGoogle(b)
	var st VerifState
	raw, off, last, iv := g.stat.VerifRaw()
	for i, x := range raw {
		if i < buckets {
			st.Raw[i] = VerifBucket{x.Sum, x.Success, x.Failure, x.Drop}
		}
	}
	st.Offset, st.LastTime, st.Interval = off, last, iv
	st.LastPass = g.lastPass.Load()
	st.Now = timex.Now()
	g.stat.Reduce(func(x *bucket) {
		st.Live = append(st.Live, VerifBucket{x.Sum, x.Success, x.Failure, x.Drop})
	})
	return st
}

// VerifTotals sums what Reduce visits now: the records the breaker itself sees in its window.
func VerifTotals(b Breaker) (sum, success, failure, drop int64) {
	g := verifGoogle(b)
	g.stat.Reduce(func(x *bucket) {
		sum += x.Sum
		success += x.Success
		failure += x.Failure
		drop += x.Drop
	})
	return
}

// VerifNewGoogle returns a Breaker built around a fresh googleBreaker exactly like NewBreaker.
func VerifNewGoogle(name string) Breaker {
	return &circuitBreaker{name: name, throttle: newLoggedThrottle(name, newGoogleBreaker())}
}

// VerifForget drops a named breaker from the package-level registry (harness hygiene: every
// replayed history uses a fresh name; without this the registry would only grow).
func VerifForget(name string) {
	lock.Lock()
	delete(breakers, name)
	lock.Unlock()
}

// VerifRegistered reports whether name is in the registry (read-only).
func VerifRegistered(name string) bool {
	lock.RLock()
	_, ok := breakers[name]
	lock.RUnlock()
	return ok
}

// VerifCopyState transplants the complete breaker state of src (window, lastPass, k) into dst,
// a breaker obtained from the public constructors.
func VerifCopyState(dst, src Breaker) {
	d, s := verifGoogle(dst), verifGoogle(src)
	d.k = s.k
	d.stat.VerifCopyFrom(s.stat, func(x, y *bucket) { *x = *y })
	d.lastPass.Set(s.lastPass.Load())
}

// VerifResetRegistry empties the package-level name -> Breaker registry (what an in-package test
// does between cases), so that every execution starts with no named breakers.
func VerifResetRegistry() {
	lock.Lock()
	breakers = make(map[string]Breaker)
	lock.Unlock()
}
