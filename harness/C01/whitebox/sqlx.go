//go:build verif

package sqlx

import (
	"context"
	"database/sql"

	"github.com/zeromicro/go-zero/core/breaker"
)

// VerifNewConn builds a commonSqlConn exactly like NewSqlConnFromDB, but around the given
// breaker (a counting fake or a real one the harness can inspect).
func VerifNewConn(db *sql.DB, brk breaker.Breaker, opts ...SqlOption) SqlConn {
	conn := &commonSqlConn{
		connProv: func() (*sql.DB, error) {
			return db, nil
		},
		onError: func(ctx context.Context, err error) {},
		beginTx: begin,
		brk:     brk,
	}
	for _, opt := range opts {
		opt(conn)
	}
	return conn
}

// VerifBreakerOf returns the breaker a connection built by the public constructors
// (NewSqlConn, NewSqlConnFromDB) accounts its calls in (read-only; nil for other SqlConn types).
func VerifBreakerOf(c SqlConn) breaker.Breaker {
	if conn, ok := c.(*commonSqlConn); ok {
		return conn.brk
	}
	return nil
}
