//go:build verif

package collection

import "time"

// VerifRaw returns the raw ring of a RollingWindow (physical order), its offset, the start time
// of the bucket at offset and the bucket interval. Read-only.
func (rw *RollingWindow[T, B]) VerifRaw() (ring []B, offset int, lastTime, interval time.Duration) {
	rw.lock.RLock()
	defer rw.lock.RUnlock()
	ring = append(ring, rw.win.buckets...)
	return ring, rw.offset, rw.lastTime, rw.interval
}
