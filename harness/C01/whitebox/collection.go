//go:build verif

package collection

import "time"

// VerifRaw returns the raw ring of a RollingWindow (physical order), its offset, the start time
// of the bucket at offset and the bucket interval. Read-only.
func (rw *RollingWindow[T, B]) VerifRaw() (ring []B, offset int, lastTime, interval time.Duration) {
	rw.lock.RLock()
	defer rw.lock.RUnlock()
	ring = append(ring, rw.win.buckets...)
	return ring, rw.offset, rw.lastTime, rw.interval
}

// VerifCopyFrom makes rw an exact copy of src (same size required): ring contents through cp,
// offset and lastTime. Used to transplant a reached state into a fresh window so that look-ahead
// probes need not replay the whole history.
func (rw *RollingWindow[T, B]) VerifCopyFrom(src *RollingWindow[T, B], cp func(dst, src B)) {
	if rw.size != src.size || rw.interval != src.interval || rw.ignoreCurrent != src.ignoreCurrent {
		panic("verif: rolling windows differ in shape")
	}
	for i := range rw.win.buckets {
		cp(rw.win.buckets[i], src.win.buckets[i])
	}
	rw.offset = src.offset
	rw.lastTime = src.lastTime
}
