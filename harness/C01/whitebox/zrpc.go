//go:build verif

package zrpc

import (
	"github.com/zeromicro/go-zero/zrpc/internal/clientinterceptors"
	"github.com/zeromicro/go-zero/zrpc/internal/codes"
	"github.com/zeromicro/go-zero/zrpc/internal/serverinterceptors"
)

// Re-exports of the internal breaker interceptors for the C01 check (internal packages cannot be
// imported from the harness' own package). Nothing is changed.
var (
	VerifClientBreakerInterceptor       = clientinterceptors.BreakerInterceptor
	VerifUnaryServerBreakerInterceptor  = serverinterceptors.UnaryBreakerInterceptor
	VerifStreamServerBreakerInterceptor = serverinterceptors.StreamBreakerInterceptor
	VerifCodesAcceptable                = codes.Acceptable
)
