package main

import (
	"fmt"
	"sort"
	"strings"
)

// Reference model of the breaker, written from the property statement only. It shares no code
// with core/breaker: a plain list of (virtual time, kind) records.
//
// "The preceding 10 s window" is bracketed, not pinned: the breaker keeps its records in buckets
// (40 x 250 ms per the anchors), so what it can see at time t is some suffix of the history
// whose length lies between 10 s minus one bucket and 10 s. The law is a NECESSARY condition for
// a rejection, therefore a rejection is legal as soon as the law holds for SOME window length in
// [winMin, winMax] (closed: a record exactly 10 s old may or may not count).

const (
	ns     = int64(1)
	ms     = 1000 * 1000 * ns
	sec    = 1000 * ms
	winMax = 10 * sec
	winMin = 10*sec - 250*ms
	probe  = 1 * sec // "more than 1 s after the previous throttled admission"
)

type Kind int

const (
	KS Kind = iota // accepted (success per the acceptability predicate)
	KF             // failure
	KD             // rejection (drop)
)

func (k Kind) String() string { return [...]string{"S", "F", "D"}[k] }

type rec struct {
	t int64
	k Kind
}

type Model struct {
	now  int64
	recs []rec // ascending time
	// forced-probe bookkeeping (see oracle (4) in hist.go)
	hasCoin bool  // some admission was decided by the random seam (=> the breaker was throttling)
	tCoin   int64 // time of the latest such admission
	hasPoss bool  // some admission happened while the law possibly held
	tPoss   int64 // time of the latest such admission
}

func (m *Model) advance(d int64) {
	m.now += d
	// forget what can never matter again
	cut := m.now - winMax
	i := 0
	for i < len(m.recs) && m.recs[i].t < cut {
		i++
	}
	if i > 0 {
		m.recs = append([]rec(nil), m.recs[i:]...)
	}
}

func (m *Model) add(k Kind) { m.recs = append(m.recs, rec{m.now, k}) }

// counts over the records with time >= cut.
func (m *Model) counts(cut int64) (acc, non int64) {
	for _, r := range m.recs {
		if r.t < cut {
			continue
		}
		if r.k == KS {
			acc++
		} else {
			non++
		}
	}
	return
}

// law: the non-accepted ones exceed 5 plus 10% of the accepted ones (integers: 10*non > 50+acc).
func law(acc, non int64) bool { return 10*non > 50+acc }

// lawPossible: does the law hold for some admissible window? One pass: start with every record
// of the last winMax, then drop the oldest instants one by one while they are older than winMin.
func (m *Model) lawPossible() bool {
	lo, hi := m.now-winMax, m.now-winMin
	i := 0
	for i < len(m.recs) && m.recs[i].t < lo {
		i++
	}
	var acc, non int64
	for _, r := range m.recs[i:] {
		if r.k == KS {
			acc++
		} else {
			non++
		}
	}
	if law(acc, non) {
		return true
	}
	for i < len(m.recs) && m.recs[i].t < hi {
		t := m.recs[i].t
		for i < len(m.recs) && m.recs[i].t == t {
			if m.recs[i].k == KS {
				acc--
			} else {
				non--
			}
			i++
		}
		if law(acc, non) {
			return true
		}
	}
	return false
}

// forcedDue: precondition of the guaranteed probe. A throttled admission certainly exists
// (hasCoin: the random seam decided an admission, which only happens while throttling), and every
// admission that could have been a throttled one (made while the law possibly held) is more than
// 1 s old. Then the previous throttled admission, whichever it was, is more than 1 s old.
func (m *Model) forcedDue() bool {
	return m.hasCoin && m.hasPoss && m.now-m.tPoss > probe
}

// certainlyNotForced: no throttled admission so far, or the latest one that certainly was
// throttled is at most 1 s old (so the previous throttled admission is at most 1 s old).
func (m *Model) certainlyNotForced() bool {
	return !m.hasCoin || m.now-m.tCoin <= probe
}

// totalFailure: the widest window holds no accepted record; returns the number of records of the
// narrowest window (a lower bound of what the breaker sees).
func (m *Model) totalFailure() (bool, int64) {
	if a, _ := m.counts(m.now - winMax); a > 0 {
		return false, 0
	}
	a, n := m.counts(m.now - winMin)
	return true, a + n
}

func capAge(a int64) int64 {
	if a > probe {
		return probe + 1
	}
	return a
}

// key: canonical, time-shift invariant rendering of everything that can influence a future
// verdict of the model.
func (m *Model) key() string {
	type ak struct {
		age int64
		k   Kind
	}
	cnt := map[ak]int{}
	for _, r := range m.recs {
		if r.t >= m.now-winMax {
			cnt[ak{m.now - r.t, r.k}]++
		}
	}
	ks := make([]ak, 0, len(cnt))
	for k := range cnt {
		ks = append(ks, k)
	}
	sort.Slice(ks, func(i, j int) bool {
		if ks[i].age != ks[j].age {
			return ks[i].age < ks[j].age
		}
		return ks[i].k < ks[j].k
	})
	var b strings.Builder
	for _, k := range ks {
		fmt.Fprintf(&b, "%d%s%d,", k.age, k.k, cnt[k])
	}
	b.WriteString("|c")
	if m.hasCoin {
		fmt.Fprintf(&b, "%d", capAge(m.now-m.tCoin))
	}
	b.WriteString("|p")
	if m.hasPoss {
		fmt.Fprintf(&b, "%d", capAge(m.now-m.tPoss))
	}
	return b.String()
}

func (m *Model) summary() string {
	a, n := m.counts(m.now - winMax)
	a2, n2 := m.counts(m.now - winMin)
	return fmt.Sprintf("t=%s window[10s]: accepted=%d non-accepted=%d; window[9.75s]: accepted=%d non-accepted=%d; lawPossible=%v forcedDue=%v",
		dur(m.now), a, n, a2, n2, m.lawPossible(), m.forcedDue())
}

func dur(d int64) string {
	if d%ms == 0 {
		return fmt.Sprintf("%dms", d/ms)
	}
	return fmt.Sprintf("%dms%+dns", (d+ms/2)/ms, d-((d+ms/2)/ms)*ms)
}
