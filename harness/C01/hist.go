package main

import (
	"crypto/sha256"
	"encoding/hex"
	"encoding/json"
	"fmt"
	"os"
	"strconv"
	"strings"
	"time"

	"github.com/zeromicro/go-zero/core/breaker"
	"github.com/zeromicro/go-zero/verifshim/vlib"
	"github.com/zeromicro/go-zero/verifshim/vsched"
)

// ---- history engine ---------------------------------------------------------------------------
//
// State = shortest op list; successor = fresh breaker at virtual time 0, replay, one more op.
// Every call of every replay executes the real (rewritten) core/breaker code in pass-through mode;
// time is the process-global fake clock (vsched.AdvanceGlobal), the coin is the FloatHook.
//
// State key = canonical white-box dump of the breaker  (+)  canonical reference model:
//   breaker: the buckets Reduce would visit now, indexed by age in buckets (expired ones are
//            skipped by Reduce and reset by the next Add, so their content is dead), the phase
//            (now-lastTime) mod interval, and now-lastPass capped at "> 1 s" (only compared with
//            1 s, time is monotone) or "unset". accept() reads nothing else, so equal dumps give
//            equal answers to every future call sequence;
//   model:   the records of the last 10 s by exact age and kind, and the capped ages of the two
//            forced-probe markers.
// The dump is time-shift invariant (ages, not instants) and rotation invariant (age index, not
// ring position); that is sound because the code only ever uses differences of times and ring
// positions relative to offset.

type Op struct {
	K    string `json:"k"`           // S F (single call) | SS (S x10) | FF (F x6) | FFF (F x60) | J (jump) | PROBE
	Drop bool   `json:"d,omitempty"` // coin answer for every call of this op, where the coin is consulted: drop
	D    int64  `json:"j,omitempty"` // jump length in ns
}

func (o Op) String() string {
	s := o.K
	switch o.K {
	case "SS":
		s = "Sx10"
	case "FF":
		s = "Fx6"
	case "FFF":
		s = "Fx60"
	case "J":
		return "+" + dur(o.D)
	}
	if o.Drop {
		s += "!"
	}
	return s
}

// Probe is one look-ahead call.
type Probe struct {
	E   Entry   `json:"entry"`
	Out int     `json:"outcome"`
	Ans int     `json:"answer"`
	At  float64 `json:"at,omitempty"`
}

func (p Probe) String() string {
	a := [...]string{"pass", "drop", "at"}[p.Ans]
	if p.Ans == ansAt {
		a = fmt.Sprintf("coin=%.9f", p.At)
	}
	return fmt.Sprintf("%v/%s/%s", p.E, outcomeNames[p.Out], a)
}

// Case is the replay artefact of the history engine and of the lanes.
type Case struct {
	Engine string    `json:"engine"` // history | lane | wrapper
	Path   []Op      `json:"path,omitempty"`
	Probe  *Probe    `json:"probe,omitempty"`
	Rate   int       `json:"rate,omitempty"`
	Wrap   *WrapCase `json:"wrap,omitempty"`
}

var instSeq int

type inst struct {
	name    string
	b       breaker.Breaker
	m       *Model
	log     []string // verbose trace (replay mode)
	verbose bool
	frozen  bool // look-ahead fork: the model is shared with the original and must not be updated
}

func newInst(verbose bool) *inst {
	vsched.SetNow(0)
	instSeq++
	name := fmt.Sprintf("c01-%d", instSeq)
	return &inst{name: name, b: breaker.GetBreaker(name), m: &Model{}, verbose: verbose}
}

func (in *inst) close() { breaker.VerifForget(in.name) }

// scratch is a long-lived breaker (registered by name, so that the package-level entry points
// reach it) into which a reached state is transplanted for each look-ahead call.
var scratch breaker.Breaker

const scratchName = "c01-scratch"

// fork returns an instance in exactly the state of in (white-box transplant of window and
// lastPass into the scratch breaker; copy of the model). The clock is shared: forks are used at
// the instant of the original only.
func (in *inst) fork() *inst {
	if scratch == nil {
		scratch = breaker.GetBreaker(scratchName)
	}
	breaker.VerifCopyState(scratch, in.b)
	return &inst{name: scratchName, b: scratch, m: in.m, verbose: in.verbose, frozen: true}
}

// forkFull is fork with a private copy of the model (which step then updates).
func (in *inst) forkFull() *inst {
	fk := in.fork()
	m := *in.m
	m.recs = append([]rec(nil), in.m.recs...)
	fk.m, fk.frozen = &m, false
	return fk
}

func (in *inst) jump(d int64) {
	vsched.AdvanceGlobal(time.Duration(d))
	in.m.advance(d)
}

type fail struct{ class, msg string }

type stepInfo struct {
	verdict string
	coin    bool
}

// step performs one call and checks every per-call oracle of the statement.
func (in *inst) step(e Entry, out int, ans int, at float64) (si stepInfo, f *fail) {
	m := in.m
	lawP := m.lawPossible()
	forced := m.forcedDue()
	_, s0, f0, d0 := breaker.VerifTotals(in.b)
	hook.mode, hook.at = ans, at
	h0 := hook.calls
	o := doCall(in.b, in.name, e, out, realCtx, nil)
	hook.mode = ansPass
	coin := hook.calls > h0
	_, s1, f1, d1 := breaker.VerifTotals(in.b)
	ds, df, dd := s1-s0, f1-f0, d1-d0
	verdict, class, msg := judge(e, out, o)
	si = stepInfo{verdict, coin}
	if in.verbose {
		in.log = append(in.log, fmt.Sprintf("    %-58s -> %-9s err=%v panicked=%v req=%d fb=%d coin=%v window delta S%+d F%+d D%+d | before: %s",
			fmt.Sprintf("%v/%s/%s", e, outcomeNames[out], [...]string{"pass", "drop", "at"}[ans]), verdict, o.err, o.panicked, o.reqRuns, o.fbRuns, coin, ds, df, dd, m.summary()))
	}
	if class != "" {
		return si, &fail{class, msg + " [" + m.summary() + "]"}
	}
	delta := func() string { return fmt.Sprintf("S%+d F%+d D%+d", ds, df, dd) }
	switch verdict {
	case vDone:
		if ds != 0 || df != 0 || dd != 0 {
			return si, &fail{"done-ctx-recorded:" + e.short(), fmt.Sprintf("%v with a done context changed the window by %s", e, delta())}
		}
	case vAdmitted:
		k := wantKind(e, out)
		ws, wf := int64(0), int64(0)
		if k == KS {
			ws = 1
		} else {
			wf = 1
		}
		if ds != ws || df != wf || dd != 0 {
			cls := "admitted-wrong-kind"
			switch {
			case ds+df+dd == 0:
				cls = "admitted-not-recorded"
			case ds+df+dd > 1:
				cls = "admitted-recorded-twice"
			}
			return si, &fail{fmt.Sprintf("%s:%s/%s", cls, e.short(), outcomeNames[out]),
				fmt.Sprintf("%v admitted, request outcome %s: window changed by %s, want exactly one %v record [%s]", e, outcomeNames[out], delta(), k, m.summary())}
		}
		if !in.frozen {
			m.add(k)
			if lawP {
				m.hasPoss, m.tPoss = true, m.now
			}
			if coin {
				m.hasCoin, m.tCoin = true, m.now
			}
		}
	case vRejected:
		if ds != 0 || df != 0 || dd != 1 {
			cls := "rejected-wrong-kind"
			switch {
			case ds+df+dd == 0:
				cls = "rejected-not-recorded"
			case ds+df+dd > 1:
				cls = "rejected-recorded-twice"
			}
			return si, &fail{cls + ":" + e.short(), fmt.Sprintf("%v rejected: window changed by %s, want exactly one rejection record [%s]", e, delta(), m.summary())}
		}
		if !lawP {
			a, n := m.counts(m.now - winMax)
			return si, &fail{"rejected-below-threshold", fmt.Sprintf("%v rejected with ErrServiceUnavailable although within the preceding 10 s only %d non-accepted vs %d accepted calls are recorded (needs non-accepted > 5 + 10%% accepted for some window of 9.75..10 s) [%s]", e, n, a, m.summary())}
		}
		if forced {
			return si, &fail{"forced-probe-rejected", fmt.Sprintf("%v rejected although the previous throttled admission is %s (> 1 s) old [%s]", e, dur(m.now-m.tPoss), m.summary())}
		}
		if !in.frozen {
			m.add(KD)
		}
	}
	return si, nil
}

// rotation of entry points and outcome kinds along the expansion path: a fixed mixing function of
// (op index, call index inside a burst), so that every live entry point and every outcome kind
// that means success / failure (incl. the value family) occurs on expansion paths. Deterministic;
// not random testing: the look-ahead covers the matrix in the states themselves.
func rotate(idx, j int, success bool) (Entry, int) {
	h := uint32(idx)*2654435761 + uint32(j)*40503 + 12345
	h ^= h >> 13
	h *= 0x5bd1e995
	h ^= h >> 15
	if rotCands == nil {
		rotCands = buildRotCands()
	}
	e := rotEntries[int(h%uint32(len(rotEntries)))]
	c := rotCands[rotKey{e, success}]
	return e, c[int((h>>8)%uint32(len(c)))]
}

type rotKey struct {
	e       Entry
	success bool
}

// rotCands: per entry, the outcomes that must be recorded as a success / as a failure.
var (
	rotCands   map[rotKey][]int
	rotEntries []Entry // every form that reaches the breaker
)

func buildRotCands() map[rotKey][]int {
	m := map[rotKey][]int{}
	rotEntries = append(append([]Entry{}, liveEntries...), extraEntries...)
	for _, e := range rotEntries {
		for _, out := range append(outcomesOf(e), valueOutcomesOf(e)...) {
			k := rotKey{e, wantKind(e, out) == KS}
			m[k] = append(m[k], out)
		}
		// keep plain ok / plain failure frequent: half of the picks
		for _, k := range []rotKey{{e, true}, {e, false}} {
			plain := oOK
			if !k.success {
				plain = oBad
			}
			for n := len(m[k]); n > 1; n-- {
				m[k] = append(m[k], plain)
			}
		}
	}
	return m
}

func (in *inst) apply(idx int, op Op) *fail {
	if in.verbose {
		in.log = append(in.log, fmt.Sprintf("  op %d %v", idx, op))
	}
	n, succ := 0, false
	switch op.K {
	case "J":
		in.jump(op.D)
		return nil
	case "S":
		n, succ = 1, true
	case "F":
		n = 1
	case "SS":
		n, succ = 10, true
	case "FF":
		n = 6
	case "FFF":
		n = 60
	default:
		return &fail{"bad-op", "unknown op " + op.K}
	}
	ans := ansPass
	if op.Drop {
		ans = ansDrop
	}
	for j := 0; j < n; j++ {
		e, out := rotate(idx, j, succ)
		if _, f := in.step(e, out, ans, 0); f != nil {
			return f
		}
	}
	return nil
}

func (in *inst) key() string {
	st := breaker.VerifDump(in.b)
	var sb strings.Builder
	span := int64(0)
	if st.Interval > 0 {
		span = int64((st.Now - st.LastTime) / st.Interval)
	}
	if span > int64(len(st.Raw)) || span < 0 {
		span = int64(len(st.Raw))
	}
	for i, x := range st.Live {
		if x.Sum == 0 && x.Success == 0 && x.Failure == 0 && x.Drop == 0 {
			continue
		}
		age := span + int64(len(st.Live)-1-i)
		fmt.Fprintf(&sb, "%d:%d/%d/%d/%d,", age, x.Sum, x.Success, x.Failure, x.Drop)
	}
	fmt.Fprintf(&sb, "|ph%d|lp", int64(st.Now-st.LastTime)%int64(st.Interval))
	if st.LastPass != 0 {
		fmt.Fprintf(&sb, "%d", capAge(int64(st.Now-st.LastPass)))
	}
	sb.WriteString("#")
	sb.WriteString(in.m.key())
	return sb.String()
}

// replay builds the state reached by path; f is the first oracle failure and fi its op index.
func replay(path []Op, verbose bool) (in *inst, f *fail, fi int) {
	in = newInst(verbose)
	for i, op := range path {
		if f := in.apply(i, op); f != nil {
			return in, f, i
		}
	}
	return in, nil, -1
}

type probeStats struct {
	Probes   int  `json:"n"`
	Rejected int  `json:"rej"`
	Admitted int  `json:"adm"`
	Done     int  `json:"done"`
	Coin     int  `json:"coin"`
	Forced   int  `json:"forced"`
	Shed     int  `json:"shed"`
	Value    int  `json:"val"`
	Law      bool `json:"law"`
}

// runProbe executes ONE look-ahead call in the state reached by path.
func runProbe(path []Op, p Probe, verbose bool) (si stepInfo, f *fail, in *inst) {
	in, f0, _ := replay(path, verbose)
	if f0 != nil {
		return si, f0, in
	}
	si, f = in.step(p.E, p.Out, p.Ans, p.At)
	return si, f, in
}

// probeAll: the one-step look-ahead of every entry point x outcome (x coin answer where the coin
// is consulted) in the state reached by path, plus the shedding-strength probe (6). The history
// is replayed once; each look-ahead call runs on a fork of that state. The fork itself is
// validated in every state: one call is executed both on a fork and on a second full replay, and
// verdict, coin use and resulting state must agree.
func probeAll(path []Op) (st probeStats, f *fail, fp *Probe) {
	in, f0, _ := replay(path, false)
	defer in.close()
	if f0 != nil {
		return st, f0, nil
	}
	st.Law = in.m.lawPossible()
	forced := in.m.forcedDue()
	tf, nmin := in.m.totalFailure()
	notForced := in.m.certainlyNotForced()
	before := in.key()
	if k := in.fork().key(); k != before {
		return st, &fail{"harness-fork-mismatch", "fork differs from original: " + before + " vs " + k}, nil
	}
	// done contexts never touch the breaker: all of them on one fork
	fk := in.fork()
	for _, e := range doneEntries {
		for _, out := range []int{oOK, oBad} {
			st.Probes++
			st.Done++
			if _, f := fk.step(e, out, ansDrop, 0); f != nil {
				return st, f, &Probe{E: e, Out: out, Ans: ansDrop}
			}
		}
	}
	if after := fk.key(); after != before {
		return st, &fail{"done-ctx-changed-state", "calls with done contexts changed the breaker state: " + before + " -> " + after}, &Probe{E: doneEntries[0], Out: oOK, Ans: ansDrop}
	}
	first := true
	// outcomes probed in this state: the four kinds through the 18 live entry points always; the
	// value family (values some shortcut could single out: the breaker's own sentinel forwarded by
	// the request, context errors under a live context, typed nil, ...) and the extra forms (context
	// cancelled while the request runs, nil fallback) completely in every state of depth
	// <= valueDepth, and one member of the value family per entry point (a fixed function of the
	// history) below that.
	type plan struct {
		e     Entry
		outs  []int
		nbase int
	}
	var plans []plan
	full := len(path) <= valueDepth
	for ei, e := range liveEntries {
		outs := outcomesOf(e)
		nbase := len(outs)
		if vo := valueOutcomesOf(e); full {
			outs = append(outs, vo...)
		} else {
			outs = append(outs, vo[(pathMix(path)+ei*5)%len(vo)])
		}
		plans = append(plans, plan{e, outs, nbase})
	}
	if full {
		for _, e := range extraEntries {
			plans = append(plans, plan{e, append(outcomesOf(e), valueOutcomesOf(e)...), 0})
		}
	}
	for _, pl := range plans {
		e, outs, nbase := pl.e, pl.outs, pl.nbase
		for oi, out := range outs {
			for _, ans := range []int{ansPass, ansDrop} {
				p := Probe{E: e, Out: out, Ans: ans}
				check := first || ans == ansDrop && st.Rejected == 0
				fk := in.fork()
				if check {
					fk = in.forkFull()
				}
				si, f := fk.step(p.E, p.Out, p.Ans, 0)
				st.Probes++
				if oi >= nbase {
					st.Value++
				}
				if f != nil {
					return st, f, &p
				}
				if check {
					// cross-validation of the fork against a full replay
					first = false
					k1 := fk.key()
					si2, f2, in2 := runProbe(path, p, false)
					k2 := in2.key()
					in2.close()
					if f2 != nil || si2 != si || k1 != k2 {
						return st, &fail{"harness-fork-mismatch", fmt.Sprintf("probe %v: fork gave %+v %s, replay gave %+v %s (%v)", p, si, k1, si2, k2, f2)}, &p
					}
				}
				switch si.verdict {
				case vAdmitted:
					st.Admitted++
				case vRejected:
					st.Rejected++
				}
				if si.coin {
					st.Coin++
				}
				if forced {
					st.Forced++
				}
				if ans == ansPass && !si.coin {
					break // the coin is not consulted in this state: the answer cannot matter
				}
			}
		}
	}
	// (6) shedding strength: no accepted record in the window, more than 5 records, no forced
	// probe pending => the probability handed to the coin is at least 1 - 6/(total+1).
	if tf && nmin > 5 && notForced {
		bound := 1 - 6/float64(nmin+1)
		p := Probe{E: Entry{Base: bDo}, Out: oBad, Ans: ansAt, At: bound - 1e-9}
		si, f := in.fork().step(p.E, p.Out, p.Ans, p.At)
		st.Probes++
		st.Shed++
		if f != nil {
			return st, f, &p
		}
		if si.verdict != vRejected {
			return st, &fail{"weak-shedding", fmt.Sprintf("total failure (%d records, none accepted, no probe due): a coin of %.6f admitted the call, i.e. the rejection probability is below 1-6/(total+1)=%.6f", nmin, p.At, bound)}, &p
		}
	}
	return st, nil, nil
}

// valueDepth: every state reached by a history of at most this many ops gets the complete value
// family in its look-ahead (set by runHistory: 3 quick, 4 thorough; C01_VALUE_DEPTH overrides, debugging only).
var valueDepth = 3

func pathMix(path []Op) int {
	h := uint32(2166136261)
	for _, op := range path {
		for _, c := range []byte(op.String()) {
			h = (h ^ uint32(c)) * 16777619
		}
		h = (h ^ '|') * 16777619
	}
	return int(h >> 4 & 0xffffff)
}

// ---- PBFS plumbing ----

func jumpsOf(thorough bool) []int64 {
	js := []int64{1, 250*ms - 1, 250 * ms, sec, sec + 1, 10*sec - 250*ms, 10*sec - 1, 10 * sec, 10*sec + 1, 25 * sec}
	if thorough {
		js = append(js, 500*ms, 5*sec, 10*sec-250*ms-1, 10*sec+250*ms)
	}
	return js
}

func alphabetOf(thorough bool) (calls, jumps []Op) {
	calls = []Op{{K: "S"}, {K: "F"}, {K: "S", Drop: true}, {K: "F", Drop: true}, {K: "SS"}, {K: "FF"}, {K: "FFF"}, {K: "FFF", Drop: true}}
	if thorough {
		calls = append(calls, Op{K: "FF", Drop: true}, Op{K: "SS", Drop: true})
	}
	for _, j := range jumpsOf(thorough) {
		jumps = append(jumps, Op{K: "J", D: j})
	}
	return
}

func histRun(path []Op) vlib.RunResult {
	if n := len(path); n > 0 && path[n-1].K == "PROBE" {
		st, f, fp := probeAll(path[:n-1])
		if f != nil && f.class == "harness-fork-mismatch" {
			fmt.Fprintf(os.Stderr, "ERROR harness: %s (path %v)\n", f.msg, path)
			os.Exit(2)
		}
		info, _ := json.Marshal(st)
		rr := vlib.RunResult{Key: "P|" + hashKey(fmt.Sprint(path)), Stop: true, Info: string(info)}
		if f != nil {
			pj, _ := json.Marshal(fp)
			rr.Err, rr.Class, rr.Info = f.msg, f.class, string(pj)
		}
		return rr
	}
	in, f, fi := replay(path, false)
	defer in.close()
	if f != nil {
		if fi != len(path)-1 {
			f.msg = fmt.Sprintf("(at op %d of the prefix) %s", fi, f.msg)
		}
		return vlib.RunResult{Err: f.msg, Class: f.class}
	}
	info := "-"
	if in.m.lawPossible() {
		info = "L"
	}
	if in.m.forcedDue() {
		info += "F"
	}
	if len(in.m.recs) > 0 {
		info += "R"
	}
	return vlib.RunResult{Key: hashKey(in.key()), Info: info}
}

// hashKey shortens a canonical state key for the parent's seen-set (96 bits of SHA-256).
func hashKey(k string) string {
	h := sha256.Sum256([]byte(k))
	return hex.EncodeToString(h[:12])
}

func runHistory(cfg *vlib.Config, r *vlib.Report, deadline time.Time) {
	depth := 5
	valueDepth = 3
	if cfg.Thorough() {
		depth = 7
		valueDepth = 4
	}
	if v, err := strconv.Atoi(os.Getenv("C01_DEPTH")); err == nil && v > 0 {
		depth = v
	}
	if v, err := strconv.Atoi(os.Getenv("C01_VALUE_DEPTH")); err == nil && v >= 0 {
		valueDepth = v
	}
	calls, jumps := alphabetOf(cfg.Thorough())
	var states, probed, probes, rejProbes, lawStates, forcedStates, shedProbes, coinProbes, valueProbes, valueFull int
	bfs := &vlib.PBFS[Op]{
		Name:     "history",
		Cfg:      cfg,
		MaxDepth: depth + 1,
		Deadline: deadline,
		Alphabet: func(d int, path []Op) []Op {
			ops := []Op{{K: "PROBE"}}
			if d >= depth {
				return ops
			}
			ops = append(ops, calls...)
			if len(path) == 0 || path[len(path)-1].K != "J" {
				ops = append(ops, jumps...)
			}
			return ops
		},
		Run: histRun,
		OnViolation: func(path []Op, res vlib.RunResult) {
			c := Case{Engine: "history", Path: append([]Op(nil), path...)}
			if n := len(path); n > 0 && path[n-1].K == "PROBE" {
				c.Path = c.Path[:n-1]
				var p Probe
				if json.Unmarshal([]byte(res.Info), &p) == nil {
					c.Probe = &p
				}
				r.Violation(res.Class, fmt.Sprintf("history %v then look-ahead %v: %s", c.Path, c.Probe, res.Err), c)
				return
			}
			r.Violation(res.Class, fmt.Sprintf("history %v: %s", path, res.Err), c)
		},
		OnState: func(path []Op, res vlib.RunResult) {
			if strings.HasPrefix(res.Key, "P|") {
				var st probeStats
				json.Unmarshal([]byte(res.Info), &st)
				probed++
				probes += st.Probes
				rejProbes += st.Rejected
				shedProbes += st.Shed
				valueProbes += st.Value
				if len(path)-1 <= valueDepth {
					valueFull++
				}
				coinProbes += st.Coin
				if st.Forced > 0 {
					forcedStates++
				}
				return
			}
			states++
			if strings.Contains(res.Info, "L") {
				lawStates++
			}
			if strings.Contains(res.Info, "R") {
				r.Nontrivial("hist|" + res.Key)
			}
			if r.WantSample() && len(path) >= 3 && strings.Contains(res.Info, "L") && states%7 == 0 {
				r.Sample(map[string]any{"engine": "history", "history": fmt.Sprint(path), "state_hash": res.Key, "flags": res.Info})
			}
		},
	}
	out := bfs.Search()
	if cfg.BFSWorker != "" {
		return
	}
	trans := out.Transitions - probed // PROBE pseudo-transitions are counted as probes
	r.AddStates(states)
	r.AddTransitions(trans + probes)
	r.AddTraces(trans + 1 + probes)
	r.Eval(trans + 1 + probes)
	r.Count("history_states", states)
	r.Count("history_states_probed", probed)
	r.Count("history_states_where_rejection_is_legal", lawStates)
	r.Count("history_states_with_forced_probe_due", forcedStates)
	r.Count("history_lookahead_calls", probes)
	r.Count("history_lookahead_rejected", rejProbes)
	r.Count("history_lookahead_coin_consulted", coinProbes)
	r.Count("history_shedding_probes", shedProbes)
	r.Count("history_value_family_calls", valueProbes)
	r.Count("history_states_with_full_value_family", valueFull)
	r.Scenario("history", map[string]any{"states": states, "transitions": trans, "states_probed": probed, "lookahead_calls": probes,
		"value_family_calls": valueProbes, "states_with_full_value_family": valueFull, "value_depth": valueDepth,
		"depth_bound": depth, "max_depth": out.MaxDepth, "closed": out.Closed, "exhaustive_to_depth": out.Exhaustive, "failures": out.Failures, "cap": out.Cap,
		"alphabet": fmt.Sprint(append(append([]Op{}, calls...), jumps...))})
	if !out.Exhaustive {
		r.NotExhaustive("history: " + out.Cap + " (a state of depth d is probed at level d+1: every state up to two levels below the cut is probed, the level below the cut is fully enumerated)")
	}
}

// ---- deterministic long lanes (6) ----

type laneResult struct {
	Rate     int `json:"rate_per_s"`
	Calls    int `json:"calls"`
	Rejected int `json:"rejected"`
}

func runLane(rate int, verbose bool) (laneResult, *fail) {
	const n = 2000
	in := newInst(false)
	defer in.close()
	gap := sec / int64(rate)
	res := laneResult{Rate: rate, Calls: n}
	for i := 0; i < n; i++ {
		if i > 0 {
			in.jump(gap)
		}
		e, out := rotate(i, 0, false)
		si, f := in.step(e, out, ansAt, 0.5) // the coin says drop iff p > 1/2
		if f != nil {
			return res, f
		}
		if si.verdict == vRejected {
			res.Rejected++
		}
		if verbose && (i < 30 || i%100 == 0) {
			fmt.Printf("  call %4d at %-10s %-9s coin=%v\n", i, dur(in.m.now), si.verdict, si.coin)
		}
	}
	if res.Rejected*10 < n*9 {
		return res, &fail{"weak-shedding-sustained", fmt.Sprintf("%d consecutive failing calls at %d/s with the coin at 1/2: only %d rejected (%.1f%%), want >= 90%%", n, rate, res.Rejected, 100*float64(res.Rejected)/n)}
	}
	return res, nil
}

func runLanes(r *vlib.Report) {
	var out []laneResult
	for _, rate := range []int{10, 100, 1000} {
		res, f := runLane(rate, false)
		out = append(out, res)
		r.Eval(res.Calls)
		r.AddTraces(1)
		r.AddTransitions(res.Calls)
		if f != nil {
			r.Violation(f.class, f.msg, Case{Engine: "lane", Rate: rate})
		}
	}
	r.Scenario("lanes", out)
}
