package main

import (
	"github.com/zeromicro/go-zero/verifshim/vlib"
)

type WrapCase struct {
	Kind string `json:"kind"`
}

func runWrappers(r *vlib.Report) {}

func replayWrapper(c *WrapCase) *fail { return nil }
