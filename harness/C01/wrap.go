package main

import (
	"context"
	"database/sql"
	"errors"
	"fmt"
	"io"
	"net/http"
	"net/http/httptest"
	"path"

	"github.com/DATA-DOG/go-sqlmock"
	red "github.com/redis/go-redis/v9"
	"github.com/zeromicro/go-zero/core/breaker"
	"github.com/zeromicro/go-zero/core/stat"
	"github.com/zeromicro/go-zero/core/stores/redis"
	"github.com/zeromicro/go-zero/core/stores/sqlx"
	"github.com/zeromicro/go-zero/rest/handler"
	"github.com/zeromicro/go-zero/verifshim/vlib"
	"github.com/zeromicro/go-zero/verifshim/vsched"
	"github.com/zeromicro/go-zero/zrpc"
	"google.golang.org/grpc"
	gcodes "google.golang.org/grpc/codes"
	"google.golang.org/grpc/credentials/insecure"
	"google.golang.org/grpc/status"
)

// ---- wrappers (C) -----------------------------------------------------------------------------
//
// The wrappers are outcome classifiers around the same breaker calls. Each case is one request
// through the real wrapper; the reference classification is the documented one:
//   rest   : status < 500 success, >= 500 failure (BreakerHandler)
//   gRPC   : DeadlineExceeded, ResourceExhausted, Unimplemented, Internal, Unavailable, DataLoss
//            are failures, every other code a success; server side additionally the raw
//            context.DeadlineExceeded and a nested ErrServiceUnavailable are failures
//   redis  : nil, redis.Nil, context.Canceled success; anything else failure; blpop bypasses
//   sqlx   : nil, sql.ErrNoRows, sql.ErrTxDone, context.Canceled, argument-formatting errors, scan
//            failures and whatever WithAcceptable accepts are successes; anything else failure

type WrapCase struct {
	Kind string `json:"kind"`
	Code int    `json:"code,omitempty"`
	Err  string `json:"err,omitempty"`
	Opt  bool   `json:"opt,omitempty"`  // sqlx: WithAcceptable option present; registry-nobreaker: the name had a throttling breaker before
	Form string `json:"form,omitempty"` // sqlx-form: the query form of sqlconn.go (wrap2.go)
}

func (c WrapCase) String() string {
	if c.Form != "" {
		return fmt.Sprintf("%s form=%s code=%d err=%q opt=%v", c.Kind, c.Form, c.Code, c.Err, c.Opt)
	}
	return fmt.Sprintf("%s code=%d err=%q opt=%v", c.Kind, c.Code, c.Err, c.Opt)
}

// ---------- counting fake breaker ----------

type fakePromise struct{ fb *fakeBreaker }

func (p fakePromise) Accept()         { p.fb.accepts++ }
func (p fakePromise) Reject(_ string) { p.fb.rejects++ }

type fakeBreaker struct {
	calls    map[string]int
	verdicts []bool
	reqErr   []error
	accepts  int
	rejects  int
}

func newFake() *fakeBreaker { return &fakeBreaker{calls: map[string]int{}} }

func (f *fakeBreaker) run(method string, req func() error, acc breaker.Acceptable) error {
	f.calls[method]++
	err := req()
	f.reqErr = append(f.reqErr, err)
	if acc == nil {
		f.verdicts = append(f.verdicts, err == nil)
	} else {
		f.verdicts = append(f.verdicts, acc(err))
	}
	return err
}
func (f *fakeBreaker) total() int {
	n := 0
	for _, v := range f.calls {
		n += v
	}
	return n
}
func (f *fakeBreaker) Name() string { return "c01-fake" }
func (f *fakeBreaker) Allow() (breaker.Promise, error) {
	f.calls["Allow"]++
	return fakePromise{f}, nil
}
func (f *fakeBreaker) AllowCtx(ctx context.Context) (breaker.Promise, error) {
	f.calls["AllowCtx"]++
	return fakePromise{f}, nil
}
func (f *fakeBreaker) Do(req func() error) error { return f.run("Do", req, nil) }
func (f *fakeBreaker) DoCtx(ctx context.Context, req func() error) error {
	return f.run("DoCtx", req, nil)
}
func (f *fakeBreaker) DoWithAcceptable(req func() error, acc breaker.Acceptable) error {
	return f.run("DoWithAcceptable", req, acc)
}
func (f *fakeBreaker) DoWithAcceptableCtx(ctx context.Context, req func() error, acc breaker.Acceptable) error {
	return f.run("DoWithAcceptableCtx", req, acc)
}
func (f *fakeBreaker) DoWithFallback(req func() error, fb breaker.Fallback) error {
	return f.run("DoWithFallback", req, nil)
}
func (f *fakeBreaker) DoWithFallbackCtx(ctx context.Context, req func() error, fb breaker.Fallback) error {
	return f.run("DoWithFallbackCtx", req, nil)
}
func (f *fakeBreaker) DoWithFallbackAcceptable(req func() error, fb breaker.Fallback, acc breaker.Acceptable) error {
	return f.run("DoWithFallbackAcceptable", req, acc)
}
func (f *fakeBreaker) DoWithFallbackAcceptableCtx(ctx context.Context, req func() error, fb breaker.Fallback, acc breaker.Acceptable) error {
	return f.run("DoWithFallbackAcceptableCtx", req, acc)
}

// ---------- rest ----------

var restMetrics *stat.Metrics

// restCase drives a fresh BreakerHandler (its breaker is private: observed through behaviour).
//
//	code >= 500: six such responses are all passed through even under the drop answer (at most
//	             5 non-accepted records before each: the law forbids a rejection, so nothing is
//	             counted twice); the 7th request is then refused with 503 under the drop answer
//	             (6 failures, nothing accepted: rejection probability 1/7 > 0), which shows they
//	             were counted as failures.
//	code <  500: 60 such responses, then six 500s: everything passed through, and so is a 7th 500
//	             under the drop answer (6 non-accepted vs 5 + 10% of 60 = 11): refused only if
//	             the 60 were not counted as accepted.
func restCase(code int) *fail {
	vsched.SetNow(0)
	if restMetrics == nil {
		restMetrics = stat.NewMetrics("c01")
	}
	cur, calls := 0, 0
	next := http.HandlerFunc(func(w http.ResponseWriter, r *http.Request) {
		calls++
		if cur != 0 {
			w.WriteHeader(cur)
		}
	})
	h := handler.BreakerHandler(http.MethodGet, fmt.Sprintf("/c01/%d", code), restMetrics)(next)
	do := func(c int) (status int, called bool) {
		cur = c
		before := calls
		hook.mode = ansDrop
		rec := httptest.NewRecorder()
		h.ServeHTTP(rec, httptest.NewRequest(http.MethodGet, "/c01", nil))
		hook.mode = ansPass
		if calls-before > 1 {
			return -1, true
		}
		return rec.Code, calls > before
	}
	want := code
	if code == 0 {
		want = 200 // handler writes nothing
	}
	if code >= 500 {
		for i := 1; i <= 6; i++ {
			st, called := do(code)
			if !called || st != want {
				return &fail{"rest-5xx-rejected-early", fmt.Sprintf("BreakerHandler: request %d answering %d: next called=%v, status %d (only %d failures recorded before it: a rejection needs more than 5)", i, code, called, st, i-1)}
			}
		}
		st, called := do(code)
		if called || st != http.StatusServiceUnavailable {
			return &fail{"rest-5xx-not-counted-as-failure", fmt.Sprintf("BreakerHandler: after six %d responses the 7th request (coin = drop) was passed through (called=%v status=%d): the %d responses were not recorded as failures", code, called, st, code)}
		}
		return nil
	}
	for i := 1; i <= 60; i++ {
		st, called := do(code)
		if !called || st != want {
			return &fail{"rest-success-code-rejected", fmt.Sprintf("BreakerHandler: request %d answering %d: next called=%v, status %d although nothing but such responses was recorded", i, code, called, st)}
		}
	}
	for i := 1; i <= 7; i++ {
		st, called := do(500)
		if !called || st != 500 {
			return &fail{"rest-success-code-not-counted-as-success", fmt.Sprintf("BreakerHandler: after 60 responses with status %d, 500-response %d was refused (called=%v status=%d) although at most 6 non-accepted stand against 60 accepted (needs > 11)", code, i, called, st)}
		}
	}
	return nil
}

// restPanicCase: the handler writes a 5xx status and then panics (what httputil.ReverseProxy does
// with http.ErrAbortHandler) with no recover middleware between it and the breaker. The panic must
// be re-raised, and the admitted request must still be accounted — as a failure, since a 5xx was
// written: six of them, then a 7th request under the drop answer is refused. (A panic before any
// status is written is not pinned either way: the REST predicate is the status code.)
func restPanicCase(code int) *fail {
	vsched.SetNow(0)
	if restMetrics == nil {
		restMetrics = stat.NewMetrics("c01")
	}
	calls := 0
	boom := true
	next := http.HandlerFunc(func(w http.ResponseWriter, r *http.Request) {
		calls++
		w.WriteHeader(code)
		if boom {
			panic(http.ErrAbortHandler)
		}
	})
	h := handler.BreakerHandler(http.MethodGet, fmt.Sprintf("/c01/panic/%d", code), restMetrics)(next)
	do := func() (status int, called, panicked bool) {
		before := calls
		hook.mode = ansDrop
		rec := httptest.NewRecorder()
		func() {
			defer func() {
				if p := recover(); p != nil {
					panicked = true
				}
			}()
			h.ServeHTTP(rec, httptest.NewRequest(http.MethodGet, "/c01", nil))
		}()
		hook.mode = ansPass
		return rec.Code, calls > before, panicked
	}
	for i := 1; i <= 6; i++ {
		st, called, panicked := do()
		if !called {
			return &fail{"rest-5xx-rejected-early", fmt.Sprintf("BreakerHandler: request %d (answers %d, then panics) was refused with %d although only %d failures were recorded before it", i, code, st, i-1)}
		}
		if !panicked {
			return &fail{"rest-panic-swallowed", fmt.Sprintf("BreakerHandler: the handler's panic of request %d was not re-raised", i)}
		}
	}
	boom = false
	st, called, _ := do()
	if called || st != http.StatusServiceUnavailable {
		return &fail{"rest-panic-after-5xx-not-counted-as-failure", fmt.Sprintf("BreakerHandler: after six requests that answered %d and then panicked, the 7th request (coin = drop) was passed through (called=%v status=%d): the panicking requests were not recorded as failures", code, called, st)}
	}
	return nil
}

// ---------- gRPC ----------

var grpcFailureCodes = map[gcodes.Code]bool{
	gcodes.DeadlineExceeded: true, gcodes.ResourceExhausted: true, gcodes.Unimplemented: true,
	gcodes.Internal: true, gcodes.Unavailable: true, gcodes.DataLoss: true,
}

type namedErr struct {
	name    string
	err     error
	success bool
}

func grpcErrors(server bool) []namedErr {
	out := []namedErr{{"nil", nil, true}}
	for c := gcodes.Code(1); c <= gcodes.Unauthenticated; c++ {
		out = append(out, namedErr{"status:" + c.String(), status.Error(c, "c01"), !grpcFailureCodes[c]})
	}
	out = append(out,
		namedErr{"status-from-ctx:canceled", status.FromContextError(context.Canceled).Err(), true},
		namedErr{"status-from-ctx:deadline", status.FromContextError(context.DeadlineExceeded).Err(), false},
		namedErr{"plain-error", errors.New("c01 plain"), true}, // no status: code Unknown
		namedErr{"raw:context.Canceled", context.Canceled, true},
	)
	if server {
		out = append(out,
			namedErr{"raw:context.DeadlineExceeded", context.DeadlineExceeded, false},
			namedErr{"nested:ErrServiceUnavailable", breaker.ErrServiceUnavailable, false},
		)
	} else {
		// a nested breaker's sentinel carries no gRPC status: code Unknown, not a listed failure
		out = append(out,
			namedErr{"nested:ErrServiceUnavailable", breaker.ErrServiceUnavailable, true},
			namedErr{"nested-wrapped:ErrServiceUnavailable", errWrapped, true},
		)
	}
	return out
}

func findErr(list []namedErr, name string) (namedErr, bool) {
	for _, e := range list {
		if e.name == name {
			return e, true
		}
	}
	return namedErr{}, false
}

func namedTotals(name string) (s, f, d int64) {
	if !breaker.VerifRegistered(name) {
		return 0, 0, 0
	}
	_, s, f, d = breaker.VerifTotals(breaker.GetBreaker(name))
	return
}

var grpcConn *grpc.ClientConn
var grpcSeq int

// oneRecord checks the window delta of a named breaker: exactly one record of the wanted kind.
func oneRecord(what, bname string, s0, f0, d0 int64, want Kind) *fail {
	s1, f1, d1 := namedTotals(bname)
	ds, df, dd := s1-s0, f1-f0, d1-d0
	var ws, wf, wd int64
	switch want {
	case KS:
		ws = 1
	case KF:
		wf = 1
	case KD:
		wd = 1
	}
	if ds != ws || df != wf || dd != wd {
		cls := "wrapper-wrong-kind"
		switch {
		case ds+df+dd == 0:
			cls = "wrapper-not-recorded"
		case ds+df+dd > 1:
			cls = "wrapper-recorded-twice"
		}
		return &fail{cls + ":" + what, fmt.Sprintf("%s: breaker %q changed by S%+d F%+d D%+d, want exactly one %v record", what, bname, ds, df, dd, want)}
	}
	return nil
}

// grpcCase: kind = zrpc-client | zrpc-unary | zrpc-stream; mode (Code): 0 one request on a fresh
// breaker, 1 done context, 2 request on a breaker that is throttling (coin = drop).
func grpcCase(kind string, errName string, mode int) *fail {
	vsched.SetNow(0)
	server := kind != "zrpc-client"
	ne, ok := findErr(grpcErrors(server), errName)
	if !ok {
		return &fail{"bad-case", "unknown error " + errName}
	}
	grpcSeq++
	method := fmt.Sprintf("/c01.Svc/M%d", grpcSeq)
	bname := method
	if !server {
		if grpcConn == nil {
			cc, err := grpc.NewClient("passthrough:///c01", grpc.WithTransportCredentials(insecure.NewCredentials()))
			if err != nil {
				vlib.Fatal("grpc.NewClient: %v", err)
			}
			grpcConn = cc
		}
		bname = path.Join(grpcConn.Target(), method)
	}
	defer breaker.VerifForget(bname)
	ctx := context.Background()
	if mode == 1 {
		c, cancel := context.WithCancel(ctx)
		cancel()
		ctx = c
	}
	if mode == 2 {
		b := breaker.GetBreaker(bname)
		for i := 0; i < 60; i++ {
			b.Do(func() error { return errBad })
		}
	}
	calls := 0
	respVal := &struct{ x int }{7}
	var err error
	var resp any
	s0, f0, d0 := namedTotals(bname)
	hook.mode = ansDrop
	switch kind {
	case "zrpc-client":
		err = zrpc.VerifClientBreakerInterceptor(ctx, method, nil, nil, grpcConn,
			func(ctx context.Context, m string, req, reply any, cc *grpc.ClientConn, opts ...grpc.CallOption) error {
				calls++
				return ne.err
			})
	case "zrpc-unary":
		resp, err = zrpc.VerifUnaryServerBreakerInterceptor(ctx, nil, &grpc.UnaryServerInfo{FullMethod: method},
			func(ctx context.Context, req any) (any, error) {
				calls++
				return respVal, ne.err
			})
	case "zrpc-stream":
		if mode == 1 {
			hook.mode = ansPass
			return nil // no context on the stream interceptor
		}
		err = zrpc.VerifStreamServerBreakerInterceptor(nil, nil, &grpc.StreamServerInfo{FullMethod: method},
			func(srv any, stream grpc.ServerStream) error {
				calls++
				return ne.err
			})
	}
	hook.mode = ansPass
	what := kind + "/" + errName
	if !breaker.VerifRegistered(bname) && mode != 1 {
		return &fail{"harness-breaker-name", fmt.Sprintf("%s: no breaker registered under %q", what, bname)}
	}
	switch mode {
	case 1:
		if calls != 0 {
			return &fail{"wrapper-done-ctx-ran-request:" + kind, what + ": handler ran although the context was done"}
		}
		if !errors.Is(err, context.Canceled) {
			return &fail{"wrapper-done-ctx-wrong-error:" + kind, fmt.Sprintf("%s: done context: returned %v, want context.Canceled", what, err)}
		}
		s1, f1, d1 := namedTotals(bname)
		if s1 != s0 || f1 != f0 || d1 != d0 {
			return &fail{"wrapper-done-ctx-recorded:" + kind, what + ": done context changed the window"}
		}
		return nil
	case 2:
		if calls != 0 {
			return &fail{"wrapper-rejected-ran-request:" + kind, what + ": handler ran although the breaker refused (60 failures, coin = drop)"}
		}
		if server {
			if status.Code(err) != gcodes.Unavailable {
				return &fail{"wrapper-reject-wrong-error:" + kind, fmt.Sprintf("%s: rejection surfaced as %v, want status Unavailable", what, err)}
			}
		} else if !errors.Is(err, breaker.ErrServiceUnavailable) {
			return &fail{"wrapper-reject-wrong-error:" + kind, fmt.Sprintf("%s: rejection surfaced as %v, want ErrServiceUnavailable", what, err)}
		}
		return oneRecord(what, bname, s0, f0, d0, KD)
	}
	if calls != 1 {
		return &fail{"wrapper-request-count:" + kind, fmt.Sprintf("%s: handler ran %d times", what, calls)}
	}
	if kind == "zrpc-unary" && resp != any(respVal) {
		return &fail{"wrapper-response-changed:" + kind, what + ": response not passed through"}
	}
	if server && errors.Is(ne.err, breaker.ErrServiceUnavailable) {
		if status.Code(err) != gcodes.Unavailable {
			return &fail{"wrapper-error-changed:" + kind, fmt.Sprintf("%s: returned %v, want status Unavailable", what, err)}
		}
	} else if err != ne.err {
		return &fail{"wrapper-error-changed:" + kind, fmt.Sprintf("%s: handler returned %v, interceptor returned %v", what, ne.err, err)}
	}
	want := KF
	if ne.success {
		want = KS
	}
	return oneRecord(what, bname, s0, f0, d0, want)
}

// ---------- redis ----------

func redisErrors() []namedErr {
	return []namedErr{
		{"nil", nil, true},
		{"redis.Nil", red.Nil, true},
		{"context.Canceled", context.Canceled, true},
		{"context.DeadlineExceeded", context.DeadlineExceeded, false},
		{"io.EOF", io.EOF, false},
		{"plain-error", errors.New("ERR c01"), false},
		{"tx-failed", red.TxFailedErr, false},
		{"closed", red.ErrClosed, false},
		// the command failed with another breaker's rejection (stacked breakers): a failure of
		// this call, admitted like any other: run once, error unchanged
		{"nested:ErrServiceUnavailable", breaker.ErrServiceUnavailable, false},
		{"nested-wrapped:ErrServiceUnavailable", errWrapped, false},
		{"same-text-as-sentinel", errSameText, false},
	}
}

// redisCase: Code 0 = single command "get", 1 = pipeline, 2 = blpop (bypasses the breaker);
// first through a counting fake breaker, then through a real one (window delta).
func redisCase(errName string, mode int) *fail {
	vsched.SetNow(0)
	ne, ok := findErr(redisErrors(), errName)
	if !ok {
		return &fail{"bad-case", "unknown error " + errName}
	}
	ctx := context.Background()
	what := fmt.Sprintf("redis-hook/%s/mode%d", errName, mode)
	run := func(b breaker.Breaker) (calls int, err error) {
		h := redis.VerifBreakerHook(b)
		switch mode {
		case 1:
			ph := h.ProcessPipelineHook(func(ctx context.Context, cmds []red.Cmder) error { calls++; return ne.err })
			err = ph(ctx, []red.Cmder{red.NewStringCmd(ctx, "get", "k"), red.NewStringCmd(ctx, "get", "q")})
		case 2:
			ph := h.ProcessHook(func(ctx context.Context, cmd red.Cmder) error { calls++; return ne.err })
			err = ph(ctx, red.NewStringSliceCmd(ctx, "blpop", "k", 1))
		default:
			ph := h.ProcessHook(func(ctx context.Context, cmd red.Cmder) error { calls++; return ne.err })
			err = ph(ctx, red.NewStringCmd(ctx, "get", "k"))
		}
		return
	}
	fb := newFake()
	calls, err := run(fb)
	if calls != 1 {
		return &fail{"wrapper-request-count:redis", fmt.Sprintf("%s: command ran %d times", what, calls)}
	}
	if err != ne.err {
		return &fail{"wrapper-error-changed:redis", fmt.Sprintf("%s: command returned %v, hook returned %v", what, ne.err, err)}
	}
	if mode == 2 {
		if fb.total() != 0 {
			return &fail{"redis-blocking-command-through-breaker", what + ": blpop went through the breaker"}
		}
		return nil
	}
	if fb.total() != 1 || len(fb.verdicts) != 1 {
		return &fail{"wrapper-breaker-calls:redis", fmt.Sprintf("%s: breaker consulted %d times (%v)", what, fb.total(), fb.calls)}
	}
	if fb.verdicts[0] != ne.success {
		return &fail{"redis-classification:" + errName, fmt.Sprintf("%s: classified as success=%v, documented success=%v", what, fb.verdicts[0], ne.success)}
	}
	// and through a real breaker
	b := breaker.NewBreaker()
	_, s0, f0, d0 := breaker.VerifTotals(b)
	calls, err = run(b)
	_, s1, f1, d1 := breaker.VerifTotals(b)
	if calls != 1 || err != ne.err {
		return &fail{"wrapper-error-changed:redis", fmt.Sprintf("%s (real breaker): ran %d times, returned %v", what, calls, err)}
	}
	ws, wf := int64(0), int64(1)
	if ne.success {
		ws, wf = 1, 0
	}
	if s1-s0 != ws || f1-f0 != wf || d1 != d0 {
		return &fail{"wrapper-wrong-kind:redis", fmt.Sprintf("%s: real breaker changed by S%+d F%+d D%+d", what, s1-s0, f1-f0, d1-d0)}
	}
	return nil
}

// ---------- sqlx ----------

var errUserOK = errors.New("c01 user-accepted error")

func sqlErrors() []namedErr {
	return []namedErr{
		{"nil", nil, true},
		{"sql.ErrNoRows", sql.ErrNoRows, true},
		{"sql.ErrTxDone", sql.ErrTxDone, true},
		{"context.Canceled", context.Canceled, true},
		{"context.DeadlineExceeded", context.DeadlineExceeded, false},
		{"sql.ErrConnDone", sql.ErrConnDone, false},
		{"plain-error", errors.New("c01 db down"), false},
		{"user-accepted", errUserOK, false}, // success only with the WithAcceptable option
		{"nested:ErrServiceUnavailable", breaker.ErrServiceUnavailable, false},
		{"nested-wrapped:ErrServiceUnavailable", errWrapped, false},
	}
}

// sqlCase: mode 0 ExecCtx, 1 QueryRowCtx, 2 TransactCtx (fn returns the error), 3 ExecCtx with
// too few arguments (formatting error), 4 QueryRowCtx whose scan fails.
func sqlCase(errName string, mode int, opt bool) *fail {
	vsched.SetNow(0)
	ne, ok := findErr(sqlErrors(), errName)
	if !ok {
		return &fail{"bad-case", "unknown error " + errName}
	}
	success := ne.success || (opt && ne.err == errUserOK)
	db, mock, err := sqlmock.New(sqlmock.QueryMatcherOption(sqlmock.QueryMatcherEqual))
	if err != nil {
		vlib.Fatal("sqlmock: %v", err)
	}
	defer db.Close()
	fb := newFake()
	var opts []sqlx.SqlOption
	if opt {
		opts = append(opts, sqlx.WithAcceptable(func(err error) bool { return errors.Is(err, errUserOK) }))
	}
	conn := sqlx.VerifNewConn(db, fb, opts...)
	ctx := context.Background()
	what := fmt.Sprintf("sqlx/%s/mode%d/opt=%v", errName, mode, opt)
	var got error
	switch mode {
	case 0:
		ex := mock.ExpectExec("update t set a=1")
		if ne.err != nil {
			ex.WillReturnError(ne.err)
		} else {
			ex.WillReturnResult(sqlmock.NewResult(1, 1))
		}
		_, got = conn.ExecCtx(ctx, "update t set a=1")
	case 1:
		q := mock.ExpectQuery("select a from t")
		if ne.err != nil {
			q.WillReturnError(ne.err)
		} else {
			q.WillReturnRows(sqlmock.NewRows([]string{"a"}).AddRow(5))
		}
		var v int
		got = conn.QueryRowCtx(ctx, &v, "select a from t")
	case 2:
		mock.ExpectBegin()
		if ne.err != nil {
			mock.ExpectRollback()
		} else {
			mock.ExpectCommit()
		}
		got = conn.TransactCtx(ctx, func(context.Context, sqlx.Session) error { return ne.err })
	case 3:
		_, got = conn.ExecCtx(ctx, "update t set a=? where b=?", 1)
		if got == nil {
			return &fail{"sqlx-arg-mismatch-accepted-silently", what + ": too few arguments gave no error"}
		}
		success = true
	case 4:
		mock.ExpectQuery("select a from t").WillReturnRows(sqlmock.NewRows([]string{"a"}).AddRow("not-a-number"))
		var v int
		got = conn.QueryRowCtx(ctx, &v, "select a from t")
		if got == nil {
			return &fail{"harness-sql-scan", what + ": scan unexpectedly succeeded"}
		}
		success = true
	}
	if mode <= 2 && !errors.Is(got, ne.err) && !(got == nil && ne.err == nil) {
		return &fail{"wrapper-error-changed:sqlx", fmt.Sprintf("%s: injected %v, returned %v", what, ne.err, got)}
	}
	if mode <= 2 && ne.err == nil && got != nil {
		return &fail{"wrapper-error-changed:sqlx", fmt.Sprintf("%s: no error injected, returned %v", what, got)}
	}
	if fb.total() != 1 || len(fb.verdicts) != 1 {
		return &fail{"wrapper-breaker-calls:sqlx", fmt.Sprintf("%s: breaker consulted %d times (%v)", what, fb.total(), fb.calls)}
	}
	if fb.verdicts[0] != success {
		return &fail{fmt.Sprintf("sqlx-classification:%s/mode%d", errName, mode), fmt.Sprintf("%s: classified as success=%v, documented success=%v", what, fb.verdicts[0], success)}
	}
	if e := mock.ExpectationsWereMet(); e != nil && mode != 3 {
		return &fail{"wrapper-request-count:sqlx", fmt.Sprintf("%s: %v", what, e)}
	}
	return nil
}

// ---------- enumeration ----------

func runWrapCase(c WrapCase) *fail {
	switch c.Kind {
	case "rest":
		return restCase(c.Code)
	case "rest-panic":
		return restPanicCase(c.Code)
	case "zrpc-client", "zrpc-unary", "zrpc-stream":
		return grpcCase(c.Kind, c.Err, c.Code)
	case "redis":
		return redisCase(c.Err, c.Code)
	case "sqlx":
		return sqlCase(c.Err, c.Code, c.Opt)
	}
	if f, ok := runWrapCase2(c); ok {
		return f
	}
	return &fail{"bad-case", "unknown wrapper " + c.Kind}
}

func wrapCases() []WrapCase {
	var cs []WrapCase
	cs = append(cs, WrapCase{Kind: "rest", Code: 0})
	for code := 200; code <= 599; code++ {
		cs = append(cs, WrapCase{Kind: "rest", Code: code})
	}
	for _, code := range []int{500, 502, 503, 504, 599} {
		cs = append(cs, WrapCase{Kind: "rest-panic", Code: code})
	}
	for _, kind := range []string{"zrpc-client", "zrpc-unary", "zrpc-stream"} {
		for _, ne := range grpcErrors(kind != "zrpc-client") {
			for mode := 0; mode <= 2; mode++ {
				if kind == "zrpc-stream" && mode == 1 {
					continue
				}
				cs = append(cs, WrapCase{Kind: kind, Err: ne.name, Code: mode})
			}
		}
	}
	for _, ne := range redisErrors() {
		for mode := 0; mode <= 2; mode++ {
			cs = append(cs, WrapCase{Kind: "redis", Err: ne.name, Code: mode})
		}
	}
	for _, ne := range sqlErrors() {
		for mode := 0; mode <= 2; mode++ {
			for _, opt := range []bool{false, true} {
				cs = append(cs, WrapCase{Kind: "sqlx", Err: ne.name, Code: mode, Opt: opt})
			}
		}
	}
	cs = append(cs, WrapCase{Kind: "sqlx", Err: "nil", Code: 3}, WrapCase{Kind: "sqlx", Err: "nil", Code: 4})
	cs = append(cs, wrapCases2()...)
	return cs
}

func runWrappers(r *vlib.Report) {
	n := map[string]int{}
	for _, c := range wrapCases() {
		c := c
		f := runWrapCase(c)
		r.Eval(1)
		n[c.Kind]++
		r.Nontrivial("wrap|" + c.String())
		if f != nil {
			r.Violation(f.class, fmt.Sprintf("wrapper case %v: %s", c, f.msg), Case{Engine: "wrapper", Wrap: &c})
		}
	}
	hook.mode = ansPass
	r.Scenario("wrappers", n)
}

func replayWrapper(c *WrapCase) *fail {
	if c == nil {
		return &fail{"bad-case", "no wrapper case in replay"}
	}
	fmt.Printf("wrapper case: %v\n", *c)
	return runWrapCase(*c)
}
