// C01 — circuit breaker: admission law, exact accounting, guaranteed probing.
//
// Three engines in one binary (see NOTES.md):
//
//	(A) history engine  hist.go   explicit-state search over call/time histories of the real
//	                              breaker (fake clock, coin owned through vsched.FloatHook), with
//	                              a look-ahead probe of every entry point in every state;
//	(B) schedule engine sched.go  every interleaving (bounded preemptions) of 2-3 concurrent calls
//	                              on a pre-loaded breaker under the controlled scheduler;
//	(C) wrappers        wrap.go   exhaustive enumeration of the outcome classification of the
//	                              rest / zrpc / redis / sqlx wrappers around the breaker.
package main

import (
	"encoding/json"
	"fmt"
	"os"
	"runtime/debug"
	"runtime/pprof"
	"time"

	"github.com/zeromicro/go-zero/core/logx"
	"github.com/zeromicro/go-zero/core/stat"
	"github.com/zeromicro/go-zero/verifshim/vlib"
)

func main() {
	cfg := vlib.ParseFlags("C01", "model_checking")
	r := vlib.NewReport(cfg)
	logx.Disable()
	stat.DisableLog()
	stat.SetReporter(nil)
	installHook()
	debug.SetGCPercent(1000) // tiny live heap, millions of short-lived calls: GC cycles dominate otherwise

	if pf := os.Getenv("C01_BENCH"); pf != "" {
		f, _ := os.Create(pf)
		pprof.StartCPUProfile(f)
		t0 := time.Now()
		n := 0
		for i := 0; i < 300; i++ {
			st, fl, _ := probeAll([]Op{{K: "FFF"}, {K: "J", D: sec + 1}, {K: "F"}, {K: "SS"}})
			if fl != nil {
				fmt.Println(fl)
			}
			n += st.Probes
		}
		pprof.StopCPUProfile()
		f.Close()
		fmt.Printf("bench: %d probes in %v: %.2f us/probe\n", n, time.Since(t0), float64(time.Since(t0).Microseconds())/float64(n))
		os.Exit(0)
	}
	if cfg.Replay != "" {
		b, err := os.ReadFile(cfg.Replay)
		if err != nil {
			vlib.Fatal("cannot read replay: %v", err)
		}
		var probe struct {
			Replay struct {
				Scenario string `json:"scenario"`
			} `json:"replay"`
		}
		json.Unmarshal(b, &probe)
		if probe.Replay.Scenario != "" {
			runSchedules(cfg, r) // vx replays it and exits
		}
		var c Case
		class, err := vlib.LoadReplay(cfg.Replay, &c)
		if err != nil {
			vlib.Fatal("cannot load replay: %v", err)
		}
		replayCase(r, class, c)
		r.Finish()
	}
	if cfg.Shard != "" {
		runSchedules(cfg, r) // vx worker: never returns
	}
	if cfg.BFSWorker != "" {
		runHistory(cfg, r, time.Time{}) // serves transitions until stdin closes
		os.Exit(0)
	}

	r.Assume("the 'preceding 10 s window' is bracketed: a rejection is legal when the law holds for some suffix of the history of length between 9.75 s (10 s minus one 250 ms bucket) and 10 s; the breaker's own bucket alignment is not pinned")
	r.Assume("random drop decisions are owned through the Float64 seam of mathx.Proba (drop / pass / threshold value); 'overwhelming majority' is decided as a bound on the probability handed to that seam plus deterministic 2000-call lanes with the coin fixed at 1/2")
	r.Assume("calls with an already-done context are a third category (interface doc): request not run, ctx.Err() returned, nothing recorded")

	runWrappers(r)
	// time box of the history engine; the schedule engine gets the rest
	hd := cfg.Start.Add(200 * time.Second)
	if cfg.Thorough() {
		hd = cfg.Start.Add(12 * time.Minute)
	}
	runHistory(cfg, r, hd)
	runLanes(r)
	runSchedules(cfg, r) // finishes the report and exits
}

func replayCase(r *vlib.Report, class string, c Case) {
	fmt.Printf("replay engine=%s class=%s\n", c.Engine, class)
	switch c.Engine {
	case "history":
		fmt.Printf("history: %v\n", c.Path)
		var f *fail
		var in *inst
		if c.Probe != nil {
			fmt.Printf("look-ahead call: %v\n", *c.Probe)
			_, f, in = runProbe(c.Path, *c.Probe, true)
		} else {
			in, f, _ = replay(c.Path, true)
		}
		for _, l := range in.log {
			fmt.Println(l)
		}
		fmt.Printf("  final state: %s\n", in.key())
		if f != nil {
			fmt.Printf("observed: class=%s %s\n", f.class, f.msg)
			r.Violation(f.class, f.msg, c)
		} else {
			fmt.Println("observed: history satisfies every oracle")
		}
	case "lane":
		res, f := runLane(c.Rate, true)
		fmt.Printf("lane %d/s: %d of %d rejected\n", res.Rate, res.Rejected, res.Calls)
		if f != nil {
			fmt.Printf("observed: class=%s %s\n", f.class, f.msg)
			r.Violation(f.class, f.msg, c)
		} else {
			fmt.Println("observed: lane satisfies the oracle")
		}
	case "wrapper":
		if f := replayWrapper(c.Wrap); f != nil {
			fmt.Printf("observed: class=%s %s\n", f.class, f.msg)
			r.Violation(f.class, f.msg, c)
		} else {
			fmt.Println("observed: wrapper case satisfies the oracle")
		}
	default:
		vlib.Fatal("unknown replay engine %q", c.Engine)
	}
	r.Eval(1)
}
