package main

import (
	"fmt"
	"strconv"
	"strings"
	"time"

	"github.com/zeromicro/go-zero/core/breaker"
	"github.com/zeromicro/go-zero/verifshim/vlib"
	"github.com/zeromicro/go-zero/verifshim/vsched"
	"github.com/zeromicro/go-zero/verifshim/vx"
)

// ---- schedule engine --------------------------------------------------------------------------
//
// A scenario: a breaker pre-loaded by a deterministic sequential prefix, then 2-3 threads doing one
// call each, all interleavings within the preemption bound; the coin is an explorer choice.
// Shared observations go through the execution log:
//   W0 s f d        window totals after the prefix            (main)
//   B i             thread i is about to call
//   R i             request of thread i runs
//   H tid c         coin consulted by thread tid, answer c (0 pass, 1 drop)
//   E i verdict class|msg   call of thread i returned (black-box verdict of judge())
//   W1 s f d        window totals at quiescence                (main)

type thrSpec struct {
	E     Entry
	Out   int
	Sleep time.Duration // virtual sleep before the call (bucket-boundary variant)
}

func preload(b breaker.Breaker, pre string) {
	call := func(out int) { doCall(b, "", Entry{Base: bDo}, out, virtCtx, nil) }
	switch pre {
	case "closed":
		for i := 0; i < 3; i++ {
			call(oOK)
		}
	case "threshold": // exactly 5 failures: the next non-accepted record arms the law
		for i := 0; i < 5; i++ {
			call(oBad)
		}
	case "throttling": // 9 failures, nothing accepted
		for i := 0; i < 9; i++ {
			call(oBad)
		}
	case "recovering": // throttling with accepted records in the window
		for i := 0; i < 12; i++ {
			call(oBad)
		}
		for i := 0; i < 4; i++ {
			call(oOK)
		}
	}
}

func schedScenario(name, pre string, stale bool, thr []thrSpec, p, t int) vx.Scenario {
	body := func() {
		hook.pre = true
		b := breaker.NewBreaker(breaker.WithName("sched"))
		preload(b, pre)
		if stale {
			vsched.TimeSleep(time.Second + 1) // the last throttled admission is now > 1 s old
		}
		hook.pre = false
		_, s0, f0, d0 := breaker.VerifTotals(b)
		vsched.Log("W0 %d %d %d", s0, f0, d0)
		var wg vsched.WaitGroup
		for i, ts := range thr {
			i, ts := i, ts
			wg.Add(1)
			vsched.GoNamed(fmt.Sprintf("c%d", i), false, func() {
				defer wg.Done()
				if ts.Sleep > 0 {
					vsched.TimeSleep(ts.Sleep)
				}
				vsched.Log("B %d", i)
				o := doCall(b, "", ts.E, ts.Out, virtCtx, func() {
					vsched.Log("R %d", i)
					vsched.Op("in-req")
				})
				verdict, class, msg := judge(ts.E, ts.Out, o)
				vsched.Log("E %d %s %s|%s", i, verdict, class, msg)
			})
		}
		wg.Wait()
		_, s1, f1, d1 := breaker.VerifTotals(b)
		vsched.Log("W1 %d %d %d", s1, f1, d1)
	}
	check := func(e *vsched.Exec) vx.Verdict {
		switch e.Outcome {
		case "ok":
		case "deadlock":
			return vx.Verdict{Class: "deadlock{" + e.BlockedKey() + "}", Msg: "deadlock: " + strings.Join(e.Blocked(), " "), Sig: "deadlock"}
		case "crash":
			return vx.Verdict{Class: "crash", Msg: "uncaught panic: " + strings.Join(e.Panics(), "; "), Sig: "crash"}
		default:
			return vx.Verdict{Class: e.Outcome, Msg: e.Outcome + ": " + strings.Join(e.Blocked(), " "), Sig: e.Outcome}
		}
		n := len(thr)
		bpos, epos := make([]int, n), make([]int, n)
		verdicts := make([]string, n)
		coins := make([]string, n)
		var w0, w1 [3]int64
		seenW := 0
		for pos, l := range e.Log() {
			f := strings.SplitN(l, " ", 4)
			switch f[0] {
			case "W0", "W1":
				var w [3]int64
				fmt.Sscanf(l[3:], "%d %d %d", &w[0], &w[1], &w[2])
				if f[0] == "W0" {
					w0 = w
				} else {
					w1 = w
				}
				seenW++
			case "B":
				i, _ := strconv.Atoi(f[1])
				bpos[i] = pos
			case "H":
				// thread ids: main = 0, callers 1..n in spawn order
				tid, _ := strconv.Atoi(f[1])
				if tid >= 1 && tid <= n {
					coins[tid-1] += f[2]
				}
			case "E":
				i, _ := strconv.Atoi(f[1])
				epos[i] = pos
				verdicts[i] = f[2]
				rest := ""
				if len(f) > 3 {
					rest = f[3]
				}
				cm := strings.SplitN(rest, "|", 2)
				if cm[0] != "" {
					return vx.Verdict{Class: cm[0], Msg: fmt.Sprintf("thread %d: %s", i, cm[1])}
				}
			}
		}
		if seenW != 2 {
			return vx.Verdict{Class: "harness-log", Msg: "window totals missing from the log"}
		}
		// exact accounting at quiescence
		var ws, wf, wd int64
		for i, ts := range thr {
			switch verdicts[i] {
			case vAdmitted:
				if wantKind(ts.E, ts.Out) == KS {
					ws++
				} else {
					wf++
				}
			case vRejected:
				wd++
			}
		}
		gs, gf, gd := w1[0]-w0[0], w1[1]-w0[1], w1[2]-w0[2]
		if gs != ws || gf != wf || gd != wd {
			cls := "concurrent-miscount"
			switch {
			case gs+gf+gd < ws+wf+wd:
				cls = "concurrent-lost-record"
			case gs+gf+gd > ws+wf+wd:
				cls = "concurrent-double-record"
			}
			return vx.Verdict{Class: cls, Msg: fmt.Sprintf("verdicts %v: window gained S%+d F%+d D%+d, want S%+d F%+d D%+d", verdicts, gs, gf, gd, ws, wf, wd)}
		}
		// rejections: the law must hold for the records completed before the call began plus
		// (at most) every concurrent non-accepted one
		for i := range thr {
			if verdicts[i] != vRejected {
				continue
			}
			acc, non := w0[0], w0[1]+w0[2]
			admittedNearby := false
			for j, tj := range thr {
				if j == i || verdicts[j] == vDone || bpos[j] > epos[i] {
					continue
				}
				accepted := verdicts[j] == vAdmitted && wantKind(tj.E, tj.Out) == KS
				if verdicts[j] == vAdmitted {
					admittedNearby = true
				}
				if epos[j] < bpos[i] { // completed before: counts whatever it is
					if accepted {
						acc++
					} else {
						non++
					}
				} else if !accepted { // concurrent: most favourable choice
					non++
				}
			}
			if !law(acc, non) {
				return vx.Verdict{Class: "rejected-below-threshold", Msg: fmt.Sprintf("thread %d rejected; even counting every concurrent non-accepted call the window holds %d non-accepted vs %d accepted (verdicts %v)", i, non, acc, verdicts)}
			}
			if stale && !admittedNearby {
				return vx.Verdict{Class: "forced-probe-rejected", Msg: fmt.Sprintf("thread %d rejected although the previous throttled admission is > 1 s old and no other call was admitted before it returned (verdicts %v)", i, verdicts)}
			}
		}
		sig := make([]string, n)
		for i := range thr {
			sig[i] = verdicts[i][:3]
			if coins[i] != "" {
				sig[i] += "/c" + coins[i]
			}
		}
		return vx.Verdict{Sig: strings.Join(sig, ",")}
	}
	return vx.Scenario{Name: name, Body: body, Check: check, P: p, T: t, SetBound: true}
}

// registryScenario: n threads make the FIRST calls on a named breaker through the package-level
// entry points at the same time. All of them must be recorded in the one breaker registered under
// that name (exact accounting does not stop at the registry), and every lookup must give that breaker.
func registryScenario(name string, p int, outs ...int) vx.Scenario {
	body := func() {
		breaker.VerifResetRegistry()
		var wg vsched.WaitGroup
		for i, out := range outs {
			i, out := i, out
			wg.Add(1)
			vsched.GoNamed(fmt.Sprintf("c%d", i), false, func() {
				defer wg.Done()
				vsched.Log("B %d", i)
				var err error
				func() {
					defer func() { recover() }()
					err = breaker.DoWithAcceptable("named", func() error {
						vsched.Op("in-req")
						switch out {
						case oBad:
							return errBad
						case oPanic:
							panic(panicVal)
						}
						return nil
					}, func(err error) bool { return err == nil })
				}()
				vsched.Log("E %d %v", i, err == breaker.ErrServiceUnavailable)
			})
		}
		wg.Wait()
		b := breaker.GetBreaker("named")
		_, s, f, d := breaker.VerifTotals(b)
		vsched.Log("W %d %d %d %v", s, f, d, b == breaker.GetBreaker("named"))
	}
	check := func(e *vsched.Exec) vx.Verdict {
		if g := vx.Guard(e); g != nil {
			return *g
		}
		var ws, wf int64
		for _, out := range outs {
			if out == oOK {
				ws++
			} else {
				wf++
			}
		}
		for _, l := range e.Log() {
			if strings.HasPrefix(l, "E ") && strings.HasSuffix(l, " true") {
				return vx.Verdict{Class: "rejected-below-threshold", Msg: "a first call on a fresh named breaker was rejected: " + l}
			}
			if strings.HasPrefix(l, "W ") {
				var s, f, d int64
				var same bool
				fmt.Sscanf(l[2:], "%d %d %d %v", &s, &f, &d, &same)
				if !same {
					return vx.Verdict{Class: "registry-unstable-instance", Msg: "two lookups of one name gave different breakers"}
				}
				if s != ws || f != wf || d != 0 {
					return vx.Verdict{Class: "concurrent-lost-record:named-breaker-first-use", Msg: fmt.Sprintf("%d concurrent first calls on a named breaker (outcomes %v): the registered breaker recorded S%d F%d D%d, want S%d F%d D0 — calls were accounted in a breaker nobody can reach", len(outs), outs, s, f, d, ws, wf)}
				}
				return vx.Verdict{Sig: "all-recorded"}
			}
		}
		return vx.Verdict{Class: "harness-log", Msg: "window totals missing from the log"}
	}
	return vx.Scenario{Name: name, Body: body, Check: check, P: p, T: 0, SetBound: true}
}

// noBreakerScenario: one thread registers the name with NoBreakerFor while the others make their
// FIRST calls on that name through the package-level entry points (a lookup that misses, then
// creates and registers a real breaker). Whatever the interleaving, once everything has returned
// the name belongs to the no-op breaker: later use never rejects — eight failing calls with the
// coin at "drop", which a real breaker refuses from the 7th on — and no concurrent call is refused.
func noBreakerScenario(name string, p int, outs ...int) vx.Scenario {
	body := func() {
		hook.pre, hook.post = false, false
		breaker.VerifResetRegistry()
		var wg vsched.WaitGroup
		wg.Add(1)
		vsched.GoNamed("nb", false, func() {
			defer wg.Done()
			vsched.Log("NB")
			breaker.NoBreakerFor("named")
			vsched.Log("NE")
		})
		for i, out := range outs {
			i, out := i, out
			wg.Add(1)
			vsched.GoNamed(fmt.Sprintf("c%d", i), false, func() {
				defer wg.Done()
				vsched.Log("B %d", i)
				var err error
				func() {
					defer func() { recover() }()
					err = breaker.DoWithAcceptable("named", func() error {
						vsched.Op("in-req")
						switch out {
						case oBad:
							return errBad
						case oPanic:
							panic(panicVal)
						}
						return nil
					}, func(err error) bool { return err == nil })
				}()
				vsched.Log("E %d %v", i, err == breaker.ErrServiceUnavailable)
			})
		}
		wg.Wait()
		hook.post = true // later use: the coin says drop
		for k := 0; k < 8; k++ {
			ran := false
			err := breaker.Do("named", func() error { ran = true; return errBad })
			vsched.Log("L %d %v %v", k, ran, err == errBad)
		}
		hook.post = false
	}
	check := func(e *vsched.Exec) vx.Verdict {
		if g := vx.Guard(e); g != nil {
			return *g
		}
		ne := -1
		sig := make([]byte, len(outs))
		later := 0
		for pos, l := range e.Log() {
			switch {
			case l == "NE":
				ne = pos
			case strings.HasPrefix(l, "B "):
				i, _ := strconv.Atoi(l[2:])
				sig[i] = 'b' // began before NoBreakerFor returned
				if ne >= 0 {
					sig[i] = 'a'
				}
			case strings.HasPrefix(l, "E ") && strings.HasSuffix(l, " true"):
				return vx.Verdict{Class: "rejected-below-threshold", Msg: "a first call on a name being registered with NoBreakerFor was rejected: " + l}
			case strings.HasPrefix(l, "L "):
				later++
				if !strings.HasSuffix(l, " true true") {
					return vx.Verdict{Class: "nobreaker-replaced:concurrent-first-use", Msg: fmt.Sprintf("after NoBreakerFor(name) raced %d first calls on the name (%s: a = began after it returned), later failing call %s was refused or altered: the name is registered to a real breaker", len(outs), sig, l)}
				}
			}
		}
		if ne < 0 || later != 8 {
			return vx.Verdict{Class: "harness-log", Msg: "NoBreakerFor / later calls missing from the log"}
		}
		return vx.Verdict{Sig: string(sig)}
	}
	return vx.Scenario{Name: name, Body: body, Check: check, P: p, T: 0, SetBound: true}
}

func runSchedules(cfg *vlib.Config, r *vlib.Report) {
	P := 2
	if cfg.Thorough() {
		P = 3
	}
	en := func(base, cx int) Entry { return Entry{Base: base, Ctx: cx} }
	var sc []vx.Scenario
	add := func(name, pre string, stale bool, p, t int, thr ...thrSpec) {
		sc = append(sc, schedScenario(name, pre, stale, thr, p, t))
	}
	add("closed-3", "closed", false, P, 0,
		thrSpec{E: en(bDo, cxNone), Out: oOK}, thrSpec{E: en(bDoAcc, cxLive), Out: oAccErr}, thrSpec{E: en(bAllow, cxNone), Out: oBad})
	add("threshold-3", "threshold", false, P, 0,
		thrSpec{E: en(bDo, cxNone), Out: oBad}, thrSpec{E: en(bDoFb, cxNone), Out: oPanic}, thrSpec{E: en(bAllow, cxLive), Out: oBad})
	add("threshold-2-mixed", "threshold", false, P+1, 0,
		thrSpec{E: en(bDoFbAcc, cxNone), Out: oBad}, thrSpec{E: en(bDoAcc, cxNone), Out: oAccErr})
	pt3 := 1 // three coin-deciding threads: P=1 in the quick tier (P=2 alone costs ~20 s)
	if cfg.Thorough() {
		pt3 = 3
	}
	add("throttling-3", "throttling", false, pt3, 0,
		thrSpec{E: en(bDoFbAcc, cxNone), Out: oOK}, thrSpec{E: en(bDo, cxLive), Out: oBad}, thrSpec{E: en(bAllow, cxNone), Out: oOK})
	add("throttling-2-done", "throttling", false, P+1, 0,
		thrSpec{E: en(bDoFb, cxCanceled), Out: oOK}, thrSpec{E: en(bDoFb, cxNone), Out: oOK})
	add("stale-2", "throttling", true, P+1, 0,
		thrSpec{E: en(bDo, cxNone), Out: oBad}, thrSpec{E: en(bDoFb, cxNone), Out: oOK})
	add("recovering-2", "recovering", false, P+1, 0,
		thrSpec{E: en(bDoAcc, cxNone), Out: oAccErr}, thrSpec{E: en(bAllow, cxNone), Out: oBad})
	add("threshold-boundary-2", "threshold", false, P, 1,
		thrSpec{E: en(bDo, cxNone), Out: oBad}, thrSpec{E: en(bDoFb, cxNone), Out: oBad, Sleep: 250 * time.Millisecond})
	// value family under concurrency: requests that forward the breaker's own sentinel (plain, wrapped,
	// accepted by the caller's predicate), a context error under a live context, a panic carrying the
	// sentinel, next to genuine rejections of the same breaker: the fallback belongs to the rejected
	// calls only, admitted ones are recorded by the predicate whatever the value.
	add("closed-2-values", "closed", false, P+1, 0,
		thrSpec{E: en(bDoFb, cxNone), Out: oSentinel}, thrSpec{E: en(bDoFbAcc, cxLive), Out: oWrappedAcc})
	add("throttling-2-values", "throttling", false, P+1, 0,
		thrSpec{E: en(bDoFb, cxLive), Out: oWrapped}, thrSpec{E: en(bDoFbAcc, cxNone), Out: oSentinelAcc})
	add("threshold-2-values", "threshold", false, P+1, 0,
		thrSpec{E: en(bDoFb, cxNone), Out: oPanicSentinel}, thrSpec{E: en(bDoAcc, cxLive), Out: oCtxCanceledAcc})
	sc = append(sc, registryScenario("named-first-use-2", P+1, oBad, oOK), registryScenario("named-first-use-3", P, oBad, oBad, oPanic))
	sc = append(sc, noBreakerScenario("nobreaker-vs-first-use-1", P+1, oBad), noBreakerScenario("nobreaker-vs-first-use-2", P, oBad, oOK))
	if cfg.Thorough() {
		add("throttling-3-values", "throttling", false, P-1, 0, // three coin-deciding threads: P=3 costs 3.5 min and 9 GB
			thrSpec{E: en(bDoFb, cxNone), Out: oIsMatch}, thrSpec{E: en(bAllow, cxNone), Out: oSentinel}, thrSpec{E: en(bDoFbAcc, cxLive), Out: oCtxDeadlineAcc})
		add("stale-2-values", "throttling", true, P+1, 0,
			thrSpec{E: en(bDoFb, cxNone), Out: oSentinel}, thrSpec{E: en(bDo, cxLive), Out: oTypedNil})
		add("stale-3", "throttling", true, P, 0,
			thrSpec{E: en(bDo, cxNone), Out: oBad}, thrSpec{E: en(bDoFb, cxNone), Out: oOK}, thrSpec{E: en(bAllow, cxNone), Out: oBad})
		add("recovering-3", "recovering", false, P, 0,
			thrSpec{E: en(bDoAcc, cxNone), Out: oAccErr}, thrSpec{E: en(bAllow, cxNone), Out: oBad}, thrSpec{E: en(bDoFbAcc, cxLive), Out: oPanic})
		add("threshold-boundary-3", "threshold", false, P, 1,
			thrSpec{E: en(bDo, cxNone), Out: oBad}, thrSpec{E: en(bDoFb, cxNone), Out: oBad, Sleep: 250 * time.Millisecond}, thrSpec{E: en(bAllow, cxNone), Out: oBad})
	}
	rule := "(A) history engine: explicit-state BFS over histories of calls (S/F through rotating entry points, bursts Sx10/Fx6/Fx60, coin answer drop/pass) and time jumps (1 ns .. 25 s incl. bucket/window boundaries +-1 ns) on the real breaker under a fake clock; a state is distinct by its canonical white-box dump (buckets by age, phase, lastPass age) + reference records, non-trivial when the window holds at least one record; in EVERY state every entry point x outcome kind {ok, unacceptable error, acceptable error, panic} x coin answer is probed one step ahead; in every state of depth <= 3 (thorough 4) additionally the complete VALUE family: the request returns / panics with a value a shortcut could single out (ErrServiceUnavailable itself, wrapped with %w, matched through Is(), same text, context.Canceled / DeadlineExceeded under a live context, a typed nil; each accepted and not accepted by the caller's predicate), the fallback answers {own error, nil, its argument, its argument wrapped}, through all 18 entry points plus the forms 'context cancelled while the request runs' and 'nil fallback' (deeper states: one member per entry point, fixed by the history). " +
		"(B) schedule engine: every interleaving within the preemption bound of 2-3 concurrent calls on a pre-loaded breaker, distinct by (scenario, verdict vector + coin answers). " +
		"(C) wrappers: every status code 200-599 / gRPC code / listed error through the rest, zrpc, redis and sqlx wrappers (sqlx: every query form of sqlconn.go x listed error x WithAcceptable on/off x {fake breaker, NewSqlConnFromDB, NewSqlConn}; redis dial hook; NoBreakerFor through every package-level entry point, also raced against concurrent first use in (B)), distinct by (wrapper, input)."
	vx.Main(cfg, r, sc, vx.Bounds{P: 2, T: 0}, vx.Bounds{P: 3, T: 0}, rule)
}
