package main

import (
	"github.com/zeromicro/go-zero/verifshim/vlib"
)

func runSchedules(cfg *vlib.Config, r *vlib.Report) {
	r.Finish()
}
