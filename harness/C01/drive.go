package main

import (
	"context"
	"errors"
	"fmt"
	"time"

	"github.com/zeromicro/go-zero/core/breaker"
	"github.com/zeromicro/go-zero/verifshim/vsched"
)

// ---- the random seam -------------------------------------------------------------------------
//
// mathx.Proba.TrueOnProba(p) is `rand.Float64() < p`; the rewritten mathx draws from
// vsched.Rand, whose Float64 answers are owned here.
//   pass : 1-2^-53  (never < p for any p < 1)
//   drop : 0        (always < p for any p > 0)
//   at v : v        (rejects iff p > v: measures the probability handed to the seam)

const (
	ansPass = 0
	ansDrop = 1
	ansAt   = 2
)

var hook struct {
	mode  int
	at    float64
	calls int
	pre   bool // schedule engine: deterministic "pass" while the prefix is loaded
	post  bool // schedule engine: deterministic "drop" in a scenario's sequential epilogue
}

const passValue = 1 - 1.0/(1<<53)

func installHook() {
	vsched.FloatHook = func() (float64, bool) {
		if vsched.Managed() {
			if hook.pre {
				return passValue, true
			}
			if hook.post {
				return 0, true
			}
			c := vsched.Choose(2)
			vsched.Log("H %d %d", vsched.ThreadID(), c)
			if c == 1 {
				return 0, true
			}
			return passValue, true
		}
		hook.calls++
		switch hook.mode {
		case ansDrop:
			return 0, true
		case ansAt:
			return hook.at, true
		}
		return passValue, true
	}
}

// ---- entry points ----------------------------------------------------------------------------

const (
	bDo = iota
	bDoAcc
	bDoFb
	bDoFbAcc
	bAllow
)

const (
	cxNone = iota
	cxLive
	cxCanceled
	cxDeadline
	cxEndsInReq // live when the call is made; cancelled by the time the request returns
)

const (
	oOK = iota
	oBad
	oAccErr
	oPanic
	// value outcomes: what the request returns (or panics with) is a value some shortcut could
	// single out. Each error value comes twice: not accepted / accepted by the caller's predicate.
	oSentinel       // breaker.ErrServiceUnavailable itself (forwarded from a nested / downstream breaker)
	oSentinelAcc    //   ... and the caller's predicate accepts it
	oWrapped        // fmt.Errorf("...: %w", ErrServiceUnavailable)
	oWrappedAcc     //
	oIsMatch        // an error of a foreign type whose Is() matches ErrServiceUnavailable
	oIsMatchAcc     //
	oSameText       // a different error with the sentinel's text
	oSameTextAcc    //
	oCtxCanceled    // context.Canceled returned by the request although the call's context is live
	oCtxCanceledAcc //
	oCtxDeadline    // context.DeadlineExceeded, ditto
	oCtxDeadlineAcc //
	oTypedNil       // a nil pointer of an error type: a non-nil error
	oTypedNilAcc    //
	oPanicSentinel  // panic(breaker.ErrServiceUnavailable)
	nOutcomes
)

// what the fallback answers IF it is run (part of the call's script; whether it runs is the
// breaker's business). The statement: a rejected call "runs the fallback exactly once" and the
// result of the call is the fallback's.
const (
	fbOwn     = iota // an error of its own
	fbNil            // swallows the rejection
	fbArg            // hands back the error it was given
	fbWrapArg        // wraps the error it was given
)

// nilErr: its nil pointer is a perfectly usable error value.
type nilErr struct{}

func (e *nilErr) Error() string { return "c01: typed nil error" }

// isErr: matches the breaker's sentinel through Is only (no Unwrap, different text).
type isErr struct{}

func (e *isErr) Error() string        { return "c01: downstream unavailable" }
func (e *isErr) Is(target error) bool { return target == breaker.ErrServiceUnavailable }

type outDef struct {
	name   string
	val    error // what the request returns
	panics bool
	pval   any
	acc    bool // the caller's predicate (DoWith*Acceptable*) / the caller itself (Allow) accepts val
	value  bool // member of the value family (look-ahead depth bound valueDepth)
	fb     int  // the fallback's answer, if it is run
}

var (
	errWrapped  = fmt.Errorf("c01 downstream: %w", breaker.ErrServiceUnavailable)
	errIsMatch  = error(&isErr{})
	errSameText = errors.New(breaker.ErrServiceUnavailable.Error())
	errTypedNil = error((*nilErr)(nil))
)

var outcomes = [nOutcomes]outDef{
	oOK:             {name: "ok"},
	oBad:            {name: "unacceptable-error", val: errBad},
	oAccErr:         {name: "acceptable-error", val: errAcc, acc: true},
	oPanic:          {name: "panic", panics: true, pval: panicVal},
	oSentinel:       {name: "returns-ErrServiceUnavailable", val: breaker.ErrServiceUnavailable, value: true, fb: fbNil},
	oSentinelAcc:    {name: "returns-ErrServiceUnavailable/accepted", val: breaker.ErrServiceUnavailable, acc: true, value: true, fb: fbArg},
	oWrapped:        {name: "returns-wrapped-ErrServiceUnavailable", val: errWrapped, value: true, fb: fbArg},
	oWrappedAcc:     {name: "returns-wrapped-ErrServiceUnavailable/accepted", val: errWrapped, acc: true, value: true, fb: fbNil},
	oIsMatch:        {name: "returns-error-that-Is-ErrServiceUnavailable", val: errIsMatch, value: true, fb: fbWrapArg},
	oIsMatchAcc:     {name: "returns-error-that-Is-ErrServiceUnavailable/accepted", val: errIsMatch, acc: true, value: true, fb: fbOwn},
	oSameText:       {name: "returns-error-with-sentinel-text", val: errSameText, value: true, fb: fbOwn},
	oSameTextAcc:    {name: "returns-error-with-sentinel-text/accepted", val: errSameText, acc: true, value: true, fb: fbWrapArg},
	oCtxCanceled:    {name: "returns-context.Canceled", val: context.Canceled, value: true, fb: fbNil},
	oCtxCanceledAcc: {name: "returns-context.Canceled/accepted", val: context.Canceled, acc: true, value: true, fb: fbArg},
	oCtxDeadline:    {name: "returns-context.DeadlineExceeded", val: context.DeadlineExceeded, value: true, fb: fbArg},
	oCtxDeadlineAcc: {name: "returns-context.DeadlineExceeded/accepted", val: context.DeadlineExceeded, acc: true, value: true, fb: fbNil},
	oTypedNil:       {name: "returns-typed-nil-error", val: errTypedNil, value: true, fb: fbWrapArg},
	oTypedNilAcc:    {name: "returns-typed-nil-error/accepted", val: errTypedNil, acc: true, value: true, fb: fbOwn},
	oPanicSentinel:  {name: "panics-with-ErrServiceUnavailable", panics: true, pval: breaker.ErrServiceUnavailable, value: true, fb: fbArg},
}

var outcomeNames = func() (n [nOutcomes]string) {
	for i, d := range outcomes {
		n[i] = d.name
	}
	return
}()

type Entry struct {
	Base   int  `json:"base"`
	Ctx    int  `json:"ctx"`
	ByName bool `json:"byname,omitempty"`
	NilFb  bool `json:"nilfb,omitempty"` // fallback forms handed a nil fallback ("the fallback (if any)")
}

func (e Entry) String() string {
	n := [...]string{"Do", "DoWithAcceptable", "DoWithFallback", "DoWithFallbackAcceptable", "Allow"}[e.Base]
	if e.Ctx != cxNone {
		n += "Ctx"
	}
	switch e.Ctx {
	case cxLive:
		n += "[live]"
	case cxCanceled:
		n += "[canceled]"
	case cxDeadline:
		n += "[deadline-exceeded]"
	case cxEndsInReq:
		n += "[cancelled-during-request]"
	}
	if e.NilFb {
		n += "[nil-fallback]"
	}
	if e.ByName {
		return "breaker." + n + "(name)"
	}
	return "b." + n
}

func (e Entry) hasFallback() bool   { return (e.Base == bDoFb || e.Base == bDoFbAcc) && !e.NilFb }
func (e Entry) hasAcceptable() bool { return e.Base == bDoAcc || e.Base == bDoFbAcc }
func (e Entry) done() bool          { return e.Ctx == cxCanceled || e.Ctx == cxDeadline }

// base key of an entry for violation classes (the context's state and the nil-fallback form are in
// the message, not in the key).
func (e Entry) short() string {
	n := [...]string{"Do", "DoWithAcceptable", "DoWithFallback", "DoWithFallbackAcceptable", "Allow"}[e.Base]
	if e.Ctx != cxNone {
		n += "Ctx"
	}
	if e.ByName {
		n = "pkg." + n
	}
	return n
}

var (
	liveEntries  []Entry // entries whose call reaches the breaker
	doneEntries  []Entry // entries called with a context that is already done
	extraEntries []Entry // further forms that reach the breaker (look-ahead depth bound valueDepth):
	//                      context cancelled while the request runs, nil fallback
)

func init() {
	for _, byName := range []bool{false, true} {
		for base := bDo; base <= bAllow; base++ {
			if byName && base == bAllow {
				continue // no package-level Allow
			}
			for _, cx := range []int{cxNone, cxLive} {
				liveEntries = append(liveEntries, Entry{Base: base, Ctx: cx, ByName: byName})
			}
			for _, cx := range []int{cxCanceled, cxDeadline} {
				doneEntries = append(doneEntries, Entry{Base: base, Ctx: cx, ByName: byName})
			}
			extraEntries = append(extraEntries, Entry{Base: base, Ctx: cxEndsInReq, ByName: byName})
			if base == bDoFb || base == bDoFbAcc {
				extraEntries = append(extraEntries, Entry{Base: base, Ctx: cxNone, ByName: byName, NilFb: true},
					Entry{Base: base, Ctx: cxLive, ByName: byName, NilFb: true})
			}
		}
	}
}

// outcomes applicable to an entry: with Allow/Promise the caller decides (ok -> Accept, an
// unacceptable error -> Reject, an acceptable error -> Accept); a panic between Allow and the
// promise call records nothing by contract and is not a case.
func outcomesOf(e Entry) []int {
	if e.Base == bAllow {
		return []int{oOK, oBad, oAccErr}
	}
	return []int{oOK, oBad, oAccErr, oPanic}
}

// valueOutcomesOf: the value family for an entry. Entries without a caller-supplied predicate
// cannot tell the accepted from the not-accepted variant (the predicate is err == nil): one of each
// pair is enough there.
func valueOutcomesOf(e Entry) []int {
	var outs []int
	for out := oSentinel; out < nOutcomes; out++ {
		d := outcomes[out]
		if d.panics && e.Base == bAllow {
			continue
		}
		if d.acc && !(e.hasAcceptable() || e.Base == bAllow) {
			continue
		}
		outs = append(outs, out)
	}
	return outs
}

// expected kind of an ADMITTED call: decided by the acceptability predicate in force
// (err == nil for Do / DoWithFallback; the caller's predicate; the caller's verdict for Allow).
func wantKind(e Entry, out int) Kind {
	d := outcomes[out]
	switch {
	case d.panics:
		return KF
	case d.val == nil:
		return KS
	case d.acc && (e.hasAcceptable() || e.Base == bAllow):
		return KS
	}
	return KF
}

var (
	errBad      = errors.New("c01: unacceptable error")
	errAcc      = errors.New("c01: acceptable error")
	errFallback = errors.New("c01: fallback result")
	panicVal    = &struct{ s string }{"c01 panic value"}
)

func fallbackAnswer(kind int, arg error) error {
	switch kind {
	case fbNil:
		return nil
	case fbArg:
		return arg
	case fbWrapArg:
		return fmt.Errorf("c01 fallback: %w", arg)
	}
	return errFallback
}

// obs is what one call showed from the outside.
type obs struct {
	reqRuns, fbRuns int
	fbArg           error
	fbRet           error // what the fallback answered (last run)
	err             error
	panicked        bool
	pval            any
	ctxErr          error // ctx.Err() of the context handed in (nil for none/live)
	promiseNil      bool
}

type ctxMaker func(kind int) (context.Context, func())

// real contexts (pass-through mode)
func realCtx(kind int) (context.Context, func()) {
	switch kind {
	case cxLive, cxEndsInReq:
		return context.WithCancel(context.Background())
	case cxCanceled:
		c, cancel := context.WithCancel(context.Background())
		cancel()
		return c, func() {}
	case cxDeadline:
		return context.WithDeadline(context.Background(), time.Unix(1, 0))
	}
	return nil, func() {}
}

// virtual contexts (inside a vsched execution)
func virtCtx(kind int) (context.Context, func()) {
	switch kind {
	case cxLive, cxEndsInReq:
		return vsched.CtxWithCancel(context.Background())
	case cxCanceled, cxDeadline:
		c, cancel := vsched.CtxWithCancel(context.Background())
		cancel()
		return c, func() {}
	}
	return nil, func() {}
}

// doCall performs one call through entry e with the given outcome of the request.
// inReq, if set, runs inside the request (scheduling point / logging in the schedule engine).
func doCall(b breaker.Breaker, name string, e Entry, out int, mk ctxMaker, inReq func()) (o obs) {
	ctx, cancel := mk(e.Ctx)
	defer cancel()
	if ctx != nil {
		o.ctxErr = ctx.Err()
	}
	def := outcomes[out]
	req := func() error {
		o.reqRuns++
		if inReq != nil {
			inReq()
		}
		if e.Ctx == cxEndsInReq {
			cancel() // the caller's context ends while the request is running
		}
		if def.panics {
			panic(def.pval)
		}
		return def.val
	}
	// the caller's predicate: nil, the fixed acceptable error, and this call's value if the script
	// says the caller accepts it
	acceptablePred := func(err error) bool {
		return err == nil || err == errAcc || (def.acc && err == def.val)
	}
	fb := func(err error) error {
		o.fbRuns++
		o.fbArg = err
		o.fbRet = fallbackAnswer(def.fb, err)
		return o.fbRet
	}
	if e.NilFb {
		fb = nil
	}
	defer func() {
		if p := recover(); p != nil {
			o.panicked, o.pval = true, p
		}
	}()
	if e.Base == bAllow {
		var p breaker.Promise
		var err error
		if e.Ctx == cxNone {
			p, err = b.Allow()
		} else {
			p, err = b.AllowCtx(ctx)
		}
		o.err = err
		if err != nil {
			return
		}
		if p == nil {
			o.promiseNil = true
			return
		}
		// the caller's own work, then the verdict
		rerr := req()
		if acceptablePred(rerr) {
			p.Accept()
		} else {
			p.Reject(rerr.Error())
		}
		return
	}
	if e.ByName {
		switch {
		case e.Base == bDo && e.Ctx == cxNone:
			o.err = breaker.Do(name, req)
		case e.Base == bDo:
			o.err = breaker.DoCtx(ctx, name, req)
		case e.Base == bDoAcc && e.Ctx == cxNone:
			o.err = breaker.DoWithAcceptable(name, req, acceptablePred)
		case e.Base == bDoAcc:
			o.err = breaker.DoWithAcceptableCtx(ctx, name, req, acceptablePred)
		case e.Base == bDoFb && e.Ctx == cxNone:
			o.err = breaker.DoWithFallback(name, req, fb)
		case e.Base == bDoFb:
			o.err = breaker.DoWithFallbackCtx(ctx, name, req, fb)
		case e.Base == bDoFbAcc && e.Ctx == cxNone:
			o.err = breaker.DoWithFallbackAcceptable(name, req, fb, acceptablePred)
		default:
			o.err = breaker.DoWithFallbackAcceptableCtx(ctx, name, req, fb, acceptablePred)
		}
		return
	}
	switch {
	case e.Base == bDo && e.Ctx == cxNone:
		o.err = b.Do(req)
	case e.Base == bDo:
		o.err = b.DoCtx(ctx, req)
	case e.Base == bDoAcc && e.Ctx == cxNone:
		o.err = b.DoWithAcceptable(req, acceptablePred)
	case e.Base == bDoAcc:
		o.err = b.DoWithAcceptableCtx(ctx, req, acceptablePred)
	case e.Base == bDoFb && e.Ctx == cxNone:
		o.err = b.DoWithFallback(req, fb)
	case e.Base == bDoFb:
		o.err = b.DoWithFallbackCtx(ctx, req, fb)
	case e.Base == bDoFbAcc && e.Ctx == cxNone:
		o.err = b.DoWithFallbackAcceptable(req, fb, acceptablePred)
	default:
		o.err = b.DoWithFallbackAcceptableCtx(ctx, req, fb, acceptablePred)
	}
	return
}

// verdicts
const (
	vAdmitted = "admitted"
	vRejected = "rejected"
	vDone     = "done-ctx"
)

// judge checks the black-box part of the statement for one call and says what the call was.
//
//	rejected => request not run, fallback (if any) run exactly once (with the breaker's
//	            ErrServiceUnavailable), its result returned; without fallback the error is
//	            ErrServiceUnavailable;
//	admitted => request run exactly once, fallback not run, error returned unchanged, panic
//	            re-raised with the same value;
//	done ctx => (interface doc of the Ctx forms) request not run, ctx.Err() returned.
func judge(e Entry, out int, o obs) (verdict, class, msg string) {
	if e.done() {
		verdict = vDone
		if o.reqRuns != 0 {
			return verdict, "done-ctx-ran-request:" + e.short(), fmt.Sprintf("%v with a done context ran the request %d time(s)", e, o.reqRuns)
		}
		if o.panicked {
			return verdict, "done-ctx-panic:" + e.short(), fmt.Sprintf("%v with a done context panicked: %v", e, o.pval)
		}
		if o.err == nil || !errors.Is(o.err, o.ctxErr) {
			return verdict, "done-ctx-wrong-error:" + e.short(), fmt.Sprintf("%v with a done context returned %v, want ctx.Err()=%v", e, o.err, o.ctxErr)
		}
		return verdict, "", ""
	}
	if e.Base == bAllow {
		if o.err != nil {
			verdict = vRejected
			if !errors.Is(o.err, breaker.ErrServiceUnavailable) {
				return verdict, "reject-wrong-error:" + e.short(), fmt.Sprintf("%v refused with %v, want ErrServiceUnavailable", e, o.err)
			}
			return verdict, "", ""
		}
		verdict = vAdmitted
		if o.promiseNil {
			return verdict, "allow-nil-promise", fmt.Sprintf("%v returned a nil promise and a nil error", e)
		}
		if o.panicked {
			return verdict, "promise-panic:" + e.short(), fmt.Sprintf("%v: promise call panicked: %v", e, o.pval)
		}
		return verdict, "", ""
	}
	if o.reqRuns > 0 {
		verdict = vAdmitted
		if o.reqRuns != 1 {
			return verdict, "request-run-twice:" + e.short(), fmt.Sprintf("%v ran the request %d times", e, o.reqRuns)
		}
		if o.fbRuns != 0 {
			return verdict, "fallback-run-on-admitted:" + e.short(), fmt.Sprintf("%v ran the request and also the fallback (%d times)", e, o.fbRuns)
		}
		if outcomes[out].panics {
			if !o.panicked {
				return verdict, "panic-swallowed:" + e.short(), fmt.Sprintf("%v: the request panicked but the call returned %v", e, o.err)
			}
			if o.pval != outcomes[out].pval {
				return verdict, "panic-changed:" + e.short(), fmt.Sprintf("%v: re-raised panic value %v is not the request's", e, o.pval)
			}
			return verdict, "", ""
		}
		if o.panicked {
			return verdict, "spurious-panic:" + e.short(), fmt.Sprintf("%v panicked: %v", e, o.pval)
		}
		want := outcomes[out].val
		if o.err != want {
			return verdict, "error-changed:" + e.short(), fmt.Sprintf("%v: request returned %v, call returned %v", e, want, o.err)
		}
		return verdict, "", ""
	}
	// request not run: must be a rejection
	verdict = vRejected
	if o.panicked {
		return verdict, "spurious-panic:" + e.short(), fmt.Sprintf("%v panicked without running the request: %v", e, o.pval)
	}
	if e.hasFallback() {
		if o.fbRuns != 1 {
			if o.fbRuns == 0 {
				return verdict, "call-vanished:" + e.short(), fmt.Sprintf("%v ran neither the request nor the fallback (returned %v)", e, o.err)
			}
			return verdict, "fallback-run-twice:" + e.short(), fmt.Sprintf("%v ran the fallback %d times for one rejection", e, o.fbRuns)
		}
		if !errors.Is(o.fbArg, breaker.ErrServiceUnavailable) {
			return verdict, "fallback-wrong-arg:" + e.short(), fmt.Sprintf("%v: fallback got %v, want ErrServiceUnavailable", e, o.fbArg)
		}
		if o.err != o.fbRet {
			return verdict, "fallback-result-dropped:" + e.short(), fmt.Sprintf("%v: fallback returned %v, call returned %v", e, o.fbRet, o.err)
		}
		return verdict, "", ""
	}
	if o.fbRuns != 0 {
		return verdict, "fallback-run-unasked:" + e.short(), fmt.Sprintf("%v ran a fallback it was not given", e)
	}
	if !errors.Is(o.err, breaker.ErrServiceUnavailable) {
		return verdict, "call-vanished:" + e.short(), fmt.Sprintf("%v did not run the request and returned %v (not ErrServiceUnavailable)", e, o.err)
	}
	return verdict, "", ""
}
