package main

// Wrapper / registry cases added to close never-executed functions of the anchored files:
//
//   sqlx-form   every query form of core/stores/sqlx/sqlconn.go (Exec, Prepare, QueryRow[Partial],
//               QueryRows[Partial], Transact, each plain and Ctx, plus a statement run through
//               NewSqlConnFromSession inside TransactCtx) x every listed error x WithAcceptable
//               on/off, through (1) a counting fake breaker, (2) NewSqlConnFromDB and (3)
//               NewSqlConn (sqlmock DSN) with their own real breakers (window delta read through a
//               white-box accessor). Every form must consult the breaker exactly once, hand the
//               error over unchanged and classify it as documented (nil, sql.ErrNoRows,
//               sql.ErrTxDone, context.Canceled, argument-format errors, scan failures and what
//               WithAcceptable accepts are successes; everything else a failure). The plain forms
//               are judged by the same reference as their Ctx forms (differential by construction).
//   sqlx-rawdb  RawDB is not a call: the pool handed in comes back, the breaker is not consulted.
//   redis-dial  breakerHook.DialHook: dialling is part of a command (which is accounted by
//               ProcessHook); the dial hook must pass the dial through untouched and never consult
//               or feed the breaker — otherwise one failing command would be recorded twice.
//   registry    breaker.NoBreakerFor(name): calls on that name are never rejected, whatever was
//               recorded and whatever the coin says, through every package-level entry point; the
//               registration survives later use (GetBreaker gives the same no-op breaker, not a
//               fresh real one); GetBreaker(name).Name() == name for real named breakers.

import (
	"context"
	"database/sql"
	"errors"
	"fmt"
	"io"
	"net"

	"github.com/DATA-DOG/go-sqlmock"
	"github.com/zeromicro/go-zero/core/breaker"
	"github.com/zeromicro/go-zero/core/stores/redis"
	"github.com/zeromicro/go-zero/core/stores/sqlx"
	"github.com/zeromicro/go-zero/verifshim/vlib"
	"github.com/zeromicro/go-zero/verifshim/vsched"
)

// ---------- sqlx: every form ----------

type sqlForm struct{ name, group string }

var sqlForms = []sqlForm{
	{"Exec", "exec"}, {"ExecCtx", "exec"},
	{"Prepare", "prepare"}, {"PrepareCtx", "prepare"},
	{"QueryRow", "row"}, {"QueryRowCtx", "row"}, {"QueryRowPartial", "row"}, {"QueryRowPartialCtx", "row"},
	{"QueryRows", "rows"}, {"QueryRowsCtx", "rows"}, {"QueryRowsPartial", "rows"}, {"QueryRowsPartialCtx", "rows"},
	{"Transact", "tx"}, {"TransactCtx", "tx"}, {"TransactCtx+FromSession.ExecCtx", "tx"},
}

func sqlFormByName(n string) (sqlForm, bool) {
	for _, f := range sqlForms {
		if f.name == n {
			return f, true
		}
	}
	return sqlForm{}, false
}

const (
	spNone = 0
	spArgs = 3 // too few arguments for the placeholders: the formatting error is an accepted one
	spScan = 4 // the row cannot be scanned into the destination: accepted
)

var sqlDSNSeq int

// runSqlForm performs one call of form f on conn with the mock primed for (ne, special).
func runSqlForm(conn sqlx.SqlConn, mock sqlmock.Sqlmock, f sqlForm, ne namedErr, special int) (got error, misuse *fail) {
	ctx := context.Background()
	what := "sqlx/" + f.name
	switch f.group {
	case "exec":
		q := "update t set a=1"
		var args []any
		if special == spArgs {
			q, args = "update t set a=? where b=?", []any{1}
		} else {
			ex := mock.ExpectExec(q)
			if ne.err != nil {
				ex.WillReturnError(ne.err)
			} else {
				ex.WillReturnResult(sqlmock.NewResult(1, 1))
			}
		}
		var res sql.Result
		if f.name == "Exec" {
			res, got = conn.Exec(q, args...)
		} else {
			res, got = conn.ExecCtx(ctx, q, args...)
		}
		if got == nil && special == spNone {
			if res == nil {
				return got, &fail{"wrapper-response-changed:sqlx", what + ": nil result without an error"}
			}
			if n, _ := res.RowsAffected(); n != 1 {
				return got, &fail{"wrapper-response-changed:sqlx", fmt.Sprintf("%s: result reports %d affected rows, the database said 1", what, n)}
			}
		}
	case "prepare":
		q := "select a from t where b=?"
		p := mock.ExpectPrepare(q)
		if ne.err != nil {
			p.WillReturnError(ne.err)
		}
		var st sqlx.StmtSession
		if f.name == "Prepare" {
			st, got = conn.Prepare(q)
		} else {
			st, got = conn.PrepareCtx(ctx, q)
		}
		if got == nil {
			if st == nil {
				return got, &fail{"wrapper-response-changed:sqlx", what + ": nil statement without an error"}
			}
			st.Close()
		}
	case "row", "rows":
		q := "select a from t"
		var args []any
		switch special {
		case spArgs:
			q, args = "select a from t where b=? and c=?", []any{1}
		case spScan:
			mock.ExpectQuery(q).WillReturnRows(sqlmock.NewRows([]string{"a"}).AddRow("not-a-number"))
		default:
			e := mock.ExpectQuery(q)
			if ne.err != nil {
				e.WillReturnError(ne.err)
			} else if f.group == "row" {
				e.WillReturnRows(sqlmock.NewRows([]string{"a"}).AddRow(5))
			} else {
				e.WillReturnRows(sqlmock.NewRows([]string{"a"}).AddRow(5).AddRow(6))
			}
		}
		var one int
		var many []int
		switch f.name {
		case "QueryRow":
			got = conn.QueryRow(&one, q, args...)
		case "QueryRowCtx":
			got = conn.QueryRowCtx(ctx, &one, q, args...)
		case "QueryRowPartial":
			got = conn.QueryRowPartial(&one, q, args...)
		case "QueryRowPartialCtx":
			got = conn.QueryRowPartialCtx(ctx, &one, q, args...)
		case "QueryRows":
			got = conn.QueryRows(&many, q, args...)
		case "QueryRowsCtx":
			got = conn.QueryRowsCtx(ctx, &many, q, args...)
		case "QueryRowsPartial":
			got = conn.QueryRowsPartial(&many, q, args...)
		case "QueryRowsPartialCtx":
			got = conn.QueryRowsPartialCtx(ctx, &many, q, args...)
		}
		if got == nil && special == spNone {
			if f.group == "row" && one != 5 {
				return got, &fail{"wrapper-response-changed:sqlx", fmt.Sprintf("%s: scanned %d, the database returned 5", what, one)}
			}
			if f.group == "rows" && (len(many) != 2 || many[0] != 5 || many[1] != 6) {
				return got, &fail{"wrapper-response-changed:sqlx", fmt.Sprintf("%s: scanned %v, the database returned [5 6]", what, many)}
			}
		}
	case "tx":
		mock.ExpectBegin()
		inner := f.name == "TransactCtx+FromSession.ExecCtx"
		if inner {
			ex := mock.ExpectExec("update t set a=1")
			if ne.err != nil {
				ex.WillReturnError(ne.err)
			} else {
				ex.WillReturnResult(sqlmock.NewResult(1, 1))
			}
		}
		if ne.err != nil {
			mock.ExpectRollback()
		} else {
			mock.ExpectCommit()
		}
		runs := 0
		body := func(c context.Context, s sqlx.Session) error {
			runs++
			if inner {
				// a statement on the transaction's session through the session-backed connection:
				// part of the transaction, which is accounted once as a whole
				c2 := sqlx.NewSqlConnFromSession(s)
				if _, e := c2.RawDB(); e == nil {
					misuse = &fail{"sqlx-session-conn-hands-out-pool", what + ": a session-backed connection handed out a raw pool"}
				}
				if e := c2.TransactCtx(c, func(context.Context, sqlx.Session) error { return nil }); e == nil {
					misuse = &fail{"sqlx-session-conn-nested-transaction", what + ": a session-backed connection started a nested transaction"}
				}
				_, e := c2.ExecCtx(c, "update t set a=1")
				return e
			}
			return ne.err
		}
		if f.name == "Transact" {
			got = conn.Transact(func(s sqlx.Session) error { return body(ctx, s) })
		} else {
			got = conn.TransactCtx(ctx, body)
		}
		if runs != 1 && misuse == nil {
			misuse = &fail{"wrapper-request-count:sqlx", fmt.Sprintf("%s: the transaction body ran %d times", what, runs)}
		}
	}
	return got, misuse
}

// sqlFormCase: one (form, error, special, option) through the three constructions.
func sqlFormCase(formName, errName string, special int, opt bool) *fail {
	vsched.SetNow(0)
	f, ok := sqlFormByName(formName)
	if !ok {
		return &fail{"bad-case", "unknown sqlx form " + formName}
	}
	ne, ok := findErr(sqlErrors(), errName)
	if !ok {
		return &fail{"bad-case", "unknown error " + errName}
	}
	success := ne.success || (opt && ne.err == errUserOK)
	if special != spNone {
		success = true
	}
	var opts []sqlx.SqlOption
	if opt {
		opts = append(opts, sqlx.WithAcceptable(func(err error) bool { return errors.Is(err, errUserOK) }))
	}
	what := fmt.Sprintf("sqlx/%s/%s/special%d/opt=%v", formName, errName, special, opt)
	resultOK := func(via string, got error) *fail {
		switch {
		case special != spNone:
			if got == nil {
				return &fail{"sqlx-bad-call-accepted-silently", fmt.Sprintf("%s (%s): a call that cannot succeed returned no error", what, via)}
			}
		case ne.err == nil && got != nil:
			return &fail{"wrapper-error-changed:sqlx", fmt.Sprintf("%s (%s): no error injected, returned %v", what, via, got)}
		case ne.err != nil && !errors.Is(got, ne.err):
			return &fail{"wrapper-error-changed:sqlx", fmt.Sprintf("%s (%s): injected %v, returned %v", what, via, ne.err, got)}
		}
		return nil
	}
	met := func(via string, mock sqlmock.Sqlmock) *fail {
		if e := mock.ExpectationsWereMet(); e != nil {
			return &fail{"wrapper-request-count:sqlx", fmt.Sprintf("%s (%s): %v", what, via, e)}
		}
		return nil
	}

	// (1) counting fake breaker
	{
		db, mock, err := sqlmock.New(sqlmock.QueryMatcherOption(sqlmock.QueryMatcherEqual))
		if err != nil {
			vlib.Fatal("sqlmock: %v", err)
		}
		fb := newFake()
		conn := sqlx.VerifNewConn(db, fb, opts...)
		got, misuse := runSqlForm(conn, mock, f, ne, special)
		db.Close()
		if misuse != nil {
			return misuse
		}
		if fl := resultOK("fake breaker", got); fl != nil {
			return fl
		}
		if fb.total() != 1 || len(fb.verdicts) != 1 {
			return &fail{"wrapper-breaker-calls:sqlx", fmt.Sprintf("%s: breaker consulted %d times (%v), the call must be accounted exactly once", what, fb.total(), fb.calls)}
		}
		if fb.verdicts[0] != success {
			return &fail{fmt.Sprintf("sqlx-classification:%s/%s", errName, formName), fmt.Sprintf("%s: classified as success=%v, documented success=%v", what, fb.verdicts[0], success)}
		}
		if fl := met("fake breaker", mock); fl != nil {
			return fl
		}
	}
	// (2) NewSqlConnFromDB, (3) NewSqlConn over a sqlmock DSN: the connection's own real breaker
	for _, via := range []string{"NewSqlConnFromDB", "NewSqlConn"} {
		var conn sqlx.SqlConn
		var mock sqlmock.Sqlmock
		var closeDB func() error
		if via == "NewSqlConnFromDB" {
			db, m, err := sqlmock.New(sqlmock.QueryMatcherOption(sqlmock.QueryMatcherEqual))
			if err != nil {
				vlib.Fatal("sqlmock: %v", err)
			}
			conn, mock, closeDB = sqlx.NewSqlConnFromDB(db, opts...), m, db.Close
			if raw, e := conn.RawDB(); e != nil || raw != db {
				return &fail{"sqlx-rawdb-wrong-pool", what + ": RawDB of NewSqlConnFromDB(db) is not db"}
			}
		} else {
			sqlDSNSeq++
			dsn := fmt.Sprintf("c01-sqlmock-%d", sqlDSNSeq)
			db, m, err := sqlmock.NewWithDSN(dsn, sqlmock.QueryMatcherOption(sqlmock.QueryMatcherEqual))
			if err != nil {
				vlib.Fatal("sqlmock dsn: %v", err)
			}
			conn, mock, closeDB = sqlx.NewSqlConn("sqlmock", dsn, opts...), m, db.Close
		}
		b := sqlx.VerifBreakerOf(conn)
		if b == nil {
			return &fail{"harness-sql-breaker", what + ": " + via + " built a connection without a breaker"}
		}
		_, s0, f0, d0 := breaker.VerifTotals(b)
		got, misuse := runSqlForm(conn, mock, f, ne, special)
		_, s1, f1, d1 := breaker.VerifTotals(b)
		fl := met(via, mock)
		closeDB()
		if misuse != nil {
			return misuse
		}
		if r := resultOK(via, got); r != nil {
			return r
		}
		ws, wf := int64(0), int64(1)
		if success {
			ws, wf = 1, 0
		}
		if s1-s0 != ws || f1-f0 != wf || d1 != d0 {
			cls := "wrapper-wrong-kind:sqlx"
			switch n := (s1 - s0) + (f1 - f0) + (d1 - d0); {
			case n == 0:
				cls = "wrapper-not-recorded:sqlx"
			case n > 1:
				cls = "wrapper-recorded-twice:sqlx"
			}
			return &fail{cls, fmt.Sprintf("%s (%s): the connection's breaker changed by S%+d F%+d D%+d, want S%+d F%+d D+0", what, via, s1-s0, f1-f0, d1-d0, ws, wf)}
		}
		if fl != nil {
			return fl
		}
	}
	return nil
}

// sqlRawDBCase: RawDB hands out the pool without going through the breaker.
func sqlRawDBCase() *fail {
	db, _, err := sqlmock.New()
	if err != nil {
		vlib.Fatal("sqlmock: %v", err)
	}
	defer db.Close()
	fb := newFake()
	conn := sqlx.VerifNewConn(db, fb)
	raw, e := conn.RawDB()
	if e != nil || raw != db {
		return &fail{"sqlx-rawdb-wrong-pool", fmt.Sprintf("RawDB returned (%p, %v), the connection was built from %p", raw, e, db)}
	}
	if fb.total() != 0 {
		return &fail{"sqlx-rawdb-through-breaker", fmt.Sprintf("RawDB consulted the breaker %d times: it is not a database call", fb.total())}
	}
	return nil
}

// ---------- redis: the dial hook ----------

func dialErrors() []namedErr {
	return []namedErr{{"nil", nil, true}, {"io.EOF", io.EOF, false}, {"plain-error", errors.New("c01 dial refused"), false}}
}

// redisDialCase: mode 0 fake breaker, 1 real fresh breaker, 2 real breaker that is throttling
// (60 failures, coin = drop): the dial always goes through and leaves the breaker alone.
func redisDialCase(errName string, mode int) *fail {
	vsched.SetNow(0)
	ne, ok := findErr(dialErrors(), errName)
	if !ok {
		return &fail{"bad-case", "unknown error " + errName}
	}
	what := fmt.Sprintf("redis-dial/%s/mode%d", errName, mode)
	var b breaker.Breaker
	fb := newFake()
	b = fb
	if mode > 0 {
		b = breaker.NewBreaker()
		if mode == 2 {
			for i := 0; i < 60; i++ {
				b.Do(func() error { return errBad })
			}
		}
	}
	var s0, f0, d0 int64
	if mode > 0 {
		_, s0, f0, d0 = breaker.VerifTotals(b)
	}
	c1, c2 := net.Pipe()
	defer c1.Close()
	defer c2.Close()
	calls := 0
	var gotNet, gotAddr string
	ctx := context.WithValue(context.Background(), dialMark{}, "c01")
	var gotCtx context.Context
	next := func(ctx context.Context, network, addr string) (net.Conn, error) {
		calls++
		gotCtx, gotNet, gotAddr = ctx, network, addr
		if ne.err != nil {
			return nil, ne.err
		}
		return c1, nil
	}
	hook.mode = ansDrop
	conn, err := redis.VerifBreakerHook(b).DialHook(next)(ctx, "tcp", "c01:6379")
	hook.mode = ansPass
	switch {
	case calls != 1:
		return &fail{"wrapper-request-count:redis-dial", fmt.Sprintf("%s: the dial ran %d times", what, calls)}
	case gotNet != "tcp" || gotAddr != "c01:6379" || gotCtx == nil || gotCtx.Value(dialMark{}) != "c01":
		return &fail{"wrapper-request-changed:redis-dial", fmt.Sprintf("%s: the dial got (%q, %q) / another context", what, gotNet, gotAddr)}
	case err != ne.err:
		return &fail{"wrapper-error-changed:redis-dial", fmt.Sprintf("%s: dial returned %v, hook returned %v", what, ne.err, err)}
	case ne.err == nil && conn != c1:
		return &fail{"wrapper-response-changed:redis-dial", what + ": the connection was not passed through"}
	}
	if mode == 0 {
		if fb.total() != 0 {
			return &fail{"redis-dial-through-breaker", fmt.Sprintf("%s: the dial consulted the breaker %d times (%v): the command that dials is already accounted by the process hook", what, fb.total(), fb.calls)}
		}
		return nil
	}
	_, s1, f1, d1 := breaker.VerifTotals(b)
	if s1 != s0 || f1 != f0 || d1 != d0 {
		return &fail{"redis-dial-through-breaker", fmt.Sprintf("%s: the dial changed the breaker's window by S%+d F%+d D%+d", what, s1-s0, f1-f0, d1-d0)}
	}
	return nil
}

type dialMark struct{}

// ---------- registry: NoBreakerFor, names ----------

// byNameLive: the package-level entry points whose call reaches the breaker.
func byNameLive() []Entry {
	var out []Entry
	for _, e := range liveEntries {
		if e.ByName {
			out = append(out, e)
		}
	}
	return out
}

var regSeq int

// noBreakerCase: pre = 0 the name is new, 1 the name already has a real breaker that is throttling
// (60 failures) when NoBreakerFor is called. Then through entry point idx (by name): 12 failing
// calls, every other outcome once, all with the coin at "drop": none may be rejected, each runs
// its request exactly once and hands its error / panic over unchanged. Interleaved lookups must
// keep giving the breaker NoBreakerFor registered.
func noBreakerCase(idx, pre int) *fail {
	vsched.SetNow(0)
	entries := byNameLive()
	if idx < 0 || idx >= len(entries) {
		return &fail{"bad-case", "no such by-name entry"}
	}
	e := entries[idx]
	regSeq++
	name := fmt.Sprintf("c01-nobreaker-%d", regSeq)
	defer breaker.VerifForget(name)
	what := fmt.Sprintf("NoBreakerFor/%v/pre%d", e, pre)
	if pre == 1 {
		real := breaker.GetBreaker(name)
		if real.Name() != name {
			return &fail{"named-breaker-wrong-name", fmt.Sprintf("GetBreaker(%q).Name() = %q", name, real.Name())}
		}
		for i := 0; i < 60; i++ {
			breaker.Do(name, func() error { return errBad })
		}
		hook.mode = ansDrop
		o := doCall(nil, name, Entry{Base: bDo, ByName: true}, oBad, realCtx, nil)
		hook.mode = ansPass
		if v, _, _ := judge(Entry{Base: bDo, ByName: true}, oBad, o); v != vRejected {
			return &fail{"harness-registry-prefix", what + ": the real named breaker did not throttle after 60 failures (coin = drop)"}
		}
	}
	breaker.NoBreakerFor(name)
	reg := breaker.GetBreaker(name)
	outs := []int{}
	for i := 0; i < 12; i++ {
		outs = append(outs, oBad)
	}
	outs = append(outs, oPanic, oAccErr, oOK, oBad)
	// the value family: a request that itself reports ErrServiceUnavailable (a nested breaker), a
	// context error, a typed nil ... is still an admitted call: run once, returned unchanged, no fallback
	outs = append(outs, valueOutcomesOf(e)...)
	for i, out := range outs {
		hook.mode = ansDrop
		o := doCall(nil, name, e, out, realCtx, nil)
		hook.mode = ansPass
		verdict, class, msg := judge(e, out, o)
		if verdict != vAdmitted {
			return &fail{"nobreaker-rejected:" + e.short(), fmt.Sprintf("%s: call %d (%s) on a name registered with NoBreakerFor was not run (%s; returned %v)", what, i+1, outcomeNames[out], verdict, o.err)}
		}
		if class != "" {
			return &fail{class, what + ": " + msg}
		}
		if now := breaker.GetBreaker(name); now != reg {
			return &fail{"nobreaker-replaced", fmt.Sprintf("%s: after %d calls the name is registered to another breaker (%T, was %T)", what, i+1, now, reg)}
		}
	}
	return nil
}

// namesCase: a breaker registered under a name, or built WithName, says so; unnamed breakers get
// a non-empty name of their own.
func namesCase() *fail {
	regSeq++
	name := fmt.Sprintf("c01-name-%d", regSeq)
	defer breaker.VerifForget(name)
	if got := breaker.GetBreaker(name).Name(); got != name {
		return &fail{"named-breaker-wrong-name", fmt.Sprintf("GetBreaker(%q).Name() = %q", name, got)}
	}
	if got := breaker.NewBreaker(breaker.WithName(name)).Name(); got != name {
		return &fail{"named-breaker-wrong-name", fmt.Sprintf("NewBreaker(WithName(%q)).Name() = %q", name, got)}
	}
	a, b := breaker.NewBreaker().Name(), breaker.NewBreaker().Name()
	if a == "" || b == "" {
		return &fail{"unnamed-breaker-empty-name", "NewBreaker() without a name reports an empty name"}
	}
	return nil
}

// ---------- enumeration of the added cases ----------

func wrapCases2() []WrapCase {
	var cs []WrapCase
	for _, f := range sqlForms {
		for _, ne := range sqlErrors() {
			for _, opt := range []bool{false, true} {
				cs = append(cs, WrapCase{Kind: "sqlx-form", Form: f.name, Err: ne.name, Opt: opt})
			}
		}
		if f.group == "exec" || f.group == "row" || f.group == "rows" {
			cs = append(cs, WrapCase{Kind: "sqlx-form", Form: f.name, Err: "nil", Code: spArgs})
		}
		if f.group == "row" || f.group == "rows" {
			cs = append(cs, WrapCase{Kind: "sqlx-form", Form: f.name, Err: "nil", Code: spScan})
		}
	}
	cs = append(cs, WrapCase{Kind: "sqlx-rawdb"})
	for _, ne := range dialErrors() {
		for mode := 0; mode <= 2; mode++ {
			cs = append(cs, WrapCase{Kind: "redis-dial", Err: ne.name, Code: mode})
		}
	}
	for i := range byNameLive() {
		for pre := 0; pre <= 1; pre++ {
			cs = append(cs, WrapCase{Kind: "registry-nobreaker", Code: i, Opt: pre == 1})
		}
	}
	cs = append(cs, WrapCase{Kind: "registry-names"})
	return cs
}

func runWrapCase2(c WrapCase) (*fail, bool) {
	switch c.Kind {
	case "sqlx-form":
		return sqlFormCase(c.Form, c.Err, c.Code, c.Opt), true
	case "sqlx-rawdb":
		return sqlRawDBCase(), true
	case "redis-dial":
		return redisDialCase(c.Err, c.Code), true
	case "registry-nobreaker":
		pre := 0
		if c.Opt {
			pre = 1
		}
		return noBreakerCase(c.Code, pre), true
	case "registry-names":
		return namesCase(), true
	}
	return nil, false
}
