// C11 — PeriodicalExecutor / BulkExecutor / ChunkExecutor under the controlled scheduler.
//
// core/executors (with timex, syncx, threading) is rewritten onto the scheduler shim. The flush
// ticker is the real timex.NewTicker on the VIRTUAL clock: ticks fire when nothing else can run
// (default) or, as an explorer deviation, between any two steps (timer budget T). A producer that
// sleeps 11 intervals lets the background flusher go idle and quit, so the next Add restarts it.
// Threads: 1–2 producers × 1–3 Adds, optional Flush thread, main calls Wait after (or while) the
// producers run. The execute callback logs the batch it receives on the totally ordered log.
//
// Oracles (from the statement): every task accepted by Add is passed to the callback exactly once
// — at the latest by Wait for tasks added before it, and by the end of the execution for all;
// Wait returns only after the callbacks of all tasks added before it have returned; a panicking
// callback loses only its own batch; no deadlock.
package main

import (
	"fmt"
	"sort"
	"strings"
	"time"

	"github.com/zeromicro/go-zero/core/executors"
	"github.com/zeromicro/go-zero/verifshim/vlib"
	"github.com/zeromicro/go-zero/verifshim/vsched"
	"github.com/zeromicro/go-zero/verifshim/vx"
)

const interval = time.Second

type spec struct {
	Kind       string // periodical | bulk | chunk
	Threshold  int    // tasks (or bytes for chunk) that trigger a flush from Add
	Producers  [][]int // per producer: pause before each Add in intervals (0 none, 11 = idle-quit)
	FlushT     bool   // a thread calling Flush once
	WaitMode   string // after (producers joined) | concurrent | none (rely on ticks only)
	PanicBatch int    // the n-th Execute call panics (0 = never)
}

func (s spec) name() string {
	var ps []string
	for _, p := range s.Producers {
		ps = append(ps, strings.Trim(strings.ReplaceAll(fmt.Sprint(p), " ", "."), "[]"))
	}
	n := fmt.Sprintf("%s-th%d-p%s-wait:%s", s.Kind, s.Threshold, strings.Join(ps, "_"), s.WaitMode)
	if s.FlushT {
		n += "-flush"
	}
	if s.PanicBatch > 0 {
		n += fmt.Sprintf("-panic%d", s.PanicBatch)
	}
	return n
}

// container for the plain PeriodicalExecutor
type container struct {
	tasks     []any
	threshold int
	exec      func([]any)
}

func (c *container) AddTask(t any) bool { c.tasks = append(c.tasks, t); return len(c.tasks) >= c.threshold }
func (c *container) Execute(v any)      { c.exec(v.([]any)) }
func (c *container) RemoveAll() any     { t := c.tasks; c.tasks = nil; return t }

type api struct {
	add   func(task string)
	flush func()
	wait  func()
}

func scenario(s spec) vx.Scenario {
	body := func() {
		nexec := 0
		execute := func(tasks []any) {
			nexec++
			n := nexec
			var ids []string
			for _, t := range tasks {
				ids = append(ids, t.(string))
			}
			vsched.Log("XB %d %s", n, strings.Join(ids, ","))
			vsched.Op("in-execute")
			if n == s.PanicBatch {
				vsched.Log("XP %d", n)
				panic("execute panic")
			}
			vsched.Log("XE %d", n)
		}
		var a api
		switch s.Kind {
		case "periodical":
			pe := executors.NewPeriodicalExecutor(interval, &container{threshold: s.Threshold, exec: execute})
			a = api{add: func(t string) { pe.Add(t) }, flush: func() { pe.Flush() }, wait: pe.Wait}
		case "bulk":
			be := executors.NewBulkExecutor(execute, executors.WithBulkTasks(s.Threshold), executors.WithBulkInterval(interval))
			a = api{add: func(t string) { be.Add(t) }, flush: be.Flush, wait: be.Wait}
		case "chunk":
			ce := executors.NewChunkExecutor(execute, executors.WithChunkBytes(s.Threshold*10), executors.WithFlushInterval(interval))
			a = api{add: func(t string) { ce.Add(t, 10) }, flush: ce.Flush, wait: ce.Wait}
		}
		var wg vsched.WaitGroup
		for pi, pauses := range s.Producers {
			pi, pauses := pi, pauses
			wg.Add(1)
			vsched.GoNamed(fmt.Sprintf("producer%d", pi), false, func() {
				defer wg.Done()
				// with Wait called after the producers, nothing depends on the background flusher
				// outliving main: make it a daemon so the execution ends when main does
				vsched.DaemonChildren(s.WaitMode == "after")
				for k, pause := range pauses {
					if pause > 0 {
						vsched.TimeSleep(time.Duration(pause)*interval + interval/2)
					}
					id := fmt.Sprintf("t%d.%d", pi, k)
					vsched.Log("AB %s", id)
					a.add(id)
					vsched.Log("AE %s", id)
				}
			})
		}
		if s.FlushT {
			wg.Add(1)
			vsched.GoNamed("flusher", false, func() {
				defer wg.Done()
				vsched.Op("before-flush")
				a.flush()
			})
		}
		switch s.WaitMode {
		case "after":
			wg.Wait()
			vsched.Log("WB")
			a.wait()
			vsched.Log("WE")
		case "concurrent":
			vsched.Op("before-wait")
			vsched.Log("WB")
			a.wait()
			vsched.Log("WE")
			wg.Wait()
		default:
			wg.Wait()
		}
		// the background flusher (if still running) is a non-daemon thread: the execution ends when
		// it went idle and quit, i.e. after every remaining task was flushed by a tick
	}
	check := func(e *vsched.Exec) vx.Verdict {
		if g := vx.Guard(e); g != nil {
			return *g
		}
		log := e.Log()
		added := map[string]int{}    // task -> index of "AE" (Add returned)
		addBegin := map[string]int{} // task -> index of "AB"
		execBegin := map[string]int{}
		execCount := map[string]int{}
		batchOf := map[string]string{}
		batchEnd := map[string]int{} // batch -> index of XE/XP
		wb, we := -1, -1
		nb := 0
		for i, l := range log {
			f := strings.Fields(l)
			switch f[0] {
			case "AB":
				addBegin[f[1]] = i
			case "AE":
				added[f[1]] = i
			case "XB":
				nb++
				if len(f) > 2 {
					for _, id := range strings.Split(f[2], ",") {
						execCount[id]++
						execBegin[id] = i
						batchOf[id] = f[1]
					}
				}
			case "XE", "XP":
				batchEnd[f[1]] = i
			case "WB":
				wb = i
			case "WE":
				we = i
			}
		}
		var eids []string
		for id := range execCount {
			eids = append(eids, id)
		}
		sort.Strings(eids)
		for _, id := range eids {
			n := execCount[id]
			if n > 1 {
				return vx.Verdict{Class: "executed-twice", Msg: fmt.Sprintf("task %s passed to the callback %d times", id, n)}
			}
			if _, ok := addBegin[id]; !ok {
				return vx.Verdict{Class: "phantom-task", Msg: fmt.Sprintf("callback received %s which was never added", id)}
			}
		}
		var aids []string
		for id := range added {
			aids = append(aids, id)
		}
		sort.Strings(aids)
		for _, id := range aids {
			if execCount[id] == 0 {
				return vx.Verdict{Class: "task-lost", Msg: fmt.Sprintf("task %s accepted by Add was never passed to the callback (execution ended with the flusher idle)", id)}
			}
		}
		if we >= 0 {
			var ids []string
			for id := range added {
				ids = append(ids, id)
			}
			sort.Strings(ids)
			for _, id := range ids {
				ae := added[id]
				if ae < wb {
					// added before Wait was called: its callback must have returned before Wait returned
					end, ok := batchEnd[batchOf[id]]
					if execCount[id] == 0 || !ok || end > we || execBegin[id] > we {
						// cause key: was the task's batch in the Add→flusher hand-off (removed from the
						// container by an Add that had not returned yet) when Wait returned?
						cls := "wait-returned-early:other"
						for id2, ab := range addBegin {
							if batchOf[id2] == batchOf[id] && ab < we {
								if ae2, ok := added[id2]; !ok || ae2 > we {
									cls = "wait-returned-early:batch-in-commander-handoff"
								}
							}
						}
						return vx.Verdict{Class: cls, Msg: fmt.Sprintf("Wait returned (log #%d) before the callback for task %s, added before Wait (Add returned at #%d), had returned", we, id, ae)}
					}
				}
			}
		}
		return vx.Verdict{Sig: fmt.Sprintf("batches=%d", nb)}
	}
	w := 1
	for _, p := range s.Producers {
		w += len(p) * 3
		for _, x := range p {
			if x > 5 {
				w += 20
			}
		}
	}
	nthreads := len(s.Producers)
	if s.FlushT {
		nthreads++
	}
	sc := vx.Scenario{Name: s.name(), Body: body, Check: check, Weight: w, Horizon: 4000}
	if !thorough && nthreads >= 2 {
		sc.SetBound, sc.P, sc.T = true, 1, 1
	}
	return sc
}

var thorough bool

func main() {
	cfg := vlib.ParseFlags("C11", "model_checking")
	thorough = cfg.Thorough()
	r := vlib.NewReport(cfg)
	var sc []vx.Scenario
	add := func(s spec) { sc = append(sc, scenario(s)) }
	for _, th := range []int{1, 2, 3} {
		add(spec{Kind: "periodical", Threshold: th, Producers: [][]int{{0, 0}}, WaitMode: "after"})
		add(spec{Kind: "periodical", Threshold: th, Producers: [][]int{{0}, {0}}, WaitMode: "after"})
		add(spec{Kind: "periodical", Threshold: th, Producers: [][]int{{0, 0}, {0}}, WaitMode: "after"})
		add(spec{Kind: "periodical", Threshold: th, Producers: [][]int{{0}, {0}}, WaitMode: "concurrent"})
		add(spec{Kind: "periodical", Threshold: th, Producers: [][]int{{0, 0}}, WaitMode: "none"})
	}
	add(spec{Kind: "periodical", Threshold: 2, Producers: [][]int{{0, 0, 0}}, WaitMode: "after"})
	add(spec{Kind: "periodical", Threshold: 2, Producers: [][]int{{0}, {0}}, WaitMode: "after", FlushT: true})
	add(spec{Kind: "periodical", Threshold: 3, Producers: [][]int{{0, 0}}, WaitMode: "concurrent", FlushT: true})
	add(spec{Kind: "periodical", Threshold: 1, Producers: [][]int{{0, 0}, {0}}, WaitMode: "after", PanicBatch: 1})
	add(spec{Kind: "periodical", Threshold: 2, Producers: [][]int{{0, 0}, {0}}, WaitMode: "after", PanicBatch: 1})
	add(spec{Kind: "periodical", Threshold: 3, Producers: [][]int{{0, 0}}, WaitMode: "none", PanicBatch: 1})
	// idle-quit and restart: the second Add comes after the flusher went idle for > 10 intervals
	add(spec{Kind: "periodical", Threshold: 2, Producers: [][]int{{0, 11}}, WaitMode: "after"})
	add(spec{Kind: "periodical", Threshold: 3, Producers: [][]int{{0, 11}}, WaitMode: "none"})
	add(spec{Kind: "periodical", Threshold: 2, Producers: [][]int{{0, 11}, {10}}, WaitMode: "after"})
	add(spec{Kind: "periodical", Threshold: 1, Producers: [][]int{{0, 11}}, WaitMode: "after"})
	for _, k := range []string{"bulk", "chunk"} {
		add(spec{Kind: k, Threshold: 2, Producers: [][]int{{0, 0}, {0}}, WaitMode: "after"})
		add(spec{Kind: k, Threshold: 3, Producers: [][]int{{0}, {0}}, WaitMode: "concurrent"})
		add(spec{Kind: k, Threshold: 2, Producers: [][]int{{0, 11}}, WaitMode: "after"})
	}
	if cfg.Thorough() {
		add(spec{Kind: "periodical", Threshold: 2, Producers: [][]int{{0, 0}, {0, 0}}, WaitMode: "after"})
		add(spec{Kind: "periodical", Threshold: 3, Producers: [][]int{{0, 0}, {0, 0}}, WaitMode: "concurrent", FlushT: true})
		add(spec{Kind: "periodical", Threshold: 2, Producers: [][]int{{0, 11, 0}, {11}}, WaitMode: "after"})
		add(spec{Kind: "bulk", Threshold: 2, Producers: [][]int{{0, 0}, {0, 0}}, WaitMode: "concurrent", PanicBatch: 2})
	}
	vx.Main(cfg, r, sc, vx.Bounds{P: 2, T: 1}, vx.Bounds{P: 3, T: 2},
		"every interleaving (preemption bound / timer-deviation bound per scenario in the evidence) of 1-2 producers x 1-3 Add calls, an optional Flush thread, Wait (after or concurrent), ticks of the flush ticker on the virtual clock (incl. 11 idle ticks that make the background flusher quit and restart) and a panicking callback, on PeriodicalExecutor / BulkExecutor / ChunkExecutor with thresholds 1-3; distinct/non-trivial by (scenario, number of batches the callback received)")
}
