//go:build verif

package collection

import (
	"fmt"
	"sort"
	"strings"
	"time"

	"github.com/zeromicro/go-zero/core/timex"
)

// Read-only white-box accessors for the C16 check (what an in-package test could read).
// Nothing here mutates a collection.

// VerifC16SafeMapConsts returns the migration constants the binary was built with.
func VerifC16SafeMapConsts() (copyThr, maxDel int) { return copyThreshold, maxDeletion }

// VerifC16DumpRW renders the complete state of a float64 rolling window: ring offset, time
// elapsed since the start of the newest bucket (the only way the clock enters Add/Reduce), and
// every bucket in ring order.
func VerifC16DumpRW(rw *RollingWindow[float64, *Bucket[float64]]) string {
	var b strings.Builder
	fmt.Fprintf(&b, "off=%d since=%d ign=%v size=%d|", rw.offset, int64(timex.Since(rw.lastTime)), rw.ignoreCurrent, rw.size)
	for _, bk := range rw.win.buckets {
		fmt.Fprintf(&b, "(%g,%d)", bk.Sum, bk.Count)
	}
	return b.String()
}

// VerifC16RWInterval returns the configured interval.
func VerifC16RWInterval(rw *RollingWindow[float64, *Bucket[float64]]) time.Duration {
	return rw.interval
}

// VerifC16DumpSafeMap renders both generations (sorted) and the deletion counters.
func VerifC16DumpSafeMap(m *SafeMap) string {
	gen := func(g map[any]any) string {
		xs := make([]string, 0, len(g))
		for k, v := range g {
			xs = append(xs, fmt.Sprintf("%v=%v", k, v))
		}
		sort.Strings(xs)
		return strings.Join(xs, ",")
	}
	return fmt.Sprintf("dO=%d dN=%d old{%s} new{%s}", m.deletionOld, m.deletionNew, gen(m.dirtyOld), gen(m.dirtyNew))
}

// VerifC16SafeMapShape returns the sizes of the generations and the counters.
func VerifC16SafeMapShape(m *SafeMap) (lenOld, lenNew, delOld, delNew int) {
	return len(m.dirtyOld), len(m.dirtyNew), m.deletionOld, m.deletionNew
}

// VerifC16SafeMapWhere tells in which generation(s) key lives: bit 0 = old, bit 1 = new.
func VerifC16SafeMapWhere(m *SafeMap, key any) int {
	w := 0
	if _, ok := m.dirtyOld[key]; ok {
		w |= 1
	}
	if _, ok := m.dirtyNew[key]; ok {
		w |= 2
	}
	return w
}

// VerifC16DumpQueue renders head/tail/count/capacity and the live elements in queue order.
// Slots outside the live region are never read before they are overwritten (growth happens
// only when the queue is full), so they are not part of the state.
func VerifC16DumpQueue(q *Queue) string {
	var b strings.Builder
	fmt.Fprintf(&b, "h=%d t=%d n=%d cap=%d sz=%d|", q.head, q.tail, q.count, len(q.elements), q.size)
	for i := 0; i < q.count; i++ {
		fmt.Fprintf(&b, "%v,", q.elements[(q.head+i)%len(q.elements)])
	}
	return b.String()
}

// VerifC16DumpRing renders index and all slots.
func VerifC16DumpRing(r *Ring) string {
	return fmt.Sprintf("idx=%d %v", r.index, r.elements)
}

// VerifC16DumpSet renders the type tag and the sorted members with their dynamic types.
func VerifC16DumpSet(s *Set) string {
	xs := make([]string, 0, len(s.data))
	for k := range s.data {
		xs = append(xs, fmt.Sprintf("%T:%v", k, k))
	}
	sort.Strings(xs)
	return fmt.Sprintf("tp=%d{%s}", s.tp, strings.Join(xs, ","))
}

// VerifC16CacheView is what the oracle reads from a Cache at quiescence.
type VerifC16CacheView struct {
	Data  map[string]any // copy of the entries
	LRU   []string       // recency list, most recent first (nil when the cache has no limit)
	Limit int
	Dump  string // canonical rendering of everything (state key)
}

// VerifC16Cache reads the cache: entries, recency list, and the timing wheel with slot
// positions relative to tickedPos (the wheel is rotation invariant: every position it computes
// is tickedPos+steps mod numSlots), plus the wheel's SafeMap of timers.
func VerifC16Cache(c *Cache) VerifC16CacheView {
	v := VerifC16CacheView{Data: map[string]any{}}
	var b strings.Builder
	ks := make([]string, 0, len(c.data))
	for k, val := range c.data {
		v.Data[k] = val
		ks = append(ks, fmt.Sprintf("%s=%v", k, val))
	}
	sort.Strings(ks)
	b.WriteString("D{" + strings.Join(ks, ",") + "}")
	if kl, ok := c.lruCache.(*keyLru); ok {
		v.Limit = kl.limit
		v.LRU = []string{}
		for e := kl.evicts.Front(); e != nil; e = e.Next() {
			v.LRU = append(v.LRU, e.Value.(string))
		}
		es := make([]string, 0, len(kl.elements))
		for k, e := range kl.elements {
			es = append(es, fmt.Sprintf("%s>%v", k, e.Value))
		}
		sort.Strings(es)
		fmt.Fprintf(&b, " L%d[%s]{%s}", kl.limit, strings.Join(v.LRU, ","), strings.Join(es, ","))
	}
	tw := c.timingWheel
	b.WriteString(" W")
	for i := 0; i < tw.numSlots; i++ {
		p := (tw.tickedPos + i) % tw.numSlots
		l := tw.slots[p]
		if l.Len() == 0 {
			continue
		}
		fmt.Fprintf(&b, "|+%d:", i)
		for e := l.Front(); e != nil; e = e.Next() {
			t := e.Value.(*timingEntry)
			fmt.Fprintf(&b, "(%v c%d d%d r%v)", t.key, t.circle, t.diff, t.removed)
		}
	}
	var ts []string
	tw.timers.Range(func(k, val any) bool {
		p := val.(*positionEntry)
		rel := (p.pos - tw.tickedPos + tw.numSlots) % tw.numSlots
		ts = append(ts, fmt.Sprintf("%v@+%d->%v/g%d", k, rel, p.item.key, VerifC16SafeMapWhere(tw.timers, k)))
		return true
	})
	sort.Strings(ts)
	_, _, dO, dN := VerifC16SafeMapShape(tw.timers)
	fmt.Fprintf(&b, " T{%s}dO%d,dN%d", strings.Join(ts, ","), dO, dN)
	v.Dump = b.String()
	return v
}
