package main

import (
	"fmt"
	"sort"
	"strings"
	"time"

	"github.com/zeromicro/go-zero/core/collection"
	"github.com/zeromicro/go-zero/verifshim/vsched"
)

// RollingWindow on the process-global fake clock (pass-through mode).
//
// Reference: the window is created at fake time 0; bucket index of time t is t / interval
// (aligned to the window's start). Every Add is remembered as (bucket index, value). Reduce at
// time t must visit exactly the values whose bucket lies in (cur-size, cur], cur = t / interval,
// minus bucket cur when IgnoreCurrentBucket is configured. Values are 1 and 100, so the sum of
// the visited buckets (base 100) is the multiset of visited values; Count is cross-checked.
//
// Key: white-box dump (offset, time since lastTime, all buckets) ⊕ reference entries still
// inside the window (relative bucket index, value) ⊕ phase of the clock inside the interval.
// RollingWindow reads the clock only as Since(lastTime), so equal keys have equal futures.

const rwInterval = time.Second

func rwJumps(size int, thorough bool) []int64 {
	i := int64(rwInterval)
	set := map[int64]bool{1: true, i - 1: true, i: true, int64(size-1) * i: true, int64(size) * i: true, int64(size+1) * i: true}
	if thorough {
		set[i+1] = true
		set[2*int64(size)*i] = true
	}
	var out []int64
	for d := range set {
		if d > 0 {
			out = append(out, d)
		}
	}
	sort.Slice(out, func(a, b int) bool { return out[a] < out[b] })
	return out
}

type rwAdd struct {
	bucket int64
	v      int64
}

func rwJob(name string, size int, ign bool, thorough bool) *job {
	alpha := []Op{{K: "add", N: 1}, {K: "add", N: 100}, {K: "reduce"}}
	for _, d := range rwJumps(size, thorough) {
		alpha = append(alpha, Op{K: "jump", N: d})
	}
	depth := 8
	if thorough {
		depth = 10
	}
	j := &job{name: name, depth: depth,
		alpha: func(int, []Op) []Op { return alpha },
		rule:  fmt.Sprintf("RollingWindow size=%d ignoreCurrent=%v interval=1s; alphabet Add(1) Add(100) Reduce jumps%v ns", size, ign, rwJumps(size, thorough)),
		nontriv: func(path []Op) bool {
			for _, o := range path {
				if o.K == "add" {
					return true
				}
			}
			return false
		},
	}
	j.run = func(path []Op, verbose bool) result {
		var res result
		vsched.SetNow(0)
		newBucket := func() *collection.Bucket[float64] { return new(collection.Bucket[float64]) }
		var rw *collection.RollingWindow[float64, *collection.Bucket[float64]]
		if ign {
			rw = collection.NewRollingWindow[float64, *collection.Bucket[float64]](newBucket, size, rwInterval,
				collection.IgnoreCurrentBucket[float64, *collection.Bucket[float64]]())
		} else {
			rw = collection.NewRollingWindow[float64, *collection.Bucket[float64]](newBucket, size, rwInterval)
		}
		var now int64
		var adds []rwAdd
		lastAddBucket := int64(0)
		iv := int64(rwInterval)
		// observe compares one Reduce with the reference.
		observe := func(step string) bool {
			var sum float64
			var cnt int64
			rw.Reduce(func(b *collection.Bucket[float64]) {
				sum += b.Sum
				cnt += b.Count
			})
			got100, got1 := int64(sum)/100, int64(sum)%100
			cur := now / iv
			var want1, want100 int64
			for _, a := range adds {
				if a.bucket > cur-int64(size) && a.bucket <= cur && !(ign && a.bucket == cur) {
					if a.v == 1 {
						want1++
					} else {
						want100++
					}
				}
			}
			if verbose {
				fmt.Printf("    %s: Reduce visited {1:×%d, 100:×%d} count=%d; reference {1:×%d, 100:×%d}; %s\n", step, got1, got100, cnt, want1, want100, collection.VerifC16DumpRW(rw))
			}
			if got1 == want1 && got100 == want100 && cnt == want1+want100 && float64(int64(sum)) == sum {
				return true
			}
			kind := "mixed"
			switch {
			case got1 >= want1 && got100 >= want100:
				kind = "extra"
			case got1 <= want1 && got100 <= want100:
				kind = "missing"
			}
			// shape (description only): buckets elapsed since the last Add's bucket
			el := cur - lastAddBucket
			shape := "span=0"
			switch {
			case el == 0:
			case el < int64(size)-1:
				shape = "span<size-1"
			case el == int64(size)-1:
				shape = "span=size-1"
			case el == int64(size):
				shape = "span=size"
			default:
				shape = "span>size"
			}
			res.class = "rw-reduce-" + kind
			if ign && kind == "extra" {
				var c1, c100 int64
				for _, a := range adds {
					if a.bucket == cur {
						if a.v == 1 {
							c1++
						} else {
							c100++
						}
					}
				}
				if c1+c100 > 0 && got1-want1 == c1 && got100-want100 == c100 {
					res.class = "rw-current-bucket-not-ignored"
				}
			}
			step += " (" + shape + ")"
			res.err = fmt.Sprintf("%s at t=%dns (bucket %d): Reduce visited {1:×%d, 100:×%d} count=%d sum=%g, reference (buckets %d..%d%s) {1:×%d, 100:×%d}; history %v",
				step, now, cur, got1, got100, cnt, sum, cur-int64(size)+1, cur, map[bool]string{true: " minus current", false: ""}[ign], want1, want100, path)
			return false
		}
		for i, op := range path {
			switch op.K {
			case "add":
				rw.Add(float64(op.N))
				adds = append(adds, rwAdd{now / iv, op.N})
				lastAddBucket = now / iv
			case "jump":
				vsched.AdvanceGlobal(time.Duration(op.N))
				now += op.N
			case "reduce":
				if !observe(fmt.Sprintf("step %d reduce", i)) {
					return res
				}
			}
			if verbose && op.K != "reduce" {
				fmt.Printf("  step %d %-18v t=%dns %s\n", i, op, now, collection.VerifC16DumpRW(rw))
			}
		}
		cur := now / iv
		var ms []string
		for _, a := range adds {
			if a.bucket > cur-int64(size) {
				ms = append(ms, fmt.Sprintf("%d:%d", cur-a.bucket, a.v))
			}
		}
		sort.Strings(ms)
		res.key = collection.VerifC16DumpRW(rw) + "#" + fmt.Sprint(now%iv) + "#" + strings.Join(ms, ",")
		inCur := 0
		for _, a := range adds {
			if a.bucket == cur {
				inCur++
			}
		}
		switch {
		case len(adds) == 0:
		case len(ms) == 0:
			res.tags = append(res.tags, "everything-expired")
		case len(ms) < len(adds):
			res.tags = append(res.tags, "partly-expired")
		default:
			res.tags = append(res.tags, "nothing-expired")
		}
		if ign && inCur > 0 {
			res.tags = append(res.tags, "current-bucket-ignored")
		}
		if now%iv == 0 && now > 0 {
			res.tags = append(res.tags, "clock-on-bucket-boundary")
		}
		if now%iv == iv-1 {
			res.tags = append(res.tags, "clock-1ns-before-boundary")
		}
		observe("final observation")
		return res
	}
	return j
}
