package main

import (
	"errors"
	"fmt"
	"regexp"
	"sort"
	"strconv"
	"strings"
	"time"

	"github.com/zeromicro/go-zero/core/collection"
	"github.com/zeromicro/go-zero/core/logx"
	"github.com/zeromicro/go-zero/verifshim/vsched"
)

// collection.Cache in vsched's sequential-driver mode: the driver thread performs one operation,
// Quiesce() runs the wheel's and the cache's own goroutines until nothing can move, Advance(n s)
// fires the wheel's (virtual) 1 s ticker n times with a quiesce after every tick. The jitter of
// mathx.Unstable is owned by the harness through vsched.FloatHook (pinned per configuration:
// lo → ×0.95, hi → ×1.05, mid → ×1.00, alt → alternating) — the ORACLE never uses the pinned
// value: it only knows that an entry set with duration d may disappear no earlier than
// floor(0.95·d / 1 s) ticks and must be gone after max(1, floor(1.05·d / 1 s)) ticks.
//
// Reference model: key → (latest value, tick of last Set, bracket) + recency list (most recent
// first). Set/SetWithExpire/Get-hit/Take refresh recency; inserting into a full cache evicts
// the least recently used key. After every operation the white-box view (entries map) is read:
//   - an entry younger than its lower bracket must be present, one at/after the upper bracket
//     must be gone; in between the model follows what the cache did (expired or not);
//   - the entries must then be exactly the model's (latest values), and at most `limit` many.
// Public results are compared step by step: Get hit/miss + value, Take value/error and the
// number of loader calls (1 on a miss, 0 on a hit). Observation at the end: Get of every key.
//
// Key: white-box dump (entries, recency list + index, wheel slots relative to tickedPos with
// circle/diff/removed flags, timers map with SafeMap generation and deletion counters) ⊕ model
// (ages inside the brackets).

const (
	cacheDefault = 3 * time.Second // Set / Take: bracket [2,3] ticks
	cacheLong    = 6 * time.Second // SetWithExpire: bracket [5,6] ticks
)

var errLoader = errors.New("loader failed")

type centry struct {
	val     string
	setTick int
	lo, hi  int
}

func bracket(d time.Duration) (lo, hi int) {
	ms := d.Milliseconds()
	lo = int(ms * 95 / 100 / 1000)
	hi = int(ms * 105 / 100 / 1000)
	if hi < 1 {
		hi = 1
	}
	return
}

// unlimitedKeys: a cache built WITHOUT WithLimit must never evict. Besides the 2-key searches
// (cache/limit=0/jit=…) it is driven, one level less deep, with more keys than the largest limit
// of the limited configurations (3), so that a hidden cap of 1..3 entries shows up as
// cache-entry-lost (job cache/limit=0/jit=hi/keys=4).
const unlimitedKeys = 4

// Statistics variant ("…/stat"): the cache is built with WithName(statName) and the history starts
// statPrologue virtual seconds after construction, so that the 1-minute statistics ticker (which
// logs the cache's name and Cache.size()) fires inside the explored histories: Advance(1) does
// not reach it, Advance(2) lands exactly on it (together with the wheel's 60th tick), Advance(5)
// goes past it.
const (
	statName     = "c16-named"
	statPrologue = 58
	statPeriod   = 60
)

func cacheJob(name string, limit int, jit string, thorough bool) *job {
	stat := strings.HasSuffix(name, "/stat")
	nkeys := limit + 1
	if nkeys < 2 {
		nkeys = 2
	}
	manyKeys := param(name, "keys") != ""
	if manyKeys {
		nkeys = atoi(param(name, "keys"))
	}
	depth := map[int]int{0: 6, 1: 6, 2: 5, 3: 5}[limit]
	if thorough {
		depth = map[int]int{0: 7, 1: 7, 2: 6, 3: 6}[limit]
	}
	if stat {
		depth = 4
		if thorough {
			depth = 5
		}
	}
	if manyKeys {
		depth = 5
		if thorough {
			depth = 6
		}
	}
	advs := []int64{1, 2, 5}
	j := &job{name: name, pbfs: true, depth: depth, nontriv: hasMutation("set", "swe", "take")}
	j.rule = fmt.Sprintf("Cache limit=%d (0 = built without WithLimit), %d keys, default expire 3s, SetWithExpire 6s, jitter %s; alphabet Set SetWithExpire Get Del Take(ok loader) Take(failing loader) Advance%v ticks", limit, nkeys, jit, advs)
	if stat {
		j.rule += fmt.Sprintf("; built with WithName(%q), history starts %d s after construction, every line of the 1-minute statistics log is judged (name, elements = Cache.size())", statName, statPrologue)
	}
	j.alpha = func(d int, path []Op) []Op {
		used := 0
		for _, o := range path {
			if o.I > used {
				used = o.I
			}
		}
		var out []Op
		for _, k := range []string{"take", "takeerr", "set", "swe", "get", "del"} { // take first: a loading Take and a Set reach the same state, let Take represent it
			for i := 1; i <= nkeys && i <= used+1; i++ {
				out = append(out, Op{K: k, I: i})
			}
		}
		for _, a := range advs {
			out = append(out, Op{K: "adv", N: a})
		}
		return out
	}
	j.run = func(path []Op, verbose bool) result { return cacheRun(limit, nkeys, jit, stat, path, verbose) }
	return j
}

// statWriter is a logx.Writer that keeps the statistics lines and drops everything else.
type statWriter struct{ lines []string }

func (s *statWriter) Alert(any)                   {}
func (s *statWriter) Close() error                { return nil }
func (s *statWriter) Debug(any, ...logx.LogField) {}
func (s *statWriter) Error(any, ...logx.LogField) {}
func (s *statWriter) Info(any, ...logx.LogField)  {}
func (s *statWriter) Severe(any)                  {}
func (s *statWriter) Slow(any, ...logx.LogField)  {}
func (s *statWriter) Stack(any)                   {}
func (s *statWriter) Stat(v any, _ ...logx.LogField) {
	s.lines = append(s.lines, fmt.Sprint(v))
}

var (
	statNameRe = regexp.MustCompile(`cache\(([^)]*)\)`)
	statElemRe = regexp.MustCompile(`elements: (-?\d+)`)
)

func cacheRun(limit, nkeys int, jit string, stat bool, path []Op, verbose bool) result {
	var res result
	var sw *statWriter
	if stat {
		// the harness runs with logx disabled; this variant needs the statistics lines
		sw = &statWriter{}
		logx.SetLevel(logx.InfoLevel)
		logx.SetWriter(sw)
		defer logx.Disable()
	}
	calls := 0
	vsched.FloatHook = func() (float64, bool) {
		calls++
		switch jit {
		case "lo":
			return 0.999999, true
		case "hi":
			return 0, true
		case "mid":
			return 0.5, true
		}
		if calls%2 == 1 {
			return 0.999999, true
		}
		return 0, true
	}
	body := func() {
		vsched.DaemonChildren(true) // wheel run loop and stat loop never exit
		var opts []collection.CacheOption
		if limit > 0 {
			opts = append(opts, collection.WithLimit(limit))
		}
		if stat {
			opts = append(opts, collection.WithName(statName))
		}
		c, err := collection.NewCache(cacheDefault, opts...)
		if err != nil {
			res.err, res.class = "NewCache: "+err.Error(), "cache-constructor"
			return
		}
		vsched.Quiesce()
		abs := 0     // whole seconds since construction (statistics variant: phase of the 1-minute ticker)
		act := false // a Get / successful Take happened since the last statistics tick
		if stat {
			vsched.Advance(statPrologue * time.Second)
			abs = statPrologue
			if len(sw.lines) != 0 {
				res.err, res.class = fmt.Sprintf("statistics line %q logged by a cache that was never used", sw.lines[0]), "cache-stat-line-unexpected"
				return
			}
		}
		ref := map[string]*centry{}
		var lru []string // most recent first
		nset := map[string]int{}
		tick := 0
		keyName := func(i int) string { return fmt.Sprintf("k%d", i-1) }
		touch := func(k string) {
			for i, x := range lru {
				if x == k {
					lru = append(lru[:i], lru[i+1:]...)
					break
				}
			}
			lru = append([]string{k}, lru...)
		}
		drop := func(k string) {
			delete(ref, k)
			for i, x := range lru {
				if x == k {
					lru = append(lru[:i], lru[i+1:]...)
					break
				}
			}
		}
		shape := func() string {
			if limit == 0 {
				return "no-limit"
			}
			if len(ref) >= limit {
				return "full"
			}
			return "below-limit"
		}
		ev := map[string]bool{}
		defer func() {
			for t := range ev {
				res.tags = append(res.tags, t)
			}
			sort.Strings(res.tags)
		}()
		fail := func(what, msg string) {
			res.class = "cache-" + what
			res.err = msg + fmt.Sprintf(" (cache %s); history %v", shape(), path)
		}
		// model of Set: returns the key the reference evicts ("" if none)
		modelSet := func(k, v string, d time.Duration) string {
			lo, hi := bracket(d)
			old, existed := ref[k]
			if existed {
				ev["timer-moved"] = true
				if tick-old.setTick > 0 {
					ev["timer-moved-after-ticks"] = true
				}
			}
			ref[k] = &centry{val: v, setTick: tick, lo: lo, hi: hi}
			touch(k)
			if !existed && limit > 0 && len(ref) > limit {
				victim := lru[len(lru)-1]
				drop(victim)
				ev["evicted"] = true
				return victim
			}
			return ""
		}
		// sync compares the white-box entries with the model after an operation.
		sync := func(step string, evicted string) bool {
			view := collection.VerifC16Cache(c)
			var ks []string
			for k := range ref {
				ks = append(ks, k)
			}
			sort.Strings(ks)
			for _, k := range ks {
				e := ref[k]
				age := tick - e.setTick
				_, present := view.Data[k]
				switch {
				case age < e.lo && !present:
					what := "entry-lost"
					if evicted != "" {
						what = "wrong-eviction-victim"
					} else if age > 0 {
						what = "expired-early"
					}
					fail(what, fmt.Sprintf("%s: %s (set %d ticks ago, may expire after %d..%d ticks) is gone; reference evicted %q; cache holds %v", step, k, age, e.lo, e.hi, evicted, keysOf(view.Data)))
					return false
				case age >= e.hi && present:
					fail("expired-late", fmt.Sprintf("%s: %s set %d ticks ago must be gone after %d ticks but is still cached", step, k, age, e.hi))
					return false
				case !present:
					drop(k) // expired inside its bracket
					ev["expired"] = true
					if age == e.lo && e.lo < e.hi {
						ev["expired-at-lower-bracket"] = true
					}
				}
			}
			if limit > 0 && len(view.Data) > limit {
				fail("over-limit", fmt.Sprintf("%s: %d entries with limit %d", step, len(view.Data), limit))
				return false
			}
			for _, k := range keysOf(view.Data) {
				v := view.Data[k]
				e, ok := ref[k]
				if !ok {
					what := "ghost-entry"
					if k == evicted {
						what = "wrong-eviction-victim"
					}
					fail(what, fmt.Sprintf("%s: cache holds %s=%v which the reference does not (deleted, expired or evicted); reference %v", step, k, v, refStr(ref, tick)))
					return false
				}
				if v != e.val {
					fail("stale-value", fmt.Sprintf("%s: cache holds %s=%v, latest value set is %s", step, k, v, e.val))
					return false
				}
			}
			if verbose {
				fmt.Printf("  %-22s tick=%d reference %v lru %v\n      cache: %s\n", step, tick, refStr(ref, tick), lru, view.Dump)
			}
			return true
		}
		checkGet := func(step, k string) bool {
			v, ok := c.Get(k)
			vsched.Quiesce()
			e := ref[k]
			if (e != nil) != ok {
				what := "get-miss-on-live-entry"
				if ok {
					what = "get-hit-on-dead-entry"
				}
				fail(what, fmt.Sprintf("%s: Get(%s)=(%v,%v), reference %v", step, k, v, ok, refStr(ref, tick)))
				return false
			}
			if ok && v != e.val {
				fail("stale-value", fmt.Sprintf("%s: Get(%s)=%v, latest value set is %s", step, k, v, e.val))
				return false
			}
			if ok {
				if len(lru) > 0 && lru[0] != k {
					ev["recency-refreshed-by-read"] = true
				}
				touch(k)
			}
			return true
		}
		// judgeStat judges the statistics lines logged during the last tick: the name must be the
		// configured one and "elements" (= Cache.size()) must lie between the reference's number of
		// entries after and before that tick (entries may expire in the same instant the
		// statistics ticker fires; the order of the two tickers is not specified).
		judgeStat := func(step string, from, before int) bool {
			for _, ln := range sw.lines[from:] {
				if verbose {
					fmt.Printf("      statistics line: %q (reference: %d entries before, %d after this tick)\n", ln, before, len(ref))
				}
				nm, el := statNameRe.FindStringSubmatch(ln), statElemRe.FindStringSubmatch(ln)
				if nm == nil || el == nil {
					ev["stat-line-unparsed"] = true // format changed: nothing to judge
					continue
				}
				if nm[1] != statName {
					fail("stat-name-wrong", fmt.Sprintf("%s: statistics line %q names the cache %q, it was built with WithName(%q)", step, ln, nm[1], statName))
					return false
				}
				n, _ := strconv.Atoi(el[1])
				after := len(ref)
				if n < after || n > before {
					fail("stat-elements-wrong", fmt.Sprintf("%s: statistics line %q reports %d elements, the reference holds %d before and %d after this tick: %v", step, ln, n, before, after, refStr(ref, tick)))
					return false
				}
				ev["stat-line-judged"] = true
				if n > 0 {
					ev["stat-line-judged-nonempty"] = true
				}
				if before != after {
					ev["stat-line-judged-at-expiry"] = true
				}
				if limit > 0 && n == limit {
					ev["stat-line-judged-full"] = true
				}
			}
			return true
		}
		for i, op := range path {
			step := fmt.Sprintf("step %d %v", i, op)
			k := keyName(op.I)
			evicted := ""
			switch op.K {
			case "set", "swe":
				nset[k]++
				v := fmt.Sprintf("%s.v%d", k, nset[k]%2)
				d := cacheDefault
				if op.K == "swe" {
					d = cacheLong
					c.SetWithExpire(k, v, d)
				} else {
					c.Set(k, v)
				}
				evicted = modelSet(k, v, d)
			case "get":
				act = true
				if !checkGet(step, k) {
					return
				}
			case "del":
				c.Del(k)
				drop(k)
			case "take", "takeerr":
				loads := 0
				nv := fmt.Sprintf("%s.v%d", k, (nset[k]+1)%2)
				v, err := c.Take(k, func() (any, error) {
					loads++
					if op.K == "takeerr" {
						return nil, errLoader
					}
					return nv, nil
				})
				e := ref[k]
				wantLoads := 1
				if e != nil {
					wantLoads = 0
				}
				if loads != wantLoads {
					fail(map[bool]string{true: "loader-called-on-hit", false: "loader-not-called-on-miss"}[e != nil],
						fmt.Sprintf("%s: loader called %d times, reference says %d (entry %v)", step, loads, wantLoads, refStr(ref, tick)))
					return
				}
				if op.K == "take" || e != nil {
					act = true
				}
				switch {
				case e != nil:
					if err != nil || v != e.val {
						fail("take-hit-wrong", fmt.Sprintf("%s: Take(%s)=(%v,%v) on a hit, latest value %s", step, k, v, err, e.val))
						return
					}
					if len(lru) > 0 && lru[0] != k {
						ev["recency-refreshed-by-read"] = true
					}
					ev["take-hit"] = true
					touch(k)
				case op.K == "takeerr":
					if err != errLoader || v != nil {
						fail("take-error-wrong", fmt.Sprintf("%s: Take(%s) with failing loader returned (%v,%v)", step, k, v, err))
						return
					}
				default:
					if err != nil || v != nv {
						fail("take-miss-wrong", fmt.Sprintf("%s: Take(%s)=(%v,%v) on a miss, loader returned %s", step, k, v, err, nv))
						return
					}
					nset[k]++
					ev["take-miss-loaded"] = true
					evicted = modelSet(k, nv, cacheDefault)
				}
			case "adv":
				if !stat {
					vsched.Advance(time.Duration(op.N) * time.Second)
					tick += int(op.N)
					break
				}
				// statistics variant: tick by tick, so that a statistics line can be judged against
				// the reference right before / after the tick it was logged in
				for n := int64(0); n < op.N; n++ {
					before, from := len(ref), len(sw.lines)
					vsched.Advance(time.Second)
					tick++
					abs++
					vsched.Quiesce()
					if !sync(step, "") || !judgeStat(step, from, before) {
						return
					}
					if abs%statPeriod == 0 {
						act = false
					}
				}
			}
			vsched.Quiesce()
			if !sync(step, evicted) {
				return
			}
		}
		for _, e := range ref {
			if a := tick - e.setTick; a >= e.lo && a < e.hi {
				ev["alive-inside-bracket"] = true
			}
		}
		view := collection.VerifC16Cache(c)
		res.key = view.Dump + "#" + refStr(ref, tick) + "#" + strings.Join(lru, ",")
		if stat {
			// the phase of the statistics ticker and whether it has something to report decide what
			// the future logs: part of the state in this variant
			res.key += fmt.Sprintf("#stat@%d/%v", abs%statPeriod, act)
		}
		// observation (on this throw-away instance): Get of every key
		for i := 1; i <= nkeys; i++ {
			if !checkGet("final observation", keyName(i)) {
				return
			}
		}
	}
	e := vsched.RunSeq(body)
	if e.Outcome != "ok" && res.err == "" {
		res.err = fmt.Sprintf("execution ended with %s: blocked %v panics %v; history %v", e.Outcome, e.Blocked(), e.Panics(), path)
		res.class = "cache-" + e.Outcome
	}
	return res
}

func keysOf(m map[string]any) []string {
	var ks []string
	for k := range m {
		ks = append(ks, k)
	}
	sort.Strings(ks)
	return ks
}

func refStr(ref map[string]*centry, tick int) string {
	var xs []string
	for k, e := range ref {
		xs = append(xs, fmt.Sprintf("%s=%s@%d[%d,%d]", k, e.val, tick-e.setTick, e.lo, e.hi))
	}
	sort.Strings(xs)
	return "{" + strings.Join(xs, ",") + "}"
}
