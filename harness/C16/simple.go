package main

import (
	"fmt"
	"sort"
	"strings"

	"github.com/zeromicro/go-zero/core/collection"
)

func hasMutation(kinds ...string) func(path []Op) bool {
	return func(path []Op) bool {
		for _, o := range path {
			for _, k := range kinds {
				if o.K == k {
					return true
				}
			}
		}
		return false
	}
}

// ---------------------------------------------------------------- Queue

// Queue(size): reference = slice. Put(v) uses v = number of puts so far (all values distinct,
// so any reordering, loss or duplication is visible). Observation: Empty, then the whole queue
// is drained and compared with the reference order.
func queueJob(name string, size int, thorough bool) *job {
	alpha := []Op{{K: "put"}, {K: "take"}, {K: "empty"}}
	depth := 16
	if thorough {
		depth = 24
	}
	j := &job{name: name, depth: depth, alpha: func(int, []Op) []Op { return alpha }, nontriv: hasMutation("put"),
		rule: fmt.Sprintf("Queue initial size %d (growth at %d, %d, … elements; wrap-around); alphabet Put(next) Take Empty", size, size, 2*size)}
	j.run = func(path []Op, verbose bool) result {
		var res result
		q := collection.NewQueue(size)
		var ref []int
		puts, maxLen := 0, 0
		shape := func() string {
			if maxLen > size {
				return "grown"
			}
			if puts > size {
				return "wrapped"
			}
			return "linear"
		}
		fail := func(what, msg string) result {
			res.class = "queue-" + what
			res.err = msg + fmt.Sprintf(" (queue %s); history %v", shape(), path)
			return res
		}
		for i, op := range path {
			switch op.K {
			case "put":
				puts++
				q.Put(puts)
				ref = append(ref, puts)
				if len(ref) > maxLen {
					maxLen = len(ref)
				}
			case "take":
				v, ok := q.Take()
				if len(ref) == 0 {
					if ok {
						return fail("take-from-empty", fmt.Sprintf("step %d: Take on an empty queue returned (%v,true)", i, v))
					}
				} else {
					if !ok || v != ref[0] {
						return fail("fifo-order", fmt.Sprintf("step %d: Take returned (%v,%v), reference head %d", i, v, ok, ref[0]))
					}
					ref = ref[1:]
				}
			case "empty":
				if q.Empty() != (len(ref) == 0) {
					return fail("empty-wrong", fmt.Sprintf("step %d: Empty()=%v with %d elements in the reference", i, q.Empty(), len(ref)))
				}
			}
			if verbose {
				fmt.Printf("  step %d %-8v %s ref=%v\n", i, op, collection.VerifC16DumpQueue(q), ref)
			}
		}
		res.key = collection.VerifC16DumpQueue(q) + "#" + fmt.Sprint(ref)
		res.tags = append(res.tags, shape())
		if q.Empty() != (len(ref) == 0) {
			return fail("empty-wrong", fmt.Sprintf("final observation: Empty()=%v with %d elements in the reference", q.Empty(), len(ref)))
		}
		var got []int
		for n := 0; n <= len(ref)+1; n++ {
			v, ok := q.Take()
			if !ok {
				break
			}
			iv, _ := v.(int)
			got = append(got, iv)
		}
		if fmt.Sprint(got) != fmt.Sprint(ref) {
			return fail("fifo-order", fmt.Sprintf("final observation: draining gives %v, reference %v", got, ref))
		}
		return res
	}
	return j
}

// ---------------------------------------------------------------- Ring

// Ring(n): reference = slice of everything added; Take must return its last min(n,len) elements
// in insertion order. Add(v) uses v = number of adds so far.
func ringJob(name string, n int, thorough bool) *job {
	alpha := []Op{{K: "add"}, {K: "take"}}
	depth := 4*n + 4
	if thorough {
		depth = 8*n + 8
	}
	j := &job{name: name, depth: depth, alpha: func(int, []Op) []Op { return alpha }, nontriv: hasMutation("add"),
		rule: fmt.Sprintf("Ring n=%d; alphabet Add(next) Take; up to %d adds (index folds back at 2n)", n, depth)}
	j.run = func(path []Op, verbose bool) result {
		var res result
		rg := collection.NewRing(n)
		var ref []int
		check := func(step string) bool {
			want := ref
			if len(want) > n {
				want = want[len(want)-n:]
			}
			got := rg.Take()
			ok := len(got) == len(want)
			for i := 0; ok && i < len(want); i++ {
				ok = got[i] == want[i]
			}
			if verbose {
				fmt.Printf("    %s: Take=%v reference=%v\n", step, got, want)
			}
			if !ok {
				shape := "underfull"
				switch {
				case len(ref) == n:
					shape = "exactly-full"
				case len(ref) >= 2*n:
					shape = "index-folded"
				case len(ref) > n:
					shape = "wrapped"
				}
				res.class = "ring-take-wrong"
				res.err = fmt.Sprintf("%s after %d adds ("+shape+"): Take returned %v, reference (last %d in order) %v; history %v", step, len(ref), got, n, want, path)
			}
			return ok
		}
		for i, op := range path {
			switch op.K {
			case "add":
				ref = append(ref, len(ref)+1)
				rg.Add(len(ref))
			case "take":
				if !check(fmt.Sprintf("step %d", i)) {
					return res
				}
			}
			if verbose {
				fmt.Printf("  step %d %-6v %s\n", i, op, collection.VerifC16DumpRing(rg))
			}
		}
		res.key = collection.VerifC16DumpRing(rg) + "#" + fmt.Sprint(len(ref))
		switch {
		case len(ref) >= 2*n:
			res.tags = append(res.tags, "index-folded")
		case len(ref) > n:
			res.tags = append(res.tags, "wrapped")
		}
		check("final observation")
		return res
	}
	return j
}

// ---------------------------------------------------------------- Set

// Set: reference = map[any]bool over a small universe. Managed sets (NewSet) get elements of one
// kind only (their contract); the unmanaged set gets one element of every kind, numerically equal
// where possible (int 1, int64 1, uint 1, uint64 1, "1") plus int 2, so that confusing kinds shows.
// Observation: Contains for every universe element, Count, Keys, and KeysInt/Int64/Uint/Uint64/Str.
func setUniverse(kind string) []any {
	switch kind {
	case "int":
		return []any{1, 2, 3, 0}
	case "int64":
		return []any{int64(1), int64(2), int64(3), int64(0)}
	case "uint":
		return []any{uint(1), uint(2), uint(3), uint(0)}
	case "uint64":
		return []any{uint64(1), uint64(2), uint64(3), uint64(0)}
	case "string":
		return []any{"1", "2", "3", ""}
	}
	return []any{1, int64(1), uint(1), uint64(1), "1", 2}
}

func setAddTyped(s *collection.Set, xs ...any) {
	// all xs have the same dynamic type here
	switch xs[0].(type) {
	case int:
		var a []int
		for _, x := range xs {
			a = append(a, x.(int))
		}
		s.AddInt(a...)
	case int64:
		var a []int64
		for _, x := range xs {
			a = append(a, x.(int64))
		}
		s.AddInt64(a...)
	case uint:
		var a []uint
		for _, x := range xs {
			a = append(a, x.(uint))
		}
		s.AddUint(a...)
	case uint64:
		var a []uint64
		for _, x := range xs {
			a = append(a, x.(uint64))
		}
		s.AddUint64(a...)
	case string:
		var a []string
		for _, x := range xs {
			a = append(a, x.(string))
		}
		s.AddStr(a...)
	}
}

func tagged(x any) string { return fmt.Sprintf("%T:%v", x, x) }

func setJob(name, kind string, thorough bool) *job {
	uni := setUniverse(kind)
	var alpha []Op
	for i := range uni {
		alpha = append(alpha, Op{K: "add", I: i + 1}, Op{K: "addt", I: i + 1}, Op{K: "rm", I: i + 1}, Op{K: "has", I: i + 1})
	}
	if kind != "unmanaged" {
		alpha = append(alpha, Op{K: "add2"}, Op{K: "addt2"})
	} else {
		alpha = append(alpha, Op{K: "add2"})
	}
	alpha = append(alpha, Op{K: "keys"}, Op{K: "count"})
	depth := 8
	if thorough {
		depth = 10
	}
	j := &job{name: name, depth: depth, alpha: func(int, []Op) []Op { return alpha }, nontriv: hasMutation("add", "addt", "add2", "addt2", "rm"),
		rule: fmt.Sprintf("Set %s universe %v; alphabet Add(x) Add<Kind>(x) Add(x0,x1) Remove(x) Contains(x) Keys Count", kind, uni)}
	j.run = func(path []Op, verbose bool) result {
		var res result
		var s *collection.Set
		if kind == "unmanaged" {
			s = collection.NewUnmanagedSet()
		} else {
			s = collection.NewSet()
		}
		ref := map[any]bool{}
		fail := func(what, msg string) result {
			res.class = "set-" + what
			res.err = msg + fmt.Sprintf(" (%s set); history %v", kind, path)
			return res
		}
		sortedRef := func(filter func(any) bool) []string {
			var out []string
			for k := range ref {
				if filter == nil || filter(k) {
					out = append(out, tagged(k))
				}
			}
			sort.Strings(out)
			return out
		}
		cmpKeys := func(what string, got []string, filter func(any) bool) string {
			sort.Strings(got)
			want := sortedRef(filter)
			if strings.Join(got, ",") != strings.Join(want, ",") {
				return fmt.Sprintf("%s returned {%s}, reference {%s}", what, strings.Join(got, ","), strings.Join(want, ","))
			}
			return ""
		}
		keysAny := func() []string {
			var got []string
			for _, k := range s.Keys() {
				got = append(got, tagged(k))
			}
			return got
		}
		for i, op := range path {
			switch op.K {
			case "add":
				s.Add(uni[op.I-1])
				ref[uni[op.I-1]] = true
			case "addt":
				setAddTyped(s, uni[op.I-1])
				ref[uni[op.I-1]] = true
			case "add2":
				s.Add(uni[0], uni[1])
				ref[uni[0]], ref[uni[1]] = true, true
			case "addt2":
				setAddTyped(s, uni[1], uni[2])
				ref[uni[1]], ref[uni[2]] = true, true
			case "rm":
				s.Remove(uni[op.I-1])
				delete(ref, uni[op.I-1])
			case "has":
				if got := s.Contains(uni[op.I-1]); got != ref[uni[op.I-1]] {
					return fail("contains-wrong", fmt.Sprintf("step %d: Contains(%s)=%v, reference %v", i, tagged(uni[op.I-1]), got, ref[uni[op.I-1]]))
				}
			case "keys":
				if m := cmpKeys("Keys()", keysAny(), nil); m != "" {
					return fail("keys-wrong", fmt.Sprintf("step %d: %s", i, m))
				}
			case "count":
				if s.Count() != len(ref) {
					return fail("count-wrong", fmt.Sprintf("step %d: Count()=%d, reference %d", i, s.Count(), len(ref)))
				}
			}
			if verbose {
				fmt.Printf("  step %d %-8v %s ref=%v\n", i, op, collection.VerifC16DumpSet(s), sortedRef(nil))
			}
		}
		res.key = collection.VerifC16DumpSet(s) + "#" + strings.Join(sortedRef(nil), ",")
		// observation
		for _, x := range uni {
			if got := s.Contains(x); got != ref[x] {
				return fail("contains-wrong", fmt.Sprintf("final observation: Contains(%s)=%v, reference %v", tagged(x), got, ref[x]))
			}
		}
		if s.Count() != len(ref) {
			return fail("count-wrong", fmt.Sprintf("final observation: Count()=%d, reference %d", s.Count(), len(ref)))
		}
		if m := cmpKeys("Keys()", keysAny(), nil); m != "" {
			return fail("keys-wrong", "final observation: "+m)
		}
		var gi, g64, gu, gu64, gs []string
		for _, k := range s.KeysInt() {
			gi = append(gi, tagged(k))
		}
		for _, k := range s.KeysInt64() {
			g64 = append(g64, tagged(k))
		}
		for _, k := range s.KeysUint() {
			gu = append(gu, tagged(k))
		}
		for _, k := range s.KeysUint64() {
			gu64 = append(gu64, tagged(k))
		}
		for _, k := range s.KeysStr() {
			gs = append(gs, tagged(k))
		}
		isT := func(t string) func(any) bool { return func(x any) bool { return fmt.Sprintf("%T", x) == t } }
		for _, c := range []struct {
			what string
			got  []string
			t    string
		}{{"KeysInt()", gi, "int"}, {"KeysInt64()", g64, "int64"}, {"KeysUint()", gu, "uint"}, {"KeysUint64()", gu64, "uint64"}, {"KeysStr()", gs, "string"}} {
			if m := cmpKeys(c.what, c.got, isT(c.t)); m != "" {
				return fail("typed-keys-wrong", "final observation: "+m)
			}
		}
		return res
	}
	return j
}
