// C16 — in-memory collections behave as their sequential reference models.
//
// One explicit-state history search per type and configuration ("job"). A state is the shortest
// operation list reaching it; a successor is computed by building a FRESH instance of the real
// go-zero type, replaying the list and applying one more operation (vlib.BFS / vlib.PBFS). After
// the last operation the state key is taken (full white-box dump ⊕ reference-model state) and
// then a read-only *observation* of the whole public API is compared with the reference model;
// the observation is not part of the history (successors replay from scratch), so observing
// cannot mask history dependence.
//
//	rw/…       RollingWindow on the fake clock (pass-through mode), in-process BFS, one process per config
//	cache/…    collection.Cache in vsched sequential-driver mode (RunSeq/Quiesce/Advance), PBFS;
//	           limit=0 = built without WithLimit (never evicts; keys=4 variant: more keys than any
//	           limit), …/stat = built with WithName, statistics lines (name, Cache.size()) judged
//	safemap/…  SafeMap; "scaled" = this binary (copyThreshold/maxDeletion overridden to 4/2 by the
//	           rewriter), "real" = a second binary built at run time from the same sources with the
//	           original safemap.go (constants 1000/10000), driven with macro operations
//	queue/… ring/… set/…   plain sequential types, in-process BFS
//
// Reference models are plain slices/maps written next to each driver; they share no code with go-zero.
package main

import (
	"crypto/sha256"
	"encoding/hex"
	"encoding/json"
	"fmt"
	"os"
	"os/exec"
	"path/filepath"
	"sort"
	"strings"
	"sync"
	"time"

	"github.com/zeromicro/go-zero/core/collection"
	"github.com/zeromicro/go-zero/core/logx"
	"github.com/zeromicro/go-zero/verifshim/vlib"
)

// Op is one operation of any of the alphabets.
type Op struct {
	K string `json:"k"`
	I int    `json:"i,omitempty"` // key / element index
	N int64  `json:"n,omitempty"` // value, count or duration (ns / ticks)
}

func (o Op) String() string {
	switch {
	case o.I == 0 && o.N == 0:
		return o.K
	case o.I != 0 && o.N != 0:
		return fmt.Sprintf("%s(%d,%d)", o.K, o.I, o.N)
	case o.N != 0:
		return fmt.Sprintf("%s(%d)", o.K, o.N)
	case o.K == "set" || o.K == "swe" || o.K == "get" || o.K == "del" || o.K == "take" || o.K == "takeerr" ||
		o.K == "add" || o.K == "addt" || o.K == "rm" || o.K == "has":
		return fmt.Sprintf("%s(%d)", o.K, o.I)
	}
	return o.K
}

// Case is the replay artefact: the job name fixes type and configuration.
type Case struct {
	Job  string `json:"job"`
	Path []Op   `json:"path"`
}

type result struct {
	key   string
	err   string
	class string
	stop  bool
	tags  []string // coverage tags of the history (counted once per new state)
}

// job = one search.
type job struct {
	name    string
	pbfs    bool // transitions executed by worker processes (vsched owns process-global state)
	depth   int
	alpha   func(depth int, path []Op) []Op
	run     func(path []Op, verbose bool) result
	rule    string
	nontriv func(path []Op) bool
}

func hashKey(s string) string {
	if len(s) <= 160 {
		return s
	}
	h := sha256.Sum256([]byte(s))
	return hex.EncodeToString(h[:16])
}

func realConsts() bool {
	c, m := collection.VerifC16SafeMapConsts()
	return c == 1000 && m == 10000
}

// jobNames lists the searches of a tier. light = own process + in-process BFS; heavy = PBFS.
func jobNames(thorough bool) (light, heavy []string) {
	for _, size := range []int{1, 2, 3, 4} {
		for _, ign := range []int{0, 1} {
			light = append(light, fmt.Sprintf("rw/size=%d/ign=%d", size, ign))
		}
	}
	light = append(light, "safemap/scaled")
	for _, s := range []int{1, 2, 3} {
		light = append(light, fmt.Sprintf("queue/size=%d", s))
	}
	for _, n := range []int{1, 2, 3} {
		light = append(light, fmt.Sprintf("ring/n=%d", n))
	}
	for _, k := range []string{"int", "int64", "uint", "uint64", "string", "unmanaged"} {
		light = append(light, "set/"+k)
	}
	// heavy searches run one after the other, each with an equal share of what is left of the soft
	// time box: the small ones go first, what they do not use flows to the large ones.
	// statistics variant (WithName + the 1-minute statistics ticker inside the histories, see cache.go)
	if thorough {
		for _, limit := range []int{0, 1, 2, 3} {
			for _, j := range []string{"lo", "hi"} {
				heavy = append(heavy, fmt.Sprintf("cache/limit=%d/jit=%s/stat", limit, j))
			}
		}
	} else {
		heavy = append(heavy, "cache/limit=0/jit=lo/stat", "cache/limit=2/jit=hi/stat")
	}
	// a cache built without WithLimit driven with more keys than any limit used elsewhere
	heavy = append(heavy, fmt.Sprintf("cache/limit=0/jit=hi/keys=%d", unlimitedKeys))
	jits := []string{"lo", "hi"}
	if thorough {
		jits = []string{"lo", "hi", "mid", "alt"}
	}
	for _, limit := range []int{0, 1, 2, 3} {
		for _, j := range jits {
			heavy = append(heavy, fmt.Sprintf("cache/limit=%d/jit=%s", limit, j))
		}
	}
	return
}

func param(name, key string) string {
	for _, f := range strings.Split(name, "/") {
		if strings.HasPrefix(f, key+"=") {
			return strings.TrimPrefix(f, key+"=")
		}
	}
	return ""
}

func atoi(s string) int {
	n := 0
	fmt.Sscanf(s, "%d", &n)
	return n
}

// makeJob builds the named search; a panic escaping the code under test inside a plain
// (non-vsched) history is reported as a violation of class <type>-panic, not as a crash.
func makeJob(name string, thorough bool) *job {
	j := makeJob0(name, thorough)
	if !strings.HasPrefix(name, "cache/") {
		inner := j.run
		j.run = func(path []Op, verbose bool) (res result) {
			defer func() {
				if p := recover(); p != nil {
					res = result{err: fmt.Sprintf("panic: %v; history %v", p, path), class: strings.SplitN(name, "/", 2)[0] + "-panic"}
				}
			}()
			return inner(path, verbose)
		}
	}
	return j
}

func makeJob0(name string, thorough bool) *job {
	switch {
	case strings.HasPrefix(name, "rw/"):
		return rwJob(name, atoi(param(name, "size")), param(name, "ign") == "1", thorough)
	case strings.HasPrefix(name, "cache/"):
		return cacheJob(name, atoi(param(name, "limit")), param(name, "jit"), thorough)
	case name == "safemap/scaled":
		return safemapJob(name, false, thorough)
	case name == "safemap/real":
		return safemapJob(name, true, thorough)
	case strings.HasPrefix(name, "queue/"):
		return queueJob(name, atoi(param(name, "size")), thorough)
	case strings.HasPrefix(name, "ring/"):
		return ringJob(name, atoi(param(name, "n")), thorough)
	case strings.HasPrefix(name, "set/"):
		return setJob(name, strings.TrimPrefix(name, "set/"), thorough)
	}
	vlib.Fatal("unknown job %q", name)
	return nil
}

// search runs one job and records its numbers in r.
func search(cfg *vlib.Config, r *vlib.Report, j *job, workers int, deadline time.Time) {
	var out vlib.BFSResult
	typ := strings.SplitN(j.name, "/", 2)[0]
	if typ == "safemap" {
		typ = j.name
	}
	countTags := func(info string) {
		if info == "" {
			return
		}
		for _, t := range strings.Split(info, ",") {
			r.Count("states_with:"+typ+":"+t, 1)
		}
	}
	onViolation := func(path []Op, class, msg string) {
		// "@job" keeps the first (= shortest) violation of every search; normalise() then keeps, per
		// class, the shortest one over all searches, whatever order the worker processes finished in
		r.Violation(class+"@"+j.name, fmt.Sprintf("%s: %s", j.name, msg), Case{Job: j.name, Path: append([]Op(nil), path...)})
	}
	onState := func(path []Op, key string) {
		if j.nontriv == nil || j.nontriv(path) {
			r.Nontrivial(j.name + "|" + key)
		}
		if len(path) >= 4 && len(path) == j.depth-1 && r.WantSample() {
			r.Sample(map[string]any{"job": j.name, "history": fmt.Sprint(path), "state": key})
		}
	}
	if j.pbfs {
		b := &vlib.PBFS[Op]{
			Name: j.name, Cfg: cfg, MaxDepth: j.depth, Deadline: deadline, Workers: workers,
			Alphabet: j.alpha,
			Run: func(path []Op) vlib.RunResult {
				res := j.run(path, false)
				return vlib.RunResult{Key: hashKey(res.key), Err: res.err, Class: res.class, Stop: res.stop, Info: strings.Join(res.tags, ",")}
			},
			OnViolation: func(path []Op, res vlib.RunResult) { onViolation(path, res.Class, res.Err) },
			OnState:     func(path []Op, res vlib.RunResult) { onState(path, res.Key); countTags(res.Info) },
		}
		out = b.Search()
	} else {
		classOf := map[string]string{}
		lastTags := ""
		var mu sync.Mutex
		b := &vlib.BFS[Op]{
			Name: j.name, MaxDepth: j.depth, Deadline: deadline, Alphabet: j.alpha,
			Run: func(path []Op) (string, error, bool) {
				res := j.run(path, false)
				if res.err != "" {
					mu.Lock()
					classOf[res.err] = res.class
					mu.Unlock()
					return "", fmt.Errorf("%s", res.err), true
				}
				lastTags = strings.Join(res.tags, ",")
				return hashKey(res.key), nil, res.stop
			},
			OnViolation: func(path []Op, err error) { onViolation(path, classOf[err.Error()], err.Error()) },
			OnState:     func(path []Op, key string) { onState(path, key); countTags(lastTags) }, // called right after the Run of this state
		}
		out = b.Search()
	}
	r.AddStates(out.States)
	r.AddTransitions(out.Transitions)
	r.AddTraces(out.Transitions + 1)
	r.Eval(out.Transitions + 1)
	r.Scenario(j.name, map[string]any{"states": out.States, "transitions": out.Transitions, "depth_bound": j.depth,
		"max_depth": out.MaxDepth, "closed": out.Closed, "exhaustive_to_depth": out.Exhaustive, "failures": out.Failures,
		"cap": out.Cap, "what": j.rule})
	if !out.Exhaustive {
		r.NotExhaustive(j.name + ": " + out.Cap)
	}
}

// normalise strips the "@job" suffix of the violation classes and keeps one violation per class:
// the one with the shortest history (ties: job name, then history text). Deterministic.
func normalise(r *vlib.Report) {
	best := map[string]vlib.Violation{}
	rank := func(v vlib.Violation) string {
		c, _ := v.Replay.(Case)
		if m, ok := v.Replay.(map[string]any); ok { // came through a partial report (JSON)
			b, _ := json.Marshal(m)
			json.Unmarshal(b, &c)
		}
		return fmt.Sprintf("%04d|%s|%v", len(c.Path), c.Job, c.Path)
	}
	var classes []string
	for _, v := range r.Violations {
		base := v.Class
		if i := strings.LastIndex(base, "@"); i >= 0 {
			base = base[:i]
		}
		v.Class = base
		if old, ok := best[base]; !ok {
			best[base] = v
			classes = append(classes, base)
		} else if rank(v) < rank(old) {
			best[base] = v
		}
	}
	sort.Strings(classes)
	r.Violations = r.Violations[:0]
	for _, c := range classes {
		r.Violations = append(r.Violations, best[c])
	}
}

// buildRealBinary builds this same harness a second time with the ORIGINAL core/collection/
// safemap.go (no constant override): the overlay the driver used, minus that one entry.
func buildRealBinary() (string, error) {
	ovf, repo, vdir := os.Getenv("VERIF_OVERLAY"), os.Getenv("VERIF_REPO"), os.Getenv("VERIF_DIR")
	if ovf == "" || repo == "" || vdir == "" {
		return "", fmt.Errorf("VERIF_OVERLAY/VERIF_REPO/VERIF_DIR not set (run through ./check)")
	}
	b, err := os.ReadFile(ovf)
	if err != nil {
		return "", err
	}
	var ov struct{ Replace map[string]string }
	if err := json.Unmarshal(b, &ov); err != nil {
		return "", err
	}
	target := filepath.Join(repo, "core/collection/safemap.go")
	if _, ok := ov.Replace[target]; !ok {
		return "", fmt.Errorf("overlay has no entry for %s", target)
	}
	delete(ov.Replace, target)
	h := sha256.Sum256([]byte(repo))
	tag := hex.EncodeToString(h[:4])
	ov2 := filepath.Join(vdir, ".work", "ov", "C16-real-"+tag+".json")
	nb, _ := json.MarshalIndent(ov, "", " ")
	if err := os.WriteFile(ov2, nb, 0o644); err != nil {
		return "", err
	}
	exe := filepath.Join(vdir, ".work", "bin", "vcheck-C16-real-"+tag)
	cmd := exec.Command("go", "build", "-tags", "verif", "-overlay", ov2, "-o", exe, "./verifshim/checks/C16")
	cmd.Dir = repo
	cmd.Env = append(os.Environ(), "CGO_ENABLED=0")
	if outp, err := cmd.CombinedOutput(); err != nil {
		s := string(outp)
		if len(s) > 3000 {
			s = s[len(s)-3000:]
		}
		return "", fmt.Errorf("go build (real safemap constants): %v\n%s", err, s)
	}
	return exe, nil
}

// runRealSafeMap runs the safemap/real search in the second binary and merges its report.
func runRealSafeMap(cfg *vlib.Config, r *vlib.Report, exe string, workers int) {
	tmp, err := os.MkdirTemp(filepath.Dir(cfg.Evidence), ".shards-C16real-")
	if err != nil {
		vlib.Fatal("mktemp: %v", err)
	}
	defer os.RemoveAll(tmp)
	out := filepath.Join(tmp, "real.json")
	rem := int(time.Until(cfg.Deadline()).Seconds())
	if rem < 5 {
		rem = 5
	}
	cmd := exec.Command(exe, "-tier", cfg.Tier, "-seed", fmt.Sprint(cfg.Seed), "-shard", "safemap/real", "-out", out,
		"-findings", cfg.Findings, "-replays", cfg.ReplayDir, "-workers", fmt.Sprint(workers), "-budget", fmt.Sprint(rem))
	outp, err := cmd.CombinedOutput()
	b, rerr := os.ReadFile(out)
	if err != nil || rerr != nil {
		s := string(outp)
		if len(s) > 3000 {
			s = s[len(s)-3000:]
		}
		vlib.Fatal("safemap/real run failed: %v %v\n%s", err, rerr, s)
	}
	var pr vlib.Report
	if err := json.Unmarshal(b, &pr); err != nil {
		vlib.Fatal("safemap/real: bad partial report: %v", err)
	}
	r.Merge(&pr)
}

func main() {
	cfg := vlib.ParseFlags("C16", "model_checking")
	r := vlib.NewReport(cfg)
	logx.Disable()

	if b := os.Getenv("C16_BENCH"); b != "" { // developer aid: time one job's Run on a fixed history
		j := makeJob(b, cfg.Thorough())
		var path []Op
		json.Unmarshal([]byte(os.Getenv("C16_BENCH_PATH")), &path)
		t0 := time.Now()
		n := 300
		var res result
		for i := 0; i < n; i++ {
			res = j.run(path, false)
		}
		fmt.Printf("%s: %v per run; key=%s err=%s\n", b, time.Since(t0)/time.Duration(n), res.key, res.err)
		os.Exit(0)
	}

	// PBFS worker: serve transitions of the named job (never returns).
	if cfg.BFSWorker != "" {
		search(cfg, r, makeJob(cfg.BFSWorker, cfg.Thorough()), 0, time.Time{})
		os.Exit(0)
	}

	if cfg.Replay != "" {
		var c Case
		class, err := vlib.LoadReplay(cfg.Replay, &c)
		if err != nil {
			vlib.Fatal("load replay: %v", err)
		}
		if c.Job == "safemap/real" && !realConsts() {
			exe, err := buildRealBinary()
			if err != nil {
				vlib.Fatal("%v", err)
			}
			cmd := exec.Command(exe, os.Args[1:]...)
			cmd.Stdout, cmd.Stderr = os.Stdout, os.Stderr
			if err := cmd.Run(); err != nil {
				if ee, ok := err.(*exec.ExitError); ok {
					os.Exit(ee.ExitCode())
				}
				vlib.Fatal("replay in real-constants binary: %v", err)
			}
			os.Exit(0)
		}
		fmt.Printf("replay class=%s job=%s path=%v\n", class, c.Job, c.Path)
		res := makeJob(c.Job, cfg.Thorough()).run(c.Path, true)
		if res.err != "" {
			fmt.Printf("observed: class=%s %s\n", res.class, res.err)
			r.Violation(res.class, c.Job+": "+res.err, c)
		} else {
			fmt.Println("observed: history agrees with the reference model")
		}
		r.Eval(1)
		r.Finish()
	}

	shardFn := func(name string, r *vlib.Report) {
		j := makeJob(name, cfg.Thorough())
		if name == "safemap/real" && !realConsts() {
			vlib.Fatal("safemap/real needs the binary built with the original constants")
		}
		search(cfg, r, j, cfg.Workers, cfg.Deadline())
	}
	if cfg.Shard != "" {
		vlib.RunShards(r, nil, shardFn) // runs the shard, writes the partial report, exits
	}

	c, m := collection.VerifC16SafeMapConsts()
	r.SetRule("explicit-state BFS over operation histories of the real RollingWindow (fake clock), collection.Cache (vsched sequential-driver mode, virtual wheel ticks, pinned jitter), SafeMap (constants scaled to 4/2 by the rewriter AND the original 1000/10000 in a second binary driven by Churn/Fill macro operations), Queue, Ring and Set; one search per type and configuration (see scenarios); a state is distinct by full white-box dump ⊕ reference-model state; it counts as non-trivial when its history contains at least one mutating operation; every transition re-executes the real code from a fresh instance and is followed by a read-only observation of the whole public API compared with a slice/map reference model")
	r.Assume("keys/elements are interchangeable: a history may use key i only after keys 0..i-1 have been used (symmetry reduction in the alphabet)")
	r.Assume("Cache: wheel and cache goroutines are run to quiescence under the default schedule after every operation; the clock moves in whole 1 s wheel ticks; interleavings inside the cache are not explored here (C07/C12 cover SingleFlight and the wheel)")
	r.Assume("Cache: hit/miss statistics and the 1-minute stat ticker are not part of the state key (they only feed logging); in the statistics variant (…/stat) the ticker's phase and whether there is something to report are part of the key, and only the name and the element count of a statistics line are judged (bracketed by the reference size before/after the tick), not whether a line appears nor its hit/miss numbers")
	r.Assume("Set: managed sets (NewSet) are driven with elements of one kind only, as their contract requires; mixed kinds are explored on NewUnmanagedSet")
	r.SetExtra("safemap_constants_in_main_binary", fmt.Sprintf("copyThreshold=%d maxDeletion=%d", c, m))

	light, heavy := jobNames(cfg.Thorough())
	runReal := true
	if only := os.Getenv("C16_ONLY"); only != "" { // developer aid: run a subset of the searches
		keep := func(xs []string) (out []string) {
			for _, x := range xs {
				for _, p := range strings.Split(only, ",") {
					if strings.HasPrefix(x, p) {
						out = append(out, x)
						break
					}
				}
			}
			return
		}
		light, heavy = keep(light), keep(heavy)
		runReal = len(keep([]string{"safemap/real"})) > 0
		r.NotExhaustive("C16_ONLY=" + only + ": only a subset of the searches was run")
	}

	// second binary with the original SafeMap constants: build while the light shards run
	type built struct {
		exe string
		err error
	}
	bc := make(chan built, 1)
	go func() {
		if !runReal {
			bc <- built{}
			return
		}
		if realConsts() {
			bc <- built{exe: os.Args[0]}
			return
		}
		exe, err := buildRealBinary()
		bc <- built{exe, err}
	}()

	vlib.RunShards(r, light, shardFn)

	realWorkers := 5
	var wg sync.WaitGroup
	wg.Add(1)
	go func() {
		defer wg.Done()
		b := <-bc
		if b.err != nil {
			vlib.Fatal("%v", b.err)
		}
		if !runReal {
			return
		}
		runRealSafeMap(cfg, r, b.exe, realWorkers)
	}()
	cw := cfg.Workers - realWorkers
	if cw < 2 {
		cw = 2
	}
	for i, name := range heavy {
		// every cache search gets an equal share of what is left of the soft time box
		left := time.Until(cfg.Deadline()) - 20*time.Second
		if left < 0 {
			left = 0
		}
		search(cfg, r, makeJob(name, cfg.Thorough()), cw, time.Now().Add(left/time.Duration(len(heavy)-i)))
	}
	wg.Wait()
	normalise(r)
	r.Finish()
}
