package main

import (
	"fmt"
	"sort"
	"strings"

	"github.com/zeromicro/go-zero/core/collection"
)

// SafeMap: reference = map[any]any.
//
// Named keys "k0".."k{n-1}" carry values that alternate per key (a stale copy of the previous
// value is visible); macro operations work on integer keys:
//
//	fill(n)    Set n fresh persistent keys (they stay in the reference)
//	unfill(n)  Del the n oldest persistent keys still present
//	churn(n)   n × (Set fresh key; Del it) — drives the deletion counter of the generation
//	           currently written without changing the contents
//
// scaled (this binary, copyThreshold=4 maxDeletion=2): 5 named keys, every single-step history;
// real (second binary, 1000 / 10000): 3 named keys + churn(1|9999|10000), fill(999|1), unfill(1), and
// two composite operations (allowed first, or right after one Set) that start the search next to
// the thresholds: fill(copyThreshold)+churn(maxDeletion-1) and fill(copyThreshold)+churn(maxDeletion+1).
//
// Observation: Size, Get of every named key, of one absent key and of the oldest/newest
// persistent key, full Range (each pair exactly once, equal to the reference), Range stopped
// after the first pair (exactly one call, pair in the reference).
//
// Key: white-box dump (both generations with contents, both deletion counters) ⊕ reference.

func safemapJob(name string, real bool, thorough bool) *job {
	nkeys := 5
	if real {
		nkeys = 3
	}
	var base []Op
	for i := 0; i < nkeys; i++ {
		base = append(base, Op{K: "set", I: i + 1})
	}
	for i := 0; i < nkeys; i++ {
		base = append(base, Op{K: "del", I: i + 1})
	}
	base = append(base, Op{K: "get", I: 1}, Op{K: "size"}, Op{K: "range"}, Op{K: "rangestop"})
	depth := 12
	if thorough {
		depth = 15
	}
	var macros, first []Op
	if real {
		macros = []Op{{K: "churn", N: 1}, {K: "churn", N: 9999}, {K: "churn", N: 10000}, {K: "fill", N: 1}, {K: "fill", N: 999}, {K: "unfill", N: 1}}
		// composite first operations (each is a fixed sequence of the operations above)
		first = []Op{{K: "start-near-switch"}, {K: "start-writing-new"}}
		depth = 5
		if thorough {
			depth = 7
		}
	} else {
		macros = []Op{{K: "churn", N: 1}}
	}
	j := &job{name: name, depth: depth, pbfs: real, nontriv: hasMutation("set", "del", "churn", "fill", "unfill", "start-near-switch", "start-writing-new")}
	cT, mD := collection.VerifC16SafeMapConsts()
	j.rule = fmt.Sprintf("SafeMap with copyThreshold=%d maxDeletion=%d, %d named keys; alphabet Set Del Get Size Range RangeStop %v (first op also %v)", cT, mD, nkeys, macros, first)
	j.alpha = func(d int, path []Op) []Op {
		// symmetry: key i only after keys < i were used
		used := 0
		for _, o := range path {
			if (o.K == "set" || o.K == "del") && o.I > used {
				used = o.I
			}
		}
		var out []Op
		for _, o := range base {
			if (o.K == "set" || o.K == "del") && o.I > used+1 {
				continue
			}
			if o.K == "del" && o.I > used {
				continue // Del of a never-used key is offered once, below
			}
			out = append(out, o)
		}
		if used == 0 {
			out = append(out, Op{K: "del", I: 1}) // Del of an absent key
		}
		out = append(out, macros...)
		if d <= 1 && (d == 0 || path[0].K == "set") {
			out = append(out, first...) // composite starts: first op, or right after one Set
		}
		return out
	}
	j.run = func(path []Op, verbose bool) result {
		var res result
		m := collection.NewSafeMap()
		ref := map[any]any{}
		nset := make([]int, nkeys)
		fresh := 0             // churn keys: -1, -2, …
		fillLo, fillHi := 0, 0 // persistent keys present: 1000000+fillLo .. 1000000+fillHi-1
		const fillBase = 1000000
		phase := func() string {
			_, _, dO, _ := collection.VerifC16SafeMapShape(m)
			if dO > mD {
				return "writing-new"
			}
			return "writing-old"
		}
		fail := func(what, msg string) result {
			res.class = "safemap-" + what
			res.err = msg + fmt.Sprintf("; state %s %s; history %v", phase(), shapeStr(m), path)
			return res
		}
		keyName := func(i int) string { return fmt.Sprintf("k%d", i-1) }
		checkGet := func(step string, k any) string {
			v, ok := m.Get(k)
			rv, rok := ref[k]
			if ok != rok || (ok && v != rv) {
				return fmt.Sprintf("%s: Get(%v)=(%v,%v), reference (%v,%v)", step, k, v, ok, rv, rok)
			}
			return ""
		}
		checkRange := func(step string) string {
			seen := map[any]any{}
			dup := ""
			m.Range(func(k, v any) bool {
				if _, d := seen[k]; d {
					dup = fmt.Sprintf("%s: Range visited key %v twice", step, k)
				}
				seen[k] = v
				return true
			})
			if dup != "" {
				return dup
			}
			for k, v := range ref {
				if sv, ok := seen[k]; !ok || sv != v {
					return fmt.Sprintf("%s: Range gave (%v,%v) for key %v, reference value %v", step, sv, ok, k, v)
				}
			}
			for k, v := range seen {
				if _, ok := ref[k]; !ok {
					return fmt.Sprintf("%s: Range visited %v=%v which is not in the reference", step, k, v)
				}
			}
			return ""
		}
		checkRangeStop := func(step string) string {
			calls := 0
			var k0, v0 any
			m.Range(func(k, v any) bool { calls++; k0, v0 = k, v; return false })
			want := 0
			if len(ref) > 0 {
				want = 1
			}
			if calls != want {
				return fmt.Sprintf("%s: Range with f returning false made %d calls, reference size %d", step, calls, len(ref))
			}
			if calls == 1 {
				if rv, ok := ref[k0]; !ok || rv != v0 {
					return fmt.Sprintf("%s: stopped Range visited %v=%v, reference (%v,%v)", step, k0, v0, rv, ok)
				}
			}
			return ""
		}
		// coverage only (not an oracle): notice a generation switch inside Del by the counters
		ev := map[string]bool{}
		del := func(k any) {
			lo0, ln0, dO0, dN0 := collection.VerifC16SafeMapShape(m)
			m.Del(k)
			lo1, ln1, dO1, dN1 := collection.VerifC16SafeMapShape(m)
			if ln1 == 0 && dN1 == 0 && (ln0 > 0 || dN0 > 0 || dO1 < dO0) {
				if dO1 < dO0 {
					ev["old-generation-retired"] = true
					if lo0 > 0 && ln0 > 0 {
						ev["old-retired-with-both-generations-populated"] = true
					}
				} else if dN0 > 0 {
					ev["new-generation-folded-back"] = true
					if ln0 > 0 {
						ev["new-folded-back-nonempty"] = true
					}
				}
			}
			_ = lo1
		}
		churn := func(n int64) {
			for c := int64(0); c < n; c++ {
				fresh--
				m.Set(fresh, fresh)
				del(fresh)
			}
		}
		fill := func(n int64) {
			for c := int64(0); c < n; c++ {
				k := fillBase + fillHi
				fillHi++
				m.Set(k, k)
				ref[k] = k
			}
		}
		unfill := func(n int64) {
			for c := int64(0); c < n && fillLo < fillHi; c++ {
				k := fillBase + fillLo
				fillLo++
				del(k)
				delete(ref, k)
			}
		}
		for i, op := range path {
			step := fmt.Sprintf("step %d %v", i, op)
			switch op.K {
			case "set":
				nset[op.I-1]++
				v := fmt.Sprintf("v%d", nset[op.I-1]%2)
				m.Set(keyName(op.I), v)
				ref[keyName(op.I)] = v
			case "del":
				del(keyName(op.I))
				delete(ref, keyName(op.I))
			case "get":
				if e := checkGet(step, keyName(op.I)); e != "" {
					return fail("get-wrong", e)
				}
			case "size":
				if m.Size() != len(ref) {
					return fail("size-wrong", fmt.Sprintf("%s: Size()=%d, reference %d", step, m.Size(), len(ref)))
				}
			case "range":
				if e := checkRange(step); e != "" {
					return fail("range-wrong", e)
				}
			case "rangestop":
				if e := checkRangeStop(step); e != "" {
					return fail("range-stop-wrong", e)
				}
			case "churn":
				churn(op.N)
			case "fill":
				fill(op.N)
			case "unfill":
				unfill(op.N)
			case "start-near-switch":
				// one deletion short of the first migration with a large old generation
				fill(int64(cT))
				churn(int64(mD) - 1)
			case "start-writing-new":
				// deletionOld > maxDeletion with len(dirtyOld) >= copyThreshold: Set now writes dirtyNew
				fill(int64(cT))
				churn(int64(mD) + 1)
			}
			if verbose {
				fmt.Printf("  %-28s %s | reference size %d\n", step, shapeStr(m), len(ref))
			}
		}
		// key
		var rs []string
		for k, v := range ref {
			if _, isInt := k.(int); !isInt {
				rs = append(rs, fmt.Sprintf("%v=%v", k, v))
			}
		}
		sort.Strings(rs)
		res.key = collection.VerifC16DumpSafeMap(m) + "#" + strings.Join(rs, ",") + fmt.Sprintf("#fill[%d,%d)", fillLo, fillHi)
		if _, ln, dO, _ := collection.VerifC16SafeMapShape(m); dO > mD {
			ev["writing-new-generation"] = true
			if ln > 0 {
				ev["entries-in-both-generations"] = true
			}
		}
		for t := range ev {
			res.tags = append(res.tags, t)
		}
		sort.Strings(res.tags)
		// observation
		if m.Size() != len(ref) {
			return fail("size-wrong", fmt.Sprintf("final observation: Size()=%d, reference %d", m.Size(), len(ref)))
		}
		probe := []any{"absent"}
		for i := 1; i <= nkeys; i++ {
			probe = append(probe, keyName(i))
		}
		if fillLo < fillHi {
			probe = append(probe, fillBase+fillLo, fillBase+fillHi-1)
		}
		if fillLo > 0 {
			probe = append(probe, fillBase+fillLo-1)
		}
		if fresh < 0 {
			probe = append(probe, fresh)
		}
		for _, k := range probe {
			if e := checkGet("final observation", k); e != "" {
				return fail("get-wrong", e)
			}
		}
		if e := checkRange("final observation"); e != "" {
			return fail("range-wrong", e)
		}
		if e := checkRangeStop("final observation"); e != "" {
			return fail("range-stop-wrong", e)
		}
		return res
	}
	return j
}

func shapeStr(m *collection.SafeMap) string {
	lo, ln, dO, dN := collection.VerifC16SafeMapShape(m)
	return fmt.Sprintf("len(old)=%d len(new)=%d deletionOld=%d deletionNew=%d", lo, ln, dO, dN)
}
