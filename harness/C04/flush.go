// C04 extension — handlers that use http.Flusher, and two requests through ONE TimeoutHandler.
//
// The client is a recording ResponseWriter that also implements http.Flusher. Every call it
// receives (Header, WriteHeader, Write, Flush) is a scheduling point and is appended to ONE totally
// ordered timeline (also mirrored into the execution log, so that the fingerprint table never
// merges two different orders), tagged with WHO called it: 'M' = the thread that runs the wrapper's
// ServeHTTP, 'H' = any other thread (the wrapped handler's goroutine, reaching the client through
// timeoutWriter.Flush). The handler's own actions (issue / completion) are on the same timeline,
// so the oracle knows for every byte whether it was written / pushed before or after the wrapper
// emitted its timeout result and before or after ServeHTTP returned.
//
// Scripts: Pre actions from {H set header, C WriteHeader, W Write a unique token, F Flush}, an
// ending {ret, panic, stall = wait (ignoring the context) until ServeHTTP has returned, ctxwait =
// wait for the context to end}, and Late actions performed after a stall/ctxwait.
//
// Oracle (from the statement; reference = plain net/http ResponseWriter semantics: status and
// headers are fixed by the first of WriteHeader/Write/Flush):
//
//	(i)   the handler completed and the wrapper did not time out  => the client sees exactly the
//	      script's complete result: status, headers, whole body (flushed chunks + rest, in order);
//	(ii)  once the wrapper has emitted the timeout result (503/499), NOTHING further of the handler
//	      reaches the client - no byte, whether by Write or by Flush - nor after ServeHTTP returned;
//	(iii) all-or-nothing is demanded only when nothing had been streamed by a Flush before the
//	      timeout result (a flush before the deadline streams a partial response by design: then the
//	      streamed part must be a whole-chunk prefix of the script's body under the script's status
//	      and headers, and only (ii) is demanded beyond that);
//	(iv)  two requests through one TimeoutHandler: every response carries only its own handler's
//	      bytes, and each of them satisfies (i)-(iii) on its own.
package main

import (
	"context"
	"fmt"
	"net/http"
	"sort"
	"strings"
	"time"

	"github.com/zeromicro/go-zero/verifshim/vsched"
	"github.com/zeromicro/go-zero/verifshim/vx"
)

const timeoutBody = "Request Timeout"

// one entry of the timeline
type tle struct {
	req  int
	what byte // 'a' action issued, 'd' action done | recorder: 'g' Header(), 'h' WriteHeader, 'w' Write, 'f' Flush | 'r' ServeHTTP returned | 'c' client cancel
	role byte // recorder entries: 'M' wrapper thread, 'H' another thread
	idx  int  // action index (late actions: 100+j)
	act  byte
	code int
	data string
	werr bool // 'd' of a Write: the Write returned an error
}

type fReq struct {
	Pre  string // H C W F
	End  string // ret | panic | stall | ctxwait
	Late string // actions after stall / ctxwait
}

type fSpec struct {
	Reqs   []fReq
	Mode   string // "" one request | seq: second request served after the first returned | par: served by a second thread
	Parent string // none | cancel-during (first request)
	P, T   int    // explicit bounds (0: the tier's defaults)
	Chain  string // "" bare handler.TimeoutHandler | tr / all / mw: the middleware chain rest/engine.go assembles (chain.go)
	Hdr    string // "" | name of a NON-exempt request-header form (reqhdr.go) set on every request
}

func (s fSpec) name() string {
	var p []string
	for _, q := range s.Reqs {
		p = append(p, fmt.Sprintf("%s-%s-%s", orDash(q.Pre), q.End, orDash(q.Late)))
	}
	n := "flush-" + strings.Join(p, "+")
	if s.Mode != "" {
		n = "flush2" + s.Mode + "-" + strings.Join(p, "+")
	}
	if s.Chain != "" {
		n = "chain:" + s.Chain + "-" + strings.Join(p, "+")
	}
	if s.Parent != "none" && s.Parent != "" {
		n += "-parent:" + s.Parent
	}
	if s.Hdr != "" {
		n += "-hdr:" + s.Hdr
	}
	return n
}

type fObs struct {
	tl []tle
	rq []*fReqObs
}

type fReqObs struct {
	rec        *frec
	gate       chan struct{}
	started    bool
	srvTid     int
	handlerTid int
	hctx       context.Context
	dlSeen     time.Time
	dlOK       bool
	startedAt  time.Duration
	elapsedRet time.Duration
	returned   bool
	panicked   any
}

func (o *fObs) add(t tle) {
	o.tl = append(o.tl, t)
	switch t.what {
	case 'a':
		vsched.Log("handler%d: action %d %c ...", t.req, t.idx, t.act)
	case 'd':
		vsched.Log("handler%d: action %d %c done (write error=%v)", t.req, t.idx, t.act, t.werr)
	case 'r':
		vsched.Log("ServeHTTP%d returned", t.req)
	case 'c':
		vsched.Log("client-cancel")
	default:
		vsched.Log("client%d <- %c: %s code=%d data=%q", t.req, t.role, map[byte]string{'g': "Header()", 'h': "WriteHeader", 'w': "Write", 'f': "Flush"}[t.what], t.code, t.data)
	}
}

// the client: a ResponseWriter + Flusher with net/http's commit semantics
type frec struct {
	o     *fObs
	req   int
	st    *fReqObs
	hdr   http.Header
	snap  http.Header
	code  int
	wrote bool
	body  strings.Builder // compressed form (reqhdr.go): a large fill run is kept as "{x*N}"
}

// bodyStr: what the client holds, in canonical compressed form
func (r *frec) bodyStr() string { return canon(r.body.String()) }

func (r *frec) role() byte {
	if vsched.ThreadID() == r.st.srvTid {
		return 'M'
	}
	return 'H'
}

func (r *frec) Header() http.Header {
	vsched.Op("client-Header")
	r.o.add(tle{req: r.req, what: 'g', role: r.role()})
	return r.hdr
}

func (r *frec) commit(c int) {
	if !r.wrote {
		r.wrote, r.code, r.snap = true, c, r.hdr.Clone()
	}
}

func (r *frec) WriteHeader(c int) {
	vsched.Op("client-WriteHeader")
	r.o.add(tle{req: r.req, what: 'h', role: r.role(), code: c})
	if !r.wrote && (c < 100 || c > 599) {
		// net/http: a repeated WriteHeader is dropped first, an invalid code on the first one panics
		panic(fmt.Sprintf("invalid WriteHeader code %v", c))
	}
	r.commit(c)
}

func (r *frec) Write(p []byte) (int, error) {
	vsched.Op("client-Write")
	data := compress(p)
	r.o.add(tle{req: r.req, what: 'w', role: r.role(), data: data})
	r.commit(200)
	r.body.WriteString(data)
	return len(p), nil
}

func (r *frec) Flush() {
	vsched.Op("client-Flush")
	r.o.add(tle{req: r.req, what: 'f', role: r.role()})
	r.commit(200)
}

func token(req, idx int) string {
	if idx >= 100 {
		return fmt.Sprintf("<%d.L%d>", req, idx-100)
	}
	return fmt.Sprintf("<%d.%d>", req, idx)
}

func flushScenario(s fSpec) vx.Scenario {
	body := func() {
		o := &fObs{}
		for i := range s.Reqs {
			st := &fReqObs{gate: vsched.MakeChan[struct{}](0), handlerTid: -1}
			st.rec = &frec{o: o, req: i, st: st, hdr: http.Header{}}
			o.rq = append(o.rq, st)
		}
		vsched.SetUser(o)
		var parent context.Context = context.Background()
		var pcancel context.CancelFunc
		if s.Parent == "cancel-during" {
			parent, pcancel = vsched.CtxWithCancel(context.Background())
			c := pcancel
			vsched.GoNamed("client-cancel", false, func() {
				vsched.Op("before-client-cancel")
				o.add(tle{req: 0, what: 'c'})
				c()
			})
		}
		inner := http.HandlerFunc(func(w http.ResponseWriter, r *http.Request) {
			i := int(r.URL.Path[1] - '0')
			q, st := s.Reqs[i], o.rq[i]
			st.handlerTid = vsched.ThreadID()
			st.hctx = r.Context()
			st.dlSeen, st.dlOK = r.Context().Deadline()
			run := func(script string, base int) {
				for j, a := range script {
					vsched.Op("handler-step")
					o.add(tle{req: i, what: 'a', idx: base + j, act: byte(a)})
					werr := false
					switch a {
					case 'H':
						if base == 0 {
							w.Header().Set("X-A", "1")
						} else {
							w.Header().Set("X-Late", "1")
						}
					case 'C':
						if base == 0 {
							w.WriteHeader(201)
						} else {
							w.WriteHeader(202)
						}
					case 'W':
						_, err := w.Write([]byte(token(i, base+j)))
						werr = err != nil
					case 'F':
						if f, ok := w.(http.Flusher); ok {
							f.Flush()
						}
					case 'Z', 'Y', 'X':
						// a status code outside [100, 599] (an unset int, an off-by-one, a garbage value)
						w.WriteHeader(invalidCode(byte(a)))
					case 'P':
						panic("handler panic")
					default:
						if isBig(byte(a)) { // a large chunk, no Flush
							_, err := w.Write(bigChunk(byte(a)))
							werr = err != nil
						}
					}
					o.add(tle{req: i, what: 'd', idx: base + j, act: byte(a), werr: werr})
				}
			}
			run(q.Pre, 0)
			vsched.Op("handler-end")
			switch q.End {
			case "panic":
				panic("handler panic")
			case "stall":
				vsched.Recv(st.gate) // ignores the context; released after ServeHTTP returned
				run(q.Late, 100)
			case "ctxwait":
				vsched.Recv(r.Context().Done())
				run(q.Late, 100)
			}
		})
		h := buildChain(s.Chain, len(s.Reqs), inner)
		serve := func(i int) {
			st := o.rq[i]
			ctx := context.Background()
			if i == 0 {
				ctx = parent
			}
			req, _ := http.NewRequestWithContext(ctx, http.MethodGet, fmt.Sprintf("/%d", i), nil)
			applyHdr(req, s.Hdr)
			st.started = true
			st.srvTid = vsched.ThreadID()
			st.startedAt = vsched.Elapsed()
			func() {
				defer func() { st.panicked = recover() }()
				h.ServeHTTP(st.rec, req)
			}()
			st.elapsedRet = vsched.Elapsed()
			st.returned = true
			o.add(tle{req: i, what: 'r'})
			vsched.Close(st.gate)
		}
		switch s.Mode {
		case "par":
			vsched.GoNamed("server-2", false, func() { serve(1) })
			serve(0)
		case "seq":
			serve(0)
			serve(1)
		default:
			serve(0)
		}
		vsched.Quiesce() // let stalled handlers act "after the timeout"
		if pcancel != nil {
			pcancel()
		}
	}
	check := func(e *vsched.Exec) vx.Verdict {
		o, _ := e.User.(*fObs)
		return judgeFlush(s, e, o)
	}
	// shard order = descending weight, and the first violation of a class in shard order is the one
	// kept: one-request scripts first (shortest first), then client-cancel, then two requests
	n := 0
	for _, q := range s.Reqs {
		n += 2 * (len(q.Pre) + len(q.Late))
		if q.End == "ctxwait" {
			n++
		}
	}
	w := 200 - n
	if s.Parent == "cancel-during" {
		w = 150 - n
	}
	if len(s.Reqs) > 1 {
		w = 100 - n
	}
	sc := vx.Scenario{Name: s.name(), Body: body, Check: check, Weight: w}
	if s.P > 0 {
		sc.SetBound, sc.P, sc.T = true, s.P, s.T
	}
	return sc
}

// reference result of an executed action list under net/http semantics
type refResult struct {
	code    int
	needA   bool // X-A set before the response was committed
	needL   bool // X-Late set before the response was committed
	chunks  []string
	flushes bool
}

// reference: panicAt = index of the action that panicked instead of completing (-1: none; the script is
// cut there: a panicking action has no effect and nothing after it runs); recovered = a recover
// middleware inside the timeout middleware turned the handler's panic (an action's, or the ending's)
// into WriteHeader(500), which counts only if nothing was committed before.
func reference(req int, q fReq, withLate bool, panicAt int, recovered bool) refResult {
	r := refResult{code: 200}
	committed := false
	cut := false
	do := func(script string, base int) {
		for j, a := range script {
			if cut || base+j == panicAt {
				cut = true
				return
			}
			switch a {
			case 'H':
				if !committed {
					if base == 0 {
						r.needA = true
					} else {
						r.needL = true
					}
				}
			case 'C':
				if !committed {
					committed = true
					r.code = 201
					if base != 0 {
						r.code = 202
					}
				}
			case 'W':
				committed = true
				r.chunks = append(r.chunks, token(req, base+j))
			case 'F':
				committed = true
				r.flushes = true
			default:
				if isBig(byte(a)) {
					committed = true
					r.chunks = append(r.chunks, bigToken(byte(a)))
				}
			}
			// Z, Y, X that completed: an invalid status code that the writer dropped (after the
			// response was committed net/http drops it too): no effect
		}
	}
	do(q.Pre, 0)
	if q.End == "panic" {
		cut = true
	}
	if withLate {
		do(q.Late, 100)
	}
	if recovered && !committed {
		r.code = 500
	}
	return r
}

func judgeFlush(s fSpec, e *vsched.Exec, o *fObs) vx.Verdict {
	if s.Hdr != "" && o != nil {
		// only websocket-upgrade and event-stream requests are exempt: this request is neither, its handler
		// must run under start+timeout (the caller's context has no deadline in this family)
		for i, st := range o.rq {
			if st.hctx != nil && !st.dlOK {
				f, _ := findForm(s.Hdr)
				by := "on its own goroutine"
				if st.handlerTid == st.srvTid {
					by = "on the caller's thread: the timeout middleware stepped aside"
				}
				return vx.Verdict{Class: "non-exempt-request-bypasses-timeout", Msg: fmt.Sprintf("request %d with headers [%s] is neither a websocket upgrade nor an event-stream request, yet its handler ran under a context without deadline (%s); outcome %s", i, f.String(), by, e.Outcome), Sig: "bypassed"}
			}
		}
	}
	if e.Outcome == "deadlock" && o != nil {
		for i, st := range o.rq {
			if st.started && !st.returned {
				return vx.Verdict{Class: "serve-never-returns{" + e.BlockedKey() + "}", Msg: fmt.Sprintf("ServeHTTP of request %d never returned: %s", i, strings.Join(e.Blocked(), " ")), Sig: "deadlock"}
			}
		}
	}
	if g := vx.Guard(e); g != nil {
		return *g
	}
	// (iv) every response carries only its own handler's bytes
	for _, t := range o.tl {
		if t.what != 'w' {
			continue
		}
		for j := range o.rq {
			if j != t.req && strings.Contains(t.data, fmt.Sprintf("<%d.", j)) {
				return vx.Verdict{Class: "cross-request-bytes", Msg: fmt.Sprintf("the connection of request %d received %q: bytes written by the handler of request %d (client of request %d now holds %q, client of request %d holds %q)",
					t.req, t.data, j, t.req, o.rq[t.req].rec.bodyStr(), j, o.rq[j].rec.bodyStr())}
			}
		}
	}
	var sigs []string
	for i := range o.rq {
		v := judgeFlushReq(s, i, o)
		if v.Class != "" {
			return v
		}
		sigs = append(sigs, v.Sig)
	}
	return vx.Verdict{Sig: strings.Join(sigs, "+")}
}

func hdrStr(h http.Header) string {
	var ks []string
	for k, v := range h {
		ks = append(ks, k+"="+strings.Join(v, ","))
	}
	sort.Strings(ks)
	return "{" + strings.Join(ks, " ") + "}"
}

func judgeFlushReq(s fSpec, i int, o *fObs) vx.Verdict {
	q, st, rec := s.Reqs[i], o.rq[i], o.rq[i].rec
	pfx := fmt.Sprintf("request %d (%s-%s-%s): ", i, orDash(q.Pre), q.End, orDash(q.Late))
	if !st.started {
		return vx.Verdict{Sig: "not-started"}
	}
	// deadline arithmetic: start + timeout (the parent, if any, has no deadline)
	expDl := vsched.Epoch.Add(st.startedAt + dt)
	if st.hctx != nil && (!st.dlOK || !st.dlSeen.Equal(expDl)) {
		return vx.Verdict{Class: "wrong-deadline", Msg: fmt.Sprintf("%shandler saw deadline %v (ok=%v), want %v = start+timeout", pfx, st.dlSeen, st.dlOK, expDl)}
	}
	// positions on the timeline
	emit, ret, cancelAt := -1, -1, -1
	emitCode := 0
	for p, t := range o.tl {
		switch {
		case t.what == 'c' && cancelAt < 0:
			cancelAt = p
		case t.req != i:
		case t.what == 'h' && t.role == 'M' && (t.code == 503 || t.code == 499) && emit < 0:
			emit, emitCode = p, t.code
		case t.what == 'r' && ret < 0:
			ret = p
		}
	}
	issued, done := map[int]int{}, map[int]int{} // action index -> position
	for p, t := range o.tl {
		if t.req != i {
			continue
		}
		if t.what == 'a' {
			issued[t.idx] = p
		}
		if t.what == 'd' {
			done[t.idx] = p
		}
	}
	// an action that was issued and never completed panicked (every thread has finished in a judged execution)
	panicAt := -1
	for idx := range issued {
		if _, fin := done[idx]; !fin && (panicAt < 0 || idx < panicAt) {
			panicAt = idx
		}
	}
	hasRecover, needM := chainHasRecover(s.Chain), chainHasUserMW(s.Chain)
	handlerPanicked := panicAt >= 0 || q.End == "panic"
	recovered := handlerPanicked && hasRecover
	// what the handler's thread pushed to the client before / after the timeout result
	var streamed, late, afterRet cbuf
	streamCommit, lateTouch, firstStream := false, 0, -1
	firstLate := -1
	for p, t := range o.tl {
		if t.req != i || t.role != 'H' {
			continue
		}
		if t.what != 'h' && t.what != 'w' && t.what != 'f' {
			continue
		}
		switch {
		case emit >= 0 && p > emit:
			lateTouch++
			late.WriteString(t.data)
			if t.data != "" && firstLate < 0 {
				firstLate = p
			}
		case ret >= 0 && p > ret:
			lateTouch++
			afterRet.WriteString(t.data)
		default:
			if !streamCommit {
				firstStream = p
			}
			streamCommit = true
			streamed.WriteString(t.data)
		}
	}
	// output of an unfinished handler may be at the client before the timeout result only because the
	// handler itself asked for it (Flush): (iii)
	unflushed := func() *vx.Verdict {
		for _, p := range issued {
			if o.tl[p].act == 'F' && p < firstStream {
				return nil
			}
		}
		return &vx.Verdict{Class: "unflushed-output-before-timeout-result", Msg: fmt.Sprintf("%sthe handler never called Flush, yet %q (status %d, headers %s) had been sent to the client when the work was abandoned: the client holds code=%d body=%q, neither the complete result nor the timeout result", pfx, streamed.String(), rec.code, hdrStr(rec.snap), rec.code, rec.bodyStr())}
	}
	// (ii) nothing of the handler after the timeout result
	if late.Len() > 0 {
		class := "flush-after-timeout-delivers-buffer"
		why := "bytes the handler had written before the timeout were pushed to the client by a Flush after the timeout result"
		// which Flush delivered them
		for idx, p := range issued {
			d, fin := done[idx]
			if o.tl[p].act == 'F' && p < emit && (!fin || d > firstLate) {
				class = "flush-races-timeout-result"
				why = "a Flush that was in progress when the wrapper emitted the timeout result went on writing"
			}
		}
		for idx, p := range done {
			if o.tl[p].act == 'W' && p > emit && strings.Contains(late.String(), token(i, idx)) {
				class = "write-accepted-after-timeout"
				why = fmt.Sprintf("Write of %s was made after the timeout result (returned error=%v) and still reached the client", token(i, idx), o.tl[p].werr)
			}
		}
		return vx.Verdict{Class: class, Msg: fmt.Sprintf("%safter the wrapper emitted %d the client received %q from the handler (%s); client holds code=%d body=%q", pfx, emitCode, late.String(), why, rec.code, rec.bodyStr())}
	}
	if afterRet.Len() > 0 {
		return vx.Verdict{Class: "write-after-return", Msg: fmt.Sprintf("%s%q reached the client after ServeHTTP had returned (body now %q)", pfx, afterRet.String(), rec.bodyStr())}
	}
	touch := ""
	if lateTouch > 0 {
		touch = "+latetouch" // empty Write/Flush calls after the timeout result: nothing reaches the client
	}
	ctxEnded := st.elapsedRet >= expDl.Sub(vsched.Epoch)
	clientCancelled := false
	if i == 0 && cancelAt >= 0 && (ret < 0 || cancelAt < ret) {
		ctxEnded, clientCancelled = true, true
	}
	body := rec.bodyStr()
	full := reference(i, q, q.End == "ctxwait" || q.End == "stall", panicAt, recovered)
	hdrA, hdrL, hdrM := rec.snap.Get("X-A"), rec.snap.Get("X-Late"), rec.snap.Get("X-MW")
	if recovered {
		touch += "+recovered"
	}
	// streamed part: whole-chunk prefix of the script's body, under the script's status and headers
	checkStream := func() *vx.Verdict {
		k, acc := 0, ""
		for acc != streamed.String() && k < len(full.chunks) {
			acc = canon(acc + full.chunks[k])
			k++
		}
		if acc != streamed.String() {
			return &vx.Verdict{Class: "mixture", Msg: fmt.Sprintf("%sflushed part %q is not a whole-chunk prefix of the script's body %q", pfx, streamed.String(), strings.Join(full.chunks, ""))}
		}
		if rec.code != full.code {
			return &vx.Verdict{Class: "flush-drops-status", Msg: fmt.Sprintf("%sthe response was committed by a Flush with status %d, the handler's status is %d (body so far %q)", pfx, rec.code, full.code, body)}
		}
		if (full.needA && hdrA == "") || (full.needL && hdrL == "") || (needM && hdrM == "") {
			return &vx.Verdict{Class: "flush-drops-header", Msg: fmt.Sprintf("%sthe response was committed by a Flush without a header the handler had set before: %s", pfx, hdrStr(rec.snap))}
		}
		return nil
	}
	switch {
	case st.panicked != nil:
		if !handlerPanicked {
			return vx.Verdict{Class: "unexpected-panic", Msg: fmt.Sprintf("%sServeHTTP panicked: %v", pfx, st.panicked)}
		}
		if hasRecover {
			return vx.Verdict{Class: "unexpected-panic", Msg: fmt.Sprintf("%sthe recover middleware sits inside the timeout middleware, yet ServeHTTP panicked: %v", pfx, st.panicked)}
		}
		// the value of a panic raised by the writer (invalid status code) is the writer's business
		byWriter := panicAt >= 0 && strings.IndexByte("ZYX", actAt(q, panicAt)) >= 0
		if !byWriter && fmt.Sprint(st.panicked) != "handler panic" {
			return vx.Verdict{Class: "panic-value-changed", Msg: fmt.Sprintf("%sre-raised %v", pfx, st.panicked)}
		}
		if !streamCommit {
			if rec.wrote {
				return vx.Verdict{Class: "mixture", Msg: fmt.Sprintf("%spanic re-raised, nothing flushed, but the client already received code=%d body=%q", pfx, rec.code, body)}
			}
			return vx.Verdict{Sig: "repanic"}
		}
		if v := unflushed(); v != nil {
			return *v
		}
		if v := checkStream(); v != nil {
			return *v
		}
		if body != streamed.String() {
			return vx.Verdict{Class: "mixture", Msg: fmt.Sprintf("%spanic re-raised after a flush of %q, but the client holds %q", pfx, streamed.String(), body)}
		}
		return vx.Verdict{Sig: "partial+repanic"}
	case emit >= 0:
		if !ctxEnded {
			return vx.Verdict{Class: "timeout-without-expiry", Msg: fmt.Sprintf("%stimeout response %d at virtual time %v although neither the deadline (%v) nor a cancel had happened", pfx, emitCode, st.elapsedRet, expDl.Sub(vsched.Epoch))}
		}
		if emitCode == 499 && !clientCancelled {
			return vx.Verdict{Class: "wrong-timeout-status", Msg: pfx + "499 without a client cancel"}
		}
		if !streamCommit {
			// all-or-nothing
			if rec.code == emitCode && body == timeoutBody && hdrA == "" && hdrL == "" && hdrM == "" {
				return vx.Verdict{Sig: fmt.Sprintf("timeout:%d%s", emitCode, touch)}
			}
			// a Flush in progress (it copies the handler's headers, then writes)?
			for idx, p := range issued {
				d, fin := done[idx]
				if o.tl[p].act == 'F' && p < emit && (!fin || d > emit) {
					return vx.Verdict{Class: "flush-races-timeout-result", Msg: fmt.Sprintf("%sa Flush was in progress while the wrapper emitted the timeout result: client saw code=%d headers=%s body=%q, neither the timeout response nor a streamed prefix", pfx, rec.code, hdrStr(rec.snap), body)}
				}
			}
			return vx.Verdict{Class: "mixture", Msg: fmt.Sprintf("%stimeout result %d emitted, nothing flushed before, but the client saw code=%d headers=%s body=%q", pfx, emitCode, rec.code, hdrStr(rec.snap), body)}
		}
		if v := unflushed(); v != nil {
			return *v
		}
		if v := checkStream(); v != nil {
			return *v
		}
		if body != streamed.String()+timeoutBody && body != streamed.String() {
			return vx.Verdict{Class: "mixture", Msg: fmt.Sprintf("%sflushed %q before the timeout; client holds %q, want the flushed part followed by at most the timeout body", pfx, streamed.String(), body)}
		}
		return vx.Verdict{Sig: "partial+timeout" + touch}
	default:
		// the wrapper took the handler's completion
		prePanic := panicAt >= 0 && panicAt < 100 // the handler died before it reached its ending
		if q.End == "stall" && !prePanic {
			return vx.Verdict{Class: "mixture", Msg: pfx + "complete-looking response although the handler had not finished"}
		}
		if handlerPanicked && !hasRecover {
			return vx.Verdict{Class: "panic-swallowed", Msg: pfx + "handler panicked but ServeHTTP returned normally"}
		}
		if q.End == "ctxwait" && !ctxEnded && !prePanic {
			return vx.Verdict{Class: "mixture", Msg: pfx + "handler waited for the context to end, yet ServeHTTP completed without any expiry or cancel"}
		}
		if streamCommit {
			if v := checkStream(); v != nil {
				return *v
			}
		}
		want := canon(strings.Join(full.chunks, ""))
		if !rec.wrote && want == "" && full.code == 200 && !full.needA && !full.needL && !needM {
			return vx.Verdict{Sig: "full-empty" + touch}
		}
		if rec.wrote && body == want && rec.code == full.code && (!full.needA || hdrA != "") && (!full.needL || hdrL != "") && (!needM || hdrM != "") {
			if streamCommit {
				return vx.Verdict{Sig: "full-streamed" + touch}
			}
			return vx.Verdict{Sig: "full" + touch}
		}
		if recovered {
			// the statement does not fix WHERE in the chain the recover middleware sits: had the wrapper
			// re-raised the panic (nothing written unless flushed before) and a recover middleware
			// OUTSIDE it answered 500 on the raw connection, that is all-or-nothing as well
			if !streamCommit && rec.wrote && rec.code == 500 && body == "" && hdrA == "" && hdrL == "" {
				return vx.Verdict{Sig: "repanic+recovered-outside"}
			}
			if streamCommit && body == streamed.String() {
				return vx.Verdict{Sig: "partial+repanic+recovered-outside"}
			}
		}
		return vx.Verdict{Class: "mixture", Msg: fmt.Sprintf("%shandler completed in time but the client saw code=%d headers=%s body=%q wrote=%v, want %d %q", pfx, rec.code, hdrStr(rec.snap), body, rec.wrote, full.code, want)}
	}
}

// flushScenarios: the bounded sub-family with Flush.
func flushScenarios(thorough bool) []vx.Scenario {
	var sc []vx.Scenario
	gen := func(alpha string, maxLen int) []string {
		var out []string
		var rec func(p string)
		rec = func(p string) {
			out = append(out, p)
			if len(p) == maxLen {
				return
			}
			for _, a := range alpha {
				rec(p + string(a))
			}
		}
		rec("")
		return out
	}
	preMax, stallPreMax := 3, 2
	lates := []string{"F", "WF", "HF", "CF"}
	if thorough {
		preMax, stallPreMax = 4, 3
		lates = nil
		for _, l := range gen("HCWF", 3) {
			if strings.HasSuffix(l, "F") {
				lates = append(lates, l)
			}
		}
	}
	for _, pre := range gen("HCWF", preMax) {
		hasF := strings.Contains(pre, "F")
		if hasF {
			for _, end := range []string{"ret", "panic", "stall", "ctxwait"} {
				sc = append(sc, flushScenario(fSpec{Reqs: []fReq{{Pre: pre, End: end}}}))
			}
		}
		if len(pre) <= stallPreMax || hasF {
			for _, end := range []string{"stall", "ctxwait"} {
				for _, l := range lates {
					if len(pre) > stallPreMax && (len(l) > 2 || (thorough && l != "F" && l != "WF")) {
						continue
					}
					sc = append(sc, flushScenario(fSpec{Reqs: []fReq{{Pre: pre, End: end, Late: l}}}))
				}
			}
		}
	}
	// client cancel (499) while a flushing handler runs
	for _, pre := range []string{"WF", "W", "CWF", "F"} {
		for _, end := range []string{"ret", "stall", "ctxwait"} {
			l := ""
			if end != "ret" {
				l = "WF"
			}
			if end == "ret" && !strings.Contains(pre, "F") {
				continue
			}
			sc = append(sc, flushScenario(fSpec{Reqs: []fReq{{Pre: pre, End: end, Late: l}}, Parent: "cancel-during"}))
		}
	}
	// two requests through one TimeoutHandler: the first times out with a late handler, the second completes
	// sequential: the second request is served after the first returned (4 threads at most: server,
	// late handler of the first, handler of the second); overlapping: a second server thread (5 threads),
	// explored one preemption shallower
	type fam struct {
		mode              string
		aPre, aLate, bPre []string
		aEnds             []string
		p, t              int
	}
	fams := []fam{
		{"seq", []string{"", "W", "WF"}, []string{"F", "WF"}, []string{"W", "WW", "WFW", "CW"}, []string{"stall"}, 2, 1},
		{"par", []string{"", "W"}, []string{"F"}, []string{"W", "WFW"}, []string{"stall"}, 2, 1},
	}
	if thorough {
		fams = []fam{
			{"seq", []string{"", "W", "WF", "C"}, []string{"F", "WF", "HF"}, []string{"W", "WW", "WFW", "CW", "F"}, []string{"stall"}, 3, 1},
			{"seq", []string{"", "W"}, []string{"F", "WF"}, []string{"W", "WFW"}, []string{"ctxwait"}, 3, 1},
			{"par", []string{"", "W"}, []string{"F", "WF"}, []string{"W", "WW", "WFW"}, []string{"stall"}, 3, 1},
		}
	}
	for _, f := range fams {
		for _, ae := range f.aEnds {
			for _, ap := range f.aPre {
				for _, al := range f.aLate {
					for _, bp := range f.bPre {
						sc = append(sc, flushScenario(fSpec{Mode: f.mode, P: f.p, T: f.t, Reqs: []fReq{{Pre: ap, End: ae, Late: al}, {Pre: bp, End: "ret"}}}))
					}
				}
			}
		}
	}
	return sc
}
