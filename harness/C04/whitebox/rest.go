//go:build verif

package rest

import (
	"net/http"
	"time"

	"github.com/zeromicro/go-zero/rest/router"
)

// VerifBindTimeoutRoute builds an engine with only the timeout middleware enabled, global
// timeout globalMs and one route GET /t with per-route timeout routeTimeout, binds it through the
// real bindRoutes and returns the router.
func VerifBindTimeoutRoute(globalMs int64, routeTimeout time.Duration, h http.HandlerFunc) (http.Handler, error) {
	var c RestConf
	c.Timeout = globalMs
	c.Middlewares.Timeout = true
	ng := newEngine(c)
	ng.addRoutes(featuredRoutes{
		timeout: routeTimeout,
		routes:  []Route{{Method: http.MethodGet, Path: "/t", Handler: h}},
	})
	rt := router.NewRouter()
	if err := ng.bindRoutes(rt); err != nil {
		return nil, err
	}
	return rt, nil
}

// VerifBindTimeoutRoutes is VerifBindTimeoutRoute for several route groups: group i holds the one
// route GET /t<i> with per-route timeout routeTimeouts[i]; groups are added in order, then bound
// through the real bindRoutes.
func VerifBindTimeoutRoutes(globalMs int64, routeTimeouts []time.Duration, hs []http.HandlerFunc) (http.Handler, error) {
	var c RestConf
	c.Timeout = globalMs
	c.Middlewares.Timeout = true
	ng := newEngine(c)
	for i, rt := range routeTimeouts {
		ng.addRoutes(featuredRoutes{
			timeout: rt,
			routes:  []Route{{Method: http.MethodGet, Path: "/t" + string(rune('0'+i)), Handler: hs[i]}},
		})
	}
	rt := router.NewRouter()
	if err := ng.bindRoutes(rt); err != nil {
		return nil, err
	}
	return rt, nil
}
