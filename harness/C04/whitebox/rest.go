//go:build verif

package rest

import (
	"net/http"
	"time"

	"github.com/zeromicro/go-zero/rest/router"
)

// VerifBindTimeoutRoute builds an engine with only the timeout middleware enabled, global
// timeout globalMs and one route GET /t with per-route timeout routeTimeout, binds it through the
// real bindRoutes and returns the router.
func VerifBindTimeoutRoute(globalMs int64, routeTimeout time.Duration, h http.HandlerFunc) (http.Handler, error) {
	var c RestConf
	c.Timeout = globalMs
	c.Middlewares.Timeout = true
	ng := newEngine(c)
	ng.addRoutes(featuredRoutes{
		timeout: routeTimeout,
		routes:  []Route{{Method: http.MethodGet, Path: "/t", Handler: h}},
	})
	rt := router.NewRouter()
	if err := ng.bindRoutes(rt); err != nil {
		return nil, err
	}
	return rt, nil
}

// VerifBindTimeoutRoutes is VerifBindTimeoutRoute for several route groups: group i holds the one
// route GET /t<i> with per-route timeout routeTimeouts[i]; groups are added in order, then bound
// through the real bindRoutes.
func VerifBindTimeoutRoutes(globalMs int64, routeTimeouts []time.Duration, hs []http.HandlerFunc) (http.Handler, error) {
	var c RestConf
	c.Timeout = globalMs
	c.Middlewares.Timeout = true
	ng := newEngine(c)
	for i, rt := range routeTimeouts {
		ng.addRoutes(featuredRoutes{
			timeout: rt,
			routes:  []Route{{Method: http.MethodGet, Path: "/t" + string(rune('0'+i)), Handler: hs[i]}},
		})
	}
	rt := router.NewRouter()
	if err := ng.bindRoutes(rt); err != nil {
		return nil, err
	}
	return rt, nil
}

// VerifBindChain builds an engine from the given configuration (the harness chooses which native
// middlewares are on), registers the user middlewares through the real engine.use, adds ONE route group
// holding GET <path> for every path (per-route timeout routeTimeout through the real WithTimeout option
// when > 0), binds it through the real bindRoutes (buildChainWithNativeMiddlewares, appendAuthHandler,
// convertMiddleware) onto a real router and returns the router. Construct only.
func VerifBindChain(c RestConf, routeTimeout time.Duration, paths []string, h http.HandlerFunc, mws ...Middleware) (http.Handler, error) {
	ng := newEngine(c)
	for _, mw := range mws {
		ng.use(mw)
	}
	fr := featuredRoutes{}
	for _, p := range paths {
		fr.routes = append(fr.routes, Route{Method: http.MethodGet, Path: p, Handler: h})
	}
	if routeTimeout > 0 {
		WithTimeout(routeTimeout)(&fr)
	}
	ng.addRoutes(fr)
	rt := router.NewRouter()
	if err := ng.bindRoutes(rt); err != nil {
		return nil, err
	}
	return rt, nil
}

// VerifGroup is one route group of VerifStartServer: GET Path, registered with WithTimeout(Timeout)
// when Timeout > 0 and with WithSSE() when SSE.
type VerifGroup struct {
	Path    string
	Timeout time.Duration
	SSE     bool
	Handler http.HandlerFunc
}

type verifAbortStart struct{}

// VerifStartServer assembles a Server the way NewServer does (minus RestConf.SetUp: no logging,
// metrics or tracing set-up), registers the groups IN THE GIVEN ORDER through the public
// Server.AddRoutes with the public RouteOptions, and then runs the real engine.start (bindRoutes,
// withTimeout, user options last) with one extra StartOption appended as the last user option: it
// captures the *http.Server that internal.start has configured and aborts start with a private panic
// before anything listens. The returned server is therefore exactly the value engine.start would
// have served with (Handler = the bound router, Read/WriteTimeout as derived by the engine).
func VerifStartServer(c RestConf, groups []VerifGroup) (svr *http.Server, err error) {
	s := &Server{
		ngin:   newEngine(c),
		router: router.NewRouter(),
	}
	for _, g := range groups {
		var opts []RouteOption
		if g.Timeout > 0 {
			opts = append(opts, WithTimeout(g.Timeout))
		}
		if g.SSE {
			opts = append(opts, WithSSE())
		}
		s.AddRoutes([]Route{{Method: http.MethodGet, Path: g.Path, Handler: g.Handler}}, opts...)
	}
	defer func() {
		if p := recover(); p != nil {
			if _, ok := p.(verifAbortStart); !ok {
				panic(p)
			}
		}
	}()
	err = s.ngin.start(s.router, func(sv *http.Server) {
		svr = sv
		panic(verifAbortStart{})
	})
	return
}
