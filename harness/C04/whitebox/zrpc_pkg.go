//go:build verif

package zrpc

import (
	"context"

	"github.com/zeromicro/go-zero/zrpc/internal"
	"google.golang.org/grpc"
)

// verifCollect stands for internal.Server: it only collects what NewServer's set-up functions add.
type verifCollect struct {
	unary []grpc.UnaryServerInterceptor
}

func (v *verifCollect) AddOptions(...grpc.ServerOption)                      {}
func (v *verifCollect) AddStreamInterceptors(...grpc.StreamServerInterceptor) {}
func (v *verifCollect) AddUnaryInterceptors(is ...grpc.UnaryServerInterceptor) {
	v.unary = append(v.unary, is...)
}
func (v *verifCollect) SetName(string)                {}
func (v *verifCollect) Start(internal.RegisterFn) error { return nil }

// VerifUnaryServerChain assembles the unary server interceptors exactly as NewServer does (the real
// setupUnaryInterceptors decides which ones and in which order; the harness keeps Stat, Breaker and the
// shedder off, so metrics may be nil) and chains them like grpc.ChainUnaryInterceptor does
// (server.go chainUnaryInterceptors / getChainUnaryHandler). Construct only: nothing listens.
func VerifUnaryServerChain(c RpcServerConf) grpc.UnaryServerInterceptor {
	v := &verifCollect{}
	setupUnaryInterceptors(v, c, nil)
	ints := v.unary
	if len(ints) == 0 {
		return func(ctx context.Context, req any, _ *grpc.UnaryServerInfo, handler grpc.UnaryHandler) (any, error) {
			return handler(ctx, req)
		}
	}
	return func(ctx context.Context, req any, info *grpc.UnaryServerInfo, handler grpc.UnaryHandler) (any, error) {
		return ints[0](ctx, req, info, verifChainHandler(ints, 0, info, handler))
	}
}

func verifChainHandler(ints []grpc.UnaryServerInterceptor, curr int, info *grpc.UnaryServerInfo, final grpc.UnaryHandler) grpc.UnaryHandler {
	if curr == len(ints)-1 {
		return final
	}
	return func(ctx context.Context, req any) (any, error) {
		return ints[curr+1](ctx, req, info, verifChainHandler(ints, curr+1, info, final))
	}
}
