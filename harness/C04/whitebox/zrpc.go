//go:build verif

// Package verifzrpc re-exports zrpc's internal timeout interceptors for the C04 harness
// (a package outside zrpc/ cannot import zrpc/internal/...).
package verifzrpc

import (
	"time"

	"github.com/zeromicro/go-zero/zrpc"
	"github.com/zeromicro/go-zero/zrpc/internal"
	"github.com/zeromicro/go-zero/zrpc/internal/clientinterceptors"
	"github.com/zeromicro/go-zero/zrpc/internal/serverinterceptors"
	"google.golang.org/grpc"
)

// ServerTimeoutInterceptor: default timeout plus one per-method timeout.
func ServerTimeoutInterceptor(def time.Duration, method string, methodTimeout time.Duration) grpc.UnaryServerInterceptor {
	return serverinterceptors.UnaryTimeoutInterceptor(def, serverinterceptors.MethodTimeoutConf{FullMethod: method, Timeout: methodTimeout})
}

func ClientTimeoutInterceptor(def time.Duration) grpc.UnaryClientInterceptor {
	return clientinterceptors.TimeoutInterceptor(def)
}

func WithCallTimeout(d time.Duration) grpc.CallOption { return clientinterceptors.WithCallTimeout(d) }

// ClientChain: the unary interceptor chain as the real client assembles it (see
// internal.VerifUnaryClientChain); all = every middleware on, timeoutOn switches Middlewares.Timeout.
func ClientChain(clientTimeout time.Duration, timeoutOn bool) grpc.UnaryClientInterceptor {
	return internal.VerifUnaryClientChain(internal.ClientMiddlewaresConf{Trace: true, Duration: true, Prometheus: true, Breaker: true, Timeout: timeoutOn}, clientTimeout)
}

func IdleConn() *grpc.ClientConn { return internal.VerifIdleConn() }

// MethodTimeout is one entry of RpcServerConf.MethodTimeouts.
type MethodTimeout struct {
	FullMethod string
	Timeout    time.Duration
}

// ServerChain: the unary server interceptor chain as zrpc.NewServer assembles it from an RpcServerConf
// with the given server-wide timeout (ms, 0 = none) and per-method table; Trace and Prometheus on,
// Recover as given, Stat / Breaker / shedder off (process-wide state on the real clock).
func ServerChain(timeoutMs int64, recoverOn bool, methods []MethodTimeout) grpc.UnaryServerInterceptor {
	var c zrpc.RpcServerConf
	c.Timeout = timeoutMs
	c.Middlewares.Trace = true
	c.Middlewares.Prometheus = true
	c.Middlewares.Recover = recoverOn
	for _, m := range methods {
		c.MethodTimeouts = append(c.MethodTimeouts, zrpc.MethodTimeoutConf{FullMethod: m.FullMethod, Timeout: m.Timeout})
	}
	return zrpc.VerifUnaryServerChain(c)
}
