//go:build verif

package internal

import (
	"context"
	"sync"
	"time"

	"google.golang.org/grpc"
	"google.golang.org/grpc/credentials/insecure"
)

// VerifUnaryClientChain assembles the unary client interceptor chain the way the real client does:
// zrpc.NewClient passes WithTimeout(conf.Timeout) only when conf.Timeout > 0, buildDialOptions folds the
// options into ClientOptions and hands buildUnaryInterceptors(cliOpts.Timeout)... to
// grpc.WithChainUnaryInterceptor. The slice is then chained exactly like grpc's
// chainUnaryClientInterceptors / getChainUnaryInvoker (clientconn.go): interceptor i receives an invoker
// that runs interceptor i+1, the last one receives the final invoker; an empty chain calls the invoker.
// Construct/read only: nothing is dialled.
func VerifUnaryClientChain(mw ClientMiddlewaresConf, timeout time.Duration) grpc.UnaryClientInterceptor {
	c := &client{middlewares: mw}
	var opts []ClientOption
	if timeout > 0 {
		opts = append(opts, WithTimeout(timeout))
	}
	var cliOpts ClientOptions
	for _, opt := range opts {
		opt(&cliOpts)
	}
	ints := c.buildUnaryInterceptors(cliOpts.Timeout)
	switch len(ints) {
	case 0:
		return func(ctx context.Context, method string, req, reply any, cc *grpc.ClientConn, invoker grpc.UnaryInvoker, opts ...grpc.CallOption) error {
			return invoker(ctx, method, req, reply, cc, opts...)
		}
	case 1:
		return ints[0]
	}
	return func(ctx context.Context, method string, req, reply any, cc *grpc.ClientConn, invoker grpc.UnaryInvoker, opts ...grpc.CallOption) error {
		return ints[0](ctx, method, req, reply, cc, verifChainInvoker(ints, 0, invoker), opts...)
	}
}

func verifChainInvoker(ints []grpc.UnaryClientInterceptor, curr int, final grpc.UnaryInvoker) grpc.UnaryInvoker {
	if curr == len(ints)-1 {
		return final
	}
	return func(ctx context.Context, method string, req, reply any, cc *grpc.ClientConn, opts ...grpc.CallOption) error {
		return ints[curr+1](ctx, method, req, reply, cc, verifChainInvoker(ints, curr+1, final), opts...)
	}
}

var (
	verifConnOnce sync.Once
	verifConn     *grpc.ClientConn
)

// VerifIdleConn returns a ClientConn that is never connected (grpc.NewClient stays idle until the
// first RPC): the breaker interceptor only reads its Target().
func VerifIdleConn() *grpc.ClientConn {
	verifConnOnce.Do(func() {
		cc, err := grpc.NewClient("passthrough:///verif-c04", grpc.WithTransportCredentials(insecure.NewCredentials()))
		if err != nil {
			panic(err)
		}
		verifConn = cc
	})
	return verifConn
}
